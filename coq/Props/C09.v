(** C09 — ONG issuance is interval-additive and totals exactly the ONG supply.
    Model: Model/Unbind.v (CalcUnbindOng, CalcGovernanceUnbindOng, GetOntHolderUnboundDeadline,
    GetGovUnboundDeadline in Go's uint32/uint64 arithmetic, panics explicit). The release tables,
    the interval, the supplies and the network switch with its deadlines are Gen/Unbind.v,
    regenerated from /repo on every run. [net] ranges over ALL network ids (the switch's cases and
    its default branch), offsets over all 32-bit values, balances over all naturals. *)
From Coq Require Import List NArith.
Import ListNotations.
From Ont Require Import Model.Unbind Proofs.Unbind.
Local Open Scope N_scope.

(** Holders: the release over [s,e) is the sum of the releases over [s,m) and [m,e) — as uint64
    values for every balance (the sum wraps exactly when the whole does), and as integers without
    any wrap for balances up to the ONT total supply. No panic, no fuel exhaustion. *)
Theorem c09_holder_additive : forall net b s m e, s <= m -> m <= e -> e < w32 ->
  exists x y z,
    calc_unbind_ong net b s m = Ok x /\ calc_unbind_ong net b m e = Ok y /\
    calc_unbind_ong net b s e = Ok z /\
    (x + y) mod w64 = z /\
    (b <= ont_total_supply -> x + y = z /\ z < w64).
Proof. exact holder_additive. Qed.
Print Assumptions c09_holder_additive.

(** Governance: the same, for every split point including the governance deadline itself;
    the values never wrap. *)
Theorem c09_gov_additive : forall net s m e, s <= m -> m <= e -> e < w32 ->
  exists x y z,
    calc_governance_unbind_ong net s m = Ok x /\ calc_governance_unbind_ong net m e = Ok y /\
    calc_governance_unbind_ong net s e = Ok z /\ x + y = z /\ z < w64.
Proof. exact gov_additive. Qed.
Print Assumptions c09_gov_additive.

(** Any number of consecutive claims (the history form of additivity): for every list of cut
    points s <= m1 <= ... <= mk <= e ([chain_ok]), the amounts of the k+1 consecutive calls, added
    as integers ([sum_claims]; [None] if a call panicked), are exactly the amount of the single call
    over [s,e) — no call panics and nothing wraps. *)
Theorem c09_holder_chain_additive : forall net b cuts s e,
  b <= ont_total_supply -> chain_ok s cuts e -> e < w32 ->
  exists z, calc_unbind_ong net b s e = Ok z /\
            sum_claims (calc_unbind_ong net b) s cuts e = Some z /\ z < w64.
Proof. exact holder_chain_additive. Qed.
Print Assumptions c09_holder_chain_additive.

Theorem c09_gov_chain_additive : forall net cuts s e,
  chain_ok s cuts e -> e < w32 ->
  exists z, calc_governance_unbind_ong net s e = Ok z /\
            sum_claims (calc_governance_unbind_ong net) s cuts e = Some z /\ z < w64.
Proof. exact gov_chain_additive. Qed.
Print Assumptions c09_gov_chain_additive.

(** Explicit per-second rates: both functions are balance (resp. ONT supply) times the sum of a
    rate function over the seconds of the interval, so the amount issued depends on the
    interval only, not on when it is cut. *)
Theorem c09_holder_rate_form : forall net b s e, s <= e -> e < w32 ->
  exists c, cfg_of_net net = Some c /\
    calc_unbind_ong net b s e = Ok ((b * rsum (rate_h c) s (e - s)) mod w64).
Proof. exact holder_rate_form. Qed.
Print Assumptions c09_holder_rate_form.

Theorem c09_gov_rate_form : forall net s e, s <= e -> e < w32 ->
  exists c, cfg_of_net net = Some c /\
    calc_governance_unbind_ong net s e = Ok (ont_total_supply * rsum (rate_g c) s (e - s)).
Proof. exact gov_rate_form. Qed.
Print Assumptions c09_gov_rate_form.

(** No uint32/uint64 wrap: for balances up to the ONT total supply the holder release is the
    integer balance * (Hh e - Hh s), below 2^64, for any offsets (also start >= end: 0). *)
Theorem c09_holder_no_wrap : forall net b s e, s < w32 -> e < w32 ->
  exists c, cfg_of_net net = Some c /\
    calc_unbind_ong net b s e = Ok ((b * (Hh c e - Hh c s)) mod w64) /\
    (b <= ont_total_supply ->
     calc_unbind_ong net b s e = Ok (b * (Hh c e - Hh c s)) /\ b * (Hh c e - Hh c s) < w64).
Proof. exact holder_closed_net. Qed.
Print Assumptions c09_holder_no_wrap.

Theorem c09_gov_no_wrap : forall net s e, s < w32 -> e < w32 ->
  exists c, cfg_of_net net = Some c /\
    calc_governance_unbind_ong net s e = Ok (ont_total_supply * (Hg c e - Hg c s)) /\
    ont_total_supply * (Hg c e - Hg c s) < w64.
Proof. exact gov_closed_net. Qed.
Print Assumptions c09_gov_no_wrap.

(** Totals: under every network id, the release to holders of the whole ONT supply plus the
    release to governance over any interval [0,e) that reaches past the governance deadline is
    exactly the ONG total supply. *)
Theorem c09_totals : forall net e, e < w32 ->
  exists c, cfg_of_net net = Some c /\
    (c_gd c < e ->
     exists x y, calc_unbind_ong net ont_total_supply 0 e = Ok x /\
                 calc_governance_unbind_ong net 0 e = Ok y /\ x + y = ong_total_supply).
Proof. exact totals. Qed.
Print Assumptions c09_totals.

(** GetGovUnboundDeadline never panics, and the hand-written mirror returns exactly what the
    linked function returned under every id the switch names and every probed default id. *)
Theorem c09_gov_deadline_defined : forall net, exists gd gap, get_gov_unbound_deadline net = Ok (gd, gap).
Proof. exact gov_deadline_never_panics. Qed.
Print Assumptions c09_gov_deadline_defined.

Theorem c09_gov_deadline_matches_code : forallb gov_deadline_agrees gov_deadline_probe_ids = true.
Proof. exact gov_deadline_model_matches_code. Qed.
Print Assumptions c09_gov_deadline_matches_code.

(** Non-vacuity: on the first network of the table (mainnet), splitting [0, deadline+1) exactly at
    the governance deadline (the old F3 witness) gives three non-zero amounts that add up, and the
    whole schedule is non-trivially shared between holders and governance. *)
Example c09_nonvacuous :
  match cfg_of_net 1 with
  | Some c =>
      let gd := c_gd c in
      match calc_governance_unbind_ong 1 0 gd, calc_governance_unbind_ong 1 gd (gd + 1),
            calc_governance_unbind_ong 1 0 (gd + 1), calc_unbind_ong 1 ont_total_supply 0 (gd + 1) with
      | Ok x, Ok y, Ok z, Ok h => 0 < x /\ 0 < y /\ x + y = z /\ 0 < h /\ h + z = ong_total_supply
      | _, _, _, _ => False
      end
  | None => False
  end.
Proof. vm_compute. repeat split; reflexivity. Qed.

(** Non-vacuity of the chain form: four consecutive claims of 1000 ONT on mainnet over
    [0, 40000000) cut at 1, 31536000 (one year) and 31536001 add up to the single claim, which is
    not zero. *)
Example c09_chain_nonvacuous :
  chain_ok 0 [1; 31536000; 31536001] 40000000 /\
  match sum_claims (calc_unbind_ong 1 1000) 0 [1; 31536000; 31536001] 40000000,
        calc_unbind_ong 1 1000 0 40000000 with
  | Some x, Ok z => x = z /\ 0 < z
  | _, _ => False
  end.
Proof. vm_compute. repeat split; try reflexivity; discriminate. Qed.
