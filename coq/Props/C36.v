(** C36 - Peer connection limits hold under concurrent connection attempts.

    "The number of established inbound connections never exceeds the inbound limit or the per-IP
     limit, and established outbound connections never exceed the outbound limit, whatever the
     interleaving of concurrent accepts, dials and closes."

    Model (Model/ConnCtrl.v): every mutex-protected method of ConnectController is one atomic
    step; an AcceptConnect / Connect call executes the section sequence EXTRACTED FROM THE SOURCE
    on this run (Gen/ConnCtrlProg.v: accept_prog, connect_prog, and the comparison operators of
    the three limit tests); a schedule is any list of events Spawn (a new call, any address, any
    remote id, any handshake/dial outcome) / Run i (next section of call i) / Close i. All
    theorems quantify over ALL configurations and ALL schedules (unbounded length and number of
    attempts). [trace rc cf sys_init sched] is the list of states after each event;
    rc = false is the code as it is.

    Result: the statement is FALSE of the code as it is (finding F13: the limit tests and savePeer
    are separate critical sections). What is proved instead:
      - c36_refuted, c36_*_exceeded: explicit schedules exceeding each of the three limits;
      - c36_overshoot_bound_partial: the recorded counts never exceed limit + k - 1 when at most
        k attempts of that direction are simultaneously between their first check and savePeer
        (tight: the witnesses reach it with k = 2);
      - c36_nonoverlap_partial: the full statement on every schedule outside the finding class
        (k = 1: attempts of one direction do not overlap in that window; closes and attempts of
        the other direction interleave freely);
      - c36_repaired_variant: the full statement on every schedule when savePeer re-checks
        "not yet recorded / not full / per-IP not full" under its own lock (the smallest repair).
      - c36_check_refuses_at_limit, c36_started_at_limit_never_recorded, c36_at_limit_no_growth:
        in every reachable state an attempt whose check runs at count >= limit is refused and never
        recorded, and while the count stays >= limit it cannot exceed its value plus the attempts
        that had already passed the check (the overshoot is bounded by what was in flight and heals).
    Missing for the full statement: nothing provable - it is refuted. *)
From Coq Require Import List NArith Arith.
Import ListNotations.
From Ont Require Import Model.ConnCtrl Proofs.C36.
Local Open Scope N_scope.

(** The full statement (recorded entries, per-IP entries and established connections, all
    within their limits after every event of every schedule) - for the code as it is. *)
Definition c36_statement : Prop :=
  forall (cf : cfg) (sched : list ev), Forall (limits_hold cf) (trace false cf sys_init sched).

Theorem c36_refuted : ~ c36_statement.
Proof. exact statement_refuted. Qed.
Print Assumptions c36_refuted.

(** The three limits, each exceeded by an explicit schedule (written out in Proofs/C36.v,
    replayed on the real controller by the driver on every run). *)
Theorem c36_inbound_limit_exceeded :
  max_in w_cfg_in < recorded (run false w_cfg_in w_sched_in) Inbound /\
  max_in w_cfg_in < live_count (run false w_cfg_in w_sched_in) Inbound.
Proof. exact witness_in. Qed.
Print Assumptions c36_inbound_limit_exceeded.

Theorem c36_per_ip_limit_exceeded :
  max_per_ip w_cfg_ip < recorded_ip (run false w_cfg_ip w_sched_ip) 1 /\
  max_per_ip w_cfg_ip < live_count_ip (run false w_cfg_ip w_sched_ip) 1.
Proof. exact witness_ip. Qed.
Print Assumptions c36_per_ip_limit_exceeded.

Theorem c36_outbound_limit_exceeded :
  max_out w_cfg_out < recorded (run false w_cfg_out w_sched_out) Outbound /\
  max_out w_cfg_out < live_count (run false w_cfg_out w_sched_out) Outbound.
Proof. exact witness_out. Qed.
Print Assumptions c36_outbound_limit_exceeded.

(** PARTIAL (quantitative). For every configuration, every schedule, every k >= 1: if at most k
    attempts of direction d are ever simultaneously inside their window (some check section
    executed, savePeer not yet executed, not failed), then InboundsCount/OutboundsCount never
    exceeds limit + k - 1, and the per-IP inbound count never exceeds MaxConnInBoundPerIP + k - 1.
    Holds for the code as it is and for the repaired variant (any rc). *)
Theorem c36_overshoot_bound_partial : forall (rc : bool) (cf : cfg) (sched : list ev) (k : nat), (1 <= k)%nat ->
  (forall d, Forall (fun s => (window_count s d <= k)%nat) (trace rc cf sys_init sched) ->
             Forall (fun s => recorded s d + 1 <= limit_of cf d + N.of_nat k) (trace rc cf sys_init sched)) /\
  (Forall (fun s => (window_count s Inbound <= k)%nat) (trace rc cf sys_init sched) ->
   forall ip, Forall (fun s => recorded_ip s ip + 1 <= max_per_ip cf + N.of_nat k) (trace rc cf sys_init sched)).
Proof.
  intros rc cf sched k Hk; split.
  - intros d; exact (overshoot_total rc cf sched d k Hk).
  - intros HW ip; exact (overshoot_per_ip rc cf sched ip k Hk HW).
Qed.
Print Assumptions c36_overshoot_bound_partial.

(** PARTIAL (the statement outside the finding class). For every configuration and every schedule
    in which no two attempts of the same direction are inside their windows at the same time,
    all six counts are within their limits after every event. *)
Theorem c36_nonoverlap_partial : forall (cf : cfg) (sched : list ev),
  Forall (fun s => (window_count s Inbound <= 1)%nat /\ (window_count s Outbound <= 1)%nat)
         (trace false cf sys_init sched) ->
  Forall (limits_hold cf) (trace false cf sys_init sched).
Proof. exact nonoverlap_limits. Qed.
Print Assumptions c36_nonoverlap_partial.

(** The full statement for the repaired variant (savePeer re-validates under its lock). *)
Theorem c36_repaired_variant : forall (cf : cfg) (sched : list ev),
  Forall (limits_hold cf) (trace true cf sys_init sched).
Proof. exact repaired_limits. Qed.
Print Assumptions c36_repaired_variant.

(** OUTSIDE the finding class: what the pre-handshake check guarantees in EVERY reachable state,
    whatever happened before (including an overshoot produced by overlapping attempts).

    (a) the check sections refuse whenever the count they read is at or over the limit; *)
Theorem c36_check_refuses_at_limit : forall (rc : bool) (cf : cfg) (c : ctrl) (t : thread),
  (limit_of cf (t_dir t) <= bounds_count c (t_dir t) -> exec_op rc cf c t OpFull = (c, Some EBoundFull, None)) /\
  (max_per_ip cf <= inbound_count_with_ip c (fst (t_addr t)) -> exec_op rc cf c t OpIpCount = (c, Some EIpFull, None)).
Proof. intros; split; [apply full_check_refuses | apply ip_check_refuses]. Qed.
Print Assumptions c36_check_refuses_at_limit.

(** (b) for every reachable state s (after any schedule sched1) and every attempt i about to run
    isBoundFull (resp. the per-IP test) while the recorded count of its direction (resp. of its
    IP) is >= the limit: the step changes neither the controller nor the established
    connections, the attempt is Failed EBoundFull/EIpFull after it and after every later event
    of every continuation sched2 - and a failed call never records anything (second theorem). *)
Theorem c36_started_at_limit_never_recorded : forall (rc : bool) (cf : cfg) (sched1 sched2 : list ev) (i : nat) (t : thread),
  let s := run rc cf sched1 in
  nth_error (s_threads s) i = Some t -> t_out t = Pending ->
  (   (nth_error (prog_of (t_dir t)) (t_pc t) = Some (IOp OpFull) /\ limit_of cf (t_dir t) <= recorded s (t_dir t))
   \/ (nth_error (prog_of (t_dir t)) (t_pc t) = Some (IOp OpIpCount) /\ max_per_ip cf <= recorded_ip s (fst (t_addr t)))) ->
  Forall (fun s' => exists t' e, nth_error (s_threads s') i = Some t' /\ t_out t' = Failed e
                                 /\ (e = EBoundFull \/ e = EIpFull))
         (trace rc cf s (Run i :: sched2))
  /\ s_ctrl (step rc cf s (Run i)) = s_ctrl s /\ s_live (step rc cf s (Run i)) = s_live s.
Proof. exact started_at_limit_never_recorded. Qed.
Print Assumptions c36_started_at_limit_never_recorded.

Theorem c36_failed_call_records_nothing : forall (rc : bool) (cf : cfg) (c : ctrl) (t : thread) c' t' k,
  t_out t <> Pending -> defer_wf t -> run_thread rc cf c t = (c', t', k) ->
  k = None /\ (forall d, bound c' d = bound c d).
Proof. exact not_pending_records_nothing. Qed.
Print Assumptions c36_failed_call_records_nothing.

(** (c) the overshoot heals and cannot grow: from any reachable state s whose recorded count is at
    or over the limit, for as long as it stays so, the count never exceeds its value at s plus the
    attempts that had ALREADY passed the check at s (past_full / past_ipcheck: pending, check
    executed, savePeer ahead). With s the state in which the last slot was taken:
    count <= limit + in-flight-at-that-time. Over all interleavings, any continuation. *)
Theorem c36_at_limit_no_growth : forall (rc : bool) (cf : cfg) (sched1 sched2 : list ev),
  let s := run rc cf sched1 in
  (forall d, limit_of cf d <= recorded s d ->
     Forall (fun s' => limit_of cf d <= recorded s' d) (trace rc cf s sched2) ->
     Forall (fun s' => recorded s' d <= recorded s d + past_full s d) (trace rc cf s sched2)) /\
  (forall ip, max_per_ip cf <= recorded_ip s ip ->
     Forall (fun s' => max_per_ip cf <= recorded_ip s' ip) (trace rc cf s sched2) ->
     Forall (fun s' => recorded_ip s' ip <= recorded_ip s ip + past_ipcheck s ip) (trace rc cf s sched2)).
Proof.
  intros rc cf sched1 sched2 s; split.
  - intros d; exact (at_limit_no_growth rc cf sched1 sched2 d).
  - intros ip; exact (at_limit_no_growth_ip rc cf sched1 sched2 ip).
Qed.
Print Assumptions c36_at_limit_no_growth.

(** non-vacuity of (a)-(c): the inbound witness leaves 2 recorded with limit 1; three further
    sequential attempts (IPv4, same host as a recorded one, IPv6) are all refused at isBoundFull
    and the counts stay at 2. *)
Example c36_over_limit_nonvacuous :
  recorded (run false w_cfg_in w_sched_in) Inbound = 2 /\
  map t_out (s_threads (run false w_cfg_in ov_sched)) = [Done; Done; Failed EBoundFull; Failed EBoundFull; Failed EBoundFull] /\
  recorded (run false w_cfg_in ov_sched) Inbound = 2 /\ live_count (run false w_cfg_in ov_sched) Inbound = 2.
Proof. exact ov_facts. Qed.

(** The connecting set (the only thing that keeps two simultaneous dials to one address apart:
    the outbound record is written after the handshake). In EVERY reachable state: the set has no
    duplicates, an address is in it exactly when some attempt holds it (tryAddConnecting executed
    successfully, its deferred removeConnecting not yet executed), and no two attempts hold the
    same address - mutual exclusion per address, over all interleavings. The proof needs the
    shape regenerated from the source: removeConnecting is deferred only AFTER a successful
    tryAddConnecting (c36_connecting_shape). *)
Theorem c36_connecting_mutual_exclusion : forall (rc : bool) (cf : cfg) (sched : list ev),
  let s := run rc cf sched in
  NoDup (c_connecting (s_ctrl s)) /\
  (forall a, In a (c_connecting (s_ctrl s)) <->
             exists i t, nth_error (s_threads s) i = Some t /\ holds t = true /\ t_addr t = a) /\
  (forall i j ti tj, nth_error (s_threads s) i = Some ti -> nth_error (s_threads s) j = Some tj ->
                     holds ti = true -> holds tj = true -> t_addr ti = t_addr tj -> i = j).
Proof.
  intros rc cf sched s. destruct (kinv_reachable rc cf sched) as (A & B & C & _). auto.
Qed.
Print Assumptions c36_connecting_mutual_exclusion.

(** A Connect refused by tryAddConnecting ("node exist in connecting list") changes nothing - not
    the connecting set, not the records, not the established connections - and has nothing left
    to run (no deferred removeConnecting): in every reachable state. *)
Theorem c36_refused_connect_changes_nothing : forall (rc : bool) (cf : cfg) (sched : list ev) (i : nat) (t : thread),
  let s := run rc cf sched in
  nth_error (s_threads s) i = Some t -> t_out t = Pending ->
  nth_error (prog_of (t_dir t)) (t_pc t) = Some (IOp OpTryConnecting) ->
  amem (t_addr t) (c_connecting (s_ctrl s)) = true ->
  exists t', nth_error (s_threads (step rc cf s (Run i))) i = Some t' /\ t_out t' = Failed EConnecting
             /\ t_defer t' = [] /\ finished t' = true
             /\ s_ctrl (step rc cf s (Run i)) = s_ctrl s /\ s_live (step rc cf s (Run i)) = s_live s.
Proof. exact refused_connect_changes_nothing. Qed.
Print Assumptions c36_refused_connect_changes_nothing.

Theorem c36_connecting_shape : forall d, connecting_shape_ok (prog_of d) = true.
Proof. exact prog_connecting_shape. Qed.
Print Assumptions c36_connecting_shape.

(** The theorems above are about the program and comparison operators found in the source now. *)
Theorem c36_program_shape : forall d,
  save_positions_ok OpFull (prog_of d) = true /\ save_positions_ok OpHasBound (prog_of d) = true /\
  save_positions_ok OpIpCount (prog_of Inbound) = true /\ defers_ok (prog_of d) = true.
Proof.
  intros d. split; [apply prog_full_before_save|]. split; [apply prog_hasbound_before_save|].
  split; [apply prog_ipcount_before_save | apply prog_defers].
Qed.
Print Assumptions c36_program_shape.

(** Non-vacuity: a schedule of three sequential inbound attempts, one outbound attempt and a
    close satisfies the hypothesis of c36_nonoverlap_partial, fills MaxConnInBound = 2 exactly and
    has the third attempt refused; so the conclusion is used at the boundary. *)
Example c36_nonvacuous :
  Forall (fun s => (window_count s Inbound <= 1)%nat /\ (window_count s Outbound <= 1)%nat)
         (trace false nv_cfg sys_init nv_sched) /\
  Forall (limits_hold nv_cfg) (trace false nv_cfg sys_init nv_sched) /\
  recorded (run false nv_cfg (firstn 30 nv_sched)) Inbound = max_in nv_cfg /\
  map t_out (s_threads (run false nv_cfg nv_sched)) = [Done; Done; Failed EBoundFull; Done].
Proof.
  split; [exact nv_nonoverlap|]. split; [exact (c36_nonoverlap_partial _ _ nv_nonoverlap)|].
  destruct nv_facts as [[H1 _] [H2 _]]; auto.
Qed.
