(** C36 - Peer connection limits hold under concurrent connection attempts.

    "The number of established inbound connections never exceeds the inbound limit or the per-IP
     limit, and established outbound connections never exceed the outbound limit, whatever the
     interleaving of concurrent accepts, dials and closes."

    Model (Model/ConnCtrl.v): every mutex-protected method of ConnectController is one atomic
    step; an AcceptConnect / Connect call executes the section sequence EXTRACTED FROM THE SOURCE
    on this run (Gen/ConnCtrlProg.v: accept_prog, connect_prog, and the comparison operators of
    the three limit tests); a schedule is any list of events Spawn (a new call, any address, any
    remote id, any handshake/dial outcome) / Run i (next section of call i) / Close i. All
    theorems quantify over ALL configurations and ALL schedules (unbounded length and number of
    attempts). [trace rc cf sys_init sched] is the list of states after each event;
    rc = false is the code as it is.

    Result: the statement is FALSE of the code as it is (finding F13: the limit tests and savePeer
    are separate critical sections). What is proved instead:
      - c36_refuted, c36_*_exceeded: explicit schedules exceeding each of the three limits;
      - c36_overshoot_bound_partial: the recorded counts never exceed limit + k - 1 when at most
        k attempts of that direction are simultaneously between their first check and savePeer
        (tight: the witnesses reach it with k = 2);
      - c36_nonoverlap_partial: the full statement on every schedule outside the finding class
        (k = 1: attempts of one direction do not overlap in that window; closes and attempts of
        the other direction interleave freely);
      - c36_repaired_variant: the full statement on every schedule when savePeer re-checks
        "not yet recorded / not full / per-IP not full" under its own lock (the smallest repair).
    Missing for the full statement: nothing provable - it is refuted. *)
From Coq Require Import List NArith Arith.
Import ListNotations.
From Ont Require Import Model.ConnCtrl Proofs.C36.
Local Open Scope N_scope.

(** The full statement (recorded entries, per-IP entries and established connections, all
    within their limits after every event of every schedule) - for the code as it is. *)
Definition c36_statement : Prop :=
  forall (cf : cfg) (sched : list ev), Forall (limits_hold cf) (trace false cf sys_init sched).

Theorem c36_refuted : ~ c36_statement.
Proof. exact statement_refuted. Qed.
Print Assumptions c36_refuted.

(** The three limits, each exceeded by an explicit schedule (written out in Proofs/C36.v,
    replayed on the real controller by the driver on every run). *)
Theorem c36_inbound_limit_exceeded :
  max_in w_cfg_in < recorded (run false w_cfg_in w_sched_in) Inbound /\
  max_in w_cfg_in < live_count (run false w_cfg_in w_sched_in) Inbound.
Proof. exact witness_in. Qed.
Print Assumptions c36_inbound_limit_exceeded.

Theorem c36_per_ip_limit_exceeded :
  max_per_ip w_cfg_ip < recorded_ip (run false w_cfg_ip w_sched_ip) 1 /\
  max_per_ip w_cfg_ip < live_count_ip (run false w_cfg_ip w_sched_ip) 1.
Proof. exact witness_ip. Qed.
Print Assumptions c36_per_ip_limit_exceeded.

Theorem c36_outbound_limit_exceeded :
  max_out w_cfg_out < recorded (run false w_cfg_out w_sched_out) Outbound /\
  max_out w_cfg_out < live_count (run false w_cfg_out w_sched_out) Outbound.
Proof. exact witness_out. Qed.
Print Assumptions c36_outbound_limit_exceeded.

(** PARTIAL (quantitative). For every configuration, every schedule, every k >= 1: if at most k
    attempts of direction d are ever simultaneously inside their window (some check section
    executed, savePeer not yet executed, not failed), then InboundsCount/OutboundsCount never
    exceeds limit + k - 1, and the per-IP inbound count never exceeds MaxConnInBoundPerIP + k - 1.
    Holds for the code as it is and for the repaired variant (any rc). *)
Theorem c36_overshoot_bound_partial : forall (rc : bool) (cf : cfg) (sched : list ev) (k : nat), (1 <= k)%nat ->
  (forall d, Forall (fun s => (window_count s d <= k)%nat) (trace rc cf sys_init sched) ->
             Forall (fun s => recorded s d + 1 <= limit_of cf d + N.of_nat k) (trace rc cf sys_init sched)) /\
  (Forall (fun s => (window_count s Inbound <= k)%nat) (trace rc cf sys_init sched) ->
   forall ip, Forall (fun s => recorded_ip s ip + 1 <= max_per_ip cf + N.of_nat k) (trace rc cf sys_init sched)).
Proof.
  intros rc cf sched k Hk; split.
  - intros d; exact (overshoot_total rc cf sched d k Hk).
  - intros HW ip; exact (overshoot_per_ip rc cf sched ip k Hk HW).
Qed.
Print Assumptions c36_overshoot_bound_partial.

(** PARTIAL (the statement outside the finding class). For every configuration and every schedule
    in which no two attempts of the same direction are inside their windows at the same time,
    all six counts are within their limits after every event. *)
Theorem c36_nonoverlap_partial : forall (cf : cfg) (sched : list ev),
  Forall (fun s => (window_count s Inbound <= 1)%nat /\ (window_count s Outbound <= 1)%nat)
         (trace false cf sys_init sched) ->
  Forall (limits_hold cf) (trace false cf sys_init sched).
Proof. exact nonoverlap_limits. Qed.
Print Assumptions c36_nonoverlap_partial.

(** The full statement for the repaired variant (savePeer re-validates under its lock). *)
Theorem c36_repaired_variant : forall (cf : cfg) (sched : list ev),
  Forall (limits_hold cf) (trace true cf sys_init sched).
Proof. exact repaired_limits. Qed.
Print Assumptions c36_repaired_variant.

(** The theorems above are about the program and comparison operators found in the source now. *)
Theorem c36_program_shape : forall d,
  save_positions_ok OpFull (prog_of d) = true /\ save_positions_ok OpHasBound (prog_of d) = true /\
  save_positions_ok OpIpCount (prog_of Inbound) = true /\ defers_ok (prog_of d) = true.
Proof.
  intros d. split; [apply prog_full_before_save|]. split; [apply prog_hasbound_before_save|].
  split; [apply prog_ipcount_before_save | apply prog_defers].
Qed.
Print Assumptions c36_program_shape.

(** Non-vacuity: a schedule of three sequential inbound attempts, one outbound attempt and a
    close satisfies the hypothesis of c36_nonoverlap_partial, fills MaxConnInBound = 2 exactly and
    has the third attempt refused; so the conclusion is used at the boundary. *)
Example c36_nonvacuous :
  Forall (fun s => (window_count s Inbound <= 1)%nat /\ (window_count s Outbound <= 1)%nat)
         (trace false nv_cfg sys_init nv_sched) /\
  Forall (limits_hold nv_cfg) (trace false nv_cfg sys_init nv_sched) /\
  recorded (run false nv_cfg (firstn 30 nv_sched)) Inbound = max_in nv_cfg /\
  map t_out (s_threads (run false nv_cfg nv_sched)) = [Done; Done; Failed EBoundFull; Done].
Proof.
  split; [exact nv_nonoverlap|]. split; [exact (c36_nonoverlap_partial _ _ nv_nonoverlap)|].
  destruct nv_facts as [[H1 _] [H2 _]]; auto.
Qed.
