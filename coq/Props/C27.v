(** C27 — Cross-chain merkle paths prove exactly the included values.

    "A path generated for a value in a list of state hashes proves that value against the list's
     root, and no path proves, against that root, a value whose leaf hash is not in the list."

    Model: Model/MerklePath.v (MerkleLeafPath, MerkleProve, MerkleHashes, depth, HashLeaf,
    HashChildren, HashFullTreeWithLeafHash).  The hash function [H] is universally quantified with
    one premise, its digest length; [c27_sha256_*] instantiate it with the executable SHA-256 of
    Lib/Sha256.v, leaving no premise.  Collision freedom is never assumed: soundness returns the
    collision pair as data.  The prefix bytes 0x00/0x01, LEFT/RIGHT, MAX_SIZE, the size formula
    and the loop-count formula are regenerated from the source (Gen/MerklePath*.v).

    Two roots appear: [path_root] (level 0 of MerkleHashes, what MerkleLeafPath climbs to) and
    [rfc_root] (TreeHasher.HashFullTreeWithLeafHash, what the ledger stores as CrossStatesRoot
    and foreign headers carry as CrossStateRoot).  [c27_pairwise_eq_rfc] identifies them; the
    statements below are given against [rfc_root]. *)
From Coq Require Import List Bool NArith ZArith.
Import ListNotations.
From Ont Require Import Lib.Bytes Lib.Sha256 Gen.CodecConsts Gen.MerklePathConsts Gen.MerklePathFormulas
  Model.Codec Model.MerklePath Proofs.MerklePath Proofs.MerklePathDepth.

Definition digest_len (H : bytes -> bytes) : Prop := forall x, length (H x) = MP_HASH_SIZE.

(** The level-by-level tree has the RFC-6962 root, for every hash function and every non-empty list. *)
Theorem c27_pairwise_eq_rfc : forall (H : bytes -> bytes) (hs : list bytes),
  hs <> [] -> path_root H hs = rfc_root H hs.
Proof. exact pairwise_eq_rfc. Qed.
Print Assumptions c27_pairwise_eq_rfc.

(** The float [depth] of the code is the integer ceil-log2 for all 1 <= n <= 2^16 (complete
    sweep), which covers every list MerkleLeafPath accepts (n <= 31775 by its size check) ... *)
Theorem c27_depth_f64_eq_int : forall n : nat,
  (1 <= N.of_nat n <= 65536)%N -> depth_f64 n = Some (depth_int n).
Proof. exact depth_f64_eq_int. Qed.
Print Assumptions c27_depth_f64_eq_int.

(** ... so MerkleLeafPath as written (float depth) is MerkleLeafPath with the integer depth. *)
Theorem c27_leaf_path_f64_eq : forall H data hs,
  merkle_leaf_path_f64 H data hs = merkle_leaf_path H data hs.
Proof. exact leaf_path_f64_eq. Qed.
Print Assumptions c27_leaf_path_f64_eq.

(** PART 1 (completeness).  Whatever MerkleLeafPath returns for [data] and a list of 32-byte
    hashes is accepted by MerkleProve against the list's root and yields [data]; up to 16
    trailing bytes after the path are ignored by the parser. *)
Theorem c27_path_complete : forall H, digest_len H ->
  forall (data : bytes) (hs : list bytes) (p t : bytes),
  Forall len32 hs -> merkle_leaf_path H data hs = inr p -> (length t <= 16)%nat ->
  merkle_prove H (p ++ t) (rfc_root H hs) = inr data.
Proof.
  intros H HL data hs p t F E Ht.
  rewrite <- pairwise_eq_rfc.
  - exact (path_complete H HL data hs p t F E Ht).
  - intros ->. unfold merkle_leaf_path, merkle_leaf_path_gen in E. destruct (_ <? _)%Z in E; discriminate E.
Qed.
Print Assumptions c27_path_complete.

(** ... and a path is returned for every member within the size bound: never an error, never a
    panic (index out of range) for any input. *)
Theorem c27_path_generated : forall H, digest_len H -> forall (data : bytes) (hs : list bytes),
  In (hash_leaf H data) hs ->
  (leaf_path_size (Z.of_nat (length hs)) (Z.of_nat (length data)) (Z.of_nat UINT256_SIZE) <= MP_MAX_SIZE)%Z ->
  exists p, merkle_leaf_path H data hs = inr p.
Proof. exact path_generated. Qed.
Print Assumptions c27_path_generated.

Theorem c27_leaf_path_no_panic : forall H, digest_len H -> forall data hs,
  merkle_leaf_path H data hs <> inl EPanic /\
  (merkle_leaf_path H data hs = inl ENotFound -> ~ In (hash_leaf H data) hs).
Proof. intros H HL data hs. split; [apply leaf_path_no_panic, HL|apply leaf_path_not_found, HL]. Qed.
Print Assumptions c27_leaf_path_no_panic.

(** PART 2 (soundness), general form.  If any byte string [p] is accepted against the root of a
    non-empty list of 32-byte strings and yields [v], then one of the following is produced as
    data ([witness] is in [Type]): membership of [HashLeaf v]; two different byte strings with
    equal hashes (the leaf/inner confusion pair [0x00::v] vs [0x01::l++r] is one case — this is
    where the domain separation is used); or an element of the list that is the HashChildren of
    two 32-byte strings. *)
Theorem c27_prove_sound : forall H, digest_len H -> forall (hs : list bytes) (p v : bytes),
  hs <> [] -> Forall len32 hs -> merkle_prove H p (rfc_root H hs) = inr v -> witness H hs v.
Proof. exact prove_sound_rfc. Qed.
Print Assumptions c27_prove_sound.

(** PART 2 for lists of leaf hashes — what the chain builds: PushCrossState appends
    [HashLeaf(data)] and nothing else.  An accepted path yields membership or an explicit
    collision pair. *)
Theorem c27_prove_sound_leaves : forall H, digest_len H -> forall (xs : list bytes) (p v : bytes),
  xs <> [] -> merkle_prove H p (rfc_root H (map (hash_leaf H) xs)) = inr v ->
  (In (hash_leaf H v) (map (hash_leaf H) xs)) + collision H.
Proof. exact prove_sound_leaves_rfc. Qed.
Print Assumptions c27_prove_sound_leaves.

(** The same in [Prop] form. *)
Theorem c27_prove_sound_leaves_prop : forall H, digest_len H -> forall (xs : list bytes) (p v : bytes),
  xs <> [] -> merkle_prove H p (rfc_root H (map (hash_leaf H) xs)) = inr v ->
  In (hash_leaf H v) (map (hash_leaf H) xs) \/ exists x y, x <> y /\ H x = H y.
Proof.
  intros H HL xs p v Hne E. destruct (prove_sound_leaves_rfc H HL xs p v Hne E) as [M|[[x y] [N Q]]].
  - left. exact M.
  - right. exists x, y. split; assumption.
Qed.
Print Assumptions c27_prove_sound_leaves_prop.

(** The leaf-hash premise cannot be dropped (not a defect of the chain, which only ever inserts
    leaf hashes, but a precondition of the library functions): if an element of the list is an
    inner-node hash, a path proves a value whose leaf hash is a *child* of that element. *)
Theorem c27_node_as_leaf_accepts : forall H, digest_len H -> forall (v sib : bytes),
  len32 sib -> (N.of_nat (length v) < 4294967296)%N ->
  merkle_prove H (write_varbytes v ++ MP_RIGHT :: sib)
               (path_root H [hash_children H (hash_leaf H v) sib]) = inr v.
Proof. exact node_as_leaf_accepts. Qed.
Print Assumptions c27_node_as_leaf_accepts.

(** PARSER.  (a) An accepted path begins with the canonical encoding of the value it yields
    (non-minimal length prefixes and truncated values are rejected). *)
Theorem c27_prove_value_prefix : forall H, digest_len H -> forall p root v : bytes,
  wf_bytes p = true -> (N.of_nat (length p) < two64)%N ->
  merkle_prove H p root = inr v -> exists rest, p = write_varbytes v ++ rest.
Proof. exact prove_value_prefix. Qed.
Print Assumptions c27_prove_value_prefix.

(** (b) With [k] 33-byte steps and [t] trailing bytes, [k + |t| < 32], the verdict depends only on
    the value and the steps: the trailing bytes are ignored (the loop count is [remaining/32]). *)
Theorem c27_prove_eval : forall H, digest_len H -> forall (data : bytes) (steps : list step) (t root : bytes),
  steps_ok steps -> (length steps + length t < 32)%nat ->
  (N.of_nat (length (write_varbytes data ++ encode steps ++ t)) < two64)%N ->
  merkle_prove H (write_varbytes data ++ encode steps ++ t) root =
  if bytes_eqb (climb H (hash_leaf H data) steps) root then inr data else inl ERootMismatch.
Proof. exact prove_eval. Qed.
Print Assumptions c27_prove_eval.

(** (c) A path of 32 or more steps is rejected whatever the root: [remaining/32] then exceeds
    the number of 33-byte steps.  (Lists accepted by MerkleLeafPath have depth <= 15.) *)
Theorem c27_prove_rejects_long : forall H, digest_len H -> forall (data : bytes) (steps : list step) (root : bytes),
  steps_ok steps -> (32 <= length steps)%nat ->
  (N.of_nat (length (write_varbytes data ++ encode steps)) < two64)%N ->
  merkle_prove H (write_varbytes data ++ encode steps) root = inl EReadByte.
Proof. exact prove_long. Qed.
Print Assumptions c27_prove_rejects_long.

(** END TO END with the code's own depth function and SHA-256: no premise on the hash is left. *)
Lemma sha256_digest_len : digest_len sha256.
Proof. intro x. apply sha256_length. Qed.

Theorem c27_sha256_path_complete : forall (xs : list bytes) (data p : bytes),
  merkle_leaf_path_f64 sha256 data (map (hash_leaf sha256) xs) = inr p ->
  merkle_prove sha256 p (rfc_root sha256 (map (hash_leaf sha256) xs)) = inr data.
Proof.
  intros xs data p E. rewrite leaf_path_f64_eq in E.
  rewrite <- (app_nil_r p).
  apply (c27_path_complete sha256 sha256_digest_len data _ p []); [|exact E|simpl; auto with arith].
  apply Forall_forall. intros h I. apply in_map_iff in I. destruct I as [x [<- _]]. apply sha256_length.
Qed.
Print Assumptions c27_sha256_path_complete.

Theorem c27_sha256_prove_sound : forall (xs : list bytes) (p v : bytes),
  xs <> [] -> merkle_prove sha256 p (rfc_root sha256 (map (hash_leaf sha256) xs)) = inr v ->
  In (hash_leaf sha256 v) (map (hash_leaf sha256) xs) \/ exists x y, x <> y /\ sha256 x = sha256 y.
Proof. exact (c27_prove_sound_leaves_prop sha256 sha256_digest_len). Qed.
Print Assumptions c27_sha256_prove_sound.

(** Non-vacuity: a concrete three-element list (odd level: the third leaf is promoted), the path
    MerkleLeafPath builds for each member with the float depth, and MerkleProve accepting it
    against the RFC root — all evaluated with SHA-256. *)
Example c27_nonvacuous :
  let xs := [[1]; [2; 2]; [3; 3; 3]]%N in
  let hs := map (hash_leaf sha256) xs in
  hs <> [] /\ Forall len32 hs /\
  forallb (fun v =>
    match merkle_leaf_path_f64 sha256 v hs with
    | inr p => match merkle_prove sha256 p (rfc_root sha256 hs) with
               | inr v' => bytes_eqb v v' && (N.of_nat (length p) <? 100)%N
               | inl _ => false end
    | inl _ => false
    end) xs = true /\
  merkle_leaf_path_f64 sha256 [4]%N hs = inl ENotFound.
Proof.
  cbv zeta. split; [discriminate|]. split.
  - repeat constructor; apply sha256_length.
  - vm_compute. split; reflexivity.
Qed.
