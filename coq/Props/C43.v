(** C43 — Block log blooms never miss a log of the block.

    "For every committed block, the stored bloom filter matches every address and topic of every
    EVM log emitted in that block, and the per-section bloom bit index agrees with the per-block
    blooms it was built from."

    Quantifier: every history of committed blocks and node restarts from the freshly initialised
    ledger ([lrun]/[run] from [init_state]), every hash function [K6] (Keccak-256 is not assumed to
    have any property), every [adh] = [config.GetAddDecimalsHeight()], fewer than 2^32 blocks
    (heights are uint32).  A block is the list of its transactions' receipts; only EIP155
    transactions have one (as in [handleTransaction]); the logs are those of the receipts, which is
    also what the eth-rpc filter serves ([getLogs] skips every other transaction type).

    [adh <= h]: on a network whose EVM fork height is not 0, a node restarted below the fork height
    stops recording blooms until [MinFilterStart()] (a multiple of the section size at or below
    [adh]); EVM transactions do not exist below [adh], so this excludes no log
    ([c43_block_bloom_complete_evm] states the property with that fact as a hypothesis). *)
From Coq Require Import List NArith.
Import ListNotations.
From Ont Require Import Lib.Bytes Gen.BloomConsts Gen.BloomFormulas Model.Bloom.
From Ont Require Import Proofs.BloomFilter Proofs.BloomCompress Proofs.BloomStore Proofs.C43.
Local Open Scope N_scope.

(** No history makes [SaveBloomData]/[PutBloomIndex]/[LoadBloomBits] panic (nil bloom-cache entry,
    generator errors, oversized record). *)
Theorem c43_no_panic : forall (K6 : bytes -> bytes) (adh : N) (lops : list lop),
  N.of_nat (length (blocks_of lops)) <= 4294967296 -> lrun K6 adh lops <> None.
Proof. exact (fun K6 adh => ledger_no_panic adh K6). Qed.
Print Assumptions c43_no_panic.

(** Per-block part: [GetBloomData h] tests positive for the address and every topic of every log
    of block [h]. *)
Theorem c43_block_bloom_complete : forall (K6 : bytes -> bytes) (adh : N) (lops : list lop) (st : bstate),
  N.of_nat (length (blocks_of lops)) <= 4294967296 ->
  lrun K6 adh lops = Some st ->
  forall h txs, nth_error (blocks_of lops) (N.to_nat h) = Some txs -> adh <= h ->
  forall l x, In l (all_logs txs) -> In x (l_addr l :: l_topics l) ->
  exists b, get_bloom_data (kv st) h = Some b /\ bloom_test K6 x b = true.
Proof. exact (fun K6 adh => block_bloom_complete adh K6). Qed.
Print Assumptions c43_block_bloom_complete.

Theorem c43_block_bloom_complete_evm : forall (K6 : bytes -> bytes) (adh : N) (lops : list lop) (st : bstate),
  N.of_nat (length (blocks_of lops)) <= 4294967296 ->
  (forall h txs, nth_error (blocks_of lops) (N.to_nat h) = Some txs -> h < adh -> all_logs txs = []) ->
  lrun K6 adh lops = Some st ->
  forall h txs, nth_error (blocks_of lops) (N.to_nat h) = Some txs ->
  forall l x, In l (all_logs txs) -> In x (l_addr l :: l_topics l) ->
  exists b, get_bloom_data (kv st) h = Some b /\ bloom_test K6 x b = true.
Proof. exact (fun K6 adh => block_bloom_complete_evm adh K6). Qed.
Print Assumptions c43_block_bloom_complete_evm.

(** Section part: every record [ReadBloomBits] finds decompresses (as the bloom backend does,
    [DecompressBytes(v, BloomBitsBlocks/8)]) to a vector whose bit [k] is bit [i] of the bloom
    [GetBloomData] returns for block [s*BloomBitsBlocks + k] — for every bit index, section and
    block of the section, after every history of arbitrary per-block blooms and restarts. *)
Theorem c43_section_index_agrees : forall (adh : N) (ops : list op) (st : bstate),
  Forall (fun b => N.of_nat (length b) = BloomByteLength) (blooms_of ops) ->
  N.of_nat (length (blooms_of ops)) <= 4294967296 ->
  run adh init_state ops = Some st ->
  forall i s v, i < BloomBitLength -> s < 4294967296 -> read_bloom_bits (kv st) i s = Some v ->
  exists vec, decompress_bytes v 512 = Some vec /\
    forall k, k < BloomBitsBlocks ->
      exists b, get_bloom_data (kv st) (s * BloomBitsBlocks + k) = Some b /\ vec_bit vec k = bloom_bit b i.
Proof. exact index_agrees. Qed.
Print Assumptions c43_section_index_agrees.

(** ... and the record exists for every bit index of every section whose last block has been
    committed (at or above the EVM fork height). *)
Theorem c43_section_index_exists : forall (adh : N) (ops : list op) (st : bstate),
  Forall (fun b => N.of_nat (length b) = BloomByteLength) (blooms_of ops) ->
  N.of_nat (length (blooms_of ops)) <= 4294967296 ->
  run adh init_state ops = Some st ->
  forall s i, (s + 1) * BloomBitsBlocks <= N.of_nat (length (blooms_of ops)) ->
    adh <= (s + 1) * BloomBitsBlocks - 1 -> i < BloomBitLength ->
  read_bloom_bits (kv st) i s <> None.
Proof. exact index_exists. Qed.
Print Assumptions c43_section_index_exists.

(** Both parts together: inside an indexed section, the three vectors the matcher consults for an
    address or topic of a log have the bit of the log's block set. *)
Theorem c43_index_never_misses : forall (K6 : bytes -> bytes) (adh : N) (lops : list lop) (st : bstate),
  N.of_nat (length (blocks_of lops)) <= 4294967296 ->
  lrun K6 adh lops = Some st ->
  forall s k txs, k < BloomBitsBlocks -> (s + 1) * BloomBitsBlocks <= N.of_nat (length (blocks_of lops)) ->
  adh <= s * BloomBitsBlocks + k ->
  nth_error (blocks_of lops) (N.to_nat (s * BloomBitsBlocks + k)) = Some txs ->
  forall l x p, In l (all_logs txs) -> In x (l_addr l :: l_topics l) -> In p (bloom_positions K6 x) ->
  exists v vec, read_bloom_bits (kv st) p s = Some v /\ decompress_bytes v 512 = Some vec /\ vec_bit vec k = true.
Proof. exact (fun K6 adh => index_never_misses adh K6). Qed.
Print Assumptions c43_index_never_misses.

(** The reader's decompression inverts the writer's compression, for every byte string. *)
Theorem c43_decompress_compress : forall d, decompress_bytes (compress_bytes d) (length d) = Some d.
Proof. exact decompress_compress. Qed.
Print Assumptions c43_decompress_compress.

(** ... so the stored section vectors lose nothing: two 512-byte vectors (any two vectors of one
    length) with the same compressed record are the same vector. *)
Theorem c43_compress_injective : forall d1 d2,
  length d1 = length d2 -> compress_bytes d1 = compress_bytes d2 -> d1 = d2.
Proof. exact compress_injective. Qed.
Print Assumptions c43_compress_injective.

(** The two record families cannot collide: keys are injective on uint32 heights / (uint16 bit,
    uint32 section) pairs and the families are disjoint. *)
Theorem c43_keys_distinct : forall h h' i s i' s',
  h < 4294967296 -> h' < 4294967296 -> i < 65536 -> i' < 65536 -> s < 4294967296 -> s' < 4294967296 ->
  (bloom_key h = bloom_key h' -> h = h') /\
  (bloom_bits_key i s = bloom_bits_key i' s' -> i = i' /\ s = s') /\
  bloom_key h <> bloom_bits_key i s.
Proof. exact keys_distinct. Qed.
Print Assumptions c43_keys_distinct.

(** Non-vacuity: a chain of one full section (BloomBitsBlocks blocks) with a restart in the middle;
    block 5 carries one EIP155 transaction with one log with two topics, block 7 a transaction
    without receipt.  The run does not panic, the stored bloom of block 5 is not the zero bloom and
    tests positive, and vector 258 of section 0 (one of the address's three bits under the toy
    hash) has exactly bit 5 set. *)
Definition nv_K6 (d : bytes) : bytes := firstn 6 (d ++ [0; 0; 0; 0; 0; 0]).
Definition nv_log : log := Log [1; 2; 3; 4; 5; 255; 9] [[7; 7; 7; 7; 7; 7]; [0; 9; 0; 10; 0; 11; 1]] [42].
Definition nv_chain : list lop :=
  repeat (LBlock []) 5 ++ [LBlock [Some [nv_log]]; LBlock []; LBlock [None]; LRestart]
  ++ repeat (LBlock []) (N.to_nat 4088).

Definition nv_obs (o : option bstate) :=
  match o with
  | Some s => Some (get_bloom_data (kv s) 5, read_bloom_bits (kv s) 258 0, read_bloom_bits (kv s) 258 1)
  | None => None
  end.
Definition nv_vec : bytes := 4 :: repeat 0 (N.to_nat 511).

Lemma nv_eval : nv_obs (lrun nv_K6 0 nv_chain) = Some (Some (logs_bloom nv_K6 [nv_log]), Some (compress_bytes nv_vec), None).
Proof. vm_compute. reflexivity. Qed.

Example c43_nonvacuous :
  exists st,
    lrun nv_K6 0 nv_chain = Some st /\ N.of_nat (length (blocks_of nv_chain)) = BloomBitsBlocks /\
    (exists b, get_bloom_data (kv st) 5 = Some b /\ b <> zero_bloom /\
               forallb (fun x => bloom_test nv_K6 x b) (l_addr nv_log :: l_topics nv_log) = true) /\
    In 258 (bloom_positions nv_K6 (l_addr nv_log)) /\
    (exists v vec, read_bloom_bits (kv st) 258 0 = Some v /\ decompress_bytes v 512 = Some vec /\
                   vec_bit vec 5 = true /\ vec_bit vec 4 = false /\ vec_bit vec 6 = false) /\
    read_bloom_bits (kv st) 258 1 = None.
Proof.
  assert (H := nv_eval). destruct (lrun nv_K6 0 nv_chain) as [st|]; [|discriminate].
  cbn [nv_obs] in H. injection H as Hb Hv Hn.
  exists st. split; [reflexivity|].
  split; [vm_compute; reflexivity|]. split; [|split; [|split]].
  - exists (logs_bloom nv_K6 [nv_log]). split; [exact Hb|]. split; [vm_compute; discriminate|vm_compute; reflexivity].
  - vm_compute. auto.
  - exists (compress_bytes nv_vec), nv_vec.
    split; [exact Hv|]. split; [vm_compute; reflexivity|]. vm_compute. auto.
  - exact Hn.
Qed.
