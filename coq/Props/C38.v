(** C38 — Wallet persists its accounts and only opens them with the current password.

    "After any sequence of wallet operations (create, import, delete, set default, relabel, change
    password or scheme) and a save and reload, the wallet lists the same accounts with the same
    metadata, each account decrypts to the same key with its current password, and decryption with
    any other password fails."

    Model: Model/Wallet.v (ClientImpl with its pointer structure, WalletData save/load; the
    call-site facts and tables come from Gen/WalletConsts.v, regenerated from the source).
    Cipher: any [enc]/[dec] with [ideal_cipher enc dec] (scrypt + AES-256-GCM; trusted base).
    Histories: any list of operations, including re-opening the wallet file in the middle
    ([OReload]), from an empty wallet with ANY scrypt parameters.

    The full statement [c38_full_statement] is FALSE of the current code: three defects, each with
    a witness ([c38_*_refuted]; the driver replays them on the implementation on every run).
    What is proved is the statement for every history that contains no operation of a finding
    class ([c38_wallet_persists_partial]); nothing else is missing from the full statement. *)
From Coq Require Import List String NArith.
Import ListNotations.
From Ont Require Import Model.Wallet Proofs.C38.
Local Open Scope string_scope.

(** The full statement: for every ideal cipher, every scrypt parameter set of the wallet and every
    history in which the caller keeps his obligations ([caller_ok]: generated keys are new,
    imported keys were encrypted for this wallet with a non-empty password), after the history
    and a reload: same view through every getter, the listed accounts are the ones created or
    imported and not deleted, each opens with its current password to its key and with no
    other password ([wallet_property]). *)
Definition c38_full_statement : Prop :=
  forall (key blob : Type) (enc : ectx -> string -> key -> blob) (dec : ectx -> string -> blob -> option key),
    ideal_cipher enc dec ->
    forall (prm : scrypt) (ops : list (op key)),
      caller_ok key blob enc dec (init blob prm) ops ->
      wallet_property key blob dec
        (fst (fst (run key blob enc dec (init blob prm) [] ops)))
        (snd (fst (run key blob enc dec (init blob prm) [] ops))).

(** PARTIAL only in this sense: histories that contain an operation of one of the three finding
    classes ([in_finding_class]: NewAccount on a wallet whose scrypt parameters NewAccount ignores,
    ImportAccount of an address already held, ChangePassword to the empty password) are excluded.
    Every other history is covered, at any length, with any interleaving of reloads. *)
Theorem c38_wallet_persists_partial :
  forall (key blob : Type) (enc : ectx -> string -> key -> blob) (dec : ectx -> string -> blob -> option key),
    ideal_cipher enc dec ->
    forall (prm : scrypt) (ops : list (op key)),
      caller_ok key blob enc dec (init blob prm) ops ->
      history_in_finding_class key blob enc dec (init blob prm) ops = false ->
      wallet_property key blob dec
        (fst (fst (run key blob enc dec (init blob prm) [] ops)))
        (snd (fst (run key blob enc dec (init blob prm) [] ops))).
Proof.
  intros key blob enc dec Hideal prm ops Hc Hf.
  apply (wallet_persists key blob enc dec Hideal). apply clean_split. split; assumption.
Qed.
Print Assumptions c38_wallet_persists_partial.

(** The password clause also holds of the client in memory, before any reload. *)
Theorem c38_guards_in_memory_partial :
  forall (key blob : Type) (enc : ectx -> string -> key -> blob) (dec : ectx -> string -> blob -> option key),
    ideal_cipher enc dec ->
    forall (prm : scrypt) (ops : list (op key)),
      caller_ok key blob enc dec (init blob prm) ops ->
      history_in_finding_class key blob enc dec (init blob prm) ops = false ->
      forall a k p,
        mget a (snd (fst (run key blob enc dec (init blob prm) [] ops))) = Some (k, p) ->
        opens_only_with key blob dec (fst (fst (run key blob enc dec (init blob prm) [] ops))) a k p.
Proof.
  intros key blob enc dec Hideal prm ops Hc Hf.
  apply (wallet_guards_in_memory key blob enc dec Hideal). apply clean_split. split; assumption.
Qed.
Print Assumptions c38_guards_in_memory_partial.

(** On a wallet with the default parameters (every wallet `NewWalletData` creates) NewAccount is
    never in a finding class: the class is about non-default wallets only. *)
Theorem c38_default_wallet_newaccount_clean :
  new_wallet_scrypt = default_scrypt /\
  forall (blob key : Type) (w : wallet blob) label sch pwd (ki : keyinfo key),
    w_params blob w = default_scrypt -> in_finding_class key blob w (ONew key label sch pwd ki) = false.
Proof.
  split; [reflexivity|]. intros blob key w label sch pwd ki E. cbn [in_finding_class].
  destruct (default_params_agree blob w E) as [-> _].
  apply Bool.negb_false_iff, scrypt_eqb_eq. reflexivity.
Qed.
Print Assumptions c38_default_wallet_newaccount_clean.

(** An operation that fails (or finds no such account) leaves the client, and therefore the
    wallet file, unchanged: all histories, no exclusions. *)
Theorem c38_failed_operation_changes_nothing :
  forall (key blob : Type) (enc : ectx -> string -> key -> blob) (dec : ectx -> string -> blob -> option key)
         (w : wallet blob) (o : op key),
    is_success key (snd (step key blob enc dec w o)) = false -> fst (step key blob enc dec w o) = w.
Proof. exact failed_step_unchanged. Qed.
Print Assumptions c38_failed_operation_changes_nothing.

(** KNOWN FINDING newaccount:wallet-scrypt-ignored. NewAccount encrypts with
    keypair.GetScryptParameters() whatever walletData.Scrypt says, getAccount decrypts with
    walletData.Scrypt: on a wallet with the low-security parameters of `account export
    --low-security` a new account does not open with its password (before or after a reload). *)
Theorem c38_newaccount_scrypt_refuted :
  caller_ok N iblob ienc idec (init iblob low_security_scrypt) wit_newaccount /\
  ~ iprop low_security_scrypt wit_newaccount.
Proof. exact (conj wit_newaccount_caller_ok wit_newaccount_fails). Qed.
Print Assumptions c38_newaccount_scrypt_refuted.

(** KNOWN FINDING import:duplicate-address. ImportAccount does not refuse an address the wallet
    holds: the slice gets two entries, accAddrs points to the second, DeleteAccount removes the
    FIRST from the slice (the default account) and the address from accAddrs: the client then
    shows no account, the reloaded file shows one, and no default account is left on file. *)
Theorem c38_duplicate_import_refuted :
  caller_ok N iblob ienc idec (init iblob default_scrypt) wit_dup_import /\
  ~ iprop default_scrypt wit_dup_import.
Proof. exact (conj wit_dup_import_caller_ok wit_dup_import_fails). Qed.
Print Assumptions c38_duplicate_import_refuted.

(** KNOWN FINDING chpwd:empty-new-password. ChangePassword accepts an empty new password (NewAccount
    refuses one); DecryptWithCustomScrypt refuses every empty password: the account no longer
    opens with its current password. *)
Theorem c38_empty_new_password_refuted :
  caller_ok N iblob ienc idec (init iblob default_scrypt) wit_empty_pwd /\
  ~ iprop default_scrypt wit_empty_pwd.
Proof. exact (conj wit_empty_pwd_caller_ok wit_empty_pwd_fails). Qed.
Print Assumptions c38_empty_new_password_refuted.

Theorem c38_full_statement_refuted : ~ c38_full_statement.
Proof.
  intros H. apply wit_dup_import_fails.
  exact (H N iblob ienc idec ideal_instance default_scrypt wit_dup_import wit_dup_import_caller_ok).
Qed.
Print Assumptions c38_full_statement_refuted.

(** Observation outside the property's text (no finding is registered for it): the reloaded client is
    NOT behaviourally identical to the client in memory. SetLabel(addr, "") leaves an entry
    accLabels[""] that load() does not rebuild; no getter shows it (the theorem above covers all
    getters), but a later SetLabel(other, "") is refused before the reload and accepted after it. *)
Theorem c38_note_reload_not_bisimilar :
  let ops := [OImport N "x" "A1" "02a1" 1 0 "P-256" "" false default_scrypt "pw" 1%N;
              OImport N "y" "A2" "02a2" 1 0 "P-256" "" true default_scrypt "pw" 2%N;
              OSetLabel N "A1" ""] in
  let w := fst (fst (irun default_scrypt ops)) in
  history_in_finding_class N iblob ienc idec (init iblob default_scrypt) ops = false /\
  snd (step N iblob ienc idec w (OSetLabel N "A2" "")) = EDupLabel /\
  snd (step N iblob ienc idec (reload iblob w) (OSetLabel N "A2" "")) = ROk.
Proof. vm_compute. repeat split. Qed.
Print Assumptions c38_note_reload_not_bisimilar.

(** Non-vacuity: a history outside the finding classes in which every kind of operation succeeds
    at least once (two creations, an import, relabel, default change, password change, scheme
    change, a reload in the middle, a deletion); the theorem then says that after a reload the
    wallet lists exactly "A2" and "A3", and "A2" opens with the CHANGED password only. *)
Local Open Scope N_scope.
Definition nv_ops : list (op N) :=
  [ ONew N "one" 1 "pw1" {| ki_key := 11; ki_addr := "A1"; ki_pub := "02a1"; ki_alg := 0; ki_curve := "P-256" |};
    ONew N "two" 9 "pw2" {| ki_key := 12; ki_addr := "A2"; ki_pub := "02a2"; ki_alg := 1; ki_curve := "sm2p256v1" |};
    OImport N "two" "A3" "02a3" 10 2 "" "sha256" true default_scrypt "pw3" 13;
    OSetLabel N "A1" "first";
    OSetDefault N "A2";
    OChangePwd N "A2" "pw2" "new2";
    OReload N;
    OChangeSch N "A1" 5;
    ODelete N "A1" "pw1" ].

Example c38_nonvacuous :
  caller_ok N iblob ienc idec (init iblob default_scrypt) nv_ops /\
  history_in_finding_class N iblob ienc idec (init iblob default_scrypt) nv_ops = false /\
  snd (irun default_scrypt nv_ops) = [RKey 11; RKey 12; ROk; ROk; ROk; ROk; ROk; ROk; RKey 11] /\
  snd (fst (irun default_scrypt nv_ops)) = [("A2"%string, (12, "new2"%string)); ("A3"%string, (13, "pw3"%string))] /\
  get_account_by_address N iblob idec (reload iblob (fst (fst (irun default_scrypt nv_ops)))) "A2" "new2" = RKey 12 /\
  get_account_by_address N iblob idec (reload iblob (fst (fst (irun default_scrypt nv_ops)))) "A2" "pw2" = EDecrypt /\
  option_map (a_label iblob) (get_meta_by_address iblob (reload iblob (fst (fst (irun default_scrypt nv_ops)))) "A3") = Some "two_1"%string.
Proof.
  split; [vm_compute; repeat split; discriminate|].
  split; [vm_compute; reflexivity|].
  pose proof (c38_wallet_persists_partial N iblob ienc idec ideal_instance default_scrypt nv_ops) as P.
  assert (C : caller_ok N iblob ienc idec (init iblob default_scrypt) nv_ops) by (vm_compute; repeat split; discriminate).
  specialize (P C eq_refl). destruct P as (_ & _ & P).
  split; [vm_compute; reflexivity|]. split; [vm_compute; reflexivity|].
  destruct (P "A2"%string 12 "new2"%string) as [P1 P2]; [vm_compute; reflexivity|].
  split; [exact P1|]. split; [apply P2; discriminate|]. vm_compute. reflexivity.
Qed.
