(** C38 — Wallet persists its accounts and only opens them with the current password.

    "After any sequence of wallet operations (create, import, delete, set default, relabel, change
    password or scheme) and a save and reload, the wallet lists the same accounts with the same
    metadata, each account decrypts to the same key with its current password, and decryption with
    any other password fails."

    Model: Model/Wallet.v (ClientImpl with its pointer structure, WalletData save/load; the
    call-site facts, the two guards and the tables come from Gen/WalletConsts.v, regenerated from
    the source on every run).
    Cipher: any [enc]/[dec] with [ideal_cipher enc dec] (scrypt + AES-256-GCM; trusted base).
    Histories: any list of operations, including re-opening the wallet file in the middle
    ([OReload]), from an empty wallet with ANY scrypt parameters.

    The statement is proved in full ([c38_wallet_persists]). Until commits e7837d8c, b42ffc8a and
    8f73a249 of ontio/ontology it was false of the code (three defects); the three witnesses are
    kept as regression inputs (corpus/C38, replayed on the implementation first on every run) and
    as [c38_former_defects_repaired] below. Reverting any of the repairs flips a flag in
    Gen/WalletConsts.v and the proof of the main theorem stops checking. *)
From Coq Require Import List String NArith.
Import ListNotations.
From Ont Require Import Model.Wallet Proofs.C38.
Local Open Scope string_scope.

(** The full statement: for every ideal cipher, every scrypt parameter set of the wallet and every
    history in which imported keys were encrypted for this wallet with a non-empty password
    ([caller_ok]: the only thing taken for granted; AccountMetadata cannot carry scrypt parameters),
    after the history and a reload: same answers from every getter, the listed accounts are the
    ones created or imported and not deleted, each opens with its current password to its key and
    with no other password ([wallet_property]). *)
Definition c38_full_statement : Prop :=
  forall (key blob : Type) (enc : ectx -> string -> key -> blob) (dec : ectx -> string -> blob -> option key),
    ideal_cipher enc dec ->
    forall (prm : scrypt) (ops : list (op key)),
      caller_ok key blob enc dec (init blob prm) ops ->
      wallet_property key blob dec
        (fst (fst (run key blob enc dec (init blob prm) [] ops)))
        (snd (fst (run key blob enc dec (init blob prm) [] ops))).

Theorem c38_wallet_persists : c38_full_statement.
Proof. exact wallet_persists. Qed.
Print Assumptions c38_wallet_persists.

(** The password clause also holds of the client in memory, before any reload. *)
Theorem c38_guards_in_memory :
  forall (key blob : Type) (enc : ectx -> string -> key -> blob) (dec : ectx -> string -> blob -> option key),
    ideal_cipher enc dec ->
    forall (prm : scrypt) (ops : list (op key)),
      caller_ok key blob enc dec (init blob prm) ops ->
      forall a k p,
        mget a (snd (fst (run key blob enc dec (init blob prm) [] ops))) = Some (k, p) ->
        opens_only_with key blob dec (fst (fst (run key blob enc dec (init blob prm) [] ops))) a k p.
Proof. exact wallet_guards_in_memory. Qed.
Print Assumptions c38_guards_in_memory.

(** Several wallets open in one process (each with its own scrypt parameters: default, low-security,
    custom), operations interleaved in any way, further wallet files opened in between.
    FRAME: an operation on wallet i leaves every other open wallet's client state and
    specification state exactly as it was, and opening another file leaves all of them as they
    were. *)
Theorem c38_other_wallets_untouched :
  forall (key blob : Type) (enc : ectx -> string -> key -> blob) (dec : ectx -> string -> blob -> option key)
         (s : system key blob) (m : mop key) (j : nat),
    match m with MOp _ i _ => j <> i | MOpen _ _ => j < List.length s end ->
    nth_error (fst (mstep key blob enc dec s m)) j = nth_error s j.
Proof. exact mstep_frame. Qed.
Print Assumptions c38_other_wallets_untouched.

(** ... and therefore, after any interleaved history over any number of wallets, every open wallet
    still has the scrypt parameters it was opened with and has the property. *)
Theorem c38_every_open_wallet_persists :
  forall (key blob : Type) (enc : ectx -> string -> key -> blob) (dec : ectx -> string -> blob -> option key),
    ideal_cipher enc dec ->
    forall ms : list (mop key),
      mcaller_ok key blob enc dec [] ms ->
      map (wparams key blob) (fst (mrun key blob enc dec [] ms)) = opened key ms /\
      Forall (fun wg => wallet_property key blob dec (fst wg) (snd wg)) (fst (mrun key blob enc dec [] ms)).
Proof. exact system_persists. Qed.
Print Assumptions c38_every_open_wallet_persists.

(** An operation that fails (or finds no such account) leaves the client, and therefore the
    wallet file, unchanged: all histories, all arguments. *)
Theorem c38_failed_operation_changes_nothing :
  forall (key blob : Type) (enc : ectx -> string -> key -> blob) (dec : ectx -> string -> blob -> option key)
         (w : wallet blob) (o : op key),
    is_success key (snd (step key blob enc dec w o)) = false -> fst (step key blob enc dec w o) = w.
Proof. exact failed_step_unchanged. Qed.
Print Assumptions c38_failed_operation_changes_nothing.

(** save() failing (the wallet file cannot be written) at any operations of the history: an
    operation whose save fails is the identity on the client and on the file and reports an error;
    no failing operation of any kind changes anything; and the property holds after every history
    with save failures anywhere in it (so what a later successful save writes is the state before
    the failure plus the later operations only). *)
Theorem c38_failed_save_is_identity :
  forall (key blob : Type) (enc : ectx -> string -> key -> blob) (dec : ectx -> string -> blob -> option key)
         (w : wallet blob) (o : op key),
    reaches_save key blob enc dec w o = true -> step_sf key blob enc dec true w o = (w, ESave).
Proof. exact failed_save_is_identity. Qed.
Print Assumptions c38_failed_save_is_identity.

Theorem c38_failed_operation_changes_nothing_with_save_failures :
  forall (key blob : Type) (enc : ectx -> string -> key -> blob) (dec : ectx -> string -> blob -> option key)
         (b : bool) (w : wallet blob) (o : op key),
    is_success key (snd (step_sf key blob enc dec b w o)) = false -> fst (step_sf key blob enc dec b w o) = w.
Proof. exact failed_step_sf_unchanged. Qed.
Print Assumptions c38_failed_operation_changes_nothing_with_save_failures.

Theorem c38_wallet_persists_with_save_failures :
  forall (key blob : Type) (enc : ectx -> string -> key -> blob) (dec : ectx -> string -> blob -> option key),
    ideal_cipher enc dec ->
    forall (prm : scrypt) (ops : list (bool * op key)),
      caller_ok_sf key blob enc dec (init blob prm) ops ->
      wallet_property key blob dec
        (fst (fst (run_sf key blob enc dec (init blob prm) [] ops)))
        (snd (fst (run_sf key blob enc dec (init blob prm) [] ops))).
Proof. exact wallet_persists_sf. Qed.
Print Assumptions c38_wallet_persists_with_save_failures.

(** What the code must contain for the above (read from the source by the translator): NewAccount,
    ChangePassword and getAccount all pass the wallet's scrypt parameters; addAccountData refuses an
    address the wallet holds; ChangePassword refuses an empty new password. *)
Theorem c38_code_facts :
  newaccount_uses_wallet_scrypt = true /\ changepassword_uses_wallet_scrypt = true /\
  getaccount_uses_wallet_scrypt = true /\ addaccount_refuses_held_address = true /\
  changepassword_refuses_empty = true.
Proof. repeat split; reflexivity. Qed.
Print Assumptions c38_code_facts.

(** The three former defects, on the histories that used to witness them (replayed on the
    implementation from corpus/C38): a new account on a low-security wallet opens with its password
    after a reload; a second import of a held address is refused (and the default account still
    cannot be deleted); ChangePassword to the empty password is refused. *)
Theorem c38_former_defects_repaired :
  snd (irun low_security_scrypt wit_newaccount) = [RKey 7%N] /\
  get_account_by_address N iblob idec (reload iblob (fst (fst (irun low_security_scrypt wit_newaccount)))) "A1" "pw" = RKey 7%N /\
  snd (irun default_scrypt wit_dup_import) = [ROk; EDupAddr; EDeleteDefault] /\
  snd (irun default_scrypt wit_empty_pwd) = [ROk; EEmptyPwd].
Proof. exact wit_results. Qed.
Print Assumptions c38_former_defects_repaired.

(** Observation outside the property's text (nothing is registered for it): the reloaded client is
    NOT behaviourally identical to the client in memory. SetLabel(addr, "") leaves an entry
    accLabels[""] that load() does not rebuild; no getter shows it (the theorem above covers all
    getters), but a later SetLabel(other, "") is refused before the reload and accepted after it. *)
Theorem c38_note_reload_not_bisimilar :
  let ops := [OImport N "x" "A1" "02a1" 1 0 "P-256" "" false default_scrypt "pw" 1%N;
              OImport N "y" "A2" "02a2" 1 0 "P-256" "" true default_scrypt "pw" 2%N;
              OSetLabel N "A1" ""] in
  let w := fst (fst (irun default_scrypt ops)) in
  caller_ok N iblob ienc idec (init iblob default_scrypt) ops /\
  snd (step N iblob ienc idec w (OSetLabel N "A2" "")) = EDupLabel /\
  snd (step N iblob ienc idec (reload iblob w) (OSetLabel N "A2" "")) = ROk.
Proof. vm_compute. repeat split; discriminate. Qed.
Print Assumptions c38_note_reload_not_bisimilar.

(** Non-vacuity: a history in which every kind of operation succeeds
    at least once (two creations, an import, relabel, default change, password change, scheme
    change, a reload in the middle, a deletion); the theorem then says that after a reload the
    wallet lists exactly "A2" and "A3", and "A2" opens with the CHANGED password only. *)
Local Open Scope N_scope.
Definition nv_ops : list (op N) :=
  [ ONew N "one" 1 "pw1" {| ki_key := 11; ki_addr := "A1"; ki_pub := "02a1"; ki_alg := 0; ki_curve := "P-256" |};
    ONew N "two" 9 "pw2" {| ki_key := 12; ki_addr := "A2"; ki_pub := "02a2"; ki_alg := 1; ki_curve := "sm2p256v1" |};
    OImport N "two" "A3" "02a3" 10 2 "" "sha256" true default_scrypt "pw3" 13;
    OSetLabel N "A1" "first";
    OSetDefault N "A2";
    OChangePwd N "A2" "pw2" "new2";
    OReload N;
    OChangeSch N "A1" 5;
    ODelete N "A1" "pw1" ].

Example c38_nonvacuous :
  caller_ok N iblob ienc idec (init iblob default_scrypt) nv_ops /\
  snd (irun default_scrypt nv_ops) = [RKey 11; RKey 12; ROk; ROk; ROk; ROk; ROk; ROk; RKey 11] /\
  snd (fst (irun default_scrypt nv_ops)) = [("A2"%string, (12, "new2"%string)); ("A3"%string, (13, "pw3"%string))] /\
  get_account_by_address N iblob idec (reload iblob (fst (fst (irun default_scrypt nv_ops)))) "A2" "new2" = RKey 12 /\
  get_account_by_address N iblob idec (reload iblob (fst (fst (irun default_scrypt nv_ops)))) "A2" "pw2" = EDecrypt /\
  option_map (a_label iblob) (get_meta_by_address iblob (reload iblob (fst (fst (irun default_scrypt nv_ops)))) "A3") = Some "two_1"%string.
Proof.
  split; [vm_compute; repeat split; discriminate|].
  pose proof (c38_wallet_persists N iblob ienc idec ideal_instance default_scrypt nv_ops) as P.
  assert (C : caller_ok N iblob ienc idec (init iblob default_scrypt) nv_ops) by (vm_compute; repeat split; discriminate).
  specialize (P C). destruct P as (_ & _ & P).
  split; [vm_compute; reflexivity|]. split; [vm_compute; reflexivity|].
  destruct (P "A2"%string 12 "new2"%string) as [P1 P2]; [vm_compute; reflexivity|].
  split; [exact P1|]. split; [apply P2; discriminate|]. vm_compute. reflexivity.
Qed.
