(** C24 — P2P message decoding never panics and round-trips every message.

    Model: Model/P2PMsg.v (ReadMessage/WriteMessage and every payload codec of
    p2pserver/message/types on the ZeroCopySource model of C18), with the limits and the dispatch
    table of makeEmptyMessage regenerated from the source (Gen/P2PConsts.v) and tied to the code by
    the C24 correspondence on every run. SHA-256, public-key parsing, signature verification, the
    clock and the core/types codecs embedded in headers/block/tx messages are the fields of
    [ext]; every theorem quantifies over all of them under [ext_ok] (the embedded codecs reproduce
    what they consume and make progress; an empty signature never verifies).

    The literal statement "an accepted message re-serializes to the payload" is FALSE of the code:
    [c24_reserialize_refuted] (witnesses: trailing bytes, Addr/Inv clamps, lenient Version and
    FindNodeResp fields, non-canonical public keys, Block without root/flag). What holds, and is
    proved for all inputs, is the same statement outside those classes: [c24_reserialize_partial],
    [c24_frame_reserialize_partial]. Nothing else is partial. *)
From Coq Require Import List Bool NArith ZArith.
Import ListNotations.
From Ont Require Import Lib.Bytes Gen.P2PConsts Model.Codec Proofs.Codec Model.P2PMsg
  Proofs.P2PMsgLib Proofs.P2PMsg Proofs.P2PFrame Proofs.P2PWitness.
Local Open Scope N_scope.

(** (1) Never panics, never out of bounds, bounded element count. For every command and every
    payload the decoder returns a message or an error that is neither the out-of-range slice
    (Go: panic) nor fuel exhaustion (the loops terminate within the unread bytes); an accepted
    message leaves the offset inside the payload and holds at most as many appended elements as
    bytes were consumed (no count-driven allocation). *)
Theorem c24_decode_total_bounded : forall (E : Type) (X : ext E), ext_ok X ->
  forall cmd payload, N.of_nat (length payload) < two64 -> wf_bytes payload = true ->
  match decode_payload X cmd payload with
  | DErr e => e <> ErrOutOfRange /\ e <> ErrFuel
  | DOk (m, s', _) => buf s' = payload /\ (off s' <= length payload)%nat /\ (msg_elems m <= off s')%nat
  end.
Proof.
  intros E X XO cmd payload Hl Hw. pose proof (decode_payload_ok X XO cmd payload Hl Hw) as P.
  destruct (decode_payload X cmd payload) as [[[m s'] lf]|e]; [|exact P].
  destruct P as [[B O] [El _]]. cbn [src_new buf off] in *. repeat split; try assumption; try apply O.
  rewrite Nat.sub_0_r in El. exact El.
Qed.
Print Assumptions c24_decode_total_bounded.

(** (2) Re-serialization, outside the finding classes: if the decoder raised no leniency flag,
    the message serializes to exactly the bytes consumed; if moreover it consumed the whole
    payload, to the payload. *)
Theorem c24_reserialize_partial : forall (E : Type) (X : ext E), ext_ok X ->
  forall cmd payload m s', N.of_nat (length payload) < two64 -> wf_bytes payload = true ->
  decode_payload X cmd payload = DOk (m, s', []) ->
  enc_msg X m = firstn (off s') payload /\ (off s' = length payload -> enc_msg X m = payload).
Proof.
  intros E X XO cmd payload m s' Hl Hw D. pose proof (decode_payload_ok X XO cmd payload Hl Hw) as P.
  rewrite D in P. destruct P as [_ [_ R]]. destruct (R eq_refl) as [_ [_ En]].
  cbn [src_new buf off] in En. unfold slice in En. cbn [skipn] in En. rewrite Nat.sub_0_r in En.
  split; [exact En|]. intro Ho. rewrite En, Ho. apply firstn_all.
Qed.
Print Assumptions c24_reserialize_partial.

(** The literal statement of the property (every accepted frame is reproduced by WriteMessage). *)
Definition c24_full_statement : Prop :=
  forall (E : Type) (X : ext E), ext_ok X ->
  forall magic st m len lf consumed rest,
    wf_bytes st = true -> N.of_nat (length st) < two64 -> magic < two32 ->
    read_message X magic st = FOk m len lf consumed rest ->
    write_message X magic m ++ rest = st.

(** KNOWN FINDING: refuted by a ping frame with one trailing payload byte (real checksum). *)
Theorem c24_reserialize_refuted : ~ c24_full_statement.
Proof.
  intro F. destruct w_frame_differs as [m [len [lf [c [R [_ D]]]]]].
  specialize (F N toy_ext toy_ext_ok w_magic w_frame_ping_trailing m len lf c []
                ltac:(vm_compute; reflexivity) ltac:(vm_compute; reflexivity) ltac:(vm_compute; reflexivity) R).
  rewrite app_nil_r in F. exact (D F).
Qed.
Print Assumptions c24_reserialize_refuted.

(** KNOWN FINDING (addr:count-over-64-not-reserialized): 65 well-formed entries are accepted, all
    bytes consumed, 64 entries kept; the message does not serialize back to the payload. *)
Theorem addr_reserialize_refuted :
  exists payload (m : msg N) s',
    decode_payload toy_ext cmd_addr payload = DOk (m, s', [LAddrClamp]) /\
    off s' = length payload /\ enc_msg toy_ext m <> payload.
Proof.
  destruct w_addr65_consumed_all as [m [s' [D [O _]]]].
  exists w_addr65, m, s'. split; [exact D|]. split; [exact O|].
  destruct w_addr65_differs as [m2 [s2 [D2 N2]]]. rewrite D in D2. inversion D2; subst. exact N2.
Qed.
Print Assumptions addr_reserialize_refuted.

(** Every other leniency flag is witnessed as well: accepted, and not reproduced. *)
Theorem c24_leniencies_witnessed :
  accepted_differs cmd_inv w_inv65 [LInvClamp] /\
  accepted_differs cmd_version w_version_nosoft [LVersionStr] /\
  accepted_differs cmd_findnodeack w_find_bool [LFindBool] /\
  accepted_differs cmd_findnodeack w_find_len [LFindStr] /\
  accepted_differs cmd_consensus w_cons_key [LPubKey] /\
  accepted_differs cmd_block w_block_noroot [LBlockRoot; LBlockCC] /\
  accepted_differs cmd_block w_block_noflag [LBlockCC] /\
  accepted_differs cmd_ping w_ping_trailing [].
Proof.
  repeat split; [exact w_inv65_differs | exact w_version_differs | exact w_find_bool_differs
  | exact w_find_len_differs | exact w_cons_key_differs | exact w_block_noroot_differs
  | exact w_block_noflag_differs | exact w_ping_trailing_differs].
Qed.
Print Assumptions c24_leniencies_witnessed.

(** Addr, in terms of the input: the flag is raised exactly when the declared count exceeds
    MAX_ADDR_NODE_CNT, so for count <= 64 theorem (2) applies. *)
Theorem addr_reserialize_partial : forall (E : Type) (X : ext E) payload (m : msg E) s' lf,
  N.of_nat (length payload) < two64 -> wf_bytes payload = true ->
  dec_addr (src_new payload) = DOk (m, s', lf) ->
  le_decode (firstn 8 payload) <= MAX_ADDR_NODE_CNT ->
  lf = [] /\ enc_msg X m = firstn (off s') payload.
Proof.
  intros E X payload m s' lf Hl Hw D Hc.
  pose proof (dec_addr_flag payload m s' lf Hl Hw D) as F.
  assert (T : (MAX_ADDR_NODE_CNT <? le_decode (firstn 8 payload)) = false) by (apply N.ltb_ge; exact Hc).
  rewrite T in F. split; [exact F|]. subst lf.
  pose proof (dec_addr_ok X (src_new payload) (src_new_ok payload Hl) Hw) as P.
  rewrite D in P. destruct P as [_ [_ R]]. destruct (R eq_refl) as [_ [_ En]].
  cbn [src_new buf off] in En. unfold slice in En. cbn [skipn] in En. rewrite Nat.sub_0_r in En. exact En.
Qed.
Print Assumptions addr_reserialize_partial.

(** (3) The whole frame, outside the finding classes: an accepted frame whose payload decoder
    raised no flag and consumed the payload is reproduced byte for byte by WriteMessage (magic,
    zero-padded command, length, checksum, payload), followed by what was left in the reader. *)
Theorem c24_frame_reserialize_partial : forall (E : Type) (X : ext E), ext_ok X ->
  forall magic st m len lf consumed rest,
    wf_bytes st = true -> N.of_nat (length st) < two64 -> magic < two32 ->
    read_message X magic st = FOk m len lf consumed rest ->
    lf = [] -> consumed = N.to_nat len ->
    write_message X magic m ++ rest = st.
Proof. intros E X XO. exact (frame_reserialize X XO). Qed.
Print Assumptions c24_frame_reserialize_partial.

(** (4) Header checks. Short header, wrong magic, oversized length, truncated payload and bad
    checksum are rejected, in this order, for every stream. *)
Theorem c24_header_rejections : forall (E : Type) (X : ext E) magic st,
  ((length st < MSG_HDR_LEN)%nat -> read_message X magic st = FErr FShortHeader) /\
  ((MSG_HDR_LEN <= length st)%nat ->
     (hdr_magic st <> magic -> read_message X magic st = FErr FMagic) /\
     (hdr_magic st = magic -> MAX_PAYLOAD_LEN < hdr_len st -> read_message X magic st = FErr FLength) /\
     (hdr_magic st = magic -> hdr_len st <= MAX_PAYLOAD_LEN ->
        ((length st - MSG_HDR_LEN < N.to_nat (hdr_len st))%nat -> read_message X magic st = FErr FShortPayload) /\
        ((N.to_nat (hdr_len st) <= length st - MSG_HDR_LEN)%nat ->
           checksum (x_hash X) (firstn (N.to_nat (hdr_len st)) (skipn MSG_HDR_LEN st)) <> hdr_cks st ->
           read_message X magic st = FErr FChecksum))).
Proof.
  intros E X magic st. split; [apply rejects_short_header|]. intro L.
  split; [apply rejects_wrong_magic; exact L|].
  split; [apply rejects_oversized; exact L|].
  intros M Hm. split; [apply rejects_truncated; assumption|apply rejects_bad_checksum; assumption].
Qed.
Print Assumptions c24_header_rejections.

(** Conversely, acceptance implies every header check and that the message is the decoding of
    exactly the [len] payload bytes under the trimmed command. *)
Theorem c24_accept_implies_checks : forall (E : Type) (X : ext E) magic st m len lf consumed rest,
  read_message X magic st = FOk m len lf consumed rest ->
  (MSG_HDR_LEN <= length st)%nat /\ hdr_magic st = magic /\ len = hdr_len st /\ len <= MAX_PAYLOAD_LEN /\
  exists payload s',
    skipn MSG_HDR_LEN st = payload ++ rest /\ length payload = N.to_nat len /\
    checksum (x_hash X) payload = hdr_cks st /\
    decode_payload X (trim_right0 (hdr_cmd st)) payload = DOk (m, s', lf) /\ consumed = off s'.
Proof. intros E X. exact (read_message_inv X). Qed.
Print Assumptions c24_accept_implies_checks.

(** (5) Allocation: the buffers ReadMessage allocates for any stream are the header plus, only
    after the magic and length checks, the declared length, which is at most MAX_PAYLOAD_LEN. *)
Theorem c24_alloc_bounded : forall magic st,
  read_message_alloc magic st <= N.of_nat MSG_HDR_LEN + MAX_PAYLOAD_LEN.
Proof. exact alloc_bounded. Qed.
Print Assumptions c24_alloc_bounded.

(** (6) The dispatch table read from the source: every type the switch returns has a modelled
    decoder, and its CmdType() is the case label (so WriteMessage writes the command it was read under). *)
Theorem c24_dispatch_table_modelled :
  forallb (fun e => match kind_of_name (d_name e) with
                    | Some k => bytes_eqb (cmd_of_kind k) (d_cmd e)
                    | None => false end) DISPATCH = true.
Proof. exact table_cmdtype. Qed.
Print Assumptions c24_dispatch_table_modelled.

(** (7) OfflineWitnessMsg.Deserialization never accepts: it does not read the proposer signature
    that Serialization writes, and then verifies the empty one. (Every such message "returns an
    error", which satisfies the property; recorded because it makes the message type unusable.) *)
Theorem c24_offline_never_accepted : forall (E : Type) (X : ext E), ext_ok X ->
  forall s m s' lf, dec_offline X s <> DOk (m, s', lf).
Proof. intros E X XO s m s' lf. apply dec_offline_rejects. exact (xo_sig_empty X XO). Qed.
Print Assumptions c24_offline_never_accepted.

(** Non-vacuity: [ext_ok] is inhabited, a real frame (SHA-256 checksum) is accepted and reproduced,
    and the repaired F6 inputs (count 2^63, 2^64-1) are rejected rather than sliced out of range. *)
Example c24_nonvacuous :
  ext_ok toy_ext /\
  read_message toy_ext w_magic w_frame_ping = FOk (MPing 5) 8 [] 8 [1; 2; 3] /\
  write_message toy_ext w_magic (MPing 5) ++ [1; 2; 3] = w_frame_ping /\
  decode_payload toy_ext cmd_addr w_addr_2p63 = DErr ErrEOF /\
  decode_payload toy_ext cmd_addr w_addr_max = DErr ErrEOF.
Proof.
  split; [exact toy_ext_ok|]. destruct w_frame_ping_ok as [A B]. destruct w_f6_rejected as [C D].
  split; [exact A|]. split; [exact B|]. split; [exact C|exact D].
Qed.
