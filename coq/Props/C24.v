From Ont Require Import Proofs.P2PFrame.
