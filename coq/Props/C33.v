(** C33 — Cross-chain headers need signatures of two thirds of distinct peers.

    "The header-sync contract accepts a side-chain header only if valid signatures from distinct
    consensus peers of that chain number at least two thirds of the peer set; listing the same peer
    several times does not count extra."

    Model: Model/CrossHeader.v (header_sync.VerifyHeader, signature.VerifyMultiSignature,
    the stored KeyHeights / ConsensusPeers records, ProcessHeader / SyncBlockHeader); the integer
    expressions are the ones in the source now (Gen/CrossHeader.v).

    STATUS ON THE CURRENT TREE: the full statement is FALSE of the faithful model
    ([c33_refuted], finding F12, class crosschain-header:duplicate-bookkeeper): VerifyHeader
    compares len(header.Bookkeepers)*3 with len(PeerMap)*2 and VerifyMultiSignature marks key
    POSITIONS, so a list naming one peer k times, with that peer's one signature copied k times,
    passes ([c33_one_peer_suffices]: for EVERY stored peer set and EVERY peer of it).  Proved:
    the statement for every header whose bookkeeper list names no key twice ([c33_partial], all
    stores, all headers, all signature lists), what acceptance does guarantee in general
    ([c33_accepted_general], [c33_distinct_bookkeepers_count]), and that refusing duplicate
    bookkeepers restores the full statement ([c33_repaired_full]).

    Hostile key encodings (a key object that is not a peer's genuine key but carries the peer's
    id) are part of the model ([BkForged]); [c33_forged_key_never_accepted].

    Missing for the full statement: nothing on the proof side — the code does not have the
    property; the gap is exactly the duplicate-bookkeeper class. *)
From Coq Require Import List Bool NArith ZArith Sorting.Permutation.
Import ListNotations.
From Ont Require Import Gen.CrossHeader Gen.CrossHeaderShape Model.CrossHeader Proofs.C33.
Local Open Scope N_scope.

(** Full statement: for every stored state, every header (any bookkeeper list, duplicates
    included, any signature list): if VerifyHeader accepts, then the peers of the stored peer set
    (one entry per peer) that have a valid signature on the header in its signature list are at
    least two thirds of that peer set. *)
Definition c33_statement : Prop :=
  forall (st : hstore) (h : xheader),
    verify_header st h = ROk ->
    exists pm, peer_set_for st h = Some pm /\ NoDup pm /\
      (2 * Z.of_nat (length pm)
       <= 3 * Z.of_nat (length (filter (has_valid_sig (h_msg h) (h_sigs h)) pm)))%Z.

(** The finding class: the bookkeeper list names some key twice (same predicate as the driver's
    class crosschain-header:duplicate-bookkeeper). *)
Definition in_finding_class (h : xheader) : bool := has_dup (map bk_pid (h_bookkeepers h)).

(** KNOWN FINDING (F12): 4 stored peers, bookkeepers [1;1;1], peer 1's signature three times:
    accepted with one signing peer out of four. *)
Theorem c33_refuted : ~ c33_statement.
Proof.
  intros H. destruct (H f12_store f12_header f12_accepted) as [pm [Hp [_ Hc]]].
  rewrite f12_peer_set in Hp. injection Hp as <-.
  change (filter (has_valid_sig (h_msg f12_header) (h_sigs f12_header)) [1; 2; 3; 4])
    with (signing_peers [1; 2; 3; 4] f12_header) in Hc.
  rewrite f12_signers in Hc. vm_compute in Hc. apply Hc. reflexivity.
Qed.
Print Assumptions c33_refuted.

(** The defect at full generality: whatever peer set is stored and whichever single peer [p] of
    it signs, the header listing [p] k times (3k >= 2|peers|) with p's signature k times is
    accepted, and [p] is the only peer with a valid signature. *)
Theorem c33_one_peer_suffices :
  forall (st : hstore) (chain height msg : N) (pl : payload) (pm : list N) (p : N) (k : nat),
    let h := mkHeader chain height msg (map BkKey (repeat p k)) (repeat (SigOf p msg) k) pl in
    peer_set_for st h = Some pm -> In p pm -> (2 * Z.of_nat (length pm) <= 3 * Z.of_nat k)%Z ->
    (0 < k)%nat ->
    verify_header st h = ROk /\ NoDup pm /\ filter (has_valid_sig msg (h_sigs h)) pm = [p].
Proof.
  intros st chain height msg pl pm p k h Hp Hin Hc Hk.
  assert (Hn : NoDup pm).
  { unfold peer_set_for in Hp. destruct (find_key_height st (h_height h) (h_chain h)); [|discriminate].
    unfold get_consensus_peers in Hp. destruct (assoc2 (h_chain h) n (st_peers st)); [|discriminate].
    cbn in Hp. injection Hp as <-. apply peer_map_NoDup. }
  split; [|split; [exact Hn|]].
  - apply (verify_header_accepts st h pm (repeat p k) Hp).
    + reflexivity.
    + intros x Hx. apply repeat_spec in Hx. subst. exact Hin.
    + rewrite repeat_length. exact Hc.
    + cbn [h h_sigs h_msg]. clear. induction k; cbn; [reflexivity | f_equal; assumption].
  - apply (signing_peers_single pm p h Hn Hin).
    + intros s Hs. cbn in Hs. apply repeat_spec in Hs. exact Hs.
    + cbn. destruct k; [inversion Hk | discriminate].
Qed.
Print Assumptions c33_one_peer_suffices.

(** PARTIAL (everything outside the finding class): all stores, all headers whose bookkeeper
    list is duplicate-free, all signature lists. *)
Theorem c33_partial :
  forall (st : hstore) (h : xheader),
    in_finding_class h = false ->
    verify_header st h = ROk ->
    exists pm, peer_set_for st h = Some pm /\ NoDup pm /\
      (2 * Z.of_nat (length pm)
       <= 3 * Z.of_nat (length (filter (has_valid_sig (h_msg h) (h_sigs h)) pm)))%Z.
Proof.
  intros st h Hc E. apply verify_header_partial; [apply has_dup_false_NoDup; exact Hc | exact E].
Qed.
Print Assumptions c33_partial.

(** What acceptance guarantees for every header: each listed bookkeeper is a stored peer with a
    valid signature on this header, and 3 * (list LENGTH) >= 2 * |peers|. *)
Theorem c33_accepted_general :
  forall (st : hstore) (h : xheader),
    verify_header st h = ROk ->
    exists pm, peer_set_for st h = Some pm /\ NoDup pm /\
      (2 * Z.of_nat (length pm) <= 3 * Z.of_nat (length (h_bookkeepers h)))%Z /\
      (forall b, In b (h_bookkeepers h) ->
         exists k, b = BkKey k /\ In k pm /\ existsb (sig_verify k (h_msg h)) (h_sigs h) = true).
Proof. exact verify_header_ok_general. Qed.
Print Assumptions c33_accepted_general.

(** ... hence the signing peers are at least the DISTINCT bookkeepers (not two thirds). *)
Theorem c33_distinct_bookkeepers_count :
  forall (st : hstore) (h : xheader),
    verify_header st h = ROk ->
    exists pm, peer_set_for st h = Some pm /\ NoDup pm /\
      (length (nodup N.eq_dec (map bk_pid (h_bookkeepers h)))
       <= length (filter (has_valid_sig (h_msg h) (h_sigs h)) pm))%nat.
Proof. exact distinct_bookkeepers_sign. Qed.
Print Assumptions c33_distinct_bookkeepers_count.

(** The smallest repair (reject a bookkeeper list naming a key twice, then the code as it is)
    has the full statement. *)
Theorem c33_repaired_full :
  forall (st : hstore) (h : xheader),
    verify_header_repaired st h = ROk ->
    exists pm, peer_set_for st h = Some pm /\ NoDup pm /\
      (2 * Z.of_nat (length pm)
       <= 3 * Z.of_nat (length (filter (has_valid_sig (h_msg h) (h_sigs h)) pm)))%Z.
Proof. exact verify_header_repaired_full. Qed.
Print Assumptions c33_repaired_full.

(** Contract level: a header that SyncBlockHeader newly records was accepted by VerifyHeader
    against the peer records of the state it was processed in; outside the finding class it
    therefore carries two thirds of that state's peer set. *)
Theorem c33_sync_partial :
  forall (hs : list xheader) (c c' : cstate) (chain height : N),
    sync_block_header c hs = (ROk, c') ->
    has_header c' chain height = true -> has_header c chain height = false ->
    exists h c0, In h hs /\ h_chain h = chain /\ h_height h = height /\
      verify_header (c_store c0) h = ROk /\
      (in_finding_class h = false ->
       exists pm, peer_set_for (c_store c0) h = Some pm /\ NoDup pm /\
         (2 * Z.of_nat (length pm)
          <= 3 * Z.of_nat (length (filter (has_valid_sig (h_msg h) (h_sigs h)) pm)))%Z).
Proof.
  intros hs c c' chain height E H1 H0.
  destruct (sync_block_header_verified hs c c' E chain height H1 H0) as [h [c0 [Hi [Hc [Hh Hv]]]]].
  exists h, c0. repeat split; try assumption.
  intros Hf. apply c33_partial; assumption.
Qed.
Print Assumptions c33_sync_partial.

(** A failing SyncBlockHeader leaves the contract state as it was. *)
Theorem c33_sync_error_keeps_state :
  forall hs c e c', sync_block_header c hs = (RErr e, c') -> c' = c.
Proof. exact sync_block_header_error_keeps_state. Qed.
Print Assumptions c33_sync_error_keeps_state.

(** WHICH peer set: the rule "the set announced at the greatest stored key height below the
    header's height", stated over the stored key heights as a multiset ([max_below]: its value is
    characterised by [c33_max_below_spec] and does not depend on the order of the list,
    [c33_max_below_order_independent]). *)
Theorem c33_max_below_spec : forall l h v,
  max_below l h = Some v -> In v l /\ v < h /\ forall u, In u l -> u < h -> u <= v.
Proof. exact max_below_some. Qed.
Print Assumptions c33_max_below_spec.

Theorem c33_max_below_none : forall l h, max_below l h = None -> forall u, In u l -> h <= u.
Proof. exact max_below_none. Qed.
Print Assumptions c33_max_below_none.

Theorem c33_max_below_order_independent : forall l l' h,
  Permutation l l' -> max_below l h = max_below l' h.
Proof. exact max_below_perm. Qed.
Print Assumptions c33_max_below_order_independent.

(** Key heights inserted in ANY order: the list the code keeps (append, stable sort big -> small
    on every write) makes findKeyHeight's "first entry below h" the greatest inserted height
    below h. *)
Theorem c33_insertion_order_independent : forall (inserted : list N) (h : N),
  find (fun v => v <? h) (kh_sort inserted) = max_below inserted h.
Proof. exact insertion_order_independent. Qed.
Print Assumptions c33_insertion_order_independent.

(** One putConsensusPeers (shape of the code read from the AST, Gen/CrossHeaderShape.v): the
    chain's stored list gains exactly the new height and is written big -> small; other chains
    are untouched. *)
Theorem c33_put_records_height : forall st chain height ids,
  Permutation (get_key_heights (put_consensus_peers st chain height ids) chain)
              (height :: get_key_heights st chain) /\
  desc (get_key_heights (put_consensus_peers st chain height ids) chain) /\
  (forall c2, c2 <> chain ->
     get_key_heights (put_consensus_peers st chain height ids) c2 = get_key_heights st c2).
Proof.
  intros. rewrite put_key_heights_same. split; [apply kh_store_add_perm|].
  split; [apply kh_store_add_desc|]. intros. apply put_key_heights_other. assumption.
Qed.
Print Assumptions c33_put_records_height.

(** In every contract state reachable from empty storage through SyncGenesisHeader and
    SyncBlockHeader calls (any headers, any order of heights), findKeyHeight returns the rule's
    key height, whatever order the key headers arrived in. *)
Theorem c33_key_height_rule : forall c, reachable c -> forall h chain,
  find_key_height (c_store c) h chain = max_below (get_key_heights (c_store c) chain) h.
Proof. exact reachable_find_key_height. Qed.
Print Assumptions c33_key_height_rule.

(** ... so, outside the finding class, an accepted header carries two thirds of the peer set
    announced at the greatest stored key height below its height. *)
Theorem c33_governing_set_partial : forall c, reachable c -> forall h,
  in_finding_class h = false ->
  verify_header (c_store c) h = ROk ->
  exists kh pm,
    max_below (get_key_heights (c_store c) (h_chain h)) (h_height h) = Some kh /\
    get_consensus_peers (c_store c) (h_chain h) kh = Some pm /\ NoDup pm /\
    (2 * Z.of_nat (length pm)
     <= 3 * Z.of_nat (length (filter (has_valid_sig (h_msg h) (h_sigs h)) pm)))%Z.
Proof.
  intros c R h Hc E. destruct (c33_partial (c_store c) h Hc E) as [pm [Hp [Hn Ht]]].
  unfold peer_set_for in Hp. rewrite (c33_key_height_rule c R) in Hp.
  destruct (max_below (get_key_heights (c_store c) (h_chain h)) (h_height h)) as [kh|]; [|discriminate].
  exists kh, pm. repeat split; assumption.
Qed.
Print Assumptions c33_governing_set_partial.

(** Hostile key ENCODINGS.  A bookkeeper entry whose decoded key object is not a genuine key
    ([BkForged pid]: e.g. an uncompressed off-curve point sharing X and the parity of Y with peer
    [pid], so that it has that peer's id) is never part of an accepted header: under such a key the
    library's verify fails or panics, signature.verify turns both into "does not verify", and
    VerifyHeader needs every listed position verified. *)
Theorem c33_forged_key_never_accepted :
  forall (st : hstore) (h : xheader),
    verify_header st h = ROk -> forall b, In b (h_bookkeepers h) -> exists k, b = BkKey k.
Proof.
  intros st h E b Hb. destruct (verify_header_ok_general st h E) as [pm [_ [_ [_ Hk]]]].
  destruct (Hk b Hb) as [k [-> _]]. exists k. reflexivity.
Qed.
Print Assumptions c33_forged_key_never_accepted.

(** VerifyMultiSignature with nothing but keys under which verify fails or panics returns an
    error for every positive threshold and every signature list. *)
Theorem c33_multisig_forged_only_errors :
  forall msg keys m sigs,
    (forall b, In b keys -> exists p, b = BkForged p) -> (0 < m)%Z ->
    verify_multi msg keys m sigs <> None.
Proof. exact verify_multi_forged_only. Qed.
Print Assumptions c33_multisig_forged_only_errors.

(** The model's "index out of range" value is never produced. *)
Theorem c33_no_panic : forall st h, verify_header st h <> RErr EPanic.
Proof. exact verify_header_no_panic. Qed.
Print Assumptions c33_no_panic.

(** Non-vacuity: acceptance is reachable outside the finding class — any duplicate-free list of
    stored peers reaching the count, each signing once, is accepted (general), and a concrete
    4-peer state with 3 distinct signers is accepted with exactly those 3 counted. *)
Theorem c33_honest_accepted :
  forall (st : hstore) (h : xheader) (pm ks : list N),
    peer_set_for st h = Some pm ->
    h_bookkeepers h = map BkKey ks ->
    (forall k, In k ks -> In k pm) ->
    (2 * Z.of_nat (length pm) <= 3 * Z.of_nat (length ks))%Z ->
    h_sigs h = map (fun k => SigOf k (h_msg h)) ks ->
    verify_header st h = ROk.
Proof. exact verify_header_accepts. Qed.
Print Assumptions c33_honest_accepted.

Example c33_nonvacuous :
  let st := mkStore [(1, [10; 0])] [((1, 0), [1; 2; 3; 4]); ((1, 10), [5; 6; 7])] in
  let h := mkHeader 1 5 7 [BkKey 3; BkKey 1; BkKey 2] [SigOf 1 7; SigOf 2 7; SigOf 3 7] PNone in
  in_finding_class h = false /\ verify_header st h = ROk /\
  peer_set_for st h = Some [1; 2; 3; 4] /\
  filter (has_valid_sig (h_msg h) (h_sigs h)) [1; 2; 3; 4] = [1; 2; 3] /\
  (* one signature fewer, or a signature by a non-listed peer, is refused *)
  verify_header st (mkHeader 1 5 7 [BkKey 3; BkKey 1; BkKey 2] [SigOf 1 7; SigOf 2 7] PNone) = RErr ENotEnoughSigs /\
  verify_header st (mkHeader 1 5 7 [BkKey 3; BkKey 1; BkKey 2] [SigOf 1 7; SigOf 2 7; SigOf 4 7] PNone) = RErr EMultiFailed /\
  verify_header st (mkHeader 1 5 7 [BkKey 3; BkKey 1] [SigOf 1 7; SigOf 3 7] PNone) = RErr ETooFew.
Proof. vm_compute. repeat split; reflexivity. Qed.

(** Non-vacuity of the epoch rule: key headers 200 then 100 delivered out of order after genesis 0
    (peer sets P0 = 1..4, P200 = 5..8 announced at 200, P100 = 1,2,5,6 announced at 100): the
    stored list is [200; 100; 0], a header at 250 is governed by P200, one at 150 by P100. *)
Example c33_epochs_nonvacuous :
  let g := mkHeader 1 0 1 [] [] (PPeers [1; 2; 3; 4]) in
  let k200 := mkHeader 1 200 2 [BkKey 1; BkKey 2; BkKey 3] [SigOf 1 2; SigOf 2 2; SigOf 3 2] (PPeers [5; 6; 7; 8]) in
  let k100 := mkHeader 1 100 3 [BkKey 2; BkKey 3; BkKey 4] [SigOf 2 3; SigOf 3 3; SigOf 4 3] (PPeers [1; 2; 5; 6]) in
  let c1 := snd (sync_genesis (mkC (mkStore [] []) []) g) in
  let c2 := snd (sync_block_header c1 [k200]) in
  let c3 := snd (sync_block_header c2 [k100]) in
  reachable c3 /\
  get_key_heights (c_store c3) 1 = [200; 100; 0] /\
  verify_header (c_store c3) (mkHeader 1 250 4 [BkKey 5; BkKey 6; BkKey 7] [SigOf 5 4; SigOf 6 4; SigOf 7 4] PNone) = ROk /\
  verify_header (c_store c3) (mkHeader 1 250 4 [BkKey 1; BkKey 2; BkKey 5] [SigOf 1 4; SigOf 2 4; SigOf 5 4] PNone) = RErr ENotPeer /\
  verify_header (c_store c3) (mkHeader 1 150 5 [BkKey 1; BkKey 2; BkKey 5] [SigOf 1 5; SigOf 2 5; SigOf 5 5] PNone) = ROk.
Proof.
  cbv zeta. split; [repeat constructor|]. vm_compute. repeat split; reflexivity.
Qed.

(** Non-vacuity of the hostile-encoding clause: peer 3's id on a forged key, the two other listed
    peers signing genuinely, any third signature: refused. *)
Example c33_forged_nonvacuous :
  let st := mkStore [(1, [0])] [((1, 0), [1; 2; 3; 4])] in
  verify_header st (mkHeader 1 5 7 [BkForged 3; BkKey 1; BkKey 2] [SigOf 3 7; SigOf 1 7; SigOf 2 7] PNone)
    = RErr EMultiFailed /\
  verify_header st (mkHeader 1 5 7 [BkKey 3; BkKey 1; BkKey 2] [SigOf 3 7; SigOf 1 7; SigOf 2 7] PNone) = ROk.
Proof. vm_compute. split; reflexivity. Qed.
