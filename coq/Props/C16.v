(** C16 - Only correctly signed transactions paid by a signer are accepted.

    Model: Model/Sig.v (checkTransactionSignatures, signature.Verify, VerifyMultiSignature,
    RawSig.GetSig) on top of Model/Program.v (script parsers and address derivation, C23).
    The validator's three integer guards are Gen/SigGuards.v (translated from the source text).

    Theorems 1, 2, 3 hold for ANY signature scheme: [sdeser] (signature.Deserialize) and [sverify]
    (signature.Verify, which may answer true, false or panic) are universally quantified, as are
    the key deserializer and the two address hashes (so are c16_bad_signature_rejected and
    c16_no_crash).  Theorems 4-7 and 9 are about the abstract signatures of DESIGN section 2 (a signature IS the pair (signer, message): unforgeability is
    part of the model and listed in the trusted base).

    The transaction hash is a field of the validator's input here; that it is
    sha256(sha256(unsigned bytes)) and therefore changes with every byte of the signed content
    (or exhibits a SHA-256 collision) is c19_hash_binds_unsigned / c19_hash_binds_content. *)
From Coq Require Import List Bool NArith ZArith Lia.
Import ListNotations.
From Ont Require Import Lib.Bytes Model.Codec Gen.ProgramConsts Model.Program Model.Sig.
From Ont Require Import Proofs.Sig Proofs.SigTotal Proofs.SigAbs.
From Ont Require Gen.TxConsts Model.TxCodec Proofs.TxCodec.
From Ont Require Import Model.SigTx Proofs.SigTx.
Local Open Scope N_scope.

(** 1. accept_sound.  If the validator accepts an Ontology-format transaction, then: there are at
    most 16 signature sets; EVERY set parses, has 1 <= M <= N <= 16 and at least M signatures, and
    its first M signatures verify over THIS transaction's hash under keys at M pairwise distinct
    positions of its key list ([sigset_valid]); the recorded signer accounts are exactly the
    addresses derived from the parsed keys of the sets (no duplicates); the payer is one of them. *)
Theorem c16_accept_sound :
  forall deser sigT sdeser sverify H Keth t addrs,
  check_transaction_signatures deser sigT sdeser sverify H Keth t = VAccept addrs ->
  v_eip t = false /\
  (length (v_sigs t) <= 16)%nat /\
  Forall (fun r => exists ss a, get_sig deser r = inl ss /\
                                sigset_valid sigT sdeser sverify (v_hash t) ss /\
                                sigset_address H Keth ss = AOk a /\ In a addrs) (v_sigs t) /\
  (forall a, In a addrs ->
     exists r ss, In r (v_sigs t) /\ get_sig deser r = inl ss /\ sigset_address H Keth ss = AOk a) /\
  In (v_payer t) addrs /\ NoDup addrs.
Proof. exact accept_sound_proof. Qed.
Print Assumptions c16_accept_sound.

(** 2. mutation_rejected, payer: replacing the payer of an accepted transaction by any account
    that is not one of its signer accounts is rejected with "signature missing for payer" - even
    if the hash were left unchanged. *)
Theorem c16_payer_mutation_rejected :
  forall deser sigT sdeser sverify H Keth t addrs p',
  check_transaction_signatures deser sigT sdeser sverify H Keth t = VAccept addrs -> ~ In p' addrs ->
  check_transaction_signatures deser sigT sdeser sverify H Keth
    (mkVtx (v_eip t) (v_hash t) p' (v_sigs t)) = VReject VEPayer.
Proof. exact payer_mutation_proof. Qed.
Print Assumptions c16_payer_mutation_rejected.

(** 3. mutation_rejected, signatures and structure (any scheme): a transaction is NOT accepted if
    (a) one of the first M ("counted") signatures of some set verifies under none of that set's
    keys, or (b) some set has fewer signatures than its threshold, or (c) some set's scripts do
    not parse. *)
Theorem c16_bad_signature_not_accepted :
  forall deser sigT sdeser sverify H Keth t r,
  In r (v_sigs t) ->
  (forall ss i sb, get_sig deser r = inl ss ->
     (i < N.to_nat (ss_m ss))%nat -> nth_error (ss_sigdata ss) i = Some sb ->
     (forall k, In k (ss_keys ss) -> ~ verifies sigT sdeser sverify k (v_hash t) sb) ->
     forall addrs, check_transaction_signatures deser sigT sdeser sverify H Keth t <> VAccept addrs) /\
  (forall ss, get_sig deser r = inl ss -> (length (ss_sigdata ss) < N.to_nat (ss_m ss))%nat ->
     forall addrs, check_transaction_signatures deser sigT sdeser sverify H Keth t <> VAccept addrs) /\
  (forall e, get_sig deser r = inr e ->
     forall addrs, check_transaction_signatures deser sigT sdeser sverify H Keth t <> VAccept addrs).
Proof.
  intros deser sigT sdeser sverify H Keth t r Hr. split; [|split].
  - intros ss i sb G Hi Hs Bad. eapply bad_signature_not_accepted_proof; eassumption.
  - intros ss G L. eapply too_few_signatures_not_accepted_proof; eassumption.
  - intros e G. eapply unparsable_not_accepted_proof; eassumption.
Qed.
Print Assumptions c16_bad_signature_not_accepted.

(** 4. accept_sound with abstract signatures: each counted signature IS a signature over this
    transaction's hash made by the holder of the key at its position ([signed_by]). *)
Theorem c16_accept_sound_abstract :
  forall weak deser sdeser H Keth t addrs,
  check_transaction_signatures deser asig sdeser (abs_verify weak) H Keth t = VAccept addrs ->
  Forall (fun r => exists ss a, get_sig deser r = inl ss /\ sigset_signed sdeser (v_hash t) ss /\
                                sigset_address H Keth ss = AOk a /\ In a addrs) (v_sigs t) /\
  In (v_payer t) addrs.
Proof.
  intros weak deser sdeser H Keth t addrs E.
  destruct (accept_sound_proof _ _ _ _ _ _ _ _ E) as (_ & _ & F & _ & P & _).
  split; [|exact P]. eapply Forall_impl; [|exact F].
  intros r (ss & a & G & V & A & I). exists ss, a. split; [exact G|]. split; [|auto].
  eapply sigset_valid_signed. exact V.
Qed.
Print Assumptions c16_accept_sound_abstract.

(** 5. "the required number of distinct keys": when the key list of a set does not name one signer
    at two positions, the M counted signatures were made by M pairwise different signers.
    (Duplicate keys inside one m-of-n script define that account and are not excluded by the code:
    they are the hypothesis here.) *)
Theorem c16_counted_signers_distinct :
  forall sdeser h ss, sigset_signed sdeser h ss ->
  (forall p q kp kq, p <> q -> nth_error (ss_keys ss) p = Some kp -> nth_error (ss_keys ss) q = Some kq ->
     same_signer kp kq = false) ->
  forall i j sbi sbj a b, (i < N.to_nat (ss_m ss))%nat -> (j < N.to_nat (ss_m ss))%nat -> i <> j ->
    nth_error (ss_sigdata ss) i = Some sbi -> nth_error (ss_sigdata ss) j = Some sbj ->
    forall pa pb, sdeser sbi = Some (SigOf a h pa) -> sdeser sbj = Some (SigOf b h pb) ->
    same_signer a b = false.
Proof. exact counted_signers_distinct_proof. Qed.
Print Assumptions c16_counted_signers_distinct.

(** 6. mutation_rejected, signed content: the signatures of an accepted transaction attached to
    ANY other hash (any payer) are never accepted. *)
Theorem c16_hash_mutation_not_accepted :
  forall weak deser sdeser H Keth t addrs h' p',
  check_transaction_signatures deser asig sdeser (abs_verify weak) H Keth t = VAccept addrs ->
  h' <> v_hash t ->
  forall addrs', check_transaction_signatures deser asig sdeser (abs_verify weak) H Keth (mkVtx false h' p' (v_sigs t)) <> VAccept addrs'.
Proof. exact hash_mutation_not_accepted_proof. Qed.
Print Assumptions c16_hash_mutation_not_accepted.

(** 7. mutation_rejected ("... makes it REJECTED": the validator returns an error), FULL statement,
    proved since the repair c4422b91 (core/signature calls the crypto library's Verify under a
    recover; before it the statement was refuted by two panic classes, now regression probes in
    corpus/C16).  [deser_sane]: every key the key deserializer returns has a serialization of
    1..2^32-1 bytes (true of keypair.DeserializePublicKey: 33..133 bytes).
    (a) an Ontology-format transaction in which a counted signature of some set is not a signature
        over the transaction hash by any of that set's keys is rejected;
    (b) the signatures of an accepted transaction under another hash (any payer) are rejected. *)
Theorem c16_mutation_rejected :
  forall weak deser sdeser H Keth, deser_sane deser ->
  forall t,
  (forall r ss i sb,
     v_eip t = false -> In r (v_sigs t) -> get_sig deser r = inl ss ->
     (i < N.to_nat (ss_m ss))%nat -> nth_error (ss_sigdata ss) i = Some sb ->
     (forall k, In k (ss_keys ss) -> ~ signed_by sdeser k (v_hash t) sb) ->
     exists e, check_transaction_signatures deser asig sdeser (abs_verify weak) H Keth t = VReject e) /\
  (forall addrs h' p',
     check_transaction_signatures deser asig sdeser (abs_verify weak) H Keth t = VAccept addrs -> h' <> v_hash t ->
     exists e, check_transaction_signatures deser asig sdeser (abs_verify weak) H Keth (mkVtx false h' p' (v_sigs t)) = VReject e).
Proof.
  intros weak deser sdeser H Keth Sane t. split.
  - intros r ss i sb Eip Hr G Hi Hs Bad. eapply signature_mutation_rejected_proof; eassumption.
  - intros addrs h' p' E N. eapply hash_mutation_rejected_proof; eassumption.
Qed.
Print Assumptions c16_mutation_rejected.

(** ... and for ANY signature scheme (Verify may panic; the wrapper recovers): a counted signature
    that verifies under no key of its set makes the transaction rejected. *)
Theorem c16_bad_signature_rejected :
  forall deser sigT sdeser sverify H Keth, deser_sane deser ->
  forall t r ss i sb,
  v_eip t = false -> In r (v_sigs t) -> get_sig deser r = inl ss ->
  (i < N.to_nat (ss_m ss))%nat -> nth_error (ss_sigdata ss) i = Some sb ->
  (forall k, In k (ss_keys ss) -> ~ verifies sigT sdeser sverify k (v_hash t) sb) ->
  exists e, check_transaction_signatures deser sigT sdeser sverify H Keth t = VReject e.
Proof. exact bad_signature_rejected_proof. Qed.
Print Assumptions c16_bad_signature_rejected.

(** 8. The validator never panics, whatever the crypto library's Verify does (true, false, panic):
    the only panic sites left in the model are the index expressions sig.PubKeys[0],
    sig.SigData[0], sigs[i] (excluded by the guards, proved here) and PushBytes of an empty key
    serialization (excluded by [deser_sane]).  GetProgramInfo / GetParamInfo are total on all
    byte strings (c23_parser_total). *)
Theorem c16_no_crash :
  forall deser sigT sdeser sverify H Keth, deser_sane deser ->
  forall t, check_transaction_signatures deser sigT sdeser sverify H Keth t <> VCrash.
Proof. exact no_crash_proof. Qed.
Print Assumptions c16_no_crash.

(** The two former crash witnesses, in the model of the repaired code: the library's Verify
    panics ([SigEthShort] with an Ethereum-style key; a [weak] key with a signature that reaches
    the curve arithmetic), the validator answers "signature verification failed". *)
Definition w_keth : pubkey := mkKey PK_ETHECDSA 0 7 9 [21; 4; 7; 9].
Definition w_deser (b : bytes) : option pubkey := if bytes_eqb b (pk_ser w_keth) then Some w_keth else None.
Definition w_sdeser (b : bytes) : option asig := if bytes_eqb b [11; 1; 2] then Some SigEthShort else None.
Definition w_tx : vtx := mkVtx false [1; 2; 3] [9] [mkRawSig [3; 11; 1; 2] [4; 21; 4; 7; 9; 172]].
Definition w_kweak : pubkey := mkKey PK_ECDSA 20 7 5 [18; 20; 2; 7].
Definition w2_weak (k : pubkey) : bool := pubkey_eqb k w_kweak.
Definition w2_deser (b : bytes) : option pubkey := if bytes_eqb b [18; 20; 4; 7; 5] then Some w_kweak else None.
Definition w2_sdeser (b : bytes) : option asig := if bytes_eqb b [1; 1; 1] then Some (SigJunk [20]) else None.
Definition w2_tx : vtx := mkVtx false [1; 2; 3] [9] [mkRawSig [3; 1; 1; 1] [5; 18; 20; 4; 7; 5; 172]].

Example c16_former_crash_witnesses_rejected :
  abs_verify (fun _ => false) w_keth [1; 2; 3] SigEthShort = VPanic /\
  check_transaction_signatures w_deser asig w_sdeser (abs_verify (fun _ => false)) (fun b => b) (fun b => b) w_tx = VReject VESingle /\
  abs_verify w2_weak w_kweak [1; 2; 3] (SigJunk [20]) = VPanic /\
  check_transaction_signatures w2_deser asig w2_sdeser (abs_verify w2_weak) (fun b => b) (fun b => b) w2_tx = VReject VESingle.
Proof. repeat split; vm_compute; reflexivity. Qed.

(** 9. On transaction BYTES (decoder of C19 composed with the validator): two inputs that decode
    to Ontology-format transactions carrying the same signature section but different signed
    bytes (the unsigned part: version, type, nonce, gas price, gas limit, payer, payload,
    attribute count) - if the first is accepted, the second is never accepted, or the two signed
    byte strings exhibit a collision of the hash function (sha256). *)
Theorem c16_signed_bytes_mutation_not_accepted :
  forall (Hsha : bytes -> bytes) etx (E : TxCodec.ethapi etx),
  (forall b e, TxCodec.rlp_dec E b = Some e -> TxCodec.rlp_enc E e = b) ->
  forall weak deser sdeser H Keth s1 s1' t1 s2 s2' t2 addrs,
  Proofs.TxCodec.good s1 -> Proofs.TxCodec.good s2 ->
  TxCodec.tx_deserialization Hsha E s1 = (inl t1, s1') -> TxCodec.tx_deserialization Hsha E s2 = (inl t2, s2') ->
  TxCodec.t_type t1 <> TxConsts.TX_EIP155 -> TxCodec.t_type t2 <> TxConsts.TX_EIP155 ->
  check_transaction_signatures deser asig sdeser (abs_verify weak) H Keth (vtx_of_tx t1) = VAccept addrs ->
  TxCodec.t_sigs t2 = TxCodec.t_sigs t1 ->
  TxCodec.tx_encode_unsigned E t1 <> TxCodec.tx_encode_unsigned E t2 ->
  (forall addrs', check_transaction_signatures deser asig sdeser (abs_verify weak) H Keth (vtx_of_tx t2) <> VAccept addrs') \/
  (exists x y, x <> y /\ Hsha x = Hsha y).
Proof.
  intros Hsha etx E C weak deser sdeser H Keth. exact (signed_bytes_mutation_proof Hsha etx E C weak deser sdeser H Keth).
Qed.
Print Assumptions c16_signed_bytes_mutation_not_accepted.

(** Non-vacuity: a concrete transaction with a 2-of-3 set (keys of three different types) and a
    single-key set is accepted; its payer is the single-key account; the same signatures under
    another hash, a foreign payer, and a counted signature replaced by a signature over another
    message are each rejected. *)
Definition ex_k1 : pubkey := mkKey PK_EDDSA 0 9 0 [20; 25; 9; 9].
Definition ex_k2 : pubkey := mkKey PK_ECDSA 2 5 7 [2; 1; 1; 1; 5].
Definition ex_k3 : pubkey := mkKey PK_SM2 20 6 8 [19; 20; 2; 6].
Definition ex_k4 : pubkey := mkKey PK_ECDSA 2 11 13 [3; 1; 1; 1; 11].
Definition ex_keys := [ex_k1; ex_k2; ex_k3; ex_k4].
Definition ex_deser (b : bytes) : option pubkey := find (fun k => bytes_eqb b (pk_ser k)) ex_keys.
Definition ex_h : bytes := [7; 7; 7].
Definition ex_h' : bytes := [7; 7; 8].
(** signature byte strings: [100; i] = key i over ex_h, [101; i] = key i over ex_h'. *)
Definition ex_sdeser (b : bytes) : option asig :=
  match b with
  | [100; i] => match nth_error ex_keys (N.to_nat i) with Some k => Some (SigOf k ex_h []) | None => None end
  | [101; i] => match nth_error ex_keys (N.to_nat i) with Some k => Some (SigOf k ex_h' []) | None => None end
  | [102; _] => Some (SigJunk [])
  | _ => None
  end.
Definition ex_H (b : bytes) : bytes := 1 :: b.
Definition ex_multi : bytes :=
  match program_from_multi_pubkey [ex_k1; ex_k2; ex_k3] 2 with BOk p => p | _ => [] end.
Definition ex_single : bytes := match program_from_pubkey ex_k4 with Some p => p | None => [] end.
Definition ex_inv (sigs : list bytes) : bytes := match program_from_params sigs with Some p => p | None => [] end.
Definition ex_tx (sigs1 sigs2 : list bytes) (h payer : bytes) : vtx :=
  mkVtx false h payer [mkRawSig (ex_inv sigs1) ex_multi; mkRawSig (ex_inv sigs2) ex_single].
Definition ex_weak (k : pubkey) : bool := false.
Definition ex_run := check_transaction_signatures ex_deser asig ex_sdeser (abs_verify ex_weak) ex_H ex_H.

Example c16_nonvacuous :
  ex_run (ex_tx [[100; 2]; [100; 0]] [[100; 3]] ex_h (ex_H ex_single)) = VAccept [ex_H ex_multi; ex_H ex_single] /\
  ex_run (ex_tx [[100; 2]; [100; 0]] [[100; 3]] ex_h' (ex_H ex_single)) = VReject VEMulti /\
  ex_run (ex_tx [[100; 2]; [100; 0]] [[100; 3]] ex_h [1; 2; 3]) = VReject VEPayer /\
  ex_run (ex_tx [[100; 2]; [101; 0]] [[100; 3]] ex_h (ex_H ex_single)) = VReject VEMulti /\
  ex_run (ex_tx [[100; 2]; [100; 2]] [[100; 3]] ex_h (ex_H ex_single)) = VReject VEMulti /\
  ex_run (ex_tx [[100; 2]] [[100; 3]] ex_h (ex_H ex_single)) = VReject VEParamLen /\
  ex_run (ex_tx [[100; 2]; [100; 0]] [[100; 1]] ex_h (ex_H ex_single)) = VReject VESingle /\
  deser_sane ex_deser.
Proof.
  do 7 (split; [vm_compute; reflexivity|]).
  intros b k D. unfold ex_deser in D. apply find_some in D. destruct D as [Hk _].
  repeat (destruct Hk as [<-|Hk]; [split; [discriminate|vm_compute; reflexivity]|]). destruct Hk.
Qed.

(** 10. "... with the required number of distinct KEYS", read literally (keys, not key-list
    positions).  FULL statement: every set of an accepted transaction has M pairwise different keys
    of its script, each with a valid signature over the transaction hash among the attached ones. *)
Definition c16_distinct_keys : Prop :=
  forall weak deser sdeser H Keth t addrs,
  check_transaction_signatures deser asig sdeser (abs_verify weak) H Keth t = VAccept addrs ->
  Forall (fun r => exists ss, get_sig deser r = inl ss /\
     exists ks : list pubkey, NoDup ks /\ length ks = N.to_nat (ss_m ss) /\
       forall k, In k ks -> In k (ss_keys ss) /\
                            exists sb, In sb (ss_sigdata ss) /\ signed_by sdeser k (v_hash t) sb) (v_sigs t).

(** It is REFUTED by the model of the current code (known finding C16
    `accepted-invalid:duplicate-key-counted-twice`, reproduced on the implementation on every run):
    GetProgramInfo accepts a verification script that repeats a public key, VerifyMultiSignature
    counts key POSITIONS, so in the hand-written script 2-of-[K, K, K'] the one signature of K meets
    the threshold of two; the account is the hash of that very script.  Outside scripts with a
    repeated key the statement holds: c16_counted_signers_distinct (theorem 5). *)
Definition dk_script : bytes :=
  match multi_script 2 [ex_k2; ex_k2; ex_k1] 3 with Some p => p | None => [] end.
Definition dk_tx : vtx := mkVtx false ex_h (ex_H dk_script) [mkRawSig (ex_inv [[100; 1]; [100; 1]]) dk_script].

Example c16_duplicate_key_witness : ex_run dk_tx = VAccept [ex_H dk_script].
Proof. vm_compute. reflexivity. Qed.

Theorem c16_distinct_keys_refuted : ~ c16_distinct_keys.
Proof.
  intro F.
  pose proof (F ex_weak ex_deser ex_sdeser ex_H ex_H dk_tx [ex_H dk_script] c16_duplicate_key_witness) as A.
  inversion A as [|r l (ss & G & ks & ND & L & P) _]. subst.
  vm_compute in G. injection G as <-. cbn [ss_m ss_keys ss_sigdata] in *.
  assert (Only : forall k, In k ks -> k = ex_k2).
  { intros k Hk. destruct (P k Hk) as (Ik & sb & Hs & (k' & pc & D & S)).
    destruct Ik as [<-|[<-|[<-|[]]]]; try reflexivity.
    exfalso. destruct Hs as [<-|[<-|[]]]; vm_compute in D; injection D as <- _; vm_compute in S; discriminate. }
  destruct ks as [|x [|y [|z w]]]; try (vm_compute in L; discriminate).
  pose proof (Only x (or_introl eq_refl)) as Ex. pose proof (Only y (or_intror (or_introl eq_refl))) as Ey.
  subst. inversion ND as [|? ? NI _]. apply NI. left. reflexivity.
Qed.
Print Assumptions c16_distinct_keys_refuted.
