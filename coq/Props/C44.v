(** C44 — Contract migration and destruction move or remove all of its storage.

    "Migrating a contract makes every storage entry of the old contract readable under the new
     contract with the same value and leaves none under the old address; destroying a contract
     removes all its storage; and, once destroyed-contract tracking is active, a destroyed or
     migrated-away address can never be deployed or written to again."

    Model: Model/ContractStore.v on top of Model/KV.v (CacheDB over OverlayDB over LevelDB, LIVE
    MemDB iterator, exact JoinIter). MigrateContractStorage and CleanContractStorageData are the
    loops of the code: a prefix iterator advanced with Next while the body writes into the cache
    being iterated. Constants (the three DataEntryPrefix bytes, ADDR_LEN, the `key[20:]` offset,
    the marker width, the tracking heights, the call sequences of the mirrored functions) are
    regenerated from the source into Gen/ContractConsts.v on every run.

    Quantifiers. [s] ranges over ALL well-formed stores ([good_state]: three key-sorted layers of
    byte-string keys — any number of keys of any length, sharing prefixes, pending in the
    transaction cache, in the block overlay, in the persistent store, with tombstones anywhere);
    addresses over all 20-byte strings; histories over all lists of blocks of deploy / invoke
    transactions whose code makes any sequence of Create / Migrate / Destroy / Storage.Put /
    Storage.Delete / AddDestroyed / RemoveDestroyed calls under any executing address.

    The code as it is and the code as it is meant. [exec false] / [run_chain false] model the code
    AS IT IS: smartcontract/service/neovm/storage.go:checkStorageContext returns
    `errors.NewDetailErr(err, ...)` when `err != nil || item == nil`, and NewDetailErr(nil, ...) is nil,
    so Storage.Put / Storage.Delete accept a context whose contract does not exist or is destroyed.
    [exec true] / [run_chain true] differ only in making that test effective. The clause "never
    written to again" is therefore REFUTED for the code as it is ((6), (7): `_refuted` with concrete
    witnesses, replayed on the implementation by the driver, class
    `storage:write-through-missing-context`) and proved outside that class (`_partial`: every history on
    which making the test effective changes nothing); everything else — (2)-(5), and in (6) the marker,
    the missing record and the refusal of every deployment at / migration onto / call of the address —
    is proved for the code as it is.

    Fuel: the model's iterator functions take fuel; [snd r = true] in (2)-(4) says the fuel the
    model supplies is always enough (the outcome [NoFuel] / error [OutOfFuel] never occurs on
    well-formed stores, so it is excluded by theorem, not by hypothesis). *)
From Coq Require Import List Bool NArith.
Import ListNotations.
From Ont Require Import Lib.Bytes Model.KV Proofs.KV Gen.ContractConsts Model.ContractStore
  Proofs.C44Loop Proofs.C44Effect Proofs.C44Spec Proofs.C44Ops Proofs.C44 Proofs.C44Obs.
Local Open Scope N_scope.

(** (0) Tie to the source. The call sequences of MigrateContractStorage, CleanContractStorageData,
    CleanContractStorage and DeleteContract read from the current source are the ones the model
    mirrors; the slice offset in `key[20:]` is the address length; the three key name spaces are
    distinct; the marker value is never empty. All by computation on Gen/ContractConsts.v. *)
Theorem c44_source_shape :
  calls_in_source = calls_as_modelled /\
  C44_MIGRATE_KEY_SKIP = ADDR_LEN /\
  ST_STORAGE <> ST_CONTRACT /\ ST_STORAGE <> ST_DESTROYED /\ ST_CONTRACT <> ST_DESTROYED /\
  (forall h, marker h <> []) /\
  (forall h, (C44_TRACK_POLARIS <=? h) = true /\ (C44_TRACK_OTHER <=? h) = true).
Proof.
  split; [reflexivity|]. split; [reflexivity|].
  split; [discriminate|]. split; [discriminate|]. split; [discriminate|]. split.
  - intros h H. apply (f_equal is_empty) in H. rewrite marker_nonempty in H. discriminate.
  - intro h. split; apply N.leb_le; [unfold C44_TRACK_POLARIS|unfold C44_TRACK_OTHER]; apply N.le_0_l.
Qed.
Print Assumptions c44_source_shape.

(** (1) Prefix overlap. Contract addresses are fixed-length strings, so one contract's key space
    is never inside another's: a key under the prefix of [a] that starts with [b] of the same
    length has [a = b]. *)
Theorem c44_prefixes_disjoint : forall a b sfx,
  length a = length b -> has_prefix a (b ++ sfx) = true -> a = b.
Proof. intros a b sfx. apply has_prefix_same_length. Qed.
Print Assumptions c44_prefixes_disjoint.

(** (2) MigrateContractStorage(old, new, height), old <> new, from ANY well-formed store:
    the loop terminates ([snd r = true]), and afterwards
    - no key is left under [old] (Get on every suffix, and the prefix iterator is empty);
    - every entry that was under [old] reads back under [new] with the same value, and a key of
      [new] that had no counterpart under [old] keeps its value;
    - every other key of every name space is unchanged, except the contract record of [old]
      (deleted) and its destroyed marker (set to the height iff tracking is active);
    - the block overlay and the persistent store are untouched (all writes are in the cache). *)
Theorem c44_migrate_moves : forall track h old new s,
  good_state s = true -> is_addr old = true -> is_addr new = true -> old <> new ->
  let r := migrate_contract_storage track h old new s in
  snd r = true /\ good_state (fst r) = true /\ abs_block (fst r) = abs_block s /\
  (forall sfx, storage_at (fst r) old sfx = []) /\
  (forall sfx, storage_at (fst r) new sfx =
     if is_empty (storage_at s old sfx) then storage_at s new sfx else storage_at s old sfx) /\
  (forall pfx k,
     (pfx = ST_STORAGE -> has_prefix old k = false /\ has_prefix new k = false) ->
     ~ (pfx = ST_CONTRACT /\ k = old) -> ~ (pfx = ST_DESTROYED /\ k = old) ->
     cache_get pfx (fst r) k = cache_get pfx s k) /\
  contract_record (fst r) old = [] /\
  (track <= h -> is_destroyed (fst r) old = true /\ cache_get ST_DESTROYED (fst r) old = marker h) /\
  (h < track -> cache_get ST_DESTROYED (fst r) old = cache_get ST_DESTROYED s old) /\
  cache_iterate ST_STORAGE (fst r) old = ([], true).
Proof.
  intros track h old new s G. apply good_state_good in G. intros Ao An Hne.
  destruct (migrate_moves track h old new s G Ao An Hne) as (R1 & R2 & R).
  split; [exact R1|]. split; [apply good_state_good; exact R2|exact R].
Qed.
Print Assumptions c44_migrate_moves.

(** (2') The degenerate call MigrateContractStorage(a, a): every entry is put back under the same
    key and then deleted — nothing survives. (ContractMigrate cannot reach it for a deployed
    contract: ensureContractUndeployed refuses the target.) *)
Theorem c44_migrate_to_itself_erases : forall track h a s,
  good_state s = true -> is_addr a = true ->
  let r := migrate_contract_storage track h a a s in
  snd r = true /\ forall sfx, storage_at (fst r) a sfx = [].
Proof. intros track h a s G. apply good_state_good in G. apply migrate_to_itself_erases; exact G. Qed.
Print Assumptions c44_migrate_to_itself_erases.

(** (3) CleanContractStorage(a, height) from ANY well-formed store: terminates, leaves no key
    under [a] (Get and iterator), changes nothing else except the record of [a] (deleted) and its
    marker (set iff tracking is active). *)
Theorem c44_destroy_removes_all : forall track h a s,
  good_state s = true -> is_addr a = true ->
  let r := clean_contract_storage track h a s in
  snd r = true /\ good_state (fst r) = true /\ abs_block (fst r) = abs_block s /\
  (forall sfx, storage_at (fst r) a sfx = []) /\
  cache_iterate ST_STORAGE (fst r) a = ([], true) /\
  (forall pfx k,
     (pfx = ST_STORAGE -> has_prefix a k = false) ->
     ~ (pfx = ST_CONTRACT /\ k = a) -> ~ (pfx = ST_DESTROYED /\ k = a) ->
     cache_get pfx (fst r) k = cache_get pfx s k) /\
  contract_record (fst r) a = [] /\
  (track <= h -> is_destroyed (fst r) a = true /\ cache_get ST_DESTROYED (fst r) a = marker h) /\
  (h < track -> cache_get ST_DESTROYED (fst r) a = cache_get ST_DESTROYED s a).
Proof.
  intros track h a s G. apply good_state_good in G. intro Aa.
  destruct (destroy_removes_all track h a s G Aa) as (R1 & R2 & R).
  split; [exact R1|]. split; [apply good_state_good; exact R2|exact R].
Qed.
Print Assumptions c44_destroy_removes_all.

(** (4) Contract.Migrate as the NeoVM service runs it (ensureContractUndeployed, PutContract,
    MigrateContractStorage; code as it is): when it succeeds from [cur] to [new <> cur] and [new]
    owned no storage, the storage of [new] afterwards IS the storage of [cur] before, suffix by
    suffix, [cur] owns nothing, [new] carries the new record and [cur] none. *)
Theorem c44_contract_migrate_exact : forall track h cur new code s s',
  good_state s = true -> cop_wf (CMigrate cur new code) = true -> cur <> new ->
  (contract_record s new = [] -> forall sfx, storage_at s new sfx = []) ->
  exec false track h s (CMigrate cur new code) = Ok s' ->
  (forall sfx, storage_at s' new sfx = storage_at s cur sfx) /\
  (forall sfx, storage_at s' cur sfx = []) /\
  contract_record s' new = code /\ contract_record s' cur = [] /\
  cache_iterate ST_STORAGE s' cur = ([], true).
Proof. intros track h cur new code s s' G. apply good_state_good in G. apply contract_migrate_exact; exact G. Qed.
Print Assumptions c44_contract_migrate_exact.

(** (5) With tracking active (track <= height), Contract.Destroy and Contract.Migrate (code as it
    is) leave the executing address dead: marker set, GetContract = (nil, destroyed), no storage
    (Get on every suffix and the iterator). *)
Theorem c44_leaving_marks : forall track h a s s' o,
  good_state s = true -> is_addr a = true -> cop_wf o = true -> track <= h -> leaves a o ->
  exec false track h s o = Ok s' -> good_state s' = true /\ dead_now s' a.
Proof.
  intros track h a s s' o G Aa W Hh L E. apply good_state_good in G.
  destruct L as [->|(new & code & ->)].
  - destruct (destroy_marks false track h a s s' G Aa Hh E) as (G' & D & _). split; [apply good_state_good; exact G'|exact D].
  - destruct (migrate_marks false track h a new code s s' G W Hh E) as (G' & D). split; [apply good_state_good; exact G'|exact D].
Qed.
Print Assumptions c44_leaving_marks.

(** (6) "Destroyed is for ever" — the full statement, about the code as it is: if the next
    transaction would see [a] destroyed and owning no storage, then after ANY chain of blocks without
    the operator's RemoveDestroyed(a), [a] is still dead (marker, GetContract = (nil, destroyed),
    no storage by Get and by iterator) and NO transaction that deploys at [a], migrates onto [a],
    destroys [a] or puts / deletes under [a] has committed. *)
Definition c44_destroyed_forever_statement : Prop := forall track a bs s,
  good_state s = true -> is_addr a = true -> forallb block_wf bs = true -> existsb (block_unsets a) bs = false ->
  is_destroyed (next_view s) a = true -> (forall sfx, storage_at (next_view s) a sfx = []) ->
  let r := run_chain false track s bs in
  good_state (fst r) = true /\ dead_now (next_view (fst r)) a /\
  Forall2 (fun b os => Forall2 (fun t o => tx_touches a t = true -> o <> Committed) (b_txs b) os) bs (snd r).

(** The finding class: histories on which making checkStorageContext effective changes the run,
    i.e. some committed transaction wrote or deleted through a missing / destroyed context. *)
Definition outside_finding_class (track : N) (s : state) (bs : list block) : Prop :=
  run_chain false track s bs = run_chain true track s bs.
Definition in_finding_class (track : N) (s : state) (bs : list block) : Prop :=
  ~ outside_finding_class track s bs.

Definition ex_a1 : bytes := repeat 7 19 ++ [1].
Definition ex_a2 : bytes := repeat 7 19 ++ [2].
Definition ex_a3 : bytes := repeat 255 20.
Definition ex_code : bytes := [1; 2; 3].

(** witness: [a] carries only a marker; one invoke transaction whose code runs under [a] (an entry
    script that IS the destroyed contract's code, or the contract's own code after Contract.Destroy
    in the same execution) calls Storage.Put. *)
Definition wit_dead_state : state := mkState [] [] [(6 :: ex_a1, [1; 0; 0; 0])].
Definition wit_chain : list block := [mkBlock 1 [TInvoke [CPut ex_a1 [1] [2]]]].

Theorem c44_destroyed_forever_refuted : ~ c44_destroyed_forever_statement.
Proof.
  intro H.
  destruct (H 0 ex_a1 wit_chain wit_dead_state eq_refl eq_refl eq_refl eq_refl eq_refl (fun sfx => eq_refl))
    as (_ & (_ & _ & D & _) & _).
  specialize (D [1]). vm_compute in D. discriminate.
Qed.
Print Assumptions c44_destroyed_forever_refuted.

Example c44_witness_in_class : in_finding_class 0 wit_dead_state wit_chain /\
  snd (run_chain false 0 wit_dead_state wit_chain) = [[Committed]] /\
  snd (run_chain true 0 wit_dead_state wit_chain) = [[Failed]].
Proof. split; [intro E; vm_compute in E; discriminate|split; vm_compute; reflexivity]. Qed.

(** Outside the finding class the full statement holds. *)
Theorem c44_destroyed_forever_partial : forall track a bs s,
  outside_finding_class track s bs ->
  good_state s = true -> is_addr a = true -> forallb block_wf bs = true -> existsb (block_unsets a) bs = false ->
  is_destroyed (next_view s) a = true -> (forall sfx, storage_at (next_view s) a sfx = []) ->
  let r := run_chain false track s bs in
  good_state (fst r) = true /\ dead_now (next_view (fst r)) a /\
  Forall2 (fun b os => Forall2 (fun t o => tx_touches a t = true -> o <> Committed) (b_txs b) os) bs (snd r).
Proof.
  intros track a bs s E G Aa W U D1 D2 r. apply good_state_good in G.
  unfold outside_finding_class in E. unfold r. rewrite E.
  destruct (destroyed_forever track a bs s G Aa W U D1 D2) as (G' & D & F).
  split; [apply good_state_good; exact G'|]. split; [exact D|exact F].
Qed.
Print Assumptions c44_destroyed_forever_partial.

(** And for ALL histories of the code as it is (inside the finding class too): the marker stays,
    the address has no contract record, GetContract = (nil, destroyed), and no transaction that
    deploys at [a], migrates onto [a], lets [a] call Contract.Destroy or APPCALLs [a] commits. So
    the only thing the defect lets through is a Storage.Put / Delete by code that already runs
    under the address [a]. *)
Theorem c44_marker_forever : forall track a bs s,
  good_state s = true -> is_addr a = true -> forallb block_wf bs = true -> existsb (block_unsets a) bs = false ->
  is_destroyed (next_view s) a = true -> contract_record (next_view s) a = [] ->
  let r := run_chain false track s bs in
  good_state (fst r) = true /\ is_destroyed (next_view (fst r)) a = true /\
  contract_record (next_view (fst r)) a = [] /\ get_contract (next_view (fst r)) a = (None, true) /\
  Forall2 (fun b os => Forall2 (fun t o => tx_claims a t = true -> o <> Committed) (b_txs b) os) bs (snd r).
Proof.
  intros track a bs s G Aa W U D1 D2 r. apply good_state_good in G.
  destruct (marked_forever false track a bs s G Aa W U D1 D2) as (G' & R).
  split; [apply good_state_good; exact G'|exact R].
Qed.
Print Assumptions c44_marker_forever.

(** (6') The same inside one execution, code as it is: once [a] is marked and without record,
    Contract.Migrate onto it, Contract.Destroy by it and APPCALL of it are refused, Contract.Create
    of it is a no-op, the deploy transaction fails, every other call leaves it marked. *)
Theorem c44_marked_refuses : forall track h a s o,
  good_state s = true -> is_addr a = true ->
  is_destroyed s a = true -> contract_record s a = [] ->
  cop_wf o = true -> cop_unsets a o = false ->
  (cop_claims a o = true -> exec false track h s o = Err Refused) /\
  (forall code, exec false track h s (CCreate a code) = Ok s) /\
  (forall s', exec false track h s o = Ok s' ->
     good_state s' = true /\ is_destroyed s' a = true /\ contract_record s' a = [] /\ get_contract s' a = (None, true)).
Proof.
  intros track h a s o G Aa D1 D2 W U. apply good_state_good in G.
  destruct (marked_refuses false track h a s o G Aa D1 D2 W U) as (A & B & C).
  split; [exact A|]. split; [exact B|]. intros s' E. destruct (C s' E) as (G' & R).
  split; [apply good_state_good; exact G'|exact R].
Qed.
Print Assumptions c44_marked_refuses.

Theorem c44_deploy_refused : forall strict track h a code s,
  is_destroyed (next_view s) a = true ->
  run_tx strict track h s (TDeploy a code) = (next_view s, Failed).
Proof. intros strict track h a code s D. unfold run_tx, next_view in *. unfold get_contract. rewrite D. reflexivity. Qed.
Print Assumptions c44_deploy_refused.

(** With the test effective, a dead address refuses Storage.Put / Delete as well and stays dead
    (no storage); for the code as it is the Put goes through ([c44_write_through_dead_context]). *)
Theorem c44_dead_refuses_partial : forall track h a s o,
  good_state s = true -> is_addr a = true ->
  is_destroyed s a = true -> (forall sfx, storage_at s a sfx = []) ->
  cop_wf o = true -> cop_unsets a o = false ->
  (cop_touches a o = true -> exec true track h s o = Err Refused) /\
  (forall s', exec true track h s o = Ok s' -> good_state s' = true /\ dead_now s' a).
Proof.
  intros track h a s o G Aa D1 D2 W U. apply good_state_good in G.
  destruct (dead_refuses track h a s o G Aa D1 D2 W U) as (A & _ & C).
  split; [exact A|]. intros s' E. destruct (C s' E) as [G' D]. split; [apply good_state_good; exact G'|exact D].
Qed.
Print Assumptions c44_dead_refuses_partial.

Theorem c44_write_through_dead_context :
  exists s a k v s', good_state s = true /\ is_addr a = true /\ is_destroyed s a = true /\
    (forall sfx, storage_at s a sfx = []) /\
    exec false 0 1 s (CPut a k v) = Ok s' /\ storage_at s' a k <> [] /\ is_destroyed s' a = true.
Proof.
  exists wit_dead_state, ex_a1, [1], [2]. eexists. repeat split; try reflexivity.
  vm_compute. discriminate.
Qed.
Print Assumptions c44_write_through_dead_context.

(** (5') A committed transaction that destroys or migrates away [a] hands a dead [a] to the next
    transaction — outside the finding class (no Storage.Put under [a] behind the call). *)
Theorem c44_leaving_tx_commits_dead_partial : forall track h a s pre o post,
  run_tx false track h s (TInvoke (pre ++ o :: post)) = run_tx true track h s (TInvoke (pre ++ o :: post)) ->
  good_state s = true -> is_addr a = true -> track <= h -> forallb cop_wf (pre ++ o :: post) = true ->
  leaves a o -> existsb (cop_unsets a) post = false ->
  let r := run_tx false track h s (TInvoke (pre ++ o :: post)) in
  snd r = Committed -> good_state (fst r) = true /\ dead_now (next_view (fst r)) a.
Proof.
  intros track h a s pre o post E G Aa Hh W L U r C. apply good_state_good in G.
  unfold r in *. rewrite E in *.
  destruct (leaving_tx_commits_dead track h a s pre o post G Aa Hh W L U C) as [G' D].
  split; [apply good_state_good; exact G'|exact D].
Qed.
Print Assumptions c44_leaving_tx_commits_dead_partial.

(** (7) No orphan storage — full statement (code as it is): "an address without a contract record
    owns no storage" is preserved by every chain. Refuted: the entry script of an invoke transaction
    (never deployed) can Storage.Put under its own address. Proved outside the finding class; this is
    what gives (4) its hypothesis for every undeployed migration target. *)
Definition c44_no_orphan_statement : Prop := forall track a bs s,
  good_state s = true -> is_addr a = true -> forallb block_wf bs = true ->
  (contract_record (next_view s) a = [] -> forall sfx, storage_at (next_view s) a sfx = []) ->
  let s' := fst (run_chain false track s bs) in
  (contract_record (next_view s') a = [] -> forall sfx, storage_at (next_view s') a sfx = []).

Theorem c44_no_orphan_refuted : ~ c44_no_orphan_statement.
Proof.
  intro H.
  pose proof (H 0 ex_a1 wit_chain (mkState [] [] []) eq_refl eq_refl eq_refl (fun _ sfx => eq_refl)) as D.
  cbv zeta in D. specialize (D eq_refl [1]). vm_compute in D. discriminate.
Qed.
Print Assumptions c44_no_orphan_refuted.

Theorem c44_no_orphan_partial : forall track a bs s,
  outside_finding_class track s bs ->
  good_state s = true -> is_addr a = true -> forallb block_wf bs = true ->
  (contract_record (next_view s) a = [] -> forall sfx, storage_at (next_view s) a sfx = []) ->
  let s' := fst (run_chain false track s bs) in
  good_state s' = true /\
  (contract_record (next_view s') a = [] -> forall sfx, storage_at (next_view s') a sfx = []).
Proof.
  intros track a bs s E G Aa W O s'. apply good_state_good in G.
  unfold outside_finding_class in E. unfold s'. rewrite E.
  destruct (no_orphan_storage track a bs s G Aa W O) as [G' O']. split; [apply good_state_good; exact G'|exact O'].
Qed.
Print Assumptions c44_no_orphan_partial.

(** the same invariant for one service call with the test effective *)
Theorem c44_no_orphan_storage_step_partial : forall track h a s o s',
  good_state s = true -> is_addr a = true -> cop_wf o = true ->
  (contract_record s a = [] -> forall sfx, storage_at s a sfx = []) ->
  exec true track h s o = Ok s' ->
  (contract_record s' a = [] -> forall sfx, storage_at s' a sfx = []).
Proof. intros track h a s o s' G. apply good_state_good in G. apply no_orphan_storage_step; exact G. Qed.
Print Assumptions c44_no_orphan_storage_step_partial.

(** Non-vacuity. Two addresses that differ only in the last byte (0x07.. 0x07 0x01 / 0x02), a third
    one that is all 0xff (its prefix range has no upper limit after the carry); entries of the old
    contract in all three layers with suffixes of length 0, 1, 2 sharing prefixes, a tombstone in
    the cache hiding a store entry, an overlay value shadowing a store value, a key of the
    neighbouring address, and a pending entry under the new address. The hypotheses hold; the
    migration moves exactly the four live entries; destroying the 0xff contract empties it; a later
    chain that tries to redeploy / migrate onto the destroyed address is refused, and that chain is
    outside the finding class. *)
Definition ex_state : state :=
  mkState [(5 :: ex_a1 ++ [97], [1; 1]); (5 :: ex_a1 ++ [98], []); (5 :: ex_a2 ++ [120], [9])]
          [(4 :: ex_a1, ex_code); (5 :: ex_a1, [2]); (5 :: ex_a1 ++ [97; 98], [3])]
          [(4 :: ex_a3, ex_code); (5 :: ex_a1 ++ [97], [7]); (5 :: ex_a1 ++ [98], [8]); (5 :: ex_a1 ++ [99], [4]);
           (5 :: ex_a2, [6]); (5 :: ex_a3, [5]); (5 :: ex_a3 ++ [255], [5; 5])].

Example c44_nonvacuous :
  good_state ex_state = true /\ is_addr ex_a1 = true /\ is_addr ex_a2 = true /\ is_addr ex_a3 = true /\ ex_a1 <> ex_a2 /\
  (let r := migrate_contract_storage 0 10 ex_a1 ex_a2 ex_state in
   snd r = true /\
   cache_iterate ST_STORAGE ex_state ex_a1 =
     ([(ex_a1, [2]); (ex_a1 ++ [97], [1; 1]); (ex_a1 ++ [97; 98], [3]); (ex_a1 ++ [99], [4])], true) /\
   cache_iterate ST_STORAGE (fst r) ex_a1 = ([], true) /\
   cache_iterate ST_STORAGE (fst r) ex_a2 =
     ([(ex_a2, [2]); (ex_a2 ++ [97], [1; 1]); (ex_a2 ++ [97; 98], [3]); (ex_a2 ++ [99], [4]); (ex_a2 ++ [120], [9])], true) /\
   get_contract (fst r) ex_a1 = (None, true)) /\
  (let r := clean_contract_storage 0 10 ex_a3 ex_state in
   snd r = true /\ cache_iterate ST_STORAGE ex_state ex_a3 = ([(ex_a3, [5]); (ex_a3 ++ [255], [5; 5])], true) /\
   cache_iterate ST_STORAGE (fst r) ex_a3 = ([], true) /\ get_contract (fst r) ex_a3 = (None, true)) /\
  (let bs := [mkBlock 10 [TInvoke [CCall ex_a1; CPut ex_a1 [100] [1]; CDestroy ex_a1]];
              mkBlock 11 [TDeploy ex_a1 ex_code; TInvoke [CCall ex_a1; CPut ex_a1 [1] [1]]; TInvoke [CMigrate ex_a3 ex_a1 ex_code];
                          TInvoke [CCreate ex_a1 ex_code; CMigrate ex_a3 ex_a2 ex_code]]] in
   forallb block_wf bs = true /\ existsb (block_unsets ex_a1) bs = false /\
   run_chain false 0 ex_state bs = run_chain true 0 ex_state bs /\
   snd (run_chain false 0 ex_state bs) = [[Committed]; [Failed; Failed; Failed; Committed]] /\
   cache_iterate ST_STORAGE (next_view (fst (run_chain false 0 ex_state bs))) ex_a1 = ([], true) /\
   cache_iterate ST_STORAGE (next_view (fst (run_chain false 0 ex_state bs))) ex_a2 =
     ([(ex_a2, [5]); (ex_a2 ++ [255], [5; 5])], true)).
Proof.
  vm_compute. repeat split; try reflexivity; discriminate.
Qed.
