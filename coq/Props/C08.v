(** C08 — EVM snapshot revert restores exactly the observable state.

    "After reverting to a snapshot, every storage slot, nonce, code, ONG balance, log list, refund
    counter and self-destruct mark reads exactly as it did when the snapshot was taken, for any
    nesting of snapshots and reverts."

    Model: Model/StateDB.v (StateDB over CacheDB/MemDB with the ONG balance handle, byte-level
    storage layout; index arithmetic of Snapshot/RevertToSnapshot/DiscardSnapshot and the layout
    constants regenerated from the source into Gen/StateDBSites.v, Gen/StateDBConsts.v).
    Quantifiers: every Keccak function [H], every backend content, every reachable state, every
    history of operations (any interleaving of SetState/SetNonce/SetCode/AddBalance/SubBalance/
    Suicide/AddLog/AddRefund/SubRefund/CreateAccount with nested Snapshot/RevertToSnapshot/
    DiscardSnapshot, including calls that panic), every address and slot.
    Not restored by a revert, by design of the code: the sticky backend error flag (DbErr). *)
From Coq Require Import List Bool NArith ZArith.
Import ListNotations.
From Ont Require Import Lib.Bytes Model.StateDB Proofs.StateDB.

(** Full statement. [s0] is any state reachable from NewStateDB; Snapshot() returns [id]; then any
    history [ops] during which [id] stays valid (no successful revert/discard at or below it; nested
    snapshots, reverts and discards above it are allowed); then RevertToSnapshot(id). The call does
    not panic, every getter answers as at the snapshot, and the stack is the one before Snapshot().
    ([id < max_int64]: the id is below 2^63-1, where Go's [idx+1] in the guard would wrap.) *)
Theorem c08_revert_restores :
  forall (H : bytes -> bytes) (backend : memdb) (s0 s1 s3 : statedb) (id : Z) (ops : list op) (r : ret),
    reachable H backend s0 ->
    step H backend s0 OSnapshot = (s1, RInt id) -> (id < max_int64)%Z ->
    stays_valid H backend (Z.to_nat id) s1 ops = true ->
    step H backend (run H backend s1 ops) (ORevert id) = (s3, r) ->
    r = RUnit /\
    (forall addr key, observe backend s3 addr key = observe backend s1 addr key) /\
    core_of s3 = core_of s0 /\ sd_snaps s3 = sd_snaps s0.
Proof. exact revert_restores_full. Qed.
Print Assumptions c08_revert_restores.

(** The same with a purely syntactic validity condition: every RevertToSnapshot/DiscardSnapshot in
    the history (succeeding or panicking) names an index above [id]. *)
Theorem c08_revert_restores_nested :
  forall (H : bytes -> bytes) (backend : memdb) (s0 s1 s3 : statedb) (id : Z) (ops : list op) (r : ret),
    reachable H backend s0 ->
    step H backend s0 OSnapshot = (s1, RInt id) -> (id < max_int64)%Z ->
    forallb (above (Z.to_nat id)) ops = true ->
    step H backend (run H backend s1 ops) (ORevert id) = (s3, r) ->
    r = RUnit /\
    (forall addr key, observe backend s3 addr key = observe backend s1 addr key) /\
    core_of s3 = core_of s0 /\ sd_snaps s3 = sd_snaps s0.
Proof. exact revert_restores_nested_full. Qed.
Print Assumptions c08_revert_restores_nested.

(** DiscardSnapshot (valid or not) changes no getter. *)
Theorem c08_discard_is_silent :
  forall (H : bytes -> bytes) (backend : memdb) (s : statedb) (idx : Z) (addr key : bytes),
    observe backend (fst (step H backend s (ODiscard idx))) addr key = observe backend s addr key.
Proof. exact discard_is_silent_full. Qed.
Print Assumptions c08_discard_is_silent.

(** A revert consumes its id and everything above it: the stack is cut to [id] entries, so the
    same id is invalid afterwards (RevertToSnapshot panics and changes nothing). *)
Theorem c08_revert_consumes_id :
  forall (H : bytes -> bytes) (backend : memdb) (s s' : statedb) (id : nat),
    reachable H backend s -> (id < length (sd_snaps s))%nat -> (Z.of_nat id < max_int64)%Z ->
    step H backend s (ORevert (Z.of_nat id)) = (s', RUnit) ->
    length (sd_snaps s') = id /\ step H backend s' (ORevert (Z.of_nat id)) = (s', RPanic).
Proof. exact revert_consumes_id_full. Qed.
Print Assumptions c08_revert_consumes_id.

(** In every reachable state each saved [logsSize] is at most len(logs): the Go slice expression
    [self.logs[:sn.logsSize]] can never re-expose truncated log entries of the backing array. *)
Theorem c08_logs_slice_in_range :
  forall (H : bytes -> bytes) (backend : memdb) (s : statedb) (i : nat) (sn : snapshot),
    reachable H backend s -> nth_error (sd_snaps s) i = Some sn ->
    (sn_logsSize sn <= length (sd_logs s))%nat.
Proof. exact logs_slice_in_range_full. Qed.
Print Assumptions c08_logs_slice_in_range.

(** An operation that panics (explicit panic or Go run-time fault) leaves the whole state as it
    was; run-time faults only arise from indices outside [0, len(snapshots)). *)
Theorem c08_panic_keeps_state :
  forall (H : bytes -> bytes) (backend : memdb) (s : statedb) (o : op) (s' : statedb) (r : ret),
    step H backend s o = (s', r) -> r = RPanic \/ r = RFault -> s' = s.
Proof. exact panic_keeps_state. Qed.
Print Assumptions c08_panic_keeps_state.

Theorem c08_fault_only_out_of_range :
  forall (H : bytes -> bytes) (backend : memdb) (s s' : statedb) (o : op),
    reachable H backend s -> (Z.of_nat (length (sd_snaps s)) < max_int64)%Z ->
    step H backend s o = (s', RFault) ->
    s' = s /\ exists idx, ((idx < 0)%Z \/ (Z.of_nat (length (sd_snaps s)) <= idx)%Z) /\
                         (o = ORevert idx \/ o = ODiscard idx).
Proof. exact fault_only_out_of_range_full. Qed.
Print Assumptions c08_fault_only_out_of_range.

(** Non-vacuity: a concrete nested history. Outer snapshot 0, writes, inner snapshot 1, more writes
    (slot, nonce, code, balance, log, refund, self-destruct), revert to 1, a discard above, then
    revert to 0: the hypotheses of [c08_revert_restores] hold, the state in between really differs,
    and the conclusion is observed by computation. *)
Section Example.
  Local Open Scope N_scope.
  Let H (code : bytes) : bytes := repeat 7 31%nat ++ [N.of_nat (length code)].
  Let a : bytes := repeat 1 20%nat.
  Let k : bytes := repeat 2 32%nat.
  Let v n : bytes := repeat 0 31%nat ++ [n].
  Let pre : list op := [OSetState a k (v 5); OSetNonce a 3; OAddBalance a 1500000000; OAddLog 1; OAddRefund 10].
  Let mid : list op :=
    [OSetState a k (v 6); OSnapshot; OSetNonce a 9; OSetCode a [1;2;3]; OSubBalance a 7; OAddLog 2;
     OSubRefund 4; OSuicide a; ORevert 1%Z; OSnapshot; OSnapshot; ODiscard 2%Z; OAddLog 3; OSetState a k (v 8)].
  Let s0 := run H [] sdb_new pre.

  Example c08_nonvacuous :
    reachable H [] s0 /\
    (exists s1, step H [] s0 OSnapshot = (s1, RInt 0%Z) /\
      stays_valid H [] 0%nat s1 mid = true /\
      observe [] (run H [] s1 mid) a k <> observe [] s1 a k /\
      exists s3, step H [] (run H [] s1 mid) (ORevert 0%Z) = (s3, RUnit) /\
        observe [] s3 a k = observe [] s1 a k /\
        ob_state (observe [] s3 a k) = v 5 /\ ob_nonce (observe [] s3 a k) = 3%N /\
        ob_balance (observe [] s3 a k) = 1500000000%N /\ ob_logs (observe [] s3 a k) = [1%N] /\
        ob_refund (observe [] s3 a k) = 10%N).
  Proof.
    split; [exists pre; reflexivity|].
    eexists. split; [vm_compute; reflexivity|].
    split; [vm_compute; reflexivity|].
    split; [vm_compute; discriminate|].
    eexists. split; [vm_compute; reflexivity|].
    vm_compute. repeat split; reflexivity.
  Qed.
End Example.
