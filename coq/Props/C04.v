(** C04 — Layered contract storage behaves like one ordered key/value map.

    Model: Model/KV.v — MemDB as a key-sorted tombstone list, its live iterator, the goleveldb
    snapshot iterator, JoinIter mirrored field by field (key, value, keyOrigin, nextMemEnd,
    nextBackEnd; first()/next() and the tombstone-skipping loops of First()/Next()), OverlayDB,
    CacheDB (key prefix byte = ST_STORAGE as printed from the linked package, Gen/KVConsts.v),
    util.BytesPrefix. Tied to the code on every run by the C04 correspondence (recorded random
    histories re-run on the model) — see Corr/C04.v.

    Abstraction: [abs s] = store ∪ overlay ∪ cache (later layers win, tombstones delete), as the
    key-sorted list of live entries; [abs_block s] the same without the transaction cache. *)
From Coq Require Import List Bool NArith.
Import ListNotations.
From Ont Require Import Lib.Bytes Model.KV Gen.KVConsts Proofs.KV Proofs.KVLive.
Local Open Scope N_scope.

(** (0) What "one ordered map" means: the abstraction is strictly ascending in bytes.Compare
    order and holds no empty (deleted) value; so [kv_lookup] on it is a map lookup and a filtered
    sublist of it is "the live keys with that prefix in ascending order". *)
Theorem c04_abs_is_ordered_map : forall s, wf_state s = true ->
  sortedb (abs s) = true /\ sortedb (abs_block s) = true /\
  (forall e, In e (abs s) -> snd e <> []) /\ (forall e, In e (abs_block s) -> snd e <> []).
Proof.
  intros s H. apply wf_state_sorted in H. repeat split.
  - apply sortedb_ssorted, abs_sorted; exact H.
  - apply sortedb_ssorted, abs_block_sorted; exact H.
  - apply abs_live_values.
  - apply abs_block_live_values.
Qed.
Print Assumptions c04_abs_is_ordered_map.

(** (1) Reads return the most recent write, or absence (nil) after a delete: CacheDB.Get through
    cache -> overlay -> store and OverlayDB.Get through overlay -> store are lookups in the map. *)
Theorem c04_get_refines : forall pfx s k, wf_state s = true ->
  cache_get pfx s k = kv_lookup (pkey pfx k) (abs s) /\
  overlay_get s k = kv_lookup k (abs_block s).
Proof.
  intros pfx s k H. apply wf_state_sorted in H. split; [apply cache_get_refines | apply overlay_get_refines]; exact H.
Qed.
Print Assumptions c04_get_refines.

(** (2) Put/Delete on the transaction cache are map update / removal (a Put of an empty value is a
    removal: tombstones are empty values) and do not touch the block-level view. *)
Theorem c04_put_delete_refine : forall pfx s k v, wf_state s = true ->
  abs (cache_put pfx k v s) = spec_put (pkey pfx k) v (abs s) /\
  abs_block (cache_put pfx k v s) = abs_block s /\
  abs (cache_delete pfx k s) = kv_remove (pkey pfx k) (abs s) /\
  abs_block (cache_delete pfx k s) = abs_block s /\
  wf_state (cache_put pfx k v s) = true /\ wf_state (cache_delete pfx k s) = true.
Proof.
  intros pfx s k v H. apply wf_state_sorted in H.
  destruct (cache_put_refines pfx k v s H) as [A B]. destruct (cache_delete_refines pfx k s H) as [C D].
  repeat split; auto; apply wf_state_sorted; [apply cache_put_sorted | apply cache_delete_sorted]; exact H.
Qed.
Print Assumptions c04_put_delete_refine.

(** (2') Read your writes, and nothing else moves: after Put(k, v) a Get of k returns v (nil for
    an empty v, which is a delete) and a Get of any other key returns what it returned before;
    likewise after Delete(k). *)
Theorem c04_read_your_writes : forall pfx s k v k', wf_state s = true ->
  cache_get pfx (cache_put pfx k v s) k' = (if key_eqb k' k then v else cache_get pfx s k') /\
  cache_get pfx (cache_delete pfx k s) k' = (if key_eqb k' k then [] else cache_get pfx s k').
Proof.
  intros pfx s k v k' H. apply wf_state_sorted in H.
  split; [apply cache_get_after_put|apply cache_get_after_delete]; exact H.
Qed.
Print Assumptions c04_read_your_writes.

(** (3) Committing the transaction cache publishes exactly its writes: the cache is empty
    afterwards, the overlay is the old overlay with the cache's entries replayed into it, the
    store is untouched, the block-level view becomes the old transaction-level view, and the
    transaction-level view does not change. *)
Theorem c04_commit_cache_abs : forall s, wf_state s = true ->
  st_cache (cache_commit s) = [] /\
  st_overlay (cache_commit s) = replay_into (st_cache s) (st_overlay s) /\
  st_store (cache_commit s) = st_store s /\
  abs_block (cache_commit s) = abs s /\
  abs (cache_commit s) = abs s /\
  wf_state (cache_commit s) = true.
Proof.
  intros s H. apply wf_state_sorted in H. destruct (commit_cache_abs s H) as (A & B & C & D & E).
  repeat split; auto. apply wf_state_sorted, cache_commit_sorted; exact H.
Qed.
Print Assumptions c04_commit_cache_abs.

(** (4) Resetting the transaction cache discards exactly its writes. *)
Theorem c04_reset_abs : forall s,
  st_cache (cache_reset s) = [] /\ abs_block (cache_reset s) = abs_block s /\ abs (cache_reset s) = abs_block s.
Proof. exact reset_abs. Qed.
Print Assumptions c04_reset_abs.

(** (5) Committing the overlay (CommitTo + BatchCommit): the store's live content becomes the
    block-level view; neither view changes. *)
Theorem c04_overlay_commit_abs : forall s, wf_state s = true ->
  live (st_store (overlay_commit s)) = abs_block s /\
  abs_block (overlay_commit s) = abs_block s /\
  abs (overlay_commit s) = abs s /\
  wf_state (overlay_commit s) = true.
Proof.
  intros s H. apply wf_state_sorted in H. destruct (overlay_commit_abs s H) as (A & B & C).
  repeat split; auto. apply wf_state_sorted, overlay_commit_sorted; exact H.
Qed.
Print Assumptions c04_overlay_commit_abs.

(** (6) util.BytesPrefix: for byte strings, lying in [start, limit) is having the prefix
    (including prefixes that end in 0xff bytes, where the limit drops them or is absent). *)
Theorem c04_prefix_range : forall p k, wf_bytes k = true -> in_range (bytes_prefix p) k = has_prefix p k.
Proof. exact in_range_prefix. Qed.
Print Assumptions c04_prefix_range.

(** (7) The exact JoinIter state machine. For ANY two iterators that behave like iterators over
    key-sorted lists [Lm] (memory side, may contain tombstones) and [Lb] (backend side) — in
    particular a nested JoinIter — First() followed by Next() until false on a new JoinIter walks
    exactly the live entries of the ordered union in which the memory side wins on equal keys.
    Covers: either side empty or exhausted first (including the calls JoinIter then makes on an
    invalid side whose end flag is not set yet), deleted keys on either side, keys on both sides.
    [first_ok env B L it]: with fuel >= B, First returns (L <> []) and the iterator then tracks L. *)
Theorem c04_joiniter_exact : forall env B Lm Lb mem back,
  first_ok env B Lm mem -> first_ok env B Lb back ->
  ssorted Lm -> ssorted Lb -> nonempty_keys Lm -> nonempty_keys Lb ->
  first_ok env (B + length Lm + length Lb + 4) (live (merge Lm Lb)) (new_join_iter mem back) /\
  forall fuel, (B + length Lm + length Lb + 4 <= fuel)%nat -> (length (live (merge Lm Lb)) <= fuel)%nat ->
    iterate env fuel (new_join_iter mem back) = (live (merge Lm Lb), true).
Proof.
  intros env B Lm Lb mem back Fm Fb Sm Sb Nm Nb.
  pose proof (join_first_ok env B Lm Lb mem back Fm Fb Sm Sb Nm Nb) as F.
  split; [exact F|]. intros fuel H1 H2. eapply iterate_first_ok; eauto.
Qed.
Print Assumptions c04_joiniter_exact.

(** (8) iter_refines. A prefix iterator of the CacheDB (JoinIter over the cache's live MemDB
    iterator and the OverlayDB iterator, itself a JoinIter over the overlay's MemDB iterator and
    the LevelDB snapshot iterator) returns exactly the live keys with that prefix, in ascending
    order, with their most recent values, prefix byte stripped; the model's fuel bound suffices
    ([true]). Likewise OverlayDB.NewIterator against the block-level view. *)
Theorem c04_iter_refines : forall pfx s p, good_state s = true ->
  cache_iterate pfx s p = (strip_keys (with_prefix (pkey pfx p) (abs s)), true) /\
  overlay_iterate s p = (with_prefix p (abs_block s), true).
Proof.
  intros pfx s p H. apply good_state_good in H.
  pose proof (good_wf s H) as (Wc & Wo & Wst & No & Nst). destruct H as (Hs & _). split.
  - apply cache_iter_refines; assumption.
  - apply overlay_iter_refines; auto.
Qed.
Print Assumptions c04_iter_refines.

(** (9) All histories. For every sequence of put/delete/get/iterate/commit/reset on the
    transaction cache and get/iterate/commit on the overlay, from every well-formed stack (any
    pre-populated store), the observations of the layered implementation model are exactly those
    of three plain ordered maps (persisted / block / transaction) under the obvious semantics, and
    the final stack abstracts to the final maps. Instantiated at the ST_STORAGE prefix the code uses. *)
Theorem c04_history_refines : forall ops s,
  good_state s = true -> forallb (hop_ok ST_STORAGE) ops = true ->
  spec_run ST_STORAGE (abs_spec s) ops =
    (abs_spec (fst (impl_run ST_STORAGE s ops)), snd (impl_run ST_STORAGE s ops)) /\
  good_state (fst (impl_run ST_STORAGE s ops)) = true.
Proof.
  intros ops s H Ho. apply good_state_good in H.
  destruct (history_refines ST_STORAGE ops s H Ho) as [E G]. split; [exact E|apply good_state_good; exact G].
Qed.
Print Assumptions c04_history_refines.

(** (10) Iteration interleaved with writes (the MemDB iterator is live: it reads the skip list at
    every Next). If every CacheDB write made between two Next calls lands at or behind the key the
    iterator currently shows, or outside its prefix — the pattern of CleanContractStorageData
    (delete the current key) and MigrateContractStorage (delete the current key, put under another
    address) — the iteration yields exactly what it would have yielded without the writes: the
    first [length steps + 1] entries of the listing at First (all, if shorter), and the stack ends
    with exactly those writes applied. Proved for the exact nested JoinIter state machine with the
    environment changing under it (Proofs/KVLive.v). Writes AHEAD of the cursor are modelled and
    covered by the correspondence, but no statement is made about them (the code gives none). *)
Theorem c04_live_iteration_behind : forall pfx s p steps, good_state s = true ->
  steps_behind pfx p (with_prefix (pkey pfx p) (abs s)) steps ->
  cache_live_iterate pfx s p steps =
    (strip_keys (live_expect (with_prefix (pkey pfx p) (abs s)) steps), true,
     live_final pfx s (with_prefix (pkey pfx p) (abs s)) steps).
Proof.
  intros pfx s p steps H Hb. apply good_state_good in H.
  pose proof (good_wf s H) as (Wc & Wo & Wst & _ & _). destruct H as (Hs & _).
  apply cache_live_behind; assumption.
Qed.
Print Assumptions c04_live_iteration_behind.

(** Non-vacuity: a concrete stack with a key in all three layers, tombstones in cache and overlay,
    an empty value in the store, a neighbouring prefix (ST_STORAGE+1 = the range limit) and a 0xff
    key; the hypotheses hold and the iterator / Get results are the expected non-trivial ones. *)
Definition ex_state : state :=
  mkState [([5; 97], [1]); ([5; 98], []); ([5; 255], [7])]
          [([5; 97], [2]); ([5; 99], []); ([5; 100], [4])]
          [([4; 1], [9]); ([5; 97], [3]); ([5; 98], [3]); ([5; 99], [3]); ([5; 101], []); ([5; 102], [6]); ([6], [8])].

Example c04_nonvacuous :
  good_state ex_state = true /\
  forallb (hop_ok ST_STORAGE) [HGet [98]; HIter []; HDel [102]; HIter []; HCommit; HOvIter [5]; HReset; HOvCommit; HOvGet [5; 102]] = true /\
  cache_iterate ST_STORAGE ex_state [] = ([([97], [1]); ([100], [4]); ([102], [6]); ([255], [7])], true) /\
  overlay_iterate ex_state [] = ([([4; 1], [9]); ([5; 97], [2]); ([5; 98], [3]); ([5; 100], [4]); ([5; 102], [6]); ([6], [8])], true) /\
  cache_get ST_STORAGE ex_state [98] = [] /\ cache_get ST_STORAGE ex_state [97] = [1] /\
  snd (impl_run ST_STORAGE ex_state [HGet [98]; HIter []; HDel [102]; HIter []; HCommit; HOvIter [5]; HReset; HOvCommit; HOvGet [5; 102]]) =
    [ObsVal []; ObsList [([97], [1]); ([100], [4]); ([102], [6]); ([255], [7])] true;
     ObsList [([97], [1]); ([100], [4]); ([255], [7])] true;
     ObsList [([5; 97], [1]); ([5; 100], [4]); ([5; 255], [7])] true; ObsVal []].
Proof. vm_compute. repeat split; reflexivity. Qed.

(** Non-vacuity of (10): deleting the current key at every step (CleanContractStorageData) on the
    same stack: the hypothesis holds, all four live keys are visited, none survives. *)
Example c04_nonvacuous_live :
  let steps := [[WDel [97]]; [WDel [100]]; [WDel [102]]; [WDel [255]]] in
  steps_behind ST_STORAGE [] (with_prefix (pkey ST_STORAGE []) (abs ex_state)) steps /\
  fst (cache_live_iterate ST_STORAGE ex_state [] steps) =
    ([([97], [1]); ([100], [4]); ([102], [6]); ([255], [7])], true) /\
  cache_iterate ST_STORAGE (snd (cache_live_iterate ST_STORAGE ex_state [] steps)) [] = ([], true).
Proof.
  split.
  - replace (with_prefix (pkey ST_STORAGE []) (abs ex_state))
      with [([5; 97], [1]); ([5; 100], [4]); ([5; 102], [6]); ([5; 255], [7])] by (vm_compute; reflexivity).
    cbn [steps_behind fst].
    repeat split; apply Forall_cons; try apply Forall_nil;
      (split; [reflexivity | left; unfold kle; vm_compute; discriminate]).
  - vm_compute. split; reflexivity.
Qed.
