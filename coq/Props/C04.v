From Ont Require Import Model.KV.
