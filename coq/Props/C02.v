(** C02 -- Every node derives the same state from the same blocks.

    "Executing the same sequence of blocks from the same genesis produces identical state merkle roots,
    write sets, events and balances on every node, regardless of process, of map iteration order, and of
    whether the node verified the transactions itself (consensus member) or received them already sealed
    (syncing or restarted node)."

    What is proved here, for ALL chains / transactions / visiting orders:
      A. map iteration order: every `range` over a map and every sync.Map.Range on the execution path of the
         CURRENT source (Gen/MapRanges.v, regenerated on every run, digest of each loop's text included)
         is classified in the committed table Model/MapSites.v ([c02_all_map_ranges_classified], a
         complete finite check by computation); each class names a lemma, and all lemmas are theorems
         ([c02_all_lemmas_hold]); the loops with simple bodies are mirrored in Model/Determinism.v and
         proved order-free outright; two sites are order-DEPENDENT and proved so
         ([c02_commit_dpos_black_events_refuted] -- new finding of this check; [c02_cycle_detector_refuted] -- F4,
         owned by C15); a third one, the ontfs error event, was found by this check, repaired in /repo 859ea035
         and is now proved order-free ([c02_ontfs_errors_event_order_free]).  Process-global state written
         during execution is tabled the same way ([c02_all_process_globals_classified], [c02_gas_table_refuted]).
      B. node roles: block execution (fold of handleTransaction over one overlay; state hash = H over the
         sorted write set; root = state merkle tree with that leaf appended) is the same function on a
         consensus member and on a syncing/restarted node, except for the signer list.  Members agree with
         each other whatever order their validators iterated in ([c02_members_agree], unconditional).  A
         member and a syncer agree whenever the raw-script addresses and the parsed-key addresses of every
         transaction coincide as sets ([c02_nodes_agree_partial]); that hypothesis is C17's [signers_agree],
         which is FALSE on the current tree (F2), and then the full statement fails
         ([c02_statement_refuted], [c02_divergence_propagates]).
    PARTIAL: the interpreters, native contracts and the fee envelope are one abstract function [handle]
    (hypothesis [handle_ext]: it reaches the signer list only through CheckWitness -- tied to the source
    by the generated [signer_uses] table); sites classified [Argued] rest on hypotheses established by
    reading, stated in the table.  The differential driver exercises what is abstract here. *)
From Coq Require Import List Bool NArith String Permutation Sorted.
Import ListNotations.
From Ont Require Import Lib.Bytes Model.WriteSet Model.Merkle Model.Determinism Model.MapSites
     Gen.MapRanges Proofs.WriteSet Proofs.Determinism Proofs.C02.
Local Open Scope N_scope.

(** * A. Map iteration order *)

(** A1. The tie: the scan was complete and every generated site is in the committed table. *)
Theorem c02_all_map_ranges_classified :
  map_scan_complete = true /\ all_sites_classified classification map_ranges = true.
Proof. exact map_ranges_classified_proof. Qed.
Print Assumptions c02_all_map_ranges_classified.

Theorem c02_every_site_has_a_class :
  forall s, In s map_ranges -> exists c, lookup_class classification (key_of_generated s) = Some c.
Proof. exact every_site_has_a_class. Qed.
Print Assumptions c02_every_site_has_a_class.

(** every place that reads or writes the signer list is accounted for (only checkAccountAddress reads it
    during execution; WASM is outside the model) *)
Theorem c02_all_signer_uses_classified : all_uses_classified signer_use_table signer_uses = true.
Proof. exact signer_uses_classified_proof. Qed.
Print Assumptions c02_all_signer_uses_classified.

(** A2. Every lemma a class can name holds ([lemma_statement] spells each one out). *)
Theorem c02_all_lemmas_hold : forall l, lemma_statement l.
Proof. exact all_lemmas_hold. Qed.
Print Assumptions c02_all_lemmas_hold.

Theorem c02_classified_lemmas_hold :
  forall e, In e classification ->
  match snd e with Proved l => lemma_statement l | Argued l _ => lemma_statement l | _ => True end.
Proof. exact classified_lemmas_hold. Qed.
Print Assumptions c02_classified_lemmas_hold.

(** A3. The generic lemma: a fold over a map is invariant under every permutation of the entries when
    the body commutes -- outright, on entries with different keys (Go map keys are unique), or up to an
    equivalence of states. *)
Theorem c02_fold_perm_invariant : forall (E S : Type) (body : S -> E -> S),
  (forall s a b, body (body s a) b = body (body s b) a) ->
  forall l1 l2, Permutation l1 l2 -> forall s, range_fold body l1 s = range_fold body l2 s.
Proof. intros E S. exact (@range_fold_perm E S). Qed.
Print Assumptions c02_fold_perm_invariant.

Theorem c02_fold_perm_invariant_distinct_keys : forall (E S K : Type) (key : E -> K) (body : S -> E -> S),
  (forall s a b, key a <> key b -> body (body s a) b = body (body s b) a) ->
  forall l1 l2, Permutation l1 l2 -> NoDup (map key l1) ->
  forall s, range_fold body l1 s = range_fold body l2 s.
Proof. intros E S K. exact (@range_fold_perm_distinct E S K). Qed.
Print Assumptions c02_fold_perm_invariant_distinct_keys.

Theorem c02_fold_perm_invariant_equiv : forall (E S : Type) (R : S -> S -> Prop) (body : S -> E -> S),
  (forall s, R s s) -> (forall a b c, R a b -> R b c -> R a c) ->
  (forall s s' a, R s s' -> R (body s a) (body s' a)) ->
  (forall s a b, R (body (body s a) b) (body (body s b) a)) ->
  forall l1 l2, Permutation l1 l2 -> forall s s', R s s' -> R (range_fold body l1 s) (range_fold body l2 s').
Proof. intros E S. exact (@range_fold_perm_equiv E S). Qed.
Print Assumptions c02_fold_perm_invariant_equiv.

(** A4. Instances for the mirrored sites. *)

(** checkTransactionSignatures `for addr := range address` + checkAccountAddress *)
Theorem c02_witness_order_free : forall (o1 o2 : list (bytes * bool)), Permutation o1 o2 ->
  forall a, check_witness (collect_keys o1) a = check_witness (collect_keys o2) a.
Proof. intros o1 o2. exact (@witness_membership_order_free bool o1 o2). Qed.
Print Assumptions c02_witness_order_free.

(** executeBlock's GAS_TABLE.Range copy (keys: Go strings as bytes; values: uint64 as N); StateDB.Snapshot *)
Theorem c02_gas_table_copy_order_free : forall (o1 o2 : list (bytes * N)),
  Permutation o1 o2 -> NoDup (map fst o1) ->
  forall k, am_get bytes_eqb k (map_copy bytes_eqb o1) = am_get bytes_eqb k (map_copy bytes_eqb o2).
Proof. intros o1 o2. exact (map_copy_order_free bytes N bytes_eqb bytes_eqb_eq o1 o2). Qed.
Print Assumptions c02_gas_table_copy_order_free.

(** ... and the copy is the source *)
Theorem c02_gas_table_copy_is_source : forall (o : list (bytes * N)), NoDup (map fst o) ->
  forall k, am_get bytes_eqb k (map_copy bytes_eqb o) = am_get bytes_eqb k o.
Proof. intros o. exact (map_copy_get bytes N bytes_eqb bytes_eqb_eq o). Qed.
Print Assumptions c02_gas_table_copy_is_source.

(** refreshGlobalParam's GAS_TABLE.Range with per-key Store *)
Theorem c02_refresh_param_order_free : forall (upd : bytes -> option N) (o1 o2 m : list (bytes * N)),
  Permutation o1 o2 ->
  forall k, am_get bytes_eqb k (per_key_update bytes_eqb upd o1 m) = am_get bytes_eqb k (per_key_update bytes_eqb upd o2 m).
Proof. intros upd o1 o2 m. exact (per_key_update_order_free bytes N bytes_eqb bytes_eqb_eq upd o1 o2 m). Qed.
Print Assumptions c02_refresh_param_order_free.

(** the candidate counters of the governance contract *)
Theorem c02_count_order_free : forall (E : Type) (p : E -> bool) o1 o2,
  Permutation o1 o2 -> count_if p o1 = count_if p o2.
Proof. intros E. exact (@count_if_order_free E). Qed.
Print Assumptions c02_count_order_free.

(** getMapSortedKey / dump / StringsDedupAndSort: collect the keys, sort.Strings *)
Theorem c02_sorted_keys_order_free : forall (V : Type) (o1 o2 : list (bytes * V)), Permutation o1 o2 ->
  collect_sort bytes_leb (fun kv => Some (fst kv)) o1 = collect_sort bytes_leb (fun kv => Some (fst kv)) o2.
Proof. intros V. exact (@sorted_keys_order_free V). Qed.
Print Assumptions c02_sorted_keys_order_free.

(** the model's insertion sort is not a choice: every function that returns a sorted permutation under a
    total antisymmetric order returns the same list (sort.Strings, sort.SliceStable on unique keys) *)
Theorem c02_any_sort_agrees : forall (E : Type) (leb : E -> E -> bool),
  (forall a b, leb a b = true \/ leb b a = true) ->
  (forall a b c, leb a b = true -> leb b c = true -> leb a c = true) ->
  (forall a b, leb a b = true -> leb b a = true -> a = b) ->
  forall sort : list E -> list E,
  (forall l, StronglySorted (fun a b => leb a b = true) (sort l)) -> (forall l, Permutation (sort l) l) ->
  forall l, sort l = isort leb l.
Proof. intros E leb Ht Htr Ha. exact (any_sort_is_isort E leb Ht Htr Ha). Qed.
Print Assumptions c02_any_sort_agrees.

(** StateDB.CommitToCacheDB over the Suicided set *)
Theorem c02_suicide_clean_order_free : forall (A KV : Type) (owned : A -> KV -> bool) o1 o2 st,
  Permutation o1 o2 -> suicide_clean owned o1 st = suicide_clean owned o2 st.
Proof. intros A KV. exact (@suicide_clean_order_free A KV). Qed.
Print Assumptions c02_suicide_clean_order_free.

(** OntInit: order-free for the single entry genesis builds; NOT for two entries *)
Theorem c02_ont_init_singleton : forall (K V : Type) (o1 o2 : list (K * V)),
  Permutation o1 o2 -> (List.length o1 <= 1)%nat -> ont_init_notifications o1 = ont_init_notifications o2.
Proof. intros K V. exact (@ont_init_singleton_order_free K V). Qed.
Print Assumptions c02_ont_init_singleton.

(** A5. The two order-dependent sites. *)

(** ontfs Errors.ToString (the payload of the event pushed by AddErrorsEvent), as repaired in /repo
    859ea035 (keys collected, sort.Strings, entries written in key order): the same payload for EVERY
    visiting order of every map.  (Found by this check as finding maporder:ontfs-errors-event; the driver
    keeps the 40-executions probe as a regression test.) *)
Theorem c02_ontfs_errors_event_order_free : forall o1 o2 : list (bytes * bytes),
  Permutation o1 o2 -> NoDup (map fst o1) -> ontfs_errors_to_string o1 = ontfs_errors_to_string o2.
Proof. exact ontfs_errors_to_string_order_free. Qed.
Print Assumptions c02_ontfs_errors_event_order_free.

(** ... and the sort is what makes it so: the writer before the repair followed the map order *)
Theorem c02_ontfs_errors_event_unsorted_refuted :
  exists o1 o2 : list (bytes * bytes), NoDup (map fst o1) /\ Permutation o1 o2 /\
    ontfs_errors_to_string_unsorted o1 <> ontfs_errors_to_string_unsorted o2.
Proof. exact ontfs_errors_to_string_unsorted_order_dependent. Qed.
Print Assumptions c02_ontfs_errors_event_unsorted_refuted.

(** KNOWN FINDING (F4, owned by C15; class maporder:cycle-detector-first-entry): the map branch of
    circularRefAndDepthDetection returns after the first visited entry. *)
Theorem c02_cycle_detector_refuted :
  exists (deep : N -> bool) (o1 o2 : list (N * N)), NoDup (map fst o1) /\ Permutation o1 o2 /\
    detect_map_first deep o1 <> detect_map_first deep o2.
Proof. exact detect_map_first_order_dependent. Qed.
Print Assumptions c02_cycle_detector_refuted.

(** the repair (visit every entry) is order-free *)
Theorem c02_cycle_detector_repaired : forall (K V : Type) (deep : V -> bool) (o1 o2 : list (K * V)),
  Permutation o1 o2 -> detect_map_all deep o1 = detect_map_all deep o2.
Proof. intros K V. exact (@detect_map_all_order_free K V). Qed.
Print Assumptions c02_cycle_detector_repaired.

(** KNOWN FINDING (new, latent; class maporder:governance-blackquit-events): commitDpos runs blackQuit
    for every black-listed peer in map order, and blackQuit's ONT transfer (governance to itself, value
    InitPos) leaves one notification each: with two black-listed peers of different InitPos the event
    list of the commitDpos transaction differs between nodes.  Confirmed on the implementation by a
    one-off experiment in C11's governance world (40 commitDpos runs from one pre-state: both orders
    observed, state identical); not replayed by the C02 driver (needs that governance scenario). *)
Theorem c02_commit_dpos_black_events_refuted :
  exists (black : N * N -> bool) (o1 o2 : list (N * N)), NoDup (map fst o1) /\ Permutation o1 o2 /\
    commit_dpos_black_events black o1 <> commit_dpos_black_events black o2.
Proof. exact commit_dpos_black_events_order_dependent. Qed.
Print Assumptions c02_commit_dpos_black_events_refuted.

(** outside the class: at most one black-listed peer, or all black-listed peers with one InitPos *)
Theorem c02_commit_dpos_black_events_partial : forall (K : Type) (black : K * N -> bool) o1 o2,
  Permutation o1 o2 ->
  ((List.length (filter black o1) <= 1)%nat \/
   exists v, forall kv, In kv o1 -> black kv = true -> snd kv = v) ->
  commit_dpos_black_events black o1 = commit_dpos_black_events black o2.
Proof.
  intros K black o1 o2 HP [Hl|[v Hv]].
  - exact (commit_dpos_black_events_one_black black o1 o2 HP Hl).
  - exact (commit_dpos_black_events_same_pos black v o1 o2 HP Hv).
Qed.
Print Assumptions c02_commit_dpos_black_events_partial.

Theorem c02_finding_classes :
  finding_classes classification =
  ["maporder:governance-blackquit-events"; "maporder:governance-blackquit-events";
   "maporder:cycle-detector-first-entry"]%string.
Proof. exact finding_classes_are. Qed.
Print Assumptions c02_finding_classes.

(** A6. Process-global state ("regardless of process").  Every package-level variable of the scanned
    packages that is written from a function body (Gen/MapRanges.v [process_globals], with its writing
    sites) is in the committed table: a new process-wide cache written during execution breaks this. *)
Theorem c02_all_process_globals_classified : all_globals_classified globals_table process_globals = true.
Proof. exact process_globals_classified_proof. Qed.
Print Assumptions c02_all_process_globals_classified.

Theorem c02_global_finding_classes :
  global_finding_classes globals_table = ["procstate:gas-table-keeps-unparsable-param"]%string.
Proof. exact global_finding_classes_are. Qed.
Print Assumptions c02_global_finding_classes.

(** KNOWN FINDING (new, replayed on every run; class procstate:gas-table-keeps-unparsable-param):
    refreshGlobalParam overwrites an entry of the process-global GAS_TABLE only when the on-chain value
    parses, so after the admin replaces a numeric fee by a value that does not parse, a node that was
    running keeps the old fee and a node started afterwards has the compiled-in one: they charge
    different gas for the same block. *)
Theorem c02_gas_table_refuted :
  exists (d : N) (history : list (option N)) (last : option N),
    table_after d (history ++ [last]) <> table_after d [last].
Proof. exact gas_table_process_dependent. Qed.
Print Assumptions c02_gas_table_refuted.

(** outside the class (the current on-chain value parses) every process has the same entry *)
Theorem c02_gas_table_partial : forall d history v,
  table_after d (history ++ [Some v]) = table_after d [Some v].
Proof. exact gas_table_parsable_agrees. Qed.
Print Assumptions c02_gas_table_partial.

(** the repair (fall back to the default instead of the previous content) is process-independent *)
Theorem c02_gas_table_repaired : forall d history last,
  table_after_repaired d (history ++ [last]) = table_after_repaired d [last].
Proof. exact gas_table_repaired_agrees. Qed.
Print Assumptions c02_gas_table_repaired.

(** * B. Node roles *)

(** B1. The state-change hash is a function of the final key/value content of the overlay only (C03). *)
Theorem c02_state_hash_canonical : forall (H : bytes -> bytes) (ops1 ops2 : list op),
  (forall k, last_write ops1 k = last_write ops2 k) ->
  ov_write_set (ov_run ops1) = ov_write_set (ov_run ops2) /\
  ov_change_hash H (ov_run ops1) = ov_change_hash H (ov_run ops2).
Proof. exact change_hash_order_free_proof. Qed.
Print Assumptions c02_state_hash_canonical.

(** B2. Consensus members agree with each other on every chain, whatever order each validator's
    `for addr := range address` happened to use (per node, per transaction). *)
Theorem c02_members_agree :
  forall (payload : Type) (H : bytes -> bytes) (hc : bytes -> bytes -> bytes) (store notify blockctx : Type)
         (handle : (bytes -> bool) -> store -> blockctx -> overlay -> tx payload -> overlay * notify)
         (commit : store -> list kv -> store),
  handle_ext payload store notify blockctx handle ->
  forall o1 o2 blocks,
  all_txs payload blockctx (valid_order payload o1) blocks ->
  all_txs payload blockctx (valid_order payload o2) blocks ->
  forall st tree,
  run_chain payload H hc store notify blockctx handle commit (Member o1) st tree blocks =
  run_chain payload H hc store notify blockctx handle commit (Member o2) st tree blocks.
Proof. exact members_agree_proof. Qed.
Print Assumptions c02_members_agree.

(** B3. THE PROPERTY, partial: a member and a syncing / restarted node compute the same hashes, roots,
    write sets and notifications for every chain of accepted transactions on which the raw-script and
    parsed-key signer sets coincide ([signers_agree]: C17's obligation). *)
Theorem c02_nodes_agree_partial :
  forall (payload : Type) (H : bytes -> bytes) (hc : bytes -> bytes -> bytes) (store notify blockctx : Type)
         (handle : (bytes -> bool) -> store -> blockctx -> overlay -> tx payload -> overlay * notify)
         (commit : store -> list kv -> store),
  handle_ext payload store notify blockctx handle ->
  forall o blocks,
  all_txs payload blockctx (accepted payload) blocks ->
  all_txs payload blockctx (valid_order payload o) blocks ->
  all_txs payload blockctx (signers_agree payload) blocks ->
  forall st tree,
  run_chain payload H hc store notify blockctx handle commit (Member o) st tree blocks =
  run_chain payload H hc store notify blockctx handle commit Syncer st tree blocks.
Proof. exact nodes_agree_partial_proof. Qed.
Print Assumptions c02_nodes_agree_partial.

(** B4. The full statement (no [signers_agree] hypothesis) is FALSE of the faithful model: KNOWN FINDING
    F2 (classes signers:*, owned by C17).  Witness [f2_tx]: raw-script address [9], parsed-key address
    [7]; the driver replays the implementation witness (unsorted multi-signature script) on every run. *)
Theorem c02_statement_refuted : ~ c02_statement.
Proof. exact c02_statement_refuted_proof. Qed.
Print Assumptions c02_statement_refuted.

(** ... and ANY accepted transaction with an address in the validator's set that no raw script hashes
    to is told apart by some contract: C17's finding is a C02 finding. *)
Theorem c02_divergence_propagates : forall (t : tx unit) (a : bytes),
  accepted unit t -> tx_eip t = None ->
  In a (validator_set t) -> ~ In a (map sg_script_addr (tx_sigs t)) ->
  exists handle : (bytes -> bool) -> unit -> unit -> overlay -> tx unit -> overlay * bool,
    handle_ext unit unit bool unit handle /\
    exec_block unit (fun b => b) (fun x y => (x ++ y)%list) unit bool unit handle
               (Member (fun t => validator_set t)) tt (mk_ctree bytes 0 [] None) tt [t] <>
    exec_block unit (fun b => b) (fun x y => (x ++ y)%list) unit bool unit handle
               Syncer tt (mk_ctree bytes 0 [] None) tt [t].
Proof. exact divergence_propagates. Qed.
Print Assumptions c02_divergence_propagates.

(** * Non-vacuity: a two-block chain with a two-signer transaction whose contract consults both
    witnesses; the member iterates its address map in the reverse order; hypotheses hold, both roles
    produce the same non-trivial results. *)
Definition nv_tx1 : tx (list op) :=
  mk_tx None [7] [mk_sig [7] [7] true; mk_sig [8] [8] true] [OPut [1] [11]; OPut [2] [22]].
Definition nv_tx2 : tx (list op) := mk_tx (Some [5]) [5] [] [ODelete [1]].
Definition nv_handle (w : bytes -> bool) (_ _ : unit) (ov : overlay) (t : tx (list op)) : overlay * bool :=
  if w [8] then (ov_run_from ov (tx_body t), true) else (ov, false).
Definition nv_blocks : list (unit * list (tx (list op))) := [(tt, [nv_tx1]); (tt, [nv_tx2; nv_tx1])].
Definition nv_order (t : tx (list op)) : list bytes := rev (validator_set t).

Example c02_nonvacuous :
  handle_ext (list op) unit bool unit nv_handle /\
  all_txs (list op) unit (accepted (list op)) nv_blocks /\
  all_txs (list op) unit (valid_order (list op) nv_order) nv_blocks /\
  all_txs (list op) unit (signers_agree (list op)) nv_blocks /\
  exists r1 r2,
    run_chain (list op) (fun b => b) (fun x y => (x ++ y)%list) unit bool unit nv_handle (fun s _ => s)
              (Member nv_order) tt (mk_ctree bytes 0 [] None) nv_blocks = Some [r1; r2] /\
    run_chain (list op) (fun b => b) (fun x y => (x ++ y)%list) unit bool unit nv_handle (fun s _ => s)
              Syncer tt (mk_ctree bytes 0 [] None) nv_blocks = Some [r1; r2] /\
    r_writeset bool r1 = [([1], [11]); ([2], [22])] /\ r_notify bool r2 = [false; true].
Proof.
  assert (Hext : handle_ext (list op) unit bool unit nv_handle).
  { intros w1 w2 Hw st ctx ov t. unfold nv_handle. rewrite (Hw [8]). reflexivity. }
  assert (Hall : forall P : tx (list op) -> Prop, P nv_tx1 -> P nv_tx2 -> all_txs (list op) unit P nv_blocks).
  { intros P H1 H2 b t Hb Ht. unfold nv_blocks in Hb. simpl in Hb.
    destruct Hb as [Hb|[Hb|[]]]; subst b; simpl in Ht; intuition (subst; assumption). }
  split; [exact Hext|]. split; [|split; [|split]].
  - apply Hall; vm_compute; reflexivity.
  - apply Hall; unfold valid_order, nv_order; symmetry; apply Permutation_rev.
  - apply Hall; unfold signers_agree; [intros _ a; vm_compute; tauto|discriminate].
  - eexists. eexists. split; [vm_compute; reflexivity|]. split; [vm_compute; reflexivity|].
    split; vm_compute; reflexivity.
Qed.
