(** C45 — Only an ONT ID's authorized keys, controllers or recovery can change it.

    Model: Model/OntId.v (the 34 mutating methods of the native ONT ID contract, new-ONT-ID code
    path), rule: Model/OntIdSpec.v ([required]: method -> authority, [holds]: what it means for a
    signer set to carry it, [key_witness]: a signature address of the transaction belongs to a
    stored, non-revoked key with authentication rights).  All theorems quantify over every
    encodeID / VerifyID / AddressFromPubKey function, every start state where stated, every
    history (list of events = old/new code path + signer set + call) and every identity. *)
From Coq Require Import List Bool NArith.
Import ListNotations.
From Ont Require Import Model.OntId Model.OntIdSpec Proofs.OntId.
Local Open Scope N_scope.

Section C45.
  Variables (id_ok id_valid : id -> bool) (addr_of : key -> addr).
  Notation trace := (trace id_ok id_valid addr_of).
  Notation run := (run id_ok id_valid addr_of).
  Notation accepted := (accepted id_ok id_valid addr_of).
  Notation authorized := (authorized id_valid addr_of).

  (** 1. Nothing changes an identity without authority.  Along any history from any state, if the
      record of identity [i] (flag, keys with their revoked / authentication flags, controller,
      recovery, attributes) differs between two consecutive states, then the call in between was
      addressed to [i], was accepted, and its signer set carried the authority the method
      requires in the state before: a live authentication key of [i], or — for the
      *ByController / *ByRecovery methods and addKey / removeKey / changeRecovery — its
      controller, recovery group or recovery address as configured at that moment; for a
      registration, the key being registered or the controller being installed, and [i] was
      unregistered. *)
  Theorem c45_change_needs_authority : forall (s : state) (h : list event) pre e post (i : id),
    In (pre, e, post) (trace s h) -> post i <> pre i ->
    target (e_op e) = i /\ accepted pre e /\ authorized pre (e_signers e) (e_op e).
  Proof. intros s h. exact (change_authorized id_ok id_valid addr_of h s). Qed.

  (** 2. Every accepted call (whether or not it changed anything) carried that authority. *)
  Theorem c45_accepted_is_authorized : forall (s : state) (h : list event) pre e post,
    In (pre, e, post) (trace s h) -> accepted pre e -> authorized pre (e_signers e) (e_op e).
  Proof. intros s h pre e post _. apply accepted_authorized. Qed.

  (** 3. A revoked identity can never be registered or modified again: from the moment its flag
      is "revoked", its record is the same in every later state and every later call addressed
      to it is refused; in a reachable state that record holds nothing but the flag. *)
  Theorem c45_revoked_for_ever : forall (s : state) (h : list event) (i : id),
    id_revoked s i ->
    run s h i = s i /\
    forall pre e post, In (pre, e, post) (trace s h) ->
      pre i = s i /\ post i = s i /\ (target (e_op e) = i -> ~ accepted pre e).
  Proof.
    intros s h i Hr. split; [apply revoked_run; exact Hr|apply revoked_trace; exact Hr].
  Qed.

  Theorem c45_revoked_record_is_empty : forall (h : list event) (i : id),
    id_revoked (run init_state h) i -> run init_state h i = revoked_rec.
  Proof.
    intros h i Hr.
    destruct (inv_not_registered _ _ (inv_reachable id_ok id_valid addr_of h)
                (revoked_not_registered _ _ Hr)) as [E|E]; [|exact E].
    unfold id_revoked in Hr. rewrite E in Hr. discriminate Hr.
  Qed.

  (** 4. Key indices are stable and a revoked key stays revoked: in every state reachable from a
      reachable state in which entry [n] of [i]'s key list is revoked, no entry of [i]'s key list
      with the same key bytes is live (so it can never again be the witnessing key of [i]). *)
  Theorem c45_revoked_key_for_ever : forall (h1 h2 : list event) (i : id) n p m q,
    let s := run init_state h1 in
    nth_error (r_keys (s i)) n = Some p -> pk_revoked p = true ->
    nth_error (r_keys (run s h2 i)) m = Some q -> pk_key q = pk_key p -> pk_revoked q = true.
  Proof.
    intros h1 h2 i n p m q s. apply revoked_key_for_ever. apply inv_reachable.
  Qed.

  (** 5. Revoked or never registered identities carry no authority in reachable states: they
      witness nothing, a call that needs the controller is refused when the controller is such
      an identity, and a group all of whose identities are such is not witnessed (unless it is
      satisfied by nobody's signature, see 6). *)
  Theorem c45_dead_identity_no_authority : forall (h : list event) sg (j : id),
    let s := run init_state h in
    ~ registered s j ->
    ~ key_witness addr_of s sg j /\
    (forall o lg, r_ctrl (s (target o)) = Some (CSingle j) -> required o = AController ->
                  step id_ok id_valid addr_of lg s sg o = None) /\
    (forall g, (forall x, In x (leaves g) -> ~ registered s x) -> vacuous g = false ->
               ~ group_witnessed addr_of s sg g).
  Proof.
    intros h sg j s Hj. pose proof (inv_reachable id_ok id_valid addr_of h) as Hi.
    split; [apply inv_no_witness; assumption|]. split.
    - intros o lg Hc Hr. eapply dead_controller_refuses; eauto.
    - intros g Hl Hv. apply dead_group_not_witnessed; assumption.
  Qed.
End C45.
Print Assumptions c45_change_needs_authority.
Print Assumptions c45_accepted_is_authorized.
Print Assumptions c45_revoked_for_ever.
Print Assumptions c45_revoked_record_is_empty.
Print Assumptions c45_revoked_key_for_ever.
Print Assumptions c45_dead_identity_no_authority.

(** 6. The literal reading of the property — behind every accepted change stands at least one
    witnessing key (of the identity, of its single controller, of an identity its controller /
    recovery group mentions) or the recovery address — is FALSE of the code: group thresholds of
    0 are accepted by group.go rDeserialize, and verifyThreshold is then met by an empty signer
    list, so a transaction nobody signed is accepted (known finding
    no-witness:zero-threshold-group; the driver replays the witness on the implementation). *)
Definition c45_literal_statement : Prop :=
  forall (id_ok id_valid : id -> bool) (addr_of : key -> addr) (h : list event) pre e post,
    In (pre, e, post) (trace id_ok id_valid addr_of init_state h) ->
    accepted id_ok id_valid addr_of pre e ->
    has_witness id_valid addr_of pre (e_signers e) (target (e_op e)) (required (e_op e)).

(** identity 1 registered with the controller "0 of no members" by an unsigned transaction *)
Definition c45_witness_history : list event :=
  [ mkEv false [] (RegIdWithController 1 (mkCtrlArg 9 (Some (G [] 0))) (mkProof None (Some []))) ].

Theorem c45_literal_refuted : ~ c45_literal_statement.
Proof.
  intro H.
  specialize (H (fun _ => true) (fun i => i <? 5) (fun k => k) c45_witness_history).
  cbn [c45_witness_history trace] in H.
  specialize (H _ _ _ (or_introl eq_refl)).
  assert (Ha : accepted (fun _ => true) (fun i => i <? 5) (fun k => k) init_state
                 (mkEv false [] (RegIdWithController 1 (mkCtrlArg 9 (Some (G [] 0))) (mkProof None (Some [])))))
    by (vm_compute; discriminate).
  specialize (H Ha). vm_compute in H. destruct H as [j [[] _]].
Qed.
Print Assumptions c45_literal_refuted.

(** Outside the finding class (the group the authority rests on, if any, is not satisfied by
    nobody) the literal reading holds, for all histories. *)
Theorem c45_literal_partial :
  forall (id_ok id_valid : id -> bool) (addr_of : key -> addr) (h : list event) pre e post,
    In (pre, e, post) (trace id_ok id_valid addr_of init_state h) ->
    accepted id_ok id_valid addr_of pre e ->
    (forall g, authority_group id_valid pre (target (e_op e)) (required (e_op e)) = Some g ->
               vacuous g = false) ->
    has_witness id_valid addr_of pre (e_signers e) (target (e_op e)) (required (e_op e)).
Proof.
  intros id_ok id_valid addr_of h pre e post _ Ha Hv.
  apply holds_has_witness; [|exact Hv]. apply (accepted_authorized id_ok id_valid addr_of). exact Ha.
Qed.
Print Assumptions c45_literal_partial.

(** Non-vacuity: a concrete history in which identity 0 is registered by its key, gives itself a
    second key, is used as controller to register and extend identity 1, revokes itself — after
    which it cannot be registered again and identity 1 can no longer be changed through it.
    Statement 1 applies to the accepted steps (their records change), statement 3 to the last ones. *)
Definition c45_example_history : list event :=
  [ mkEv false [100] (RegIdWithPublicKey 0 (BKey 100));
    mkEv false [100] (AddKeyByIndex 0 (BKey 101) 1);
    mkEv false [101] (AddAttributesByIndex 0 (Some [(1, 1)]) 2);        (* refused: key #2 has no authentication rights *)
    mkEv false [100] (RegIdWithController 1 (mkCtrlArg 0 None) (mkProof (Some 1) None));
    mkEv false [100] (AddNewAuthKeyByController 1 (BKey 102) (mkProof (Some 1) None));
    mkEv false [999] (AddNewAuthKeyByController 1 (BKey 103) (mkProof (Some 1) None)); (* refused: not witnessed *)
    mkEv false [100] (RevokeID 0 1);
    mkEv false [100] (RegIdWithPublicKey 0 (BKey 100));                 (* refused: revoked for ever *)
    mkEv false [100] (AddNewAuthKeyByController 1 (BKey 103) (mkProof (Some 1) None)) ]. (* refused: controller revoked *)

Example c45_nonvacuous :
  let tr := trace (fun _ => true) (fun i => i <? 5) (fun k => k) init_state c45_example_history in
  map (fun x => match step (fun _ => true) (fun i => i <? 5) (fun k => k) false
                           (fst (fst x)) (e_signers (snd (fst x))) (e_op (snd (fst x))) with
                | Some _ => true | None => false end) tr
  = [true; true; false; true; true; false; true; false; false] /\
  (exists pre e post, In (pre, e, post) tr /\ post 1 <> pre 1 /\
     key_witness (fun k => k) pre (e_signers e) 0) /\
  id_revoked (run (fun _ => true) (fun i => i <? 5) (fun k => k) init_state c45_example_history) 0 /\
  r_keys (run (fun _ => true) (fun i => i <? 5) (fun k => k) init_state c45_example_history 1)
  = [mkPk 102 false false true].
Proof.
  cbv zeta. split; [vm_compute; reflexivity|]. split; [|split; vm_compute; reflexivity].
  eexists _, _, _. split.
  - cbn [c45_example_history trace]. do 4 right. left. reflexivity.
  - split.
    + vm_compute. discriminate.
    + exists 0%nat, (mkPk 100 false true true). vm_compute. intuition.
Qed.
