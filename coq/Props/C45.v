From Ont Require Import Model.OntId.
