(** C39 — Invalid blocks are rejected without changing the ledger.

    "A block with the wrong height, an unknown or wrong previous hash, a non-increasing timestamp,
     a wrong block root, a bad transaction root or insufficient valid signatures is rejected, and
     the ledger's height, state and stored blocks are unchanged afterwards."

    The ledger is [Model.AddBlock.ledger]: current height/hash, header cache, header index cache,
    block/transaction/bloom caches, both merkle trees, the three open LevelDB batches, the merkle
    file and the three stores.  "Unchanged" below is Leibniz equality of that whole record.
    All statements hold for every interpretation of the hash-like functions ([mroot], [txroot],
    [bk_addr]), every I/O oracle [io], every ledger state and every block. *)
From Coq Require Import String List Bool NArith ZArith.
Import ListNotations.
From Ont Require Import Lib.Bytes Gen.AddBlockGen Model.AddBlock Proofs.AddBlock Proofs.C39.
Local Open Scope N_scope.

(** The model's functions have the shape the current source has (translator tie): receiver calls,
    conditions and returns of every mirrored function, in source order. *)
Example c39_code_shape_tie :
  (c39_trace_AddBlock, c39_trace_AddHeader, c39_trace_AddHeaders, c39_trace_SubmitBlock, c39_trace_saveBlock, c39_trace_submitBlock,
   c39_trace_saveBlockToBlockStore, c39_trace_saveBlockToStateStore, c39_trace_saveBlockToEventStore,
   c39_trace_verifyHeader, c39_trace_VerifyBlock, c39_trace_VerifyHeader, c39_trace_VerifyMultiSignature, c39_trace_sigVerifyWrapper,
   c39_trace_BlockDeserialization, c39_trace_AddStateMerkleTreeRoot, c39_trace_AddBlockMerkleTreeRoot)
  =
  (model_trace_AddBlock, model_trace_AddHeader, model_trace_AddHeaders, model_trace_SubmitBlock, model_trace_saveBlock, model_trace_submitBlock,
   model_trace_saveBlockToBlockStore, model_trace_saveBlockToStateStore, model_trace_saveBlockToEventStore,
   model_trace_verifyHeader, model_trace_VerifyBlock, model_trace_VerifyHeader, model_trace_VerifyMultiSignature, model_trace_sigVerifyWrapper,
   model_trace_BlockDeserialization, model_trace_AddStateMerkleTreeRoot, model_trace_AddBlockMerkleTreeRoot).
Proof. reflexivity. Qed.

Section C39.
  Variable mroot : list hash -> hash.
  Variable txroot : list hash -> hash.
  Variable bk_addr : list key -> addr.
  Variable io : io_stage -> bool.

  (** 1. Any failed check leaves the whole ledger unchanged: whatever the block and the state, if
      the outcome is neither "added" nor an I/O failure of the commit itself, the resulting state
      IS the initial state.  (Network path, in-memory AddBlock, SubmitBlock.) *)
  Theorem c39_failed_check_leaves_ledger_unchanged :
    forall st b sroot ex st' o,
      receive_block mroot txroot bk_addr io st b sroot ex = (st', o) ->
      o <> Added -> ~ io_error o -> st' = st.
  Proof. exact (receive_block_unchanged mroot txroot bk_addr io). Qed.

  Theorem c39_failed_check_leaves_ledger_unchanged_addblock :
    forall st b sroot ex st' o,
      add_block mroot bk_addr io st b sroot ex = (st', o) -> o <> Added -> ~ io_error o -> st' = st.
  Proof. exact (add_block_unchanged mroot bk_addr io). Qed.

  Theorem c39_failed_check_leaves_ledger_unchanged_submitblock :
    forall st b r st' o,
      submit_block_entry mroot bk_addr io st b r = (st', o) -> o <> Added -> ~ io_error o -> st' = st.
  Proof. exact (submit_block_entry_unchanged mroot bk_addr io). Qed.

  (** 2. THE PROPERTY.  On a well-formed ledger (the stored headers are those of the chain up to the
      tip; the header cache — header-first sync — holds only headers above the tip), a block received from the network that has any one of
      the defects — wrong height, wrong previous hash, timestamp not above the tip's, wrong block
      root, insufficient valid signatures, wrong bookkeeper set, bad transaction root, duplicated
      transaction, wrong state root — is not added, the outcome is a validity error (an error
      value whenever the height is above the current one; nil only for a stale height), and the
      ledger is exactly the ledger before. *)
  Theorem c39_invalid_block_rejected_ledger_unchanged :
    forall st b sroot ex,
      wf st ->
      header_defect mroot bk_addr st (b_hdr b) \/ content_defect txroot b \/ state_defect b sroot ex ->
      exists o, receive_block mroot txroot bk_addr io st b sroot ex = (st, o) /\
        o <> Added /\ ~ io_error o /\
        (cur_height st < hd_height (b_hdr b) -> exists e, o = Rejected e).
  Proof. exact (invalid_received_block_rejected mroot txroot bk_addr io). Qed.

  (** The same through LedgerStoreImp.AddBlock called on an in-memory block.  The transaction
      root and duplicate checks are NOT part of this path (they live in Block.Deserialization):
      see [c39_addblock_does_not_check_tx_root]. *)
  Theorem c39_invalid_block_rejected_addblock :
    forall st b sroot ex,
      wf st -> header_defect mroot bk_addr st (b_hdr b) \/ state_defect b sroot ex ->
      exists o, add_block mroot bk_addr io st b sroot ex = (st, o) /\
        o <> Added /\ ~ io_error o /\
        (cur_height st < hd_height (b_hdr b) -> exists e, o = Rejected e).
  Proof. exact (invalid_block_rejected mroot bk_addr io). Qed.

  (** ... and through SubmitBlock (consensus path). *)
  Theorem c39_invalid_block_rejected_submitblock :
    forall st b r,
      wf st -> header_defect mroot bk_addr st (b_hdr b) ->
      exists o, submit_block_entry mroot bk_addr io st b r = (st, o) /\ o <> Added /\ ~ io_error o.
  Proof. exact (invalid_submitted_block_rejected mroot bk_addr io). Qed.

  (** 3. Converse reading: a block that was added had none of the defects, extends the tip, and
      the ledger is well-formed again (so 2. applies to the next offer: induction over histories). *)
  Theorem c39_added_only_if_valid :
    forall st b sroot ex st',
      wf st -> receive_block mroot txroot bk_addr io st b sroot ex = (st', Added) ->
      ~ header_defect mroot bk_addr st (b_hdr b) /\ ~ content_defect txroot b /\ ~ state_defect b sroot ex /\
      hd_prev (b_hdr b) = cur_hash st /\ (cache_clear_of st b -> wf st').
  Proof. exact (added_only_if_valid mroot txroot bk_addr io). Qed.

  (** [cache_clear_of st b]: the header cache holds, at the height of [b], nothing but (possibly)
      the header of [b] itself — true when there is no header sync, and during a header-first sync
      of the same chain. *)
  Theorem c39_wf_invariant :
    wf empty_ledger /\
    (forall g r st, init_genesis mroot io g r = (st, Added) -> wf st /\ hdr_cache st = []) /\
    (forall st b sroot ex st' o, wf st -> add_block mroot bk_addr io st b sroot ex = (st', o) -> ~ io_error o ->
       (o = Added -> cache_clear_of st b) -> wf st') /\
    (forall st hd st', wf st -> add_header bk_addr st hd = (st', None) -> cur_height st < hd_height hd -> wf st').
  Proof.
    split; [exact wf_empty|]. split; [exact (init_genesis_wf mroot io)|].
    split; [exact (add_block_wf mroot bk_addr io)|exact (add_header_wf bk_addr)].
  Qed.

  (** 3b. HEADER-FIRST SYNC.  AddHeader: a header that fails any header check is refused and the
      ledger (header cache, header index, everything) is unchanged ... *)
  Theorem c39_invalid_header_rejected :
    forall st hd, hd_height hd <> 0 -> ~ header_ok bk_addr st hd ->
      exists e, add_header bk_addr st hd = (st, Some e).
  Proof. exact (invalid_header_rejected bk_addr). Qed.

  (** ... acceptance of a block never depends on the header cache content: AddBlock runs
      verifyHeader again in full; replacing the cache by ANY other cache that answers the
      predecessor lookup the same way gives the same outcome and the same ledger up to the cache.
      In particular a header with the same hash (same unsigned fields) accepted earlier by
      AddHeader does not let a block with missing or foreign signatures through. *)
  Theorem c39_header_cache_irrelevant :
    forall st c b sroot ex st1 o1,
      assoc c (hd_prev (b_hdr b)) = assoc (hdr_cache st) (hd_prev (b_hdr b)) ->
      add_block mroot bk_addr io st b sroot ex = (st1, o1) ->
      exists st2, add_block mroot bk_addr io (set_hdr_cache st c) b sroot ex = (st2, o1) /\
                  set_hdr_cache st2 [] = set_hdr_cache st1 [].
  Proof. exact (header_cache_irrelevant mroot bk_addr io). Qed.

  (** ... and after the valid next header went through AddHeader, a defective block offered to
      AddBlock is rejected and the ledger (with that header in cache and index) is unchanged. *)
  Theorem c39_header_first_block_rejected :
    forall st hv st1 b sroot ex,
      wf st -> add_header bk_addr st hv = (st1, None) -> cur_height st < hd_height hv ->
      header_defect mroot bk_addr st1 (b_hdr b) \/ state_defect b sroot ex ->
      exists o, add_block mroot bk_addr io st1 b sroot ex = (st1, o) /\ o <> Added /\ ~ io_error o.
  Proof. exact (header_first_block_rejected mroot bk_addr io). Qed.

  (** 4. A header changed after signing (every signature still the one made for another header
      hash) is rejected on any ledger state, whatever else is right. *)
  Theorem c39_unsigned_mutation_rejected :
    forall st b sroot ex m0,
      (forall s, In s (hd_sigs (b_hdr b)) -> exists k, s = SigOk k m0) ->
      m0 <> hd_hash (b_hdr b) ->
      exists o, add_block mroot bk_addr io st b sroot ex = (st, o) /\ o <> Added /\ ~ io_error o.
  Proof. exact (unsigned_mutation_rejected mroot bk_addr io). Qed.

  (** 5. The checks are not vacuously strict: a block that passes verifyHeader, has the right
      height, block root and state root is added when the commit's I/O succeeds, and the ledger
      advances by exactly that block. *)
  Theorem c39_valid_block_accepted :
    forall st b sroot r,
      cur_height st < hd_height (b_hdr b) -> hd_height (b_hdr b) = next_height (cur_height st) ->
      verify_header bk_addr st (b_hdr b) = None ->
      (b_txs b = [] \/ r_merkle r = sroot) ->
      hd_blockroot (b_hdr b) = mroot (blk_tree st ++ [hd_txroot (b_hdr b)]) ->
      (forall s, io s = true) ->
      exists st', add_block mroot bk_addr io st b sroot (Some r) = (st', Added) /\
        cur_height st' = hd_height (b_hdr b) /\ cur_hash st' = hd_hash (b_hdr b) /\
        blk_tree st' = blk_tree st ++ [hd_txroot (b_hdr b)] /\
        st_tree st' = st_tree st ++ [r_hash r] /\
        merkle_file st' = merkle_file st ++ [hd_txroot (b_hdr b)].
  Proof. exact (add_block_accepts mroot bk_addr io). Qed.

  (** 6. validation.VerifyBlock and LedgerStoreImp.verifyHeader accept exactly the same headers
      (different check order, same thresholds — [c39_validator_m] and [c39_solo_m] are the
      expressions found in the source). *)
  Theorem c39_validators_agree :
    forall st hd, verify_block bk_addr st hd = None <-> verify_header bk_addr st hd = None.
  Proof. exact (validators_agree bk_addr). Qed.

  (** 7. Outside the property (the block is valid, the environment fails): every validity check
      precedes every mutation, but the commit itself is not atomic.  If the last commit
      (stateStore.CommitTo) fails, submitBlock returns an error with the current block unchanged
      while both merkle trees, the merkle file, the block cache, the block store and the event
      store already contain the block ... *)
  Theorem c39_late_io_failure_residue :
    forall st b r st' o,
      passed_submit mroot st b ->
      io IoNotify = true -> io IoCommitBlock = true -> io IoCommitEvent = true -> io IoCommitState = false ->
      submit_block mroot io st b r = (st', o) ->
      o = Rejected (EIo IoCommitState) /\
      cur_height st' = cur_height st /\ cur_hash st' = cur_hash st /\ sstore st' = sstore st /\
      blk_tree st' = blk_tree st ++ [hd_txroot (b_hdr b)] /\
      st_tree st' = st_tree st ++ [r_hash r] /\
      merkle_file st' = merkle_file st ++ [hd_txroot (b_hdr b)] /\
      assoc (blk_cache st') (hd_hash (b_hdr b)) = Some (b_hdr b) /\
      db_get (bstore st') KCurrent = Some (VCurrent (hd_hash (b_hdr b)) (hd_height (b_hdr b))) /\
      db_get (estore st') KCurrent = Some (VCurrent (hd_hash (b_hdr b)) (hd_height (b_hdr b))).
  Proof. exact (late_io_failure_residue mroot io). Qed.
End C39.

(** ... and the same valid block offered again is then refused for a wrong block root, under any
    I/O behaviour, until the process restarts (the in-memory tree has the leaf twice). *)
Theorem c39_late_io_failure_sticky :
  forall mroot st b r st' io',
    hd_height (b_hdr b) = next_height (cur_height st) -> cur_height st < hd_height (b_hdr b) ->
    cur_height st' = cur_height st ->
    blk_tree st' = blk_tree st ++ [hd_txroot (b_hdr b)] ->
    mroot (blk_tree st ++ [hd_txroot (b_hdr b)] ++ [hd_txroot (b_hdr b)]) <> hd_blockroot (b_hdr b) ->
    submit_block mroot io' st' b r = (st', Rejected EBlockRoot).
Proof. exact late_io_failure_sticky. Qed.

Print Assumptions c39_code_shape_tie.
Print Assumptions c39_failed_check_leaves_ledger_unchanged.
Print Assumptions c39_failed_check_leaves_ledger_unchanged_addblock.
Print Assumptions c39_failed_check_leaves_ledger_unchanged_submitblock.
Print Assumptions c39_invalid_block_rejected_ledger_unchanged.
Print Assumptions c39_invalid_block_rejected_addblock.
Print Assumptions c39_invalid_block_rejected_submitblock.
Print Assumptions c39_added_only_if_valid.
Print Assumptions c39_wf_invariant.
Print Assumptions c39_invalid_header_rejected.
Print Assumptions c39_header_cache_irrelevant.
Print Assumptions c39_header_first_block_rejected.
Print Assumptions c39_unsigned_mutation_rejected.
Print Assumptions c39_valid_block_accepted.
Print Assumptions c39_validators_agree.
Print Assumptions c39_late_io_failure_residue.
Print Assumptions c39_late_io_failure_sticky.

(** * Concrete instance (non-vacuity and two facts about the code as it is) *)
Module Instance.
  Definition mroot (l : list hash) : hash := 100 + N.of_nat (length l).
  Definition txroot (l : list hash) : hash := 200 + N.of_nat (length l).
  Definition bk_addr (_ : list key) : addr := 7.
  Definition io (_ : io_stage) : bool := true.
  (* genesis; then a valid block signed by key 5 (1 of 1) carrying one transaction *)
  Definition g : block := mkBlock (mkHeader 1 0 0 10 200 0 7 [] []) [].
  Definition st0 : ledger := fst (init_genesis mroot io g (mkExec 50 50 [] [])).
  Definition b1 : block := mkBlock (mkHeader 2 1 1 11 201 102 7 [5] [SigOk 5 2]) [31].
  Definition r1 : exec_res := mkExec 51 52 [31] [(1, Some 2)].
  Definition st1 : ledger := fst (add_block mroot bk_addr io st0 b1 52 (Some r1)).
  (* next block, timestamp not above the tip's (everything else right, properly signed) *)
  Definition b2_bad_time : block := mkBlock (mkHeader 3 2 2 11 200 103 7 [5] [SigOk 5 3]) [].
  (* next block whose header announces tx root 999 for the transactions [32] (block root and
     signature consistent with the announced root) *)
  Definition b2_bad_txroot : block := mkBlock (mkHeader 4 2 2 12 999 103 7 [5] [SigOk 5 4]) [32].
  (* header-first sync on st1: the valid next header hv (hash 5) goes through AddHeader; then a
     block with the SAME hash and unsigned fields but a foreign signature is offered *)
  Definition hv : header := mkHeader 5 2 2 12 200 103 7 [5] [SigOk 5 5].
  Definition st1h : ledger := fst (add_header bk_addr st1 hv).
  Definition b2_same_hash_foreign_sig : block := mkBlock (mkHeader 5 2 2 12 200 103 7 [5] [SigOk 9 5]) [].
End Instance.

(** The hypotheses of the property theorem are satisfiable by a non-trivial ledger (genesis plus
    one block with a transaction) and a defective block; the outcome is the expected error. *)
Example c39_nonvacuous :
  wf Instance.st1 /\ Instance.st1 <> Instance.st0 /\ cur_height Instance.st1 = 1 /\
  header_defect Instance.mroot Instance.bk_addr Instance.st1 (b_hdr Instance.b2_bad_time) /\
  receive_block Instance.mroot Instance.txroot Instance.bk_addr Instance.io Instance.st1 Instance.b2_bad_time 0
                (Some (mkExec 53 54 [] [])) = (Instance.st1, Rejected ETimestamp).
Proof.
  assert (H0 : init_genesis Instance.mroot Instance.io Instance.g (mkExec 50 50 [] []) = (Instance.st0, Added))
    by (vm_compute; reflexivity).
  assert (H1 : add_block Instance.mroot Instance.bk_addr Instance.io Instance.st0 Instance.b1 52 (Some Instance.r1)
               = (Instance.st1, Added)) by (vm_compute; reflexivity).
  split; [|split; [|split; [|split]]].
  - destruct (c39_wf_invariant Instance.mroot Instance.bk_addr Instance.io) as (_ & Hg & Ha & _).
    destruct (Hg _ _ _ H0) as [Hw0 Hc0].
    eapply Ha; [exact Hw0|exact H1|intros [s X]; discriminate|intros _; apply cache_clear_of_nil; exact Hc0].
  - vm_compute; discriminate.
  - vm_compute; reflexivity.
  - eapply D_timestamp_not_increasing with (tip := b_hdr Instance.b1); vm_compute; [reflexivity|discriminate].
  - vm_compute; reflexivity.
Qed.

(** The in-memory AddBlock path does not look at the transaction root: the block whose header
    announces a root that is not the root of its transactions is ADDED by [add_block], and
    refused only by the deserialization checks of the network path. *)
Example c39_addblock_does_not_check_tx_root :
  content_defect Instance.txroot Instance.b2_bad_txroot /\
  snd (add_block Instance.mroot Instance.bk_addr Instance.io Instance.st1 Instance.b2_bad_txroot 60
                 (Some (mkExec 55 60 [32] []))) = Added /\
  receive_block Instance.mroot Instance.txroot Instance.bk_addr Instance.io Instance.st1 Instance.b2_bad_txroot 60
                (Some (mkExec 55 60 [32] [])) = (Instance.st1, Rejected ETxRoot).
Proof.
  split; [|split]; [|vm_compute; reflexivity|vm_compute; reflexivity].
  apply D_bad_tx_root. vm_compute. discriminate.
Qed.

(** Header-first sync, concretely: after AddHeader accepted the valid header [hv], the block with
    the same hash but a foreign signature is refused (and the valid block is accepted). *)
Example c39_header_first_nonvacuous :
  add_header Instance.bk_addr Instance.st1 Instance.hv = (Instance.st1h, None) /\
  Instance.st1h <> Instance.st1 /\
  add_block Instance.mroot Instance.bk_addr Instance.io Instance.st1h Instance.b2_same_hash_foreign_sig 0
            (Some (mkExec 53 54 [] [])) = (Instance.st1h, Rejected ESigVerify) /\
  snd (add_block Instance.mroot Instance.bk_addr Instance.io Instance.st1h (mkBlock Instance.hv []) 0
                 (Some (mkExec 53 54 [] []))) = Added.
Proof. split; [|split; [|split]]; vm_compute; try reflexivity; discriminate. Qed.
