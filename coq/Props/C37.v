(** C37 — DHT routing table stays structurally valid.

    "After any sequence of updates and removals, every peer appears at most once, no bucket
    exceeds the bucket size, each peer sits in the bucket matching its common-prefix length with
    the local id (or the last bucket), and nearest-peer queries return distinct peers sorted by XOR
    distance to the target."

    Model: Model/KBucket.v (mirror of p2pserver/dht/kbucket and of the id functions of
    p2pserver/common/id.go); the comparison operators of its branch conditions, the id width and
    the configured bucket size are regenerated from the source on every run (Gen/KBucketGen.v).
    Histories are arbitrary lists of Update / Remove / NearestPeers calls with arbitrary ids
    (byte strings of any content and length) and addresses, starting from NewRoutingTable. *)
From Coq Require Import List ZArith Sorted Lia.
Import ListNotations.
From Ont Require Import Lib.Bytes Gen.KBucketGen Model.KBucket Model.KBucketConc Proofs.C37 Proofs.C37Conc.

(** The full statement for one configuration (bucket size, local id): every history runs to
    completion ([exec] is [None] when a call would not return); the final table has every peer id
    once ([NoDup]), every bucket within the bucket size, every peer in the bucket numbered by its
    common prefix length with the local id or, with a prefix at least that long, in the last
    bucket ([table_ok]); and every NearestPeers query with a count in the [int] range returns
    ([nearest_spec]) peers with distinct ids, sorted by [bytes.Compare] of their XOR distance to
    the target, all of them peers of the table, min(count, table size) many. *)
Definition c37_statement : Prop :=
  forall (size : Z) (local : peer_id), length local = KB_ID_LEN -> c37_holds_for size local.

(** Proved for every positive bucket size.  The hypothesis is needed ([c37_unfold_needs_positive_size]);
    the node configures [dht.KValue] ([c37_configured_size_positive]). *)
Theorem c37_routing_table_valid :
  forall (size : Z) (local : peer_id),
    (1 <= size)%Z -> length local = KB_ID_LEN -> c37_holds_for size local.
Proof. exact c37_holds. Qed.
Print Assumptions c37_routing_table_valid.

(** The size NewDHT passes to NewRoutingTable (expression and value read from the source). *)
Theorem c37_configured_size_positive : (1 <= kb_dht_bucket_size KB_KVALUE)%Z.
Proof. exact default_size_positive. Qed.
Print Assumptions c37_configured_size_positive.

(** Bucket unfolding ends: within [unfold_fuel] rounds for every table with a positive bucket
    size whose local id has the real width — whatever the table holds, the local id included. *)
Theorem c37_unfold_terminates :
  forall t : table, (1 <= t_size t)%Z -> 1 <= length (t_buckets t) ->
    length (t_local t) = KB_ID_LEN -> next_bucket unfold_fuel t <> None.
Proof. exact unfold_terminates. Qed.
Print Assumptions c37_unfold_terminates.

(** Candidate finding F14, settled: with a bucket size of zero or less (NewRoutingTable accepts
    any int; no caller in the tree passes one) the unfolding never ends, for any amount of fuel, and
    the first Update of any history does not return.  So [c37_statement] is false as stated for
    all sizes, and the hypothesis [1 <= size] above cannot be dropped. *)
Theorem c37_unfold_needs_positive_size :
  forall (size : Z) (local id : peer_id) (addr : N) (ops : list op),
    (size <= 0)%Z ->
    (forall fuel t, t_size t = size -> next_bucket fuel t = None) /\
    exec (new_table size local) (OUpdate id addr :: ops) = None.
Proof. exact unfold_needs_positive_size. Qed.
Print Assumptions c37_unfold_needs_positive_size.

Theorem c37_statement_refuted_for_nonpositive_size : ~ c37_statement.
Proof. exact not_for_all_sizes. Qed.
Print Assumptions c37_statement_refuted_for_nonpositive_size.

(** The order used by NearestPeers is a total preorder on peers (so "sorted" is meaningful). *)
Theorem c37_distance_order_total_preorder :
  forall target p q r,
    (dist_le target p q \/ dist_le target q p) /\
    (dist_le target p q -> dist_le target q r -> dist_le target p r).
Proof. exact dist_le_total_preorder. Qed.
Print Assumptions c37_distance_order_total_preorder.

(** What the two byte-level notions mean for real ids ([KB_ID_LEN] bytes, each below 256):
    the order NearestPeers sorts by is the numeric order of the XOR distances (the byte strings
    read as big-endian numbers), and CommonPrefixLen is the number of leading zero bits of the XOR
    distance written with 8*KB_ID_LEN bits, i.e. the number of leading bits two ids share. *)
Theorem c37_distance_order_is_numeric :
  forall (target : peer_id) (p q : peer),
    wf_id target -> wf_id (fst p) -> wf_id (fst q) ->
    (dist_le target p q <-> (xor_dist target (fst p) <= xor_dist target (fst q))%N).
Proof. exact dist_le_numeric. Qed.
Print Assumptions c37_distance_order_is_numeric.

Theorem c37_cpl_is_shared_prefix_bits :
  forall a b : peer_id, wf_id a -> wf_id b ->
    cpl a b = 8 * KB_ID_LEN - N.size_nat (xor_dist a b).
Proof. exact cpl_numeric. Qed.
Print Assumptions c37_cpl_is_shared_prefix_bits.

(** Remove is effective on every reachable table: after Remove(id) no peer with that id is left
    in any bucket (the removal takes the first entry of the home bucket, which by the invariant is
    the only entry anywhere). *)
Theorem c37_remove_effective :
  forall (size : Z) (local : peer_id) (ops : list op) (id : peer_id) (t : table),
    (1 <= size)%Z -> length local = KB_ID_LEN ->
    exec (new_table size local) ops = Some t ->
    forall p, in_table (fst (remove t id)) p -> fst p <> id.
Proof. exact remove_effective_reachable. Qed.
Print Assumptions c37_remove_effective.

(** Update is effective on every reachable table: when it reports the peer as added (the case in
    which rt.PeerAdded is called), the peer with exactly that id and address is in the table. *)
Theorem c37_update_added_effective :
  forall (size : Z) (local : peer_id) (ops : list op) (id : peer_id) (addr : N) (t : table),
    (1 <= size)%Z -> length local = KB_ID_LEN ->
    exec (new_table size local) ops = Some t ->
    snd (update t id addr) = UAdded -> in_table (fst (update t id addr)) (id, addr).
Proof. exact update_added_reachable. Qed.
Print Assumptions c37_update_added_effective.

(** Update never loses a peer, on any reachable table: bucket unfolding only moves entries between
    the last two buckets, MoveToFront permutes a bucket, and a full bucket rejects the newcomer
    instead of evicting. *)
Theorem c37_update_keeps_peers :
  forall (size : Z) (local : peer_id) (ops : list op) (id : peer_id) (addr : N) (t : table) (p : peer),
    (1 <= size)%Z -> length local = KB_ID_LEN ->
    exec (new_table size local) ops = Some t ->
    in_table t p -> in_table (fst (update t id addr)) p.
Proof. exact update_keeps_reachable. Qed.
Print Assumptions c37_update_keeps_peers.

(** Remove(id) removes nothing but peers with that id. *)
Theorem c37_remove_keeps_others :
  forall (size : Z) (local : peer_id) (ops : list op) (id : peer_id) (t : table) (p : peer),
    (1 <= size)%Z -> length local = KB_ID_LEN ->
    exec (new_table size local) ops = Some t ->
    in_table t p -> fst p <> id -> in_table (fst (remove t id)) p.
Proof. exact remove_keeps_reachable. Qed.
Print Assumptions c37_remove_keeps_others.

(** Concurrent callers.  The theorems above are about sequential histories; the table is used
    by several goroutines, and its claim is that Update / Remove / NearestPeers are atomic with
    respect to each other because each runs under the one table lock.  That discipline is read from
    the source on every run ([kb_locks_update], [kb_locks_remove], [kb_locks_nearest] in
    Gen/KBucketGen.v: the lock, unlock and rt.Buckets events of each method, called table methods
    inlined) and [lock_discipline_ok] computes whether Update and Remove are one exclusive section
    and NearestPeers one shared section.  Model/KBucketConc.v lets any number of threads run
    non-atomic calls (take the lock, read the table, leave it half written, write the result of the
    sequential model, release) under any schedule.  Under the discipline found in the source, in
    every reachable configuration: nobody has read a half-written table; the shared table is
    [exec] of the writes in the order they took the lock, and is [table_ok]; every table a
    NearestPeers call saw is the table of a sequential history, so its answer is [nearest_spec].
    The proof needs [lock_discipline_ok] to compute to [true]: a method that checks under the
    shared lock and inserts under the exclusive one without re-checking no longer has that shape
    ([c37_lock_discipline_rejects_lock_upgrade]) and this theorem stops checking. *)
Theorem c37_concurrent_callers :
  forall (size : Z) (local : peer_id) (progs : list (list op)) (c : conf),
    (1 <= size)%Z -> length local = KB_ID_LEN ->
    creach lock_discipline_ok (init_conf (new_table size local) progs) c ->
    concurrent_ok size local c.
Proof. exact concurrent_callers. Qed.
Print Assumptions c37_concurrent_callers.

(** Without the discipline the model does exhibit a torn read (so the lock is not decoration). *)
Theorem c37_lock_needed :
  forall (size : Z) (local id : peer_id),
    exists c, creach false (init_conf (new_table size local) [[OUpdate id 1%N]; [ONearest id 1%Z]]) c /\
              c_bad c = true.
Proof. exact undisciplined_reads_torn. Qed.
Print Assumptions c37_lock_needed.

Example c37_lock_discipline_rejects_lock_upgrade :
  exclusive_shape [KRLock; KDeferRUnlock; KTouch; KLock; KDeferUnlock; KTouch] = false /\
  exclusive_shape [KLock; KDeferUnlock; KTouch] = true /\
  shared_shape [KRLock; KTouch; KRUnlock] = true.
Proof. repeat split. Qed.

(** Non-vacuity, and the F14 scenario itself: bucket size 1, the local id inserted first, then
    two peers at common prefix lengths 0 and 159.  The history runs to completion, the table has
    unfolded to 162 buckets with the three peers in buckets 0, 159 and 160, and a query returns the
    three peers nearest first. *)
Definition ex_local : peer_id := [0;7;14;21;28;35;42;49;56;63;70;77;84;91;98;105;112;119;126;133]%N.
Definition ex_far : peer_id := [128;7;14;21;28;35;42;49;56;63;70;77;84;91;98;105;112;119;126;133]%N.
Definition ex_near : peer_id := [0;7;14;21;28;35;42;49;56;63;70;77;84;91;98;105;112;119;126;132]%N.

Example c37_nonvacuous :
  exists t,
    exec (new_table 1 ex_local) [OUpdate ex_local 1; OUpdate ex_far 2; OUpdate ex_near 3] = Some t /\
    length (t_buckets t) = 162 /\
    nth 0 (t_buckets t) [] = [(ex_far, 2%N)] /\
    nth 159 (t_buckets t) [] = [(ex_near, 3%N)] /\
    nth 160 (t_buckets t) [] = [(ex_local, 1%N)] /\
    table_ok t /\
    nearest_peers t ex_near 5 = NOk [(ex_near, 3%N); (ex_local, 1%N); (ex_far, 2%N)].
Proof.
  destruct (c37_routing_table_valid 1 ex_local ltac:(lia) eq_refl
              [OUpdate ex_local 1; OUpdate ex_far 2; OUpdate ex_near 3]) as [t [E [OK _]]].
  exists t. split; [exact E|].
  assert (Et : Some t = exec (new_table 1 ex_local) [OUpdate ex_local 1; OUpdate ex_far 2; OUpdate ex_near 3])
    by (symmetry; exact E).
  vm_compute in Et. inversion Et; subst t. clear Et E.
  split; [vm_compute; reflexivity|].
  split; [vm_compute; reflexivity|].
  split; [vm_compute; reflexivity|].
  split; [vm_compute; reflexivity|].
  split; [exact OK|vm_compute; reflexivity].
Qed.
