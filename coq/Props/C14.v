From Ont Require Import Model.VmValue.
