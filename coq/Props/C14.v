(** C14 — NeoVM value serialization round-trips and rejects cycles safely.

    Model: Model/VmValue.v (VmValue.Serialize / Deserialize / BuildParamToNative and
    CircularRefAndDepthDetection over heap graphs, so that sharing and reference cycles exist;
    outcome SETS where Go's randomised map iteration decides). Limits, comparison operands and type
    tags: Gen/VmValueConsts.v, regenerated from /repo's source on every run.

    Statement, clause by clause:
    (1) round trip: [c14_deser_ser] (full: acceptance and decoding to the canonical representative),
        [c14_deser_ser_whenever_accepted] (any nesting Serialize lets through, up to MAX_COUNT),
        [c14_norm_canonical] (the representative is canonical and has the same encoding);
    (2) every byte string is decoded or refused, never stuck: [c14_deser_total],
        [c14_deser_in_bounds], [c14_deser_output_within_limits];
    (3) cycles: the full statement [cycle_rejected] is REFUTED on the current tree (finding F4):
        [c14_cycle_rejected_refuted], witness w = [1, w]; what does hold is
        [c14_cycle_rejected_partial] (Serialize: every run ends with an error, the recursion being
        bounded only by the 1 MiB output limit; both entry points: a cycle through first elements is
        refused by the detector at once; BuildParamToNative never accepts a cyclic value - when it
        returns at all). *)
From Coq Require Import List Bool Arith NArith ZArith Lia.
Import ListNotations.
From Ont Require Import Lib.Bytes Model.NeoInt Gen.VmValueConsts Model.VmValue.
From Ont Require Import Proofs.VmValueLib Proofs.VmValueCodec Proofs.VmValueCycle Proofs.VmValueAccept Proofs.VmValueNorm
  Proofs.VmValueWf.
Local Open Scope N_scope.

(** The limit comparisons of the source have the operands the model assumes (left-hand sides are
    the plain depth / size / length; the right-hand sides are the constants the model reads). *)
Theorem c14_limit_sites :
  (forall x, detect_depth x = x) /\ (forall x, deser_depth x = x) /\ (forall x, ser_size x = x) /\
  (forall x, bytes_len x = x) /\ (forall x, array_append_len x = x) /\ (forall x, struct_append_len x = x) /\
  (forall x, int_maglen x = x).
Proof. exact sites_are_identity. Qed.
Print Assumptions c14_limit_sites.

(** * (1) Round trip *)

(** Any acyclic VM value (a heap value [v] with a finite unfolding [t]; sub-values may be shared)
    nested at most MAX_STRUCT_DEPTH deep, within the VM's limits (integers within MAX_INT_SIZE
    bytes, arrays/structs within MAX_ARRAY_SIZE, map keys with distinct images, no interop) and whose
    encoding fits MAX_BYTEARRAY_SIZE: the ONLY possible outcome of Serialize is the encoding [enc t],
    and Deserialize reads it back completely as [norm t]. *)
Theorem c14_deser_ser : forall (h : heap) (v : hval) (f : nat) (t : tval),
  unfold h f v = Some t ->
  (tdepth t <= max_struct_depth)%nat ->
  within_limits t = true ->
  N.of_nat (length (enc t)) <= max_ser_size ->
  h_serialize h 0 f v [] = rs_ret (enc t) /\ deserialize (enc t) = DOk (norm t, []).
Proof.
  intros h v f t Hu Hd Hw Hs. split.
  - apply (serialize_accepts h 0 f v t []); [exact Hu| |apply within_interop_free; exact Hw|exact Hs].
    pose proof (theight_le_depth t). lia.
  - unfold deserialize, deser_fuel. rewrite <- (app_nil_r (enc t)) at 2.
    pose proof struct_depth_le_count.
    apply deser_enc; [exact Hw|lia|exact Hs|lia].
Qed.
Print Assumptions c14_deser_ser.

(** Deeper values (the detector looks at first elements only, so Serialize lets deep nesting in
    other positions through): whenever Serialize can succeed at all - from any sink prefix size
    [base], with any stack [f] - what it wrote is [enc] of the unfolding, and within the decoder's
    own limits (depth MAX_COUNT) it reads back as [norm t]. *)
Theorem c14_deser_ser_whenever_accepted : forall h base f v bs,
  r_ok (h_serialize h base f v []) = Some bs ->
  exists t, unfold h f v = Some t /\ bs = enc t /\
    (within_limits t = true -> (tdepth t <= max_count)%nat -> deserialize bs = DOk (norm t, [])).
Proof. exact deser_ser_heap. Qed.
Print Assumptions c14_deser_ser_whenever_accepted.

(** "equal value": [norm t] is the canonical representative of [t] - integers in the
    representation IsInt64 selects, map entries in sorted key-image order, everything else
    untouched; normalising twice changes nothing and [t] and [norm t] have the same encoding. *)
Theorem c14_norm_canonical : forall t, within_limits t = true -> norm (norm t) = norm t /\ enc (norm t) = enc t.
Proof. exact norm_canonical. Qed.
Print Assumptions c14_norm_canonical.

(** * (2) Deserialize on arbitrary bytes *)

(** Never stuck: the fuel [deserialize] supplies (2*len+1 nested calls and loop iterations) is
    never exhausted, for any byte string. *)
Theorem c14_deser_total : forall b, deserialize b <> DOof.
Proof. exact deser_total. Qed.
Print Assumptions c14_deser_total.

(** What is accepted was read from inside the input. *)
Theorem c14_deser_in_bounds : forall b t r, deserialize b = DOk (t, r) -> (length r < length b)%nat.
Proof. exact deser_in_bounds. Qed.
Print Assumptions c14_deser_in_bounds.

(** What is accepted respects the VM's limits: nesting at most MAX_COUNT+1 containers... *)
Theorem c14_deser_output_within_limits : forall b t r, deserialize b = DOk (t, r) ->
  within_limits t = true /\ (tdepth t <= S max_count)%nat.
Proof. exact deser_output_within_limits. Qed.
Print Assumptions c14_deser_output_within_limits.

(** * (3) Reference cycles *)

(** "every possible run ends with an error": no success, no exhaustion, some error *)
Definition rejects (r : rs) : Prop := r_ok r = None /\ r_oof r = false /\ r_errs r <> [].

(** FULL STATEMENT: a value with a reachable reference cycle (at any position) is rejected with an
    error by Serialize and by BuildParamToNative - given enough stack, however much. *)
Definition cycle_rejected : Prop :=
  forall h v, cyclic h v ->
    (exists f, rejects (h_serialize h 0 f v [])) /\ (exists f, rejects (h_build h f v [])).

(** KNOWN FINDING F4: refuted. On w = [1, w] the detector answers false (it inspects element 0
    only) and BuildParamToNative recurses for ever: with ANY stack it is still recursing. *)
Theorem c14_cycle_rejected_refuted : ~ cycle_rejected.
Proof.
  intro H. destruct (H W_heap W W_cyclic) as [_ [f [_ [Hoof _]]]].
  destruct (build_witness_diverges f []) as [_ [_ Ht]]. congruence.
Qed.
Print Assumptions c14_cycle_rejected_refuted.

Theorem c14_witness : cyclic W_heap W /\ detect_top W_heap W = (true, false) /\
  (forall f s, let r := h_build W_heap f W s in r_ok r = None /\ r_errs r = [] /\ r_oof r = true) /\
  (forall base f s, base + N.of_nat (length s) + 5 * N.of_nat f <= max_ser_size ->
     let r := h_serialize W_heap base f W s in r_ok r = None /\ r_errs r = [] /\ r_oof r = true).
Proof.
  split; [exact W_cyclic|]. split; [exact W_not_detected|]. split; [exact build_witness_diverges|].
  intros base f s H. exact (serialize_witness_deep base f s H).
Qed.
Print Assumptions c14_witness.

(** PARTIAL (what holds on the current tree):
    (a) Serialize: on EVERY heap and EVERY value with a reachable cycle, every possible run ends with
        an error - but only because the size test stops it: the stack needed is [ser_fuel] =
        MAX_BYTEARRAY_SIZE/2 + MAX_STRUCT_DEPTH + 3 nested calls (and [c14_witness] shows the witness
        does need more than MAX_BYTEARRAY_SIZE/5 of them);
    (b) a cycle through first elements (every first-element path from v is longer than the depth
        limit; for maps: whichever entry Go iterates first) is refused by the detector at the
        outermost call of both entry points, with the circular-reference error and nothing else;
    (c) BuildParamToNative never accepts a cyclic value (if it returns, it returns an error), and it
        does terminate on every acyclic value.
    Missing for the full statement: BuildParamToNative on cycles that avoid element 0. *)
Theorem c14_cycle_rejected_partial :
  (forall h base v, cyclic h v -> rejects (h_serialize h base ser_fuel v [])) /\
  (forall h v, endless h (S max_struct_depth) v -> forall base f s,
     h_serialize h base (S f) v s = mkRs None [ECircular] false /\ h_build h (S f) v s = mkRs None [ECircular] false) /\
  (forall h v, cyclic h v -> forall f s, r_ok (h_build h f v s) = None) /\
  (forall h f v t, unfold h f v = Some t -> forall s, r_oof (h_build h f v s) = false).
Proof.
  split; [exact serialize_cyclic_rejected|]. split; [exact first_element_cycle_rejected|].
  split; [exact build_cyclic_never_ok|exact build_acyclic_terminates].
Qed.
Print Assumptions c14_cycle_rejected_partial.

(** Serialize's recursion is bounded on every heap value, cyclic or not. *)
Theorem c14_serialize_terminates : forall h base v, r_oof (h_serialize h base ser_fuel v []) = false.
Proof. exact serialize_terminates. Qed.
Print Assumptions c14_serialize_terminates.

(** A set of values closed under "first element" in which every member has a first element (e.g. a
    cycle through first elements) is endless, hence refused by (b). *)
Theorem c14_first_element_cycles_are_endless : forall h (S : hval -> Prop),
  first_closed h S -> forall n v, S v -> endless h n v.
Proof. exact first_closed_endless. Qed.
Print Assumptions c14_first_element_cycles_are_endless.

(** * Non-vacuity *)

(** A heap with a shared sub-value (object 1 is referenced twice), a map with two keys given in
    unsorted order, a bigintType value that fits int64: the hypotheses of [c14_deser_ser] hold, and
    [norm] is not the identity on it. *)
Definition ex_heap : heap :=
  [ OList [HArr 1; HMap 2; HArr 1; HPrim (PBig 5)];
    OList [HPrim (PBytes [1; 2; 3]); HPrim (PBool true)];
    OMap [(PInt 300, HArr 1); (PBytes [7], HPrim (PInt (-1)))] ].

Example c14_deser_ser_nonvacuous :
  exists t, unfold ex_heap 4 (HStruct 0) = Some t /\ (tdepth t <= max_struct_depth)%nat /\
    within_limits t = true /\ N.of_nat (length (enc t)) <= max_ser_size /\ norm t <> t /\
    h_serialize ex_heap 0 4 (HStruct 0) [] = rs_ret (enc t) /\ deserialize (enc t) = DOk (norm t, []).
Proof.
  eexists. split; [vm_compute; reflexivity|].
  split; [vm_compute; repeat constructor|]. split; [vm_compute; reflexivity|].
  split; [vm_compute; discriminate|]. split; [vm_compute; discriminate|].
  apply c14_deser_ser; [vm_compute; reflexivity|vm_compute; repeat constructor|vm_compute; reflexivity|vm_compute; discriminate].
Qed.

(** a = [a; 1]: a cycle through the first element; (b) of the partial theorem applies. *)
Example c14_first_cycle_nonvacuous :
  let h := [OList [HArr 0; HPrim (PInt 1)]] in
  cyclic h (HArr 0) /\ endless h (S max_struct_depth) (HArr 0) /\
  h_build h 5 (HArr 0) [] = mkRs None [ECircular] false.
Proof.
  cbv zeta. split.
  - exists (HArr 0%nat). split; [constructor|]. apply (reach1_step _ (HArr 0%nat) (HArr 0%nat)); [left; reflexivity|constructor].
  - split; [|vm_compute; reflexivity].
    apply (c14_first_element_cycles_are_endless _ (fun v => v = HArr 0%nat)); [|reflexivity].
    intros v ->. split.
    + exists (HArr 0%nat). apply (fnext_arr _ 0%nat (HArr 0%nat) [HPrim (PInt 1)]). reflexivity.
    + intros w Hw. inversion Hw as [a x r E| |]; subst. cbn in E. congruence.
Qed.

(** A map whose two values differ in depth: the detector's answer depends on Go's iteration order
    (both answers possible) - the model keeps both. *)
Example c14_map_order_dependent :
  let h := [OMap [(PInt 1, HArr 1); (PInt 2, HPrim (PInt 0))];
            OList [HArr 2]; OList [HArr 3]; OList [HArr 4]; OList [HArr 5]; OList [HArr 6]; OList [HArr 7];
            OList [HArr 8]; OList [HArr 9]; OList [HArr 10]; OList [HArr 11]; OList [HPrim (PInt 7)]] in
  detect_top h (HMap 0) = (true, true).
Proof. vm_compute. reflexivity. Qed.
