(** C22 — Base58 and hex addresses round-trip and reject corruption.

    "Every address encodes to a base58 string that decodes to the same address; any other string
    (changed character, wrong version, wrong checksum, extra or missing characters) is rejected;
    hex encodings round-trip."

    Model: Model/Base58.v (common/address.go on top of itchyny/base58-go's decimal-string
    conversion, math/big and encoding/hex); constants, alphabet and the unnamed literals of
    address.go come from Gen/AddrConsts.v, regenerated from the current source on every run.
    Strings are arbitrary byte strings. The hash is a variable [H] of which only the shape of
    sha256.Sum256's result is assumed (32 bytes); no collision freedom is assumed anywhere:
    "any other string is rejected" is stated as "the only string that decodes to [a] is
    ToBase58(a), and whatever decodes at all is the complete canonical encoding (version, address
    and matching checksum) of what it decodes to". The instances for the executable SHA-256 of
    Lib/Sha256.v are closed theorems. *)
From Coq Require Import List Bool NArith.
From Coq Require String.
Import ListNotations.
From Ont Require Import Lib.Bytes Lib.Sha256 Gen.AddrConsts Model.Base58 Proofs.Base58.
Local Open Scope N_scope.

(** [addr_ok a]: a 20-byte string of bytes *)
Example c22_addr_ok_def a : addr_ok a <-> (length a = B58_ADDR_LEN /\ wf_bytes a = true).
Proof. reflexivity. Qed.

(** 1. Every address decodes from its own base58 encoding. *)
Theorem c22_from_to :
  forall H : bytes -> bytes,
  (forall x, length (H x) = HASH_LEN) -> (forall x, wf_bytes (H x) = true) ->
  forall a, length a = B58_ADDR_LEN -> wf_bytes a = true ->
  from_base58 H (to_base58 H a) = inr a.
Proof. intros H Hl Hw a L W. exact (from_to H Hl Hw a (conj L W)). Qed.
Print Assumptions c22_from_to.

(** 2. Any string (no assumption on [s] at all) that is accepted is the canonical encoding of the
    address returned: a changed character, another version byte, another checksum, extra or
    missing characters, extra leading '1's all give a string different from ToBase58 of every
    address, hence an error. Needs nothing of [H]. *)
Theorem c22_from_only_canonical :
  forall (H : bytes -> bytes) (s a : bytes),
  from_base58 H s = inr a -> s = to_base58 H a /\ length a = B58_ADDR_LEN /\ wf_bytes a = true.
Proof. exact from_only_canonical. Qed.
Print Assumptions c22_from_only_canonical.

(** 1 + 2: the accepted strings are exactly the encodings. *)
Theorem c22_accept_iff :
  forall H : bytes -> bytes,
  (forall x, length (H x) = HASH_LEN) -> (forall x, wf_bytes (H x) = true) ->
  forall s a, from_base58 H s = inr a <-> (addr_ok a /\ s = to_base58 H a).
Proof. exact accept_iff. Qed.
Print Assumptions c22_accept_iff.

Theorem c22_corrupted_rejected :
  forall (H : bytes -> bytes) (a s : bytes), s <> to_base58 H a -> from_base58 H s <> inr a.
Proof. exact corrupted_rejected. Qed.
Print Assumptions c22_corrupted_rejected.

(** at most one string decodes to a given address (no assumption on the hash, nor on the strings) *)
Theorem c22_from_base58_unique :
  forall (H : bytes -> bytes) (s1 s2 a : bytes),
  from_base58 H s1 = inr a -> from_base58 H s2 = inr a -> s1 = s2.
Proof. exact from_base58_unique. Qed.
Print Assumptions c22_from_base58_unique.

(** distinct addresses have distinct encodings *)
Theorem c22_to_base58_injective :
  forall H : bytes -> bytes,
  (forall x, length (H x) = HASH_LEN) -> (forall x, wf_bytes (H x) = true) ->
  forall a b, addr_ok a -> addr_ok b -> to_base58 H a = to_base58 H b -> a = b.
Proof. exact to_base58_injective. Qed.
Print Assumptions c22_to_base58_injective.

(** 3. Shape: an encoded address has exactly 34 characters of the alphabet and starts with
    alphabet[9] = 'A'; so every string with extra or missing characters, another first character,
    or a character outside the alphabet is rejected whatever the hash values are. *)
Theorem c22_to_base58_shape :
  forall H : bytes -> bytes,
  (forall x, length (H x) = HASH_LEN) -> (forall x, wf_bytes (H x) = true) ->
  forall a, addr_ok a ->
  length (to_base58 H a) = 34%nat /\ hd 0 (to_base58 H a) = 65 /\
  Forall (fun c => In c B58_ALPHABET) (to_base58 H a).
Proof. exact to_base58_shape. Qed.
Print Assumptions c22_to_base58_shape.

Theorem c22_wrong_length_rejected :
  forall H : bytes -> bytes,
  (forall x, length (H x) = HASH_LEN) -> (forall x, wf_bytes (H x) = true) ->
  forall s, length s <> 34%nat -> exists e, from_base58 H s = inl e.
Proof. exact wrong_length_rejected. Qed.
Print Assumptions c22_wrong_length_rejected.

Theorem c22_wrong_first_char_rejected :
  forall H : bytes -> bytes,
  (forall x, length (H x) = HASH_LEN) -> (forall x, wf_bytes (H x) = true) ->
  forall s, hd 0 s <> 65 -> exists e, from_base58 H s = inl e.
Proof. exact wrong_first_char_rejected. Qed.
Print Assumptions c22_wrong_first_char_rejected.

Theorem c22_foreign_char_rejected :
  forall H : bytes -> bytes,
  (forall x, length (H x) = HASH_LEN) -> (forall x, wf_bytes (H x) = true) ->
  forall s c, In c s -> ~ In c B58_ALPHABET -> exists e, from_base58 H s = inl e.
Proof. exact foreign_char_rejected. Qed.
Print Assumptions c22_foreign_char_rejected.

(** 4. The anchored mechanism is load-bearing. [from_base58_nocheck] is AddressFromBase58 without
    its final "re-encode and compare": it accepts any number of extra leading '1' characters and
    any four checksum bytes; the real function answers EVerify on exactly those strings. *)
Theorem c22_leading_ones_need_recheck :
  forall H : bytes -> bytes,
  (forall x, length (H x) = HASH_LEN) -> (forall x, wf_bytes (H x) = true) ->
  forall a k, addr_ok a -> (0 < k)%nat -> (k + 34 <= N.to_nat MAX_B58_ADDR_LEN)%nat ->
  from_base58_nocheck (repeat (alpha 0) k ++ to_base58 H a) = inr a /\
  from_base58 H (repeat (alpha 0) k ++ to_base58 H a) = inl EVerify.
Proof. exact leading_ones_need_recheck. Qed.
Print Assumptions c22_leading_ones_need_recheck.

Theorem c22_wrong_checksum_needs_recheck :
  forall H : bytes -> bytes,
  (forall x, length (H x) = HASH_LEN) -> (forall x, wf_bytes (H x) = true) ->
  forall a c, addr_ok a ->
  length c = (CHK_HI - CHK_LO)%nat -> wf_bytes c = true -> c <> checksum H ([ADDR_VERSION_ENC] ++ a) ->
  let s := map alpha (Lib.Radix.to_digits B58_RADIX (big_set_bytes ([ADDR_VERSION_ENC] ++ a ++ c))) in
  from_base58_nocheck s = inr a /\ from_base58 H s = inl EVerify.
Proof. exact wrong_checksum_needs_recheck. Qed.
Print Assumptions c22_wrong_checksum_needs_recheck.

(** 5. Hex. *)
Theorem c22_hex_roundtrip :
  forall a, length a = B58_ADDR_LEN -> wf_bytes a = true -> from_hex_string (to_hex_string a) = inr a.
Proof. intros a L W. exact (hex_roundtrip a (conj L W)). Qed.
Print Assumptions c22_hex_roundtrip.

(** the only strings AddressFromHexString accepts are the 40-character hex strings of the
    (reversed) address, in either case of a-f *)
Theorem c22_hex_only_canonical :
  forall s a, from_hex_string s = inr a ->
  to_hex_string a = map hex_lower s /\ addr_ok a /\ length s = (2 * B58_ADDR_LEN)%nat.
Proof. exact hex_only_canonical. Qed.
Print Assumptions c22_hex_only_canonical.

Theorem c22_hex_unique_up_to_case :
  forall s1 s2 a, from_hex_string s1 = inr a -> from_hex_string s2 = inr a ->
  map hex_lower s1 = map hex_lower s2.
Proof. exact hex_unique_up_to_case. Qed.
Print Assumptions c22_hex_unique_up_to_case.

Theorem c22_hex_injective :
  forall a b, addr_ok a -> addr_ok b -> to_hex_string a = to_hex_string b -> a = b.
Proof. exact hex_injective. Qed.
Print Assumptions c22_hex_injective.

Theorem c22_parse_from_bytes_iff :
  forall f a, address_parse_from_bytes f = inr a <-> (a = f /\ length f = B58_ADDR_LEN).
Proof. exact parse_from_bytes_iff. Qed.
Print Assumptions c22_parse_from_bytes_iff.

(** 6. The instances for the executable SHA-256 (no hypothesis left). *)
Theorem c22_sha256_accept_iff :
  forall s a, from_base58 sha256 s = inr a <-> (addr_ok a /\ s = to_base58 sha256 a).
Proof. exact (accept_iff sha256 sha256_length sha256_wf). Qed.
Print Assumptions c22_sha256_accept_iff.

Theorem c22_sha256_from_to :
  forall a, length a = B58_ADDR_LEN -> wf_bytes a = true -> from_base58 sha256 (to_base58 sha256 a) = inr a.
Proof. exact (c22_from_to sha256 sha256_length sha256_wf). Qed.
Print Assumptions c22_sha256_from_to.

(** Non-vacuity: the ONT contract address 00..0001 is an address; its encoding under the real
    SHA-256 is the well-known string; it decodes back; one extra leading '1', a changed
    character and a dropped character are rejected. *)
Import String.
Definition ont_addr : bytes := repeat 0 19 ++ [1].
Definition ont_b58 : bytes := bytes_of_string "AFmseVrdL9f9oyCzZefL9tG6UbvhUMqNMV"%string.

Example c22_nonvacuous :
  addr_ok ont_addr /\
  to_base58 sha256 ont_addr = ont_b58 /\
  from_base58 sha256 ont_b58 = inr ont_addr /\
  from_base58 sha256 (49 :: ont_b58) = inl EVerify /\
  from_base58 sha256 (bytes_of_string "AFmseVrdL9f9oyCzZefL9tG6UbvhUMqNMW"%string) = inl EVerify /\
  from_base58 sha256 (bytes_of_string "AFmseVrdL9f9oyCzZefL9tG6UbvhUMqNM"%string) = inl EWrong /\
  to_hex_string ont_addr = bytes_of_string "0100000000000000000000000000000000000000"%string /\
  from_hex_string (bytes_of_string "0100000000000000000000000000000000000000"%string) = inr ont_addr.
Proof. vm_compute. repeat split; reflexivity. Qed.
