(** C26 — WIP stub *)
From Coq Require Import List NArith.
Import ListNotations.
From Ont Require Import Model.Merkle Proofs.MerkleSpec Proofs.MerkleVerify.

Theorem c26_incl_sound_lists : forall (T : Type) (teqb : T -> T -> bool) (hc : T -> T -> T) (hempty : T),
  (forall a b, teqb a b = true <-> a = b) ->
  forall d (D : list T) (leaf : T) (idx : N) (proof : list T),
    verify_leaf_hash_inclusion T teqb hc leaf idx proof (mth T hc hempty D) (N.of_nat (length D)) = VOk ->
    collision T hc \/ leaf = nth (N.to_nat idx) D d.
Proof. exact incl_sound_lists. Qed.
Print Assumptions c26_incl_sound_lists.
