(** C26 — Block-root merkle tree gives verifiable inclusion and consistency proofs.

    Model: Model/Merkle.v (CompactMerkleTree with its hash store, MerkleVerifier), parametric in the
    hash: [T] with a decidable equality, [hc] = hash_children, [hempty] = hash_empty.  Specification:
    RFC 6962 [mth] / PATH ([rfc_path]) / PROOF ([rfc_proof]) over the list of leaf hashes.
    [build ls] = the tree after AppendHash of every element of [ls] to the empty tree (memory store);
    [tree_of t ls] = "t is in the state reached by appending ls" (also satisfied by a reloaded tree).

    No collision-freedom is assumed anywhere: soundness statements conclude "the claim, or an explicit
    pair of different inputs with the same hash_children value" ([collision]).

    Bounds: tree sizes below 2^31 ([small]) wherever store positions are computed, because
    getSubTreePos works in uint32 and the store of a tree of n leaves has 2n - popcount(n) entries;
    the verifier theorems have no bound.

    Not provable, by design of RFC 6962 (the root does not bind the tree size): "any altered size is
    rejected" — [c26_size_not_bound] exhibits two sizes accepted with the same proof in a
    collision-free hash algebra.  Sizes whose audit-path shape differs are covered by the oracle. *)
From Coq Require Import List Bool NArith Arith.
Import ListNotations.
From Ont Require Import Lib.Bytes Lib.Sha256 Model.Merkle Gen.MerkleConsts.
From Ont Require Import Proofs.MerkleSpec Proofs.MerkleVerify Proofs.MerkleTree Proofs.C26.

Section Statements.
  Variable T : Type.
  Variable teqb : T -> T -> bool.
  Variable hc : T -> T -> T.
  Variable hempty : T.
  Hypothesis teqb_spec : forall a b, teqb a b = true <-> a = b.

  Notation mth := (mth T hc hempty).
  Notation small := (small T).

  (** 1. After any number of appended leaves the incrementally maintained root equals the root of
      the full tree (and HashFullTree computes the same). *)
  Theorem c26_append_root : forall ls : list T, (N.of_nat (length ls) < two32N)%N ->
    exists t, build T hc ls = Some t /\ ct_root T hc hempty t = mth ls /\
              ct_size T t = N.of_nat (length ls) /\
              hash_full_tree T hc hempty ls = mth ls.
  Proof.
    intros ls H. destruct (append_root T hc hempty ls H) as (t & H1 & H2 & H3).
    exists t. repeat split; try assumption. apply hash_full_tree_mth.
  Qed.

  (** 2. Every leaf's inclusion proof is the RFC path and verifies against the root of every tree
      size containing it; consistency proofs are the RFC proof and verify between any two sizes. *)
  Theorem c26_incl_complete : forall (d : T) (ls : list T), small ls ->
    exists t, build T hc ls = Some t /\
      forall m k, m < k -> k <= length ls ->
        exists p, inclusion_proof T hc t (N.of_nat m) (N.of_nat k) = inr p /\
                  p = rfc_path T hc hempty m (firstn k ls) /\
                  verify_leaf_hash_inclusion T teqb hc (nth m ls d) (N.of_nat m) p
                    (mth (firstn k ls)) (N.of_nat k) = VOk.
  Proof.
    intros d ls Hs. destruct (build_tree_of T teqb hc hempty teqb_spec ls Hs) as (t & Hb & Ht & Hst).
    exists t. split; [exact Hb|]. intros m k Hm Hk.
    exact (incl_complete T teqb hc hempty teqb_spec d t ls m k Ht Hst Hs Hm Hk).
  Qed.

  Theorem c26_cons_complete : forall (d : T) (ls : list T), small ls ->
    exists t, build T hc ls = Some t /\
      forall m k, 1 <= m -> m <= k -> k <= length ls ->
        exists p, consistency_proof T hc t (N.of_nat m) (N.of_nat k) = inr p /\
                  p = rfc_proof T hc hempty m (firstn k ls) /\
                  verify_consistency T teqb hc hempty (N.of_nat m) (N.of_nat k)
                    (mth (firstn m ls)) (mth (firstn k ls)) p = VOk.
  Proof.
    intros d ls Hs. destruct (build_tree_of T teqb hc hempty teqb_spec ls Hs) as (t & Hb & Ht & Hst).
    exists t. split; [exact Hb|]. intros m k Hm1 Hmk Hk.
    exact (cons_complete T teqb hc hempty teqb_spec d t ls m k Ht Hst Hs Hm1 Hmk Hk).
  Qed.

  (** 3. Soundness (no size bound): whatever leaf / index / proof is presented, acceptance against
      the root of D with size |D| means the leaf is D[idx] and the proof is the RFC path — or a
      collision is exhibited.  Hence an altered leaf, an altered index (unless the same leaf sits
      there) and any altered proof element are rejected. *)
  Theorem c26_incl_sound : forall (d : T) (D : list T) (leaf : T) (idx : N) (proof : list T),
    verify_leaf_hash_inclusion T teqb hc leaf idx proof (mth D) (N.of_nat (length D)) = VOk ->
    collision T hc \/ (leaf = nth (N.to_nat idx) D d /\ proof = rfc_path T hc hempty (N.to_nat idx) D).
  Proof. exact (incl_unique_lists T teqb hc hempty teqb_spec). Qed.

  (** an altered root is rejected: the root is a function of the other inputs *)
  Theorem c26_incl_root_determined : forall leaf idx proof r1 r2 size,
    verify_leaf_hash_inclusion T teqb hc leaf idx proof r1 size = VOk ->
    verify_leaf_hash_inclusion T teqb hc leaf idx proof r2 size = VOk -> r1 = r2.
  Proof. exact (incl_root_determined T teqb hc teqb_spec). Qed.

  (** acceptance of a consistency proof for sizes 0 < m <= n against the root of D[0:n] means the
      old root is the root of D[0:m] — or a collision is exhibited (this is what the two early
      returns repaired in /repo used to break). *)
  Theorem c26_cons_sound : forall (D : list T) (m : nat) (old_root : T) (proof : list T),
    0 < m -> m <= length D ->
    verify_consistency T teqb hc hempty (N.of_nat m) (N.of_nat (length D)) old_root (mth D) proof = VOk ->
    collision T hc \/ old_root = mth (firstn m D).
  Proof. exact (cons_sound_lists T teqb hc hempty teqb_spec). Qed.

  (** the same two statements against the tree's own Root() and TreeSize() *)
  Theorem c26_sound_against_tree : forall (d : T) (ls : list T) t, tree_of T hc t ls ->
    (forall leaf idx proof,
       verify_leaf_hash_inclusion T teqb hc leaf idx proof (ct_root T hc hempty t) (ct_size T t) = VOk ->
       collision T hc \/ (leaf = nth (N.to_nat idx) ls d /\ proof = rfc_path T hc hempty (N.to_nat idx) ls)) /\
    (forall m old_root proof, 0 < m -> m <= length ls ->
       verify_consistency T teqb hc hempty (N.of_nat m) (ct_size T t) old_root (ct_root T hc hempty t) proof = VOk ->
       collision T hc \/ old_root = mth (firstn m ls)).
  Proof.
    intros d ls t Ht. split.
    - intros. eapply (incl_unique T teqb hc hempty teqb_spec); eassumption.
    - intros. eapply (cons_sound T teqb hc hempty teqb_spec); eassumption.
  Qed.

  (** the generators return the RFC path / proof for every tree in the state reached by [ls] —
      in particular for a reloaded tree (5. below): same proofs as the never-reloaded one *)
  Theorem c26_proofs_of_any_tree : forall (ls : list T) t, tree_of T hc t ls -> ct_store T t <> None -> small ls ->
    (forall m k, m < k -> k <= length ls ->
       inclusion_proof T hc t (N.of_nat m) (N.of_nat k) = inr (rfc_path T hc hempty m (firstn k ls))) /\
    (forall m k, 1 <= m -> m <= k -> k <= length ls ->
       consistency_proof T hc t (N.of_nat m) (N.of_nat k) = inr (rfc_proof T hc hempty m (firstn k ls))).
  Proof.
    intros ls t Ht Hst Hs. split; intros.
    - apply (inclusion_proof_rfc T hc hempty t ls m k); assumption.
    - apply (consistency_proof_rfc T hc hempty t ls m k); assumption.
  Qed.

  (** 4. Store layout: the store holds exactly the post-order of the perfect subtrees, its length
      is getStoredHashNum(size), len(hashes) = countBit(size); the generators' theorems above need
      nothing beyond this written prefix. *)
  Theorem c26_store_layout : forall (ls : list T) t, tree_of T hc t ls -> small ls ->
    length (ct_hashes T t) = countBit (ct_size T t) /\
    match ct_store T t with
    | None => True
    | Some s => N.of_nat (hs_cur T s) = get_stored_hash_num (ct_size T t) /\
                firstn (hs_cur T s) (hs_data T s) = fpost T hc (fview T ls)
    end.
  Proof. intros ls t. exact (store_layout T teqb hc hempty teqb_spec t ls). Qed.

  (** 5. Reload: reopening the hash file (possibly longer than what was committed) with the
      persisted size and restoring (size, hashes) gives a tree in the same state — same root, and
      by 2./3. the same proofs; appending more leaves continues as the never-reloaded tree. *)
  Theorem c26_reload : forall (ls : list T) t (data : list T), tree_of T hc t ls -> small ls ->
    match ct_store T t with
    | None => True
    | Some s => firstn (hs_cur T s) data = firstn (hs_cur T s) (hs_data T s) /\ hs_cur T s <= length data
    end ->
    exists st' t',
      (ct_store T t <> None -> hs_file_open T data (ct_size T t) = Some st') /\
      new_tree T (ct_size T t) (ct_hashes T t)
               (match ct_store T t with None => None | Some _ => Some st' end) = Some t' /\
      tree_of T hc t' ls /\ ct_root T hc hempty t' = ct_root T hc hempty t.
  Proof. intros ls t data. exact (reload T teqb hc hempty teqb_spec t ls data). Qed.

  Theorem c26_continue : forall (ls more : list T) t, tree_of T hc t ls -> small (ls ++ more) ->
    exists t', append_all T hc t more = Some t' /\ tree_of T hc t' (ls ++ more).
  Proof. intros ls more t. exact (continue_after T teqb hc hempty teqb_spec t ls more). Qed.
End Statements.

Print Assumptions c26_append_root.
Print Assumptions c26_incl_complete.
Print Assumptions c26_cons_complete.
Print Assumptions c26_incl_sound.
Print Assumptions c26_incl_root_determined.
Print Assumptions c26_cons_sound.
Print Assumptions c26_sound_against_tree.
Print Assumptions c26_proofs_of_any_tree.
Print Assumptions c26_store_layout.
Print Assumptions c26_reload.
Print Assumptions c26_continue.

(** 6. Ties to the source (regenerated on every run into Gen/MerkleConsts.v): the hasher prefixes
    and the empty hash; getSubTreePos / getStoredHashNum on every size of the table. *)
Theorem c26_hasher_tied :
  (forall d, sha_hash_leaf d = sha256 (gen_leaf_prefix :: d)) /\
  (forall l r, sha_hash_children l r = sha256 (gen_node_prefix :: l ++ r)) /\
  sha_hash_empty = gen_hash_empty /\
  sha_hash_children sha_zero sha_zero = gen_hash_children_zero /\
  sha_hash_leaf [97; 98; 99]%N = gen_hash_leaf_abc /\
  gen_leaf_prefix <> gen_node_prefix /\ gen_uint256_size = 32.
Proof. exact hasher_tied. Qed.
Print Assumptions c26_hasher_tied.

Theorem c26_layout_table : forall n, n <= gen_table_n ->
  get_sub_tree_pos (N.of_nat n) = nth n gen_sub_tree_pos [] /\
  get_stored_hash_num (N.of_nat n) = nth n gen_stored_hash_num 0%N.
Proof. exact layout_table_forall. Qed.
Print Assumptions c26_layout_table.

(** for the SHA-256 instance a collision of hash_children on equal-length operands (the code's
    operands are always 32 bytes) is a collision of SHA-256 itself *)
Theorem c26_sha_collision :
  collision bytes sha_hash_children ->
  (exists a b c e : bytes, (a <> c \/ b <> e) /\ sha_hash_children a b = sha_hash_children c e /\
     ~ (length a = length c)) \/
  exists x y : bytes, x <> y /\ sha256 x = sha256 y.
Proof. exact sha_children_collision. Qed.
Print Assumptions c26_sha_collision.

(** * A collision-free toy hash algebra: non-vacuity, and the size clause that cannot hold *)
Definition toy_hc (a b : bytes) : bytes := (N.of_nat (length a) :: a) ++ b.
Definition toy_leaves : list bytes := [[10]; [11]; [12]; [13]; [14]]%N.

(** Non-vacuity: a concrete five-leaf tree; its proofs verify, altered ones do not. *)
Example c26_nonvacuous :
  exists t p q,
    build bytes toy_hc toy_leaves = Some t /\
    ct_root bytes toy_hc [] t = mth bytes toy_hc [] toy_leaves /\
    inclusion_proof bytes toy_hc t 2 5 = inr p /\ length p = 3 /\
    verify_leaf_hash_inclusion bytes bytes_eqb toy_hc [12]%N 2 p (ct_root bytes toy_hc [] t) 5 = VOk /\
    verify_leaf_hash_inclusion bytes bytes_eqb toy_hc [99]%N 2 p (ct_root bytes toy_hc [] t) 5 <> VOk /\
    verify_leaf_hash_inclusion bytes bytes_eqb toy_hc [12]%N 3 p (ct_root bytes toy_hc [] t) 5 <> VOk /\
    consistency_proof bytes toy_hc t 3 5 = inr q /\
    verify_consistency bytes bytes_eqb toy_hc [] 3 5 (mth bytes toy_hc [] (firstn 3 toy_leaves))
      (ct_root bytes toy_hc [] t) q = VOk /\
    verify_consistency bytes bytes_eqb toy_hc [] 3 5 (ct_root bytes toy_hc [] t)
      (ct_root bytes toy_hc [] t) [] <> VOk.
Proof.
  destruct (build bytes toy_hc toy_leaves) as [t|] eqn:Eb; [|vm_compute in Eb; discriminate].
  destruct (inclusion_proof bytes toy_hc t 2 5) as [e|p] eqn:Ep;
    [vm_compute in Eb; inversion Eb; subst t; vm_compute in Ep; discriminate|].
  destruct (consistency_proof bytes toy_hc t 3 5) as [e|q] eqn:Eq;
    [vm_compute in Eb; inversion Eb; subst t; vm_compute in Eq; discriminate|].
  exists t, p, q.
  vm_compute in Eb. inversion Eb; subst t.
  vm_compute in Ep. inversion Ep; subst p.
  vm_compute in Eq. inversion Eq; subst q.
  repeat split; try (vm_compute; reflexivity); vm_compute; discriminate.
Qed.

(** The size is not bound by the root: the same proof for leaf 0 is accepted for tree sizes 3 and 4
    (same audit-path shape), although [toy_hc] is injective. *)
Theorem c26_size_not_bound :
  let D := firstn 3 toy_leaves in
  let root := mth bytes toy_hc [] D in
  let p := rfc_path bytes toy_hc [] 0 D in
  verify_leaf_hash_inclusion bytes bytes_eqb toy_hc [10]%N 0 p root 3 = VOk /\
  verify_leaf_hash_inclusion bytes bytes_eqb toy_hc [10]%N 0 p root 4 = VOk.
Proof. vm_compute. split; reflexivity. Qed.
Print Assumptions c26_size_not_bound.
