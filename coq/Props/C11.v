(** C11 - Governance holds exactly the ONT that participants have staked.
    Model: Model/Gov.v (governance.go, method.go, utils.go; constants from Gen/GovConsts.v), tied
    to the code by the C11 correspondence (histories through the real native contracts).

    Operations covered by every theorem below (all of [Gov.op]): registerCandidate,
    unRegisterCandidate, approveCandidate, rejectCandidate, authorizeForPeer, unAuthorizeForPeer,
    withdraw, quitNode, blackNode, whiteNode, commitDpos (normalQuit, blackQuit and the four
    *To*Consensus transitions), changeMaxAuthorization, addInitPos, reduceInitPos,
    transferPenalty - valid and invalid (a failing transaction changes nothing).
    Not modelled: the ONG side (candidate fee, unbound ONG, fee split: see C10), updateConfig /
    updateGlobalParam* (parameters are fixed in a history), the *TransferFrom variants. *)
From Coq Require Import List NArith Bool.
Import ListNotations.
From Ont Require Import Lib.AList Gen.GovConsts Model.Gov Model.GovSpec Proofs.GovInv.
Local Open Scope N_scope.

(** (1) The balance invariant is preserved by every transaction, valid or not.
    [inv1] = [inv_balance] (ONT balance of governance = sum of total stakes + sum of penalty
    stakes) together with "the ledger holds at most the total supply".  [op_ok]: the
    transaction is not signed by the contract address itself. *)
Theorem c11_step_preserves_balance : forall (s : state) (h : N) (o : op),
  inv1 s -> op_ok o -> inv1 (fst (step s (h, o))).
Proof. intros s h o. exact (step_inv1 s (h, o)). Qed.
Print Assumptions c11_step_preserves_balance.

(** (2) It holds after genesis once the contract address has been funded with the initPos that
    InitConfig records as total stakes (InitConfig itself moves no ONT: see the note in
    checks/C11.json). *)
Theorem c11_genesis_balance : forall par h peers ont,
  nget GOV ont = sum_init peers -> asum (fun _ x => x) ont <= ONT_TOTAL_SUPPLY ->
  inv1 (genesis par h peers ont).
Proof. exact genesis_inv1. Qed.
Print Assumptions c11_genesis_balance.

(** (3) Hence after any history of transactions (heights arbitrary). *)
Theorem c11_balance_all_histories : forall par h0 peers ont (ops : list (N * op)),
  nget GOV ont = sum_init peers -> asum (fun _ x => x) ont <= ONT_TOTAL_SUPPLY ->
  Forall (fun ho => op_ok (snd ho)) ops ->
  let s := run (genesis par h0 peers ont) ops in
  gov_balance s = sum_stakes s + sum_pens s.
Proof.
  intros par h0 peers ont ops Hf Hs Hall s.
  apply (run_inv1 ops (genesis par h0 peers ont)); auto. now apply genesis_inv1.
Qed.
Print Assumptions c11_balance_all_histories.

(** (4) Withdraw clause: a successful withdraw by [a] pays [a] exactly the amount it removes from
    [a]'s unfrozen buckets, from [a]'s recorded total stake and from governance's balance - so it
    can exceed neither the unfrozen positions nor what [a] has deposited and not yet withdrawn.
    [pos_small]: the amounts are uint32 values, as the decoder enforces. *)
Theorem c11_withdraw_bounded : forall h s sg a l wf s',
  inv1 s -> sg <> GOV -> pos_small l ->
  exec_withdraw h s sg a l wf = Ok s' ->
  a = sg /\
  wunf_of a (s_infos s') + paid_to a s s' = wunf_of a (s_infos s) /\
  nget a (s_stakes s') + paid_to a s s' = nget a (s_stakes s) /\
  gov_balance s' + paid_to a s s' = gov_balance s.
Proof. exact withdraw_bounded. Qed.
Print Assumptions c11_withdraw_bounded.

(** Non-vacuity: a funded genesis with seven consensus peers; a node registers, opens itself to
    authorizations, an authorizer stakes, an epoch passes, the authorizer unauthorizes, two more
    epochs pass and the authorizer withdraws.  Every transaction succeeds, the hypotheses of (3)
    hold, and ONT really moved. *)
Definition ex_par := mkParams 1 7 100000 INIT_CandidateNum 10000 INIT_PosLimit INIT_Penalty DEFAULT_MIN_AUTHORIZE_POS 0.
Definition ex_peers : list (N * N * N) :=
  [(1, 3, 10000); (2, 3, 11000); (3, 4, 12000); (4, 4, 13000); (5, 3, 14000); (6, 4, 15000); (7, 3, 16000)].
Definition ex_ont : list (N * N) := [(GOV, 91000); (5, 50000); (8, 20000)].
Definition ex_ops : list (N * op) :=
  [(500001, ORegister 5 8 5 30000 true true);
   (500002, OMaxAuth 5 8 5 100000);
   (500003, OAuthorize 8 8 [(8, 5000)] true);
   (500004, OCommit 1);
   (500005, OUnAuthorize 8 8 [(8, 2000)] true);
   (500006, OCommit 1);
   (500007, OCommit 1);
   (500008, OWithdraw 8 8 [(8, 2000)] true)].

Example c11_nonvacuous :
  let s0 := genesis ex_par 500000 ex_peers ex_ont in
  nget GOV ex_ont = sum_init ex_peers /\
  Forall (fun ho => op_ok (snd ho)) ex_ops /\
  (* every transaction succeeds *)
  forallb (fun r => match r with ROk => true | _ => false end)
    (snd (fold_left (fun acc ho => let '(s, rs) := acc in let '(s', r) := step s ho in (s', rs ++ [r]))
                    ex_ops (s0, []))) = true /\
  let s := run s0 ex_ops in
  gov_balance s = 124000 /\ sum_stakes s = 124000 /\ nget 8 (s_ont s) = 17000 /\ nget 5 (s_ont s) = 20000.
Proof.
  cbv zeta. split; [vm_compute; reflexivity|]. split.
  - repeat constructor; cbn; discriminate.
  - vm_compute. repeat split; reflexivity.
Qed.
