(** C11 - Governance holds exactly the ONT that participants have staked.
    Model: Model/Gov.v (governance.go, method.go, utils.go; constants from Gen/GovConsts.v), tied
    to the code by the C11 correspondence (histories through the real native contracts).

    Operations covered by every theorem below (all of [Gov.op]): registerCandidate,
    unRegisterCandidate, approveCandidate, rejectCandidate, authorizeForPeer, unAuthorizeForPeer,
    withdraw, quitNode, blackNode, whiteNode, commitDpos (normalQuit, blackQuit and the four
    *To*Consensus transitions), changeMaxAuthorization, addInitPos, reduceInitPos,
    transferPenalty - valid and invalid (a failing transaction changes nothing), at arbitrary
    heights (both sides of every height gate).
    Outside the model: the ONG side (candidate fee, unbound ONG, fee split: see C10),
    updateConfig / updateGlobalParam* (parameters are constant within a history), the
    *TransferFrom variants of register/authorize. *)
From Coq Require Import List NArith Bool.
Import ListNotations.
From Ont Require Import Lib.AList Gen.GovConsts Model.Gov Model.GovSpec Proofs.GovInv Proofs.GovAcct
  Proofs.GovAcct4 Proofs.GovAcct5.
Local Open Scope N_scope.

(** Hypotheses on a history:
    - [funded]: after InitConfig the contract address holds the initPos that InitConfig recorded
      as total stakes (InitConfig itself moves no ONT: see checks/C11.json);
    - the ledger holds at most the total supply; genesis peers are distinct (CheckVBFTConfig);
    - [params_ok]: penalty <= 100, MinAuthorizePos >= 1, 1 <= PosLimit < 2^32 (what the
      update functions enforce; the InitConfig defaults satisfy it: [c11_init_params_ok]);
    - [op_ok2]: no transaction is signed by the contract address itself, a transferPenalty does
      not name the contract as destination, list amounts are uint32 (as the decoders enforce). *)
Definition history_ok par (peers : list (N * N * N)) (ont : list (N * N)) (ops : list (N * op)) : Prop :=
  nget GOV ont = sum_init peers /\ asum (fun _ x => x) ont <= ONT_TOTAL_SUPPLY /\
  NoDup (peer_ids peers) /\ params_ok par /\ Forall (fun ho => op_ok2 (snd ho)) ops.

(** The full statement. *)
Definition c11_full_statement : Prop :=
  forall par h0 peers ont ops, history_ok par peers ont ops ->
  let s := run (genesis par h0 peers ont) ops in
  (* the contract's ONT balance = all total stakes + all penalty stakes *)
  gov_balance s = sum_stakes s + sum_pens s /\
  (* per peer: TotalPos = sum of the authorizers' Consensus+Candidate+New positions *)
  pool_pos_consistent s /\
  (* per address: total stake = its positions in all six buckets + initPos of the peers it owns *)
  inv_address s.

Theorem c11_invariant_all_histories : c11_full_statement.
Proof.
  intros par h0 peers ont ops (Hf & Hs & Hd & Hp & Hall) s.
  assert (I : inv3 s) by (apply run_inv3; [now apply genesis_inv3 | exact Hall]).
  split; [apply (inv3_balance s I)|]. split; [apply (inv3_pool_pos s I) | apply (inv3_address s I)].
Qed.
Print Assumptions c11_invariant_all_histories.

(** The inductive step on its own: [inv3] (the three clauses above plus the auxiliary facts that
    make them inductive) is preserved by every transaction, valid or not. *)
Theorem c11_step_preserves : forall (s : state) (h : N) (o : op),
  inv3 s -> op_ok2 o -> inv3 (fst (step s (h, o))).
Proof. intros s h o. exact (step_inv3 s (h, o)). Qed.
Print Assumptions c11_step_preserves.

Theorem c11_inv3_reads : forall s, inv3 s ->
  gov_balance s = sum_stakes s + sum_pens s /\ pool_pos_consistent s /\ inv_address s.
Proof.
  intros s I. split; [apply (inv3_balance s I)|]. split; [apply (inv3_pool_pos s I) | apply (inv3_address s I)].
Qed.
Print Assumptions c11_inv3_reads.

(** The balance clause alone needs less: it is preserved from any state in which it holds. *)
Theorem c11_step_preserves_balance : forall (s : state) (h : N) (o : op),
  inv1 s -> op_ok o -> inv1 (fst (step s (h, o))).
Proof. intros s h o. exact (step_inv1 s (h, o)). Qed.
Print Assumptions c11_step_preserves_balance.

(** Withdraw clause (a): a successful withdraw by [a] pays [a] exactly the amount it removes from
    [a]'s unfrozen buckets, from [a]'s recorded total stake and from governance's balance. *)
Theorem c11_withdraw_bounded : forall h s sg a l wf s',
  inv1 s -> sg <> GOV -> pos_small l ->
  exec_withdraw h s sg a l wf = Ok s' ->
  a = sg /\
  wunf_of a (s_infos s') + paid_to a s s' = wunf_of a (s_infos s) /\
  nget a (s_stakes s') + paid_to a s s' = nget a (s_stakes s) /\
  gov_balance s' + paid_to a s s' = gov_balance s.
Proof. exact withdraw_bounded. Qed.
Print Assumptions c11_withdraw_bounded.

(** Withdraw clause (b): over any history, the ONT an address holds outside plus what is recorded
    as its stake never grows (it shrinks only by penalties) - so no address can take out more
    than it put in.  [not_paid a]: [a] is not the destination the admin names in a
    transferPenalty (that is the one way ONT is handed to someone who did not stake it). *)
Theorem c11_wealth_never_grows : forall par h0 peers ont ops a,
  history_ok par peers ont ops -> a <> GOV ->
  Forall (fun ho => not_paid a (snd ho)) ops ->
  let s0 := genesis par h0 peers ont in
  wealth a (run s0 ops) <= wealth a s0.
Proof.
  intros par h0 peers ont ops a (Hf & Hs & Hd & Hp & Hall) Ha Hnp s0.
  apply run_wealth; auto.
  - now apply genesis_inv1.
  - rewrite Forall_forall in *. intros ho Hin. split; [apply (Hall ho Hin) | apply (Hnp ho Hin)].
Qed.
Print Assumptions c11_wealth_never_grows.

(** The parameters InitConfig / getGlobalParam2 write satisfy [params_ok] (Gen/GovConsts.v is
    regenerated from the source: other defaults are re-checked here). *)
Theorem c11_init_params_ok : forall adm K mbcv mis sg,
  params_ok (mkParams adm K mbcv INIT_CandidateNum mis INIT_PosLimit INIT_Penalty DEFAULT_MIN_AUTHORIZE_POS sg).
Proof. intros. unfold params_ok. cbn. vm_compute. repeat split; discriminate || reflexivity. Qed.
Print Assumptions c11_init_params_ok.

(** Non-vacuity: a funded genesis with seven consensus peers; a node registers, opens itself to
    authorizations, an authorizer stakes, an epoch passes, the authorizer unauthorizes, two more
    epochs pass and the authorizer withdraws.  Every transaction succeeds, the hypotheses hold,
    and ONT really moved. *)
Definition ex_par := mkParams 1 7 100000 INIT_CandidateNum 10000 INIT_PosLimit INIT_Penalty DEFAULT_MIN_AUTHORIZE_POS 0.
Definition ex_peers : list (N * N * N) :=
  [(1, 3, 10000); (2, 3, 11000); (3, 4, 12000); (4, 4, 13000); (5, 3, 14000); (6, 4, 15000); (7, 3, 16000)].
Definition ex_ont : list (N * N) := [(GOV, 91000); (5, 50000); (8, 20000)].
Definition ex_ops : list (N * op) :=
  [(500001, ORegister 5 8 5 30000 true true);
   (500002, OMaxAuth 5 8 5 100000);
   (500003, OAuthorize 8 8 [(8, 5000)] true);
   (500004, OCommit 1);
   (500005, OUnAuthorize 8 8 [(8, 2000)] true);
   (500006, OCommit 1);
   (500007, OCommit 1);
   (500008, OWithdraw 8 8 [(8, 2000)] true)].

Example c11_nonvacuous :
  let s0 := genesis ex_par 500000 ex_peers ex_ont in
  history_ok ex_par ex_peers ex_ont ex_ops /\
  (* every transaction succeeds *)
  forallb (fun r => match r with ROk => true | _ => false end)
    (snd (fold_left (fun acc ho => let '(s, rs) := acc in let '(s', r) := step s ho in (s', rs ++ [r]))
                    ex_ops (s0, []))) = true /\
  let s := run s0 ex_ops in
  gov_balance s = 124000 /\ sum_stakes s = 124000 /\ nget 8 (s_ont s) = 17000 /\ nget 5 (s_ont s) = 20000 /\
  total_of 8 s = 3000 /\ nget 8 (s_stakes s) = 3000.
Proof.
  cbv zeta. split; [|split].
  - unfold history_ok. split; [vm_compute; reflexivity|]. split; [vm_compute; discriminate|].
    split; [repeat constructor; cbn; intuition discriminate|]. split; [apply c11_init_params_ok|].
    repeat constructor; cbn; try discriminate; vm_compute; reflexivity.
  - vm_compute. reflexivity.
  - vm_compute. repeat split; reflexivity.
Qed.
