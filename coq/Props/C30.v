(** C30 — Chain configuration is a deterministic function of the stake set.

    "The consensus configuration derived from a set of peer stakes is the same for every ordering
    of the input peers, contains exactly the K highest-staked peers, and gives each of them at
    least one slot in the position table with slot counts non-increasing in stake."
    Quantifier: all peer sets (distinct keys, equal and unequal stakes, zero stakes) and valid K, L, C.

    [genesis_chain_config] (Model/ChainConfig.v) mirrors GenesisChainConfig; its float rank
    expression, the uint32 [scale] formula and the parameter bounds are regenerated from the Go
    source on every run (Gen/ChainConfigGen.v). [H] is shuffle_hash with txhash and height fixed:
    every theorem holds for an arbitrary hash function.

    Hypotheses, as predicates on the input (Proofs/C30.v):
      [distinct_keys], [distinct_indexes]  NoDup of the PeerPubkey strings / of the Index fields;
      [valid_params conf n]   the checks of genConsensusPayload pass ([payload_check] = None, evaluated
                              in uint32 as the code does), C, L < 2^32 and K*2 < 2^32 (no uint32 wrap
                              inside the check itself);
      [stakes_fit]            the total stake is < 2^64 (the uint64 sum in the code does not wrap). *)
From Coq Require Import List NArith ZArith Permutation.
Import ListNotations.
From Ont Require Import Lib.Bytes Lib.F64 Gen.ChainConfigGen Model.ChainConfig
  Proofs.C30Sort Proofs.C30Float Proofs.C30.
Local Open Scope N_scope.

(** Same configuration (or the same error) for every ordering of the peers — any parameters, valid
    or not, any stakes (equal, zero, huge), any hash function. *)
Theorem c30_config_perm_invariant :
  forall (H : bytes -> N -> N) (conf : vbft_config) (l1 l2 : list peer),
    distinct_keys l1 -> Permutation l1 l2 ->
    genesis_chain_config H conf l1 = genesis_chain_config H conf l2.
Proof. exact config_perm_invariant. Qed.
Print Assumptions c30_config_perm_invariant.

(** For valid parameters a configuration is produced (no panic, no error, every float->uint64
    conversion in range); its peers are the first K of the peers sorted by (stake desc, key desc),
    N = K, C = C; no unselected peer is ordered before a selected one; the position table names only
    selected peers, each at least once, and a peer with a smaller or equal stake never has more slots. *)
Theorem c30_valid_config_spec :
  forall (H : bytes -> N -> N) (conf : vbft_config) (peers : list peer),
    valid_params conf (length peers) -> distinct_indexes peers -> stakes_fit peers ->
    exists cfg sel rest,
      genesis_chain_config H conf peers = inr cfg /\
      sort_peers peers = sel ++ rest /\
      length sel = N.to_nat (c_K conf) /\
      cc_n cfg = c_K conf /\ cc_c cfg = c_C conf /\
      cc_peers cfg = map (fun p => (p_index p, p_key p)) sel /\
      (forall p q, In p sel -> In q rest -> less q p = false) /\
      (forall x, In x (cc_postable cfg) -> In x (map p_index sel)) /\
      (forall p, In p sel -> (1 <= slots cfg p)%nat) /\
      (forall p q, In p sel -> In q sel -> p_stake p <= p_stake q -> (slots cfg p <= slots cfg q)%nat).
Proof. exact config_valid_spec. Qed.
Print Assumptions c30_valid_config_spec.

(** The property in one statement: any two orderings of a peer set (distinct keys and indexes,
    total stake within uint64, valid K, L, C) give one and the same configuration; its peers are
    exactly K input peers [sel], every other input peer [q] has a stake not larger than any selected
    one (ties: a key not larger); every selected peer has >= 1 slot; slots are monotone in stake. *)
Theorem c30_chain_config_deterministic :
  forall (H : bytes -> N -> N) (conf : vbft_config) (l1 l2 : list peer),
    Permutation l1 l2 -> distinct_keys l1 -> distinct_indexes l1 ->
    valid_params conf (length l1) -> stakes_fit l1 ->
    exists cfg sel rest,
      genesis_chain_config H conf l1 = inr cfg /\ genesis_chain_config H conf l2 = inr cfg /\
      Permutation l1 (sel ++ rest) /\ length sel = N.to_nat (c_K conf) /\
      cc_n cfg = c_K conf /\ cc_c cfg = c_C conf /\
      cc_peers cfg = map (fun p => (p_index p, p_key p)) sel /\
      (forall p q, In p sel -> In q rest ->
         p_stake q <= p_stake p /\ (p_stake q = p_stake p -> str_gtb (p_key q) (p_key p) = false)) /\
      (forall p, In p sel -> (1 <= slots cfg p)%nat) /\
      (forall p q, In p sel -> In q sel -> p_stake p <= p_stake q -> (slots cfg p <= slots cfg q)%nat).
Proof.
  intros H conf l1 l2 Hp Hdk Hdi Hv Hfit.
  destruct (config_valid_spec H conf l1 Hv Hdi Hfit)
    as (cfg & sel & rest & E & Hs & Hl & Hn & Hc & Hpe & Hord & _ & H1 & Hm).
  exists cfg, sel, rest. repeat split; auto.
  - rewrite <- (config_perm_invariant H conf l1 l2 Hdk Hp). exact E.
  - rewrite <- Hs. symmetry. apply sort_perm.
  - apply (less_false_spec q p). now apply Hord.
  - intro Heq. apply (less_false_spec q p); auto.
Qed.
Print Assumptions c30_chain_config_deterministic.

(** The float rank [uint64(math.Ceil(float64(pos)*float64(scale)*float64(K)/float64(sum)))] on IEEE
    binary64 (Coq primitive floats, facts through Flocq): defined, at least 1 and far below 2^64
    whenever 1 <= pos <= sum < 2^64 and scale*K <= 2^32; monotone in pos. *)
Theorem c30_rank_defined_ge_1 :
  forall pos scale k sum : N,
    1 <= pos -> pos <= sum -> sum < 2 ^ 64 -> 1 <= scale -> 1 <= k -> scale * k <= 2 ^ 32 ->
    exists r, f64_ceil_u64 (rank_float pos scale k sum) = Some r /\ 1 <= r /\ r <= 2 ^ 37.
Proof.
  intros pos scale k sum H1 H2 H3 H4 H5 H6.
  apply rank_some; unfold in64; auto; split; try assumption.
  - apply N.le_trans with sum; [assumption|]. now apply N.lt_le_incl.
  - apply N.le_trans with (scale * k); [|apply N.le_trans with (2 ^ 32); [assumption|discriminate]].
    rewrite <- (N.mul_1_r scale) at 1. now apply N.mul_le_mono_l.
  - apply N.le_trans with (scale * k); [|apply N.le_trans with (2 ^ 32); [assumption|discriminate]].
    rewrite <- (N.mul_1_l k) at 1. now apply N.mul_le_mono_r.
  - apply N.le_trans with pos; assumption.
  - now apply N.lt_le_incl.
Qed.
Print Assumptions c30_rank_defined_ge_1.

Theorem c30_rank_monotone :
  forall pos pos' scale k sum r r' : N,
    1 <= pos -> pos <= pos' -> pos' <= 2 ^ 64 ->
    1 <= scale <= 2 ^ 64 -> 1 <= k <= 2 ^ 64 -> 1 <= sum <= 2 ^ 64 ->
    f64_ceil_u64 (rank_float pos scale k sum) = Some r ->
    f64_ceil_u64 (rank_float pos' scale k sum) = Some r' ->
    r <= r'.
Proof.
  intros pos pos' scale k sum r r' H1 H2 H3 H4 H5 H6.
  apply rank_mono; unfold in64; auto; split; auto.
  - now apply N.le_trans with pos'.
  - now apply N.le_trans with pos.
Qed.
Print Assumptions c30_rank_monotone.

(** Non-vacuity: a concrete input satisfying every hypothesis (four peers, two with equal stakes,
    one with zero stake; K = 3, L = 12, C = 1), and what the model computes for it with the real
    shuffle hash (txhash = 32 zero bytes, height 0): peers 2, 1, 3 selected (stake 50, 30, 30 —
    the tie broken towards the larger key "b"), 5 + 3 + 3 slots. *)
Definition ex_conf : vbft_config := mkConf 1 3 12 10000 10000 10 1000.
Definition ex_peers : list peer :=
  [mkPeer 1 [98] 30; mkPeer 2 [97] 50; mkPeer 3 [97;97] 30; mkPeer 4 [99] 0].

Example c30_nonvacuous :
  distinct_keys ex_peers /\ distinct_indexes ex_peers /\
  valid_params ex_conf (length ex_peers) /\ stakes_fit ex_peers /\
  exists cfg, genesis_chain_config (shuffle_hash (repeat 0 32) 0) ex_conf ex_peers = inr cfg /\
    cc_peers cfg = [(2, [97]); (1, [98]); (3, [97;97])] /\
    map (fun i => count_occ N.eq_dec (cc_postable cfg) i) [2; 1; 3; 4] = [5; 3; 3; 0]%nat.
Proof.
  split; [|split; [|split; [|split]]].
  - unfold distinct_keys; simpl. repeat constructor; simpl; intuition discriminate.
  - unfold distinct_indexes; simpl. repeat constructor; simpl; intuition discriminate.
  - unfold valid_params. repeat split; vm_compute; reflexivity.
  - vm_compute. reflexivity.
  - eexists. split; [vm_compute; reflexivity|]. split; vm_compute; reflexivity.
Qed.
