(** C01 — Ledger recovers to a state identical to an uncrashed run.

    Model: Model/Recovery.v (three stores as finite maps with atomic batch commit, the merkle hash
    file as a byte list whose append can be cut at any byte, volatile trees and file offset of the
    opened ledger). The step order of [submitBlock], the loop bounds of [recoverStore] and the
    height it hands to [GetBlockHash], the tree-size checks of [StateStore.init] and the seek offset
    of [NewFileHashStore] are those of Gen/Recover.v, regenerated from the Go source on every run.

    Section variables (not axioms): [hc] = TreeHasher.hash_children with 32-byte results, [hempty],
    [shh] = stateHashCheckHeight, [exec] = executeBlock as a function of the persisted state and the
    block, [hdr_ok] = verifyHeader.

    Partial on the operating system: fsync/rename semantics, LevelDB's own journal recovery and
    partial writes inside one LevelDB batch are not modelled (a batch commit is atomic, a file write
    lands as a prefix). *)
From Coq Require Import List NArith ZArith.
Import ListNotations.
From Ont Require Import Lib.Bytes Model.RecoverTypes Gen.Recover Model.Recovery
  Proofs.RecoveryLib Proofs.Recovery Proofs.RecoveryCrash.
Local Open Scope N_scope.

(** Full statement. For every ledger [l0] that is consistent with its data directory (boolean
    check, evaluated by the harness on real directories), every chain [bs] of blocks added to it
    (accepted or rejected), every next block [b], every crash point — [c] completed steps of
    [submitBlock], and [j] bytes of the hash-file append when the crash hits inside it, both
    unbounded — reopening the surviving directory succeeds and yields a ledger that is
    observationally equal either to the uncrashed ledger before [b] or to the uncrashed ledger after
    [b] (in which case [b] was accepted and the height is one more); "observationally equal"
    is: same volatile state (height, hash, both merkle trees, file offset), same block store, same
    state store, event stores equal as maps, hash files equal up to the committed size; hence equal
    [observe] (height, hash, whole persisted state, state merkle root, block root for any probe
    leaf), and for every further sequence [more] of blocks the same accept/reject outcomes and
    equal observations afterwards. *)
Theorem c01_recover_equiv :
  forall (hc : hash -> hash -> hash) (hempty : hash) (shh : N)
         (exec : sstore -> blk -> option xres) (hdr_ok : blk -> blk -> bool),
    (forall a b, len32 (hc a b)) ->
  forall (l0 : ledger) (bs : list blk) (b : blk) (c j : nat) (more : list blk),
    consistent_b shh l0 = true ->
    chain_bound l0 (S (length bs)) ->
    Forall wf_blk bs -> wf_blk b ->
    let l := run hc hempty shh exec hdr_ok l0 bs in
    exists dk l',
      crash_add hc hempty shh exec hdr_ok l b c j = Ok dk /\
      reopen hc hempty shh exec dk = Ok l' /\
      (recovered_as hc hempty shh exec hdr_ok l' l more
       \/ (snd (add_block hc hempty shh exec hdr_ok l b) = OAccepted /\
           m_h (l_mem (fst (add_block hc hempty shh exec hdr_ok l b))) = m_h (l_mem l) + 1 /\
           recovered_as hc hempty shh exec hdr_ok l' (fst (add_block hc hempty shh exec hdr_ok l b)) more)).
Proof.
  intros hc hempty shh exec hdr_ok Hhc l0 bs b c j more Hc Hb Hw Hwb.
  apply (recover_equiv_chain hc hempty shh exec hdr_ok Hhc l0 bs b c j more); auto.
  apply consistent_b_sound; exact Hc.
Qed.
Print Assumptions c01_recover_equiv.

(** The uncrashed run keeps the consistency invariant (so the hypothesis of the theorem above is
    re-established after every block, and reopening an uncrashed directory returns the same ledger). *)
Theorem c01_run_consistent :
  forall (hc : hash -> hash -> hash) (hempty : hash) (shh : N)
         (exec : sstore -> blk -> option xres) (hdr_ok : blk -> blk -> bool),
    (forall a b, len32 (hc a b)) ->
  forall (l0 : ledger) (bs : list blk),
    consistent shh l0 -> chain_bound l0 (length bs) -> Forall wf_blk bs ->
    consistent shh (run hc hempty shh exec hdr_ok l0 bs) /\
    reopen hc hempty shh exec (l_disk (run hc hempty shh exec hdr_ok l0 bs))
      = Ok (run hc hempty shh exec hdr_ok l0 bs).
Proof.
  intros hc hempty shh exec hdr_ok Hhc l0 bs C B W.
  destruct (run_consistent hc hempty shh exec hdr_ok Hhc bs l0 C B W) as [C' Hle].
  split; [exact C'|].
  rewrite (reopen_same hc hempty shh exec Hhc _ _ C'); try reflexivity.
  - rewrite ledger_eta; reflexivity.
  - unfold chain_bound in B. Lia.lia.
  - pose proof (c_flen _ _ C'). Lia.lia.
Qed.
Print Assumptions c01_run_consistent.

(** Equivalent ledgers cannot be told apart by any further blocks (used above; stated on its own
    because it is the "accepts the following blocks exactly like the uncrashed node" clause). *)
Theorem c01_equiv_indistinguishable :
  forall (hc : hash -> hash -> hash) (hempty : hash) (shh : N)
         (exec : sstore -> blk -> option xres) (hdr_ok : blk -> blk -> bool),
    (forall a b, len32 (hc a b)) ->
  forall (l1 l2 : ledger) (more : list blk),
    equiv l1 l2 ->
    run_outcomes hc hempty shh exec hdr_ok l1 more = run_outcomes hc hempty shh exec hdr_ok l2 more /\
    observe hc hempty shh (run hc hempty shh exec hdr_ok l1 more)
      = observe hc hempty shh (run hc hempty shh exec hdr_ok l2 more).
Proof.
  intros hc hempty shh exec hdr_ok Hhc l1 l2 more E.
  destruct (run_equiv hc hempty shh exec hdr_ok Hhc more l1 l2 E) as [Ho El].
  split; [exact Ho|apply observe_equiv; exact El].
Qed.
Print Assumptions c01_equiv_indistinguishable.

(** Any number of crashes: a history adds blocks and, at arbitrary places, dies at an arbitrary
    point while adding a block and reopens the directory. Every reopening succeeds and the final
    ledger is observationally equal to an uncrashed run that applied every added block and, of the
    blocks during which the process died, some and not others ([kept]). *)
Theorem c01_recover_history :
  forall (hc : hash -> hash -> hash) (hempty : hash) (shh : N)
         (exec : sstore -> blk -> option xres) (hdr_ok : blk -> blk -> bool),
    (forall a b, len32 (hc a b)) ->
  forall (l0 : ledger) (h : list hevent),
    consistent_b shh l0 = true -> chain_bound l0 (length h) -> Forall wf_blk (map hblk h) ->
    exists lf bs,
      run_hist hc hempty shh exec hdr_ok l0 h = Ok lf /\ kept h bs /\
      equiv lf (run hc hempty shh exec hdr_ok l0 bs) /\
      observe hc hempty shh lf = observe hc hempty shh (run hc hempty shh exec hdr_ok l0 bs).
Proof.
  intros hc hempty shh exec hdr_ok Hhc l0 h Hc B W.
  pose proof (consistent_b_sound shh l0 Hc) as C.
  destruct (recover_history hc hempty shh exec hdr_ok Hhc h l0 l0 C C
              (equiv_refl hc hempty shh Hhc l0 C) B W) as (lf & bs & Hr & Hk & E).
  exists lf, bs. split; [exact Hr|]. split; [exact Hk|]. split; [exact E|apply observe_equiv; exact E].
Qed.
Print Assumptions c01_recover_history.

(** The arithmetic facts about the generated loop of [recoverStore] on which the case analysis
    rests: with the state store one block behind, the loop body runs exactly once and loads the
    block at stateHeight+1; with both at the same height it does not run. (With the loop of the
    unrepaired source — [i := stateHeight; i < blockHeight], [GetBlockHash(i)] — the second
    conjunct of the first statement is false, and these proofs fail.) *)
Theorem c01_recover_loop_visits_missing_block : forall n, n + 2 < 4294967296 ->
  let sh := Z.of_N n in let bh := Z.of_N (n + 1) in
  let i := recover_init sh bh in
  recover_continue i sh bh = true /\
  Z.to_N (recover_arg i sh bh) = n + 1 /\
  recover_continue (recover_next i) sh bh = false.
Proof. exact recover_loop_arith_ahead. Qed.
Print Assumptions c01_recover_loop_visits_missing_block.

Theorem c01_recover_loop_idle_when_level : forall n, n + 2 < 4294967296 ->
  recover_continue (recover_init (Z.of_N n) (Z.of_N n)) (Z.of_N n) (Z.of_N n) = false.
Proof. exact recover_loop_arith_same. Qed.
Print Assumptions c01_recover_loop_idle_when_level.

(** Non-vacuity: a concrete consistent ledger (genesis applied, height 0, state-hash height 0), a
    concrete block that is accepted, a crash after the block-store commit (7 completed steps):
    the hypotheses hold, the reopened ledger is at the new height and [recoverStore] did replay. *)
Module Example.
  Definition h32 (x : N) : hash := repeat x 32.
  Definition hc (a b : hash) : hash := h32 (N.land (le_decode (firstn 2 a) + 3 * le_decode (firstn 2 b) + 1) 255).
  Definition exec (s : sstore) (b : blk) : option xres :=
    Some (mkXres [([5; 1], [9]); ([5; 2], [])] (h32 (40 + b_height b)) [] [(h32 77, [1; 2; 3])]).
  Definition hdr_ok (p b : blk) : bool := true.
  Definition g : blk := mkBlk 0 (h32 10) (h32 0) (h32 11) (h32 0) [] (h32 0).
  Definition l0 : ledger :=
    mkLedger
      (mkDisk [(BKVersion, BVVersion 1); (BKCur, BVCur (h32 10) 0); (BKHash 0, BVHash (h32 10));
               (BKBlock (h32 10), BVBlock g)]
              [(EKCur, EVCur (h32 10) 0)]
              [(SKBookkeeper, SVRaw [1]); (SKStateTree, SVTree 1 [h32 40]); (SKStateRoot 0, SVRoot (h32 40) (h32 40));
               (SKBlockTree, SVTree 1 [h32 11]); (SKCur, SVCur (h32 10) 0); (SKRaw [5; 2], SVRaw [7])]
              (h32 11))
      (mkMem 0 (h32 10) (mkTree 1 [h32 11]) (mkTree 1 [h32 40]) (Some 32)).
  Definition b1 : blk :=
    mkBlk 1 (h32 20) (h32 10) (h32 21)
          (hc (h32 11) (h32 21)) [h32 77] (hc (h32 40) (h32 41)).
End Example.

Example c01_nonvacuous :
  consistent_b 0 Example.l0 = true /\
  chain_bound Example.l0 1 /\ wf_blk Example.b1 /\
  (forall a b, len32 (Example.hc a b)) /\
  snd (add_block Example.hc [] 0 Example.exec Example.hdr_ok Example.l0 Example.b1) = OAccepted /\
  exists dk l',
    crash_add Example.hc [] 0 Example.exec Example.hdr_ok Example.l0 Example.b1 7 0 = Ok dk /\
    kv_get skey_eqb (d_state dk) SKCur = Some (SVCur (Example.h32 10) 0) /\   (* state store still at 0 *)
    reopen Example.hc [] 0 Example.exec dk = Ok l' /\
    m_h (l_mem l') = 1 /\
    l' = fst (add_block Example.hc [] 0 Example.exec Example.hdr_ok Example.l0 Example.b1).
Proof.
  split; [vm_compute; reflexivity|].
  split; [unfold chain_bound; vm_compute; reflexivity|].
  split; [vm_compute; reflexivity|].
  split; [intros a b; unfold Example.hc, Example.h32, len32; rewrite repeat_length; reflexivity|].
  split; [vm_compute; reflexivity|].
  eexists; eexists.
  split; [vm_compute; reflexivity|].
  split; [vm_compute; reflexivity|].
  split; [vm_compute; reflexivity|].
  split; vm_compute; reflexivity.
Qed.
