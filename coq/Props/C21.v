(** C21 — Numeric encodings round-trip exactly.

    "Integer conversions between big integers and the NeoVM little-endian two's-complement form,
    128-bit integers, native contract variable-length integers and token balance storage items are
    lossless and minimal: decoding an encoding returns the original value and each value has exactly
    one encoding."

    Model: Model/NeoInt.v (mirrors common/bigint.go, common/int128.go,
    native/utils/serialization.go, core/states/native_token_balance.go + storage_item.go).
    All theorems are over ALL integers / ALL byte strings (no bound). The model's constants are tied
    to the values regenerated from the Go source on every run (Gen/NeoIntConsts.v) by [c21_constants_tie].

    Reading of "exactly one encoding": every encoder is an injective function whose output is the
    minimal-length form, and the encoder's image is characterised exactly ([neo_canonical],
    [balance_item_canonical]). The decoders of the current code additionally ACCEPT non-minimal inputs
    (redundant trailing 0x00 / 0xff sign bytes; for balances also over-long version-0 values, versions
    other than 0/1, and an integral amount stored as version 1). What they do with them is stated
    exactly: [c21_neo_nonminimal_inputs], [c21_varuint_accepts], [c21_balance_accepts]. *)
From Coq Require Import List NArith ZArith.
Import ListNotations.
From Ont Require Import Lib.Bytes Model.NeoInt Proofs.NeoInt.
From Ont Require Gen.NeoIntConsts.

(** * Tie to the source: constants used by the model = constants found in the code now *)
Theorem c21_constants_tie :
  NeoIntConsts.I128_SIZE = i128_size /\
  NeoIntConsts.pow128 = pow128 /\
  NeoIntConsts.maxI128 = maxI128 /\
  NeoIntConsts.minI128 = minI128 /\
  NeoIntConsts.ScaleFactor = ScaleFactor /\
  NeoIntConsts.DefaultVersion = DefaultVersion /\
  NeoIntConsts.ScaleDecimal9Version = ScaleDecimal9Version /\
  NeoIntConsts.UINT64_SIZE = 8%nat /\
  NeoIntConsts.MaxUint64 = (two64Z - 1)%Z.
Proof. repeat split; reflexivity. Qed.
Print Assumptions c21_constants_tie.

(** * 1. NeoVM little-endian two's complement (BigIntToNeoBytes / BigIntFromNeoBytes) *)

(** decoding an encoding returns the original value — every integer *)
Theorem c21_neo_roundtrip : forall z : Z, Z_of_neo (neo_of_Z z) = z.
Proof. exact neo_roundtrip. Qed.
Print Assumptions c21_neo_roundtrip.

Theorem c21_neo_injective : forall z1 z2 : Z, neo_of_Z z1 = neo_of_Z z2 -> z1 = z2.
Proof. exact neo_of_Z_inj. Qed.
Print Assumptions c21_neo_injective.

(** the output is a byte string *)
Theorem c21_neo_wellformed : forall z : Z, wf_bytes (neo_of_Z z) = true.
Proof. exact neo_of_Z_wf. Qed.
Print Assumptions c21_neo_wellformed.

(** minimal length: the number of bytes is the least n with -2^(8n-1) <= z < 2^(8n-1)
    ([neo_fits]; n = 0 exactly for z = 0, which the code encodes as the empty string) *)
Theorem c21_neo_minimal_length : forall z : Z,
  neo_fits (length (neo_of_Z z)) z /\
  (forall m : nat, neo_fits m z -> (length (neo_of_Z z) <= m)%nat).
Proof. exact neo_of_Z_minimal. Qed.
Print Assumptions c21_neo_minimal_length.

Theorem c21_neo_fits_meaning : forall (n : nat) (z : Z),
  (neo_fits 0 z <-> z = 0%Z) /\
  (neo_fits (S n) z <-> (- (128 * 256 ^ Z.of_nat n) <= z < 128 * 256 ^ Z.of_nat n)%Z).
Proof. intros n z. split; [apply neo_fits_0|apply neo_fits_S]. Qed.
Print Assumptions c21_neo_fits_meaning.

(** the decoder computes the two's-complement value of ANY byte string, which fits its length *)
Theorem c21_neo_decode_value : forall b : bytes, wf_bytes b = true ->
  Z_of_neo b = tc_value b /\ neo_fits (length b) (Z_of_neo b).
Proof. intros b H. split; [apply Z_of_neo_tc; exact H|rewrite Z_of_neo_tc by exact H; apply tc_value_fits; exact H]. Qed.
Print Assumptions c21_neo_decode_value.

(** each value has exactly one encoding: the canonical strings are exactly the encoder's image, and a
    canonical string with value z IS the encoding of z *)
Theorem c21_neo_encoder_image : forall b : bytes, wf_bytes b = true ->
  (neo_of_Z (Z_of_neo b) = b <-> neo_canonical b = true).
Proof. exact neo_canonical_iff. Qed.
Print Assumptions c21_neo_encoder_image.

Theorem c21_neo_unique_encoding : forall (b : bytes) (z : Z),
  wf_bytes b = true -> neo_canonical b = true -> Z_of_neo b = z -> b = neo_of_Z z.
Proof. exact neo_unique_canonical. Qed.
Print Assumptions c21_neo_unique_encoding.

(** what the code does with non-minimal inputs: it decodes them to the value of the string with the
    redundant sign bytes removed, so re-encoding yields exactly [neo_trim b] (never longer than b);
    two inputs decode alike iff they agree after trimming *)
Theorem c21_neo_nonminimal_inputs : forall b : bytes, wf_bytes b = true ->
  neo_of_Z (Z_of_neo b) = neo_trim b /\ Z_of_neo (neo_trim b) = Z_of_neo b /\
  (length (neo_trim b) <= length b)%nat.
Proof. intros b H. split; [apply neo_reencode_trim; exact H|split; [apply neo_trim_value; exact H|apply neo_trim_length]]. Qed.
Print Assumptions c21_neo_nonminimal_inputs.

Theorem c21_neo_decode_eq_iff : forall b1 b2 : bytes, wf_bytes b1 = true -> wf_bytes b2 = true ->
  (Z_of_neo b1 = Z_of_neo b2 <-> neo_trim b1 = neo_trim b2).
Proof. exact neo_decode_eq_iff. Qed.
Print Assumptions c21_neo_decode_eq_iff.

Theorem c21_neo_sign_extension : forall b : bytes, wf_bytes b = true ->
  ((last_byte b < 128)%N -> Z_of_neo (b ++ [0%N]) = Z_of_neo b) /\
  ((128 <= last_byte b)%N -> Z_of_neo (b ++ [255%N]) = Z_of_neo b).
Proof. intros b H. split; [apply neo_sign_extend_00; exact H|apply neo_sign_extend_ff; exact H]. Qed.
Print Assumptions c21_neo_sign_extension.

(** * 2. 128-bit integers (I128FromBigInt / I128.ToBigInt) *)

Theorem c21_i128_range_check : forall z : Z,
  i128_of_Z z = None <-> ~ (- 2 ^ 127 <= z < 2 ^ 127)%Z.
Proof. exact i128_of_Z_none_iff. Qed.
Print Assumptions c21_i128_range_check.

Theorem c21_i128_roundtrip : forall z : Z, (- 2 ^ 127 <= z < 2 ^ 127)%Z ->
  exists b, i128_of_Z z = Some b /\ Z_of_i128 b = z.
Proof. exact i128_roundtrip. Qed.
Print Assumptions c21_i128_roundtrip.

Theorem c21_i128_fixed_width : forall (z : Z) (b : bytes),
  i128_of_Z z = Some b -> length b = 16%nat /\ wf_bytes b = true.
Proof. exact i128_of_Z_length. Qed.
Print Assumptions c21_i128_fixed_width.

(** exactly one encoding, both ways: a bijection between [-2^127, 2^127) and the 16-byte strings *)
Theorem c21_i128_bijection : forall b : bytes, wf_bytes b = true -> length b = 16%nat ->
  (- 2 ^ 127 <= Z_of_i128 b < 2 ^ 127)%Z /\ i128_of_Z (Z_of_i128 b) = Some b.
Proof. exact i128_roundtrip_bytes. Qed.
Print Assumptions c21_i128_bijection.

Theorem c21_i128_injective : forall (z1 z2 : Z) (b : bytes),
  i128_of_Z z1 = Some b -> i128_of_Z z2 = Some b -> z1 = z2.
Proof. exact i128_of_Z_inj. Qed.
Print Assumptions c21_i128_injective.

Theorem c21_i128_int64_paths_agree :
  (forall z : Z, (- 2 ^ 63 <= z < 2 ^ 63)%Z -> i128_of_Z z = Some (i128_of_int64 z)) /\
  (forall v : N, (v < 18446744073709551616)%N -> i128_of_Z (Z.of_N v) = Some (i128_of_uint64 v)).
Proof. split; [exact i128_of_int64_agrees|exact i128_of_uint64_agrees]. Qed.
Print Assumptions c21_i128_int64_paths_agree.

(** * 3. Native-contract variable-length integer (EncodeVarUint / DecodeVarUint) *)

Theorem c21_varuint_roundtrip : forall (v : N) (rest : bytes), (v < 18446744073709551616)%N ->
  decode_varuint (encode_varuint v ++ rest) = inl (v, rest).
Proof. exact varuint_roundtrip. Qed.
Print Assumptions c21_varuint_roundtrip.

(** one length byte, then the minimal two's-complement form (at most 9 bytes) *)
Theorem c21_varuint_shape : forall v : N, (v < 18446744073709551616)%N ->
  encode_varuint v = N.of_nat (length (neo_of_Z (Z.of_N v))) :: neo_of_Z (Z.of_N v) /\
  (length (encode_varuint v) <= 10)%nat /\ wf_bytes (encode_varuint v) = true.
Proof. intros v H. destruct (encode_varuint_shape v H) as [A B]. split; [exact A|split; [exact B|apply encode_varuint_wf; exact H]]. Qed.
Print Assumptions c21_varuint_shape.

(** injective and prefix-free: a concatenation of encodings parses in exactly one way *)
Theorem c21_varuint_prefix_free : forall (v1 v2 : N) (r1 r2 : bytes),
  (v1 < 18446744073709551616)%N -> (v2 < 18446744073709551616)%N ->
  encode_varuint v1 ++ r1 = encode_varuint v2 ++ r2 -> v1 = v2 /\ r1 = r2.
Proof. exact encode_varuint_prefix_free. Qed.
Print Assumptions c21_varuint_prefix_free.

(** what the decoder accepts: a canonical length prefix around a payload whose two's-complement value
    is the result (0 <= v < 2^64); the encoder's form of v is the same prefix form around the trimmed
    payload; so an accepted input is the encoder's output whenever its payload is canonical *)
Theorem c21_varuint_accepts : forall (b : bytes) (v : N) (rest : bytes),
  wf_bytes b = true -> decode_varuint b = inl (v, rest) ->
  let payload := varuint_payload b in
  b = nv_write_varbytes payload ++ rest /\ wf_bytes payload = true /\
  Z_of_neo payload = Z.of_N v /\ (v < 18446744073709551616)%N /\
  encode_varuint v = nv_write_varbytes (neo_trim payload).
Proof. exact decode_varuint_accepts. Qed.
Print Assumptions c21_varuint_accepts.

Theorem c21_varuint_canonical : forall (b : bytes) (v : N) (rest : bytes),
  wf_bytes b = true -> decode_varuint b = inl (v, rest) ->
  neo_canonical (varuint_payload b) = true -> b = encode_varuint v ++ rest.
Proof. exact decode_varuint_canonical. Qed.
Print Assumptions c21_varuint_canonical.

Theorem c21_varuint_wrapping_agrees : forall (b : bytes) r,
  decode_varuint b = inl r -> decode_varuint_wrapping b = inl r.
Proof. exact decode_varuint_wrapping_agrees. Qed.
Print Assumptions c21_varuint_wrapping_agrees.

(** * 4. Token balance storage items (MustToStorageItem / NativeTokenBalanceFromStorageItem) *)

(** for every balance 0 <= b with integer part below 2^64 (and, beyond the property text, for every
    non-negative fractional balance of any size): written, read back equal; version 0 iff the balance
    is integral, version 1 otherwise *)
Theorem c21_balance_roundtrip : forall b : Z,
  (0 <= b /\ ((b mod 1000000000 = 0) -> b / 1000000000 < 18446744073709551616))%Z ->
  exists it, balance_to_item b = Some it /\ balance_of_item it = inl b /\ wf_item it = true /\
             balance_item_canonical it = true /\
             (state_version it = 0%N <-> (b mod 1000000000 = 0)%Z) /\
             (state_version it = 0%N \/ state_version it = 1%N).
Proof. exact balance_roundtrip. Qed.
Print Assumptions c21_balance_roundtrip.

Theorem c21_balance_domain : forall b : Z,
  (0 <= b /\ b / 1000000000 < 18446744073709551616)%Z -> balance_storable b.
Proof. exact balance_in_domain_storable. Qed.
Print Assumptions c21_balance_domain.

Theorem c21_balance_injective : forall (b1 b2 : Z) (it : storage_item),
  balance_storable b1 -> balance_storable b2 ->
  balance_to_item b1 = Some it -> balance_to_item b2 = Some it -> b1 = b2.
Proof. exact balance_to_item_inj. Qed.
Print Assumptions c21_balance_injective.

(** through the stored bytes (StorageItem.Serialization / Deserialization), trailing bytes ignored *)
Theorem c21_balance_bytes_roundtrip : forall b : Z, balance_in_domain b ->
  exists raw, balance_to_bytes b = Some raw /\ forall rest, balance_of_bytes (raw ++ rest) = inl b.
Proof. exact balance_bytes_roundtrip. Qed.
Print Assumptions c21_balance_bytes_roundtrip.

Theorem c21_item_roundtrip : forall (it : storage_item) (rest : bytes),
  (N.of_nat (length (item_value it)) < 18446744073709551616)%N ->
  item_of_bytes (item_to_bytes it ++ rest) = inl (it, rest).
Proof. exact item_roundtrip. Qed.
Print Assumptions c21_item_roundtrip.

(** outside the domain: the writer panics exactly on integral amounts that are negative or >= 2^64
    units, and a negative non-integral amount is written as an item the reader refuses; so the
    writer returns an item exactly for the storable balances and the negative fractional ones *)
Theorem c21_balance_written_iff : forall b : Z,
  (exists it, balance_to_item b = Some it) <->
  (balance_storable b \/ ((b < 0)%Z /\ (b mod 1000000000 <> 0)%Z)).
Proof. exact balance_to_item_some_iff. Qed.
Print Assumptions c21_balance_written_iff.

Theorem c21_balance_panic_iff : forall b : Z,
  balance_to_item b = None <->
  ((b mod 1000000000 = 0)%Z /\ (b < 0 \/ 18446744073709551616 <= b / 1000000000)%Z).
Proof. exact balance_to_item_none_iff. Qed.
Print Assumptions c21_balance_panic_iff.

Theorem c21_balance_negative_unreadable : forall (b : Z) (it : storage_item),
  (b < 0)%Z -> balance_to_item b = Some it -> balance_of_item it = inr BalNegative.
Proof. exact balance_negative. Qed.
Print Assumptions c21_balance_negative_unreadable.

(** what the reader accepts: only non-negative balances; and an accepted item is the writer's item for
    that balance exactly when it is in the canonical form (version 0 with exactly 8 bytes, or version 1
    with a minimal two's-complement value that is not a multiple of 10^9) *)
Theorem c21_balance_accepts : forall (it : storage_item) (b : Z),
  wf_item it = true -> balance_of_item it = inl b ->
  (0 <= b)%Z /\
  (state_version it = 0%N -> (b mod 1000000000 = 0)%Z /\ (b / 1000000000 < 18446744073709551616)%Z) /\
  (balance_to_item b = Some it <-> balance_item_canonical it = true).
Proof. exact balance_of_item_accepts. Qed.
Print Assumptions c21_balance_accepts.

(** * The property as one statement *)
Definition c21_statement : Prop :=
  (* NeoVM integers *)
  (forall z, Z_of_neo (neo_of_Z z) = z) /\
  (forall z, neo_fits (length (neo_of_Z z)) z /\ forall m, neo_fits m z -> (length (neo_of_Z z) <= m)%nat) /\
  (forall b z, wf_bytes b = true -> neo_canonical b = true -> Z_of_neo b = z -> b = neo_of_Z z) /\
  (forall z, neo_canonical (neo_of_Z z) = true) /\
  (* i128 *)
  (forall z, (- 2 ^ 127 <= z < 2 ^ 127)%Z -> exists b, i128_of_Z z = Some b /\ Z_of_i128 b = z) /\
  (forall z, ~ (- 2 ^ 127 <= z < 2 ^ 127)%Z -> i128_of_Z z = None) /\
  (forall b, wf_bytes b = true -> length b = 16%nat -> i128_of_Z (Z_of_i128 b) = Some b) /\
  (* native varuint *)
  (forall v rest, (v < 18446744073709551616)%N -> decode_varuint (encode_varuint v ++ rest) = inl (v, rest)) /\
  (forall b v rest, wf_bytes b = true -> decode_varuint b = inl (v, rest) ->
     neo_canonical (varuint_payload b) = true -> b = encode_varuint v ++ rest) /\
  (* balances *)
  (forall b, (0 <= b /\ b / 1000000000 < 18446744073709551616)%Z ->
     exists it, balance_to_item b = Some it /\ balance_of_item it = inl b /\
                (state_version it = 0%N <-> (b mod 1000000000 = 0)%Z)) /\
  (forall it b, wf_item it = true -> balance_of_item it = inl b ->
     (balance_to_item b = Some it <-> balance_item_canonical it = true)).

Theorem c21_numeric_encodings_roundtrip : c21_statement.
Proof.
  unfold c21_statement. repeat match goal with |- _ /\ _ => split end.
  - exact neo_roundtrip.
  - exact neo_of_Z_minimal.
  - exact neo_unique_canonical.
  - exact neo_of_Z_canonical.
  - exact i128_roundtrip.
  - intros z H. apply i128_of_Z_none_iff. exact H.
  - intros b H Hl. apply i128_roundtrip_bytes; assumption.
  - exact varuint_roundtrip.
  - exact decode_varuint_canonical.
  - intros b D. destruct (balance_roundtrip b (balance_in_domain_storable b D)) as [it [A [B [_ [_ [C _]]]]]]. exists it. auto.
  - intros it b W D. apply (balance_of_item_accepts it b W D).
Qed.
Print Assumptions c21_numeric_encodings_roundtrip.

(** * Non-vacuity: the hypotheses are satisfiable at sign and byte-length boundaries, and the
      non-minimal inputs the decoders accept exist *)
Example c21_nonvacuous :
  (* -129 needs two bytes, 128 needs two bytes, -128 one *)
  neo_of_Z (-129) = [127; 255]%N /\ neo_of_Z 128 = [128; 0]%N /\ neo_of_Z (-128) = [128]%N /\
  neo_fits 1 (-128) /\ ~ neo_fits 1 128 /\
  (* a non-minimal input and its canonical form *)
  wf_bytes [127; 255; 255]%N = true /\ neo_canonical [127; 255; 255]%N = false /\
  Z_of_neo [127; 255; 255]%N = (-129)%Z /\ neo_trim [127; 255; 255]%N = [127; 255]%N /\
  (* i128 boundaries *)
  (exists b, i128_of_Z (2 ^ 127 - 1) = Some b) /\ i128_of_Z (2 ^ 127) = None /\
  (exists b, i128_of_Z (- 2 ^ 127) = Some b) /\ i128_of_Z (- 2 ^ 127 - 1) = None /\
  (* varuint: accepted canonical and non-canonical inputs for the same value, and a refused one *)
  decode_varuint [2; 128; 0]%N = inl (128%N, []) /\ encode_varuint 128 = [2; 128; 0]%N /\
  decode_varuint [3; 128; 0; 0]%N = inl (128%N, []) /\
  decode_varuint [1; 255]%N = inr NvNotUint64 /\
  (* balances: integral -> version 0, fractional -> version 1, both in the domain *)
  balance_in_domain 2000000000 /\ balance_in_domain 2000000001 /\ balance_storable 2000000001 /\
  (exists v, balance_to_item 2000000000 = Some (mkItem 0 v)) /\
  (exists v, balance_to_item 2000000001 = Some (mkItem 1 v)) /\
  balance_to_item (18446744073709551616 * 1000000000) = None.
Proof.
  repeat match goal with |- _ /\ _ => split end;
    try (vm_compute; reflexivity);
    try (eexists; vm_compute; reflexivity);
    try (unfold neo_fits; vm_compute; intuition discriminate);
    try (unfold balance_in_domain; vm_compute; intuition discriminate);
    try (unfold balance_storable; vm_compute; intuition discriminate).
Qed.
