(** C18 — Primitive binary codec round-trips, is canonical and never reads out of bounds.
    Model: Model/Codec.v (ZeroCopySource / ZeroCopySink / common/serialization), tied to the code by
    the C18 correspondence on every run. *)
From Coq Require Import List Bool NArith ZArith.
Import ListNotations.
From Ont Require Import Lib.Bytes Model.Codec Proofs.Codec.
Local Open Scope N_scope.

(** (1) Round trip. Whatever a write operation appended — at any position [pre] of any buffer,
    followed by anything [post] — the matching read returns exactly the written value, no eof,
    not irregular, the writer's size, and leaves the offset just after the written bytes.
    [wf_wop] only says the value fits the Go type of the operation. *)
Theorem c18_roundtrip : forall (o : wop) (pre post : bytes),
  wf_wop o = true ->
  N.of_nat (length (pre ++ run_wop o ++ post)) < two64 ->
  run_rop (at_ pre (run_wop o) post) (fst (readback o)) =
  (snd (readback o), after_ pre (run_wop o) post).
Proof. exact readback_ok. Qed.
Print Assumptions c18_roundtrip.

(** (2) Canonicity. Whenever NextVarUint returns a value (no eof) from any well-formed buffer at
    any offset, it reports irregular = false exactly when the bytes it consumed are the encoder's
    encoding of that value; the reported size is the number of bytes consumed. *)
Theorem c18_varuint_canonical : forall (s : source) (v sz : N) (irr : bool) (s' : source),
  src_ok s -> wf_bytes (buf s) = true ->
  next_varuint s = (v, sz, irr, false, s') ->
  let consumed := slice (buf s) (off s) (off s' - off s) in
  N.of_nat (length consumed) = sz /\ v < two64 /\ (irr = false <-> consumed = write_varuint v).
Proof. exact varuint_canonical. Qed.
Print Assumptions c18_varuint_canonical.

(** (3) Safety. For every buffer and every sequence of read operations (including NextBytes/Skip
    with arbitrary uint64 counts), each operation leaves the buffer unchanged and the offset
    inside [old offset, length]; results are values or eof/irregular flags (the model is total,
    and it is the correspondence that shows the code does not panic where the model does not). *)
Theorem c18_reads_stay_in_bounds : forall (ops : list rop) (s : source),
  src_ok s -> positions_ok (src_pos s) (N.of_nat (length (buf s))) (run_script s ops).
Proof. exact run_script_safe. Qed.
Print Assumptions c18_reads_stay_in_bounds.

Theorem c18_read_step_safe : forall (s : source) (o : rop),
  src_ok s -> step_safe s (snd (run_rop s o)).
Proof. exact run_rop_safe. Qed.
Print Assumptions c18_read_step_safe.

(** (4) common/serialization (io.Reader based): round trips for the variable-length forms. *)
Theorem c18_ser_varuint_roundtrip : forall (v : N) (rest : bytes),
  v < two64 -> ser_read_varuint (ser_write_varuint v ++ rest) 0 = inl (v, rest).
Proof. exact ser_varuint_roundtrip. Qed.
Print Assumptions c18_ser_varuint_roundtrip.

Theorem c18_ser_varbytes_roundtrip : forall (d rest : bytes),
  N.of_nat (length d) < two64 -> ser_read_varbytes (ser_write_varbytes d ++ rest) = inl (d, rest).
Proof. exact ser_varbytes_roundtrip. Qed.
Print Assumptions c18_ser_varbytes_roundtrip.

(** A stream of these encodings splits in one way only. *)
Theorem c18_ser_varuint_prefix_free : forall (v1 v2 : N) (r1 r2 : bytes),
  v1 < two64 -> v2 < two64 ->
  ser_write_varuint v1 ++ r1 = ser_write_varuint v2 ++ r2 -> v1 = v2 /\ r1 = r2.
Proof. exact ser_varuint_prefix_free. Qed.
Print Assumptions c18_ser_varuint_prefix_free.

Theorem c18_ser_varbytes_prefix_free : forall (d1 d2 r1 r2 : bytes),
  N.of_nat (length d1) < two64 -> N.of_nat (length d2) < two64 ->
  ser_write_varbytes d1 ++ r1 = ser_write_varbytes d2 ++ r2 -> d1 = d2 /\ r1 = r2.
Proof. exact ser_varbytes_prefix_free. Qed.
Print Assumptions c18_ser_varbytes_prefix_free.

(** Non-vacuity: a non-minimal encoding is flagged, a minimal one is not, and a concrete write
    script reads back. *)
Example c18_nonvacuous_irregular :
  next_varuint (src_new [253; 5; 0; 7]) = (5, 3, true, false, mkSrc [253; 5; 0; 7] 3) /\
  next_varuint (src_new [253; 253; 0; 7]) = (253, 3, false, false, mkSrc [253; 253; 0; 7] 3).
Proof. split; vm_compute; reflexivity. Qed.

Example c18_nonvacuous_roundtrip :
  wf_wop (WVarBytes [1; 2; 3]) = true /\
  run_rop (at_ [9; 9] (run_wop (WVarBytes [1; 2; 3])) [8]) RVarBytes =
  (VVarBytes [1; 2; 3] 4 false false, after_ [9; 9] (run_wop (WVarBytes [1; 2; 3])) [8]).
Proof. split; vm_compute; reflexivity. Qed.
