From Ont Require Import Model.Codec.
