(** C31 — Commit is declared only with a verifiable two-thirds signer quorum.

    Model: Model/VbftPool.v (getCommitConsensus, newBlockProposal/Endorsement/Commitment,
    addBlockEndorsementLocked, commitDone, and the receive check), vocabulary: Model/VbftPoolSpec.v.
    Thresholds are the expressions of the current source (Gen/Thresholds.v); what the receive path
    checks is read from the current source (Gen/VbftIntake.v).

    FULL STATEMENT ([commit_needs_quorum]): for every configuration (N peers, 3C+1 <= N), every
    history of proposal/endorse/commit messages received by a node, every iteration order of the
    endorse-signature map and every isEndorser predicate: if BlockPool.commitDone declares commit
    consensus for proposer p, then at least N-(N-1)/3 distinct consensus peers have a verifiable
    signature for p's proposal in the pool (the proposer counting for itself).

    The faithful model REFUTES it (finding F10, known_findings.d/C31.json): see the four
    [_refuted] theorems. Proved instead, for all histories:
      - [c31_commit_needs_quorum_partial]: the full quorum, when every message that passes the
        receive check carries only verifiable signatures of the peers it names and no commit message
        names its proposer among its signers;
      - [c31_commit_quorum_within_one_partial]: with verified signatures alone, N-(N-1)/3 - 1 (the
        "+1" for the proposer is added even when the proposer is already a counted key).
    What is missing for the full statement is in the code, not in the proof: the receive path
    would have to verify EndorsersSig entries and the claimed Committer/Endorser index, and
    getCommitConsensus would have to count the proposer once. *)
From Coq Require Import List Bool NArith ZArith.
Import ListNotations.
From Ont Require Import Gen.Thresholds Gen.VbftIntake Model.VbftPool Model.VbftPoolSpec Proofs.C31.
Local Open Scope N_scope.

(** The property outside the finding classes (verified intake, proposer not double counted). *)
Theorem c31_commit_needs_quorum_partial :
  commit_quorum_statement (fun peers ops => counted_verified peers ops /\ no_double_count ops) quorum_size.
Proof. exact commit_quorum_partial. Qed.
Print Assumptions c31_commit_needs_quorum_partial.

(** Verified intake alone: one short of the quorum in the worst case. *)
Theorem c31_commit_quorum_within_one_partial :
  commit_quorum_statement (fun peers ops => counted_verified peers ops) (fun n => quorum_size n - 1)%Z.
Proof. exact commit_quorum_within_one. Qed.
Print Assumptions c31_commit_quorum_within_one_partial.

(** KNOWN FINDING F10: the full statement is false of the code as it is. One commit message
    claiming endorsements with signatures that do not verify suffices (N = 4). *)
Theorem c31_commit_needs_quorum_refuted : ~ commit_needs_quorum.
Proof. exact commit_needs_quorum_refuted. Qed.
Print Assumptions c31_commit_needs_quorum_refuted.

(** ... it stays false when every carried signature verifies: the proposer is counted twice. *)
Theorem c31_commit_quorum_verified_refuted :
  ~ commit_quorum_statement (fun peers ops => counted_verified peers ops) quorum_size.
Proof. exact commit_quorum_verified_refuted. Qed.
Print Assumptions c31_commit_quorum_verified_refuted.

(** ... and without any endorser list: the Committer index of a commit message is not tied to
    the key that signed it. *)
Theorem c31_commit_quorum_claimed_committer_refuted :
  ~ commit_quorum_statement (fun _ ops => no_endorser_lists ops) quorum_size.
Proof. exact commit_quorum_claimed_committer_refuted. Qed.
Print Assumptions c31_commit_quorum_claimed_committer_refuted.

(** ... and without any commit message: the Endorser index of an endorse message is not tied to
    the key that signed it, and commitDone's second path counts the stored entries. *)
Theorem c31_commit_quorum_claimed_endorser_refuted :
  ~ commit_quorum_statement (fun _ ops => no_commit_msgs ops) quorum_size.
Proof. exact commit_quorum_claimed_endorser_refuted. Qed.
Print Assumptions c31_commit_quorum_claimed_endorser_refuted.

(** The receive path of the current source has the shape the model assumes: msg.Verify is called
    with the sender's key and drops on error, each signed message type's own signature is verified
    unconditionally (inventory of the Verify methods), nothing else is checked. *)
Theorem c31_intake_as_modelled :
  recv_verifies_sender_sig = true /\ own_sigs_mandatory = true /\
  decode_rejects_unsigned_proposal = true /\
  intake_checks_endorser_sigs = false /\ intake_checks_claimed_identity = false.
Proof. exact intake_shape_current. Qed.
Print Assumptions c31_intake_as_modelled.

(** Non-vacuity: an honest round with N = 4 satisfies the hypotheses of the partial theorem,
    commit is declared, and the theorem yields three distinct valid signers. *)
Example c31_nonvacuous :
  counted_verified peers4 honest_round /\ no_double_count honest_round /\
  commit_done allE [0; 1; 2] (run_ops honest_round cand_empty) 1 4 = (0, false, true) /\
  has_signers peers4 3 (run_ops honest_round cand_empty) 0.
Proof.
  destruct honest_round_ok as (Hv & Hd & Hc & _).
  repeat split; try assumption.
  apply (c31_commit_needs_quorum_partial peers4 4 1 allE honest_round [0; 1; 2] 0 false wf4 (conj Hv Hd));
    [nd|exact Hc].
Qed.
