(** C19 — Transaction encoding is canonical and its hash binds the signed content.

    Model: Model/TxCodec.v (Transaction.Deserialization, deserializeOntUnsigned, decodeEip155,
    isEip155TxBytes with its BackUp calls, TransactionFromEIP155, TransactionFromRawBytes, RawSig,
    the InvokeCode / DeployCode / EIP155Code decoders, and the writer of
    MutableTransaction.serialize) over the ZeroCopySource model of C18. Limits and tags come from
    Gen/TxConsts.v, regenerated from the linked packages and from validateDeployCode /
    checkVmFlags / VmType on every run.

    External functions are universally quantified in every theorem (never axioms):
    [H] is sha256.Sum256 (no property of it is assumed; where collision freedom would be needed the
    statement exhibits the collision), [E : ethapi etx] is go-ethereum (RLP decoder/encoder of
    types.Transaction and the accessors TransactionFromEIP155 uses). The only hypothesis about it is
    [rlp_canon]: rlp.DecodeBytes accepts only what rlp.EncodeToBytes writes. The harness validates
    it on every RLP-decodable payload it meets (oracle class eip155:rlp-noncanonical).

    Byte strings are lists of N; [wf_bytes b] says every element is below 256 (true of any Go
    []byte). [good s] = the source offset is inside the buffer, the buffer is addressable and made
    of bytes.

    Where the decoder is lenient (stated precisely, none of it lets two byte strings share a hash):
    - TransactionFromRawBytes ignores bytes after the transaction: [rest] below is arbitrary. The
      transaction keeps only the consumed bytes ([t_raw]), so ToArray() never contains them.
    - Signature scripts are not parsed by the decoder (opaque byte strings; C23/C16).
    - EIP-155 format: the transaction hash is Ethereum's hash of the signed RLP, so it covers
      v, r, s by design; only the signing hash is signature-independent ([c19_eip155_hashes]).
    Everything else is enforced: version 0, known type, fixed-width fields, every variable-length
    integer minimal (irregular ones are rejected at every position, including the attribute count
    and the signature count), attribute count 0, at most TX_MAX_SIG_SIZE signature entries,
    DeployCode flag in {0,1,3} kept as read, string/code limits, total size <= MAX_TX_SIZE. *)
From Coq Require Import List NArith.
Import ListNotations.
From Ont Require Import Lib.Bytes Gen.TxConsts Model.Codec Proofs.Codec Model.TxCodec Proofs.TxCodec Proofs.TxRoundTrip.
Local Open Scope N_scope.

Definition rlp_canon {etx} (E : ethapi etx) : Prop :=
  forall b e, rlp_dec E b = Some e -> rlp_enc E e = b.

(** 1. Accepted => re-serializes to exactly the consumed bytes (source level: Deserialization at any
    position of any buffer; [tx_to_array] is Transaction.ToArray, [tx_encode] the field-wise writer). *)
Theorem c19_deserialization_canonical :
  forall (H : bytes -> bytes) etx (E : ethapi etx), rlp_canon E ->
  forall s t s', good s -> tx_deserialization H E s = (inl t, s') ->
    consumed s s' (tx_encode E t) /\ tx_to_array t = tx_encode E t /\
    N.of_nat (length (tx_encode E t)) <= MAX_TX_SIZE.
Proof. intros H etx E C. exact (deserialization_canonical H etx E C). Qed.
Print Assumptions c19_deserialization_canonical.

(** 1'. The same for TransactionFromRawBytes on any byte string. *)
Theorem c19_decode_consumes_canonical :
  forall (H : bytes -> bytes) etx (E : ethapi etx), rlp_canon E ->
  forall b t s', wf_bytes b = true -> tx_from_raw_bytes H E b = (inl t, s') ->
    exists rest, b = tx_encode E t ++ rest /\ tx_to_array t = tx_encode E t /\
                 N.of_nat (length (tx_encode E t)) <= MAX_TX_SIZE /\
                 src_pos s' = N.of_nat (length (tx_encode E t)).
Proof. intros H etx E C. exact (decode_consumes_canonical H etx E C). Qed.
Print Assumptions c19_decode_consumes_canonical.

(** 2. One encoding: inputs decoding to the same transaction consumed the same bytes. *)
Theorem c19_one_encoding :
  forall (H : bytes -> bytes) etx (E : ethapi etx), rlp_canon E ->
  forall s1 s1' s2 s2' t, good s1 -> good s2 ->
    tx_deserialization H E s1 = (inl t, s1') -> tx_deserialization H E s2 = (inl t, s2') ->
    slice (buf s1) (off s1) (off s1' - off s1) = slice (buf s2) (off s2) (off s2' - off s2).
Proof. intros H etx E C. exact (one_encoding H etx E C). Qed.
Print Assumptions c19_one_encoding.

(** 3. Ontology format: the hash is H (H unsigned), where [unsigned] is the writer's encoding of the
    unsigned fields and is the prefix of the consumed bytes; the signature section follows it. *)
Theorem c19_hash_of_unsigned :
  forall (H : bytes -> bytes) etx (E : ethapi etx), rlp_canon E ->
  forall s t s', good s -> tx_deserialization H E s = (inl t, s') -> t_type t <> TX_EIP155 ->
    let u := tx_encode_unsigned E t in
    t_hash t = H (H u) /\ t_hash_unsigned t = H u /\
    slice (buf s) (off s) (length u) = u /\ tx_encode E t = u ++ sigs_encode (t_sigs t).
Proof. intros H etx E C. exact (hash_of_unsigned H etx E C). Qed.
Print Assumptions c19_hash_of_unsigned.

(** 3'. The hash is determined by the unsigned part only. *)
Theorem c19_hash_unsigned_only :
  forall (H : bytes -> bytes) etx (E : ethapi etx), rlp_canon E ->
  forall s1 s1' t1 s2 s2' t2, good s1 -> good s2 ->
    tx_deserialization H E s1 = (inl t1, s1') -> tx_deserialization H E s2 = (inl t2, s2') ->
    t_type t1 <> TX_EIP155 -> t_type t2 <> TX_EIP155 ->
    tx_encode_unsigned E t1 = tx_encode_unsigned E t2 ->
    t_hash t1 = t_hash t2 /\ t_hash_unsigned t1 = t_hash_unsigned t2.
Proof. intros H etx E C. exact (hash_unsigned_only H etx E C). Qed.
Print Assumptions c19_hash_unsigned_only.

(** 3''. Signatures do not change it: equal unsigned fields, any signature sections. *)
Theorem c19_signatures_not_hashed :
  forall (H : bytes -> bytes) etx (E : ethapi etx), rlp_canon E ->
  forall s1 s1' t1 s2 s2' t2, good s1 -> good s2 ->
    tx_deserialization H E s1 = (inl t1, s1') -> tx_deserialization H E s2 = (inl t2, s2') ->
    t_type t1 <> TX_EIP155 ->
    t_version t1 = t_version t2 -> t_type t1 = t_type t2 -> t_nonce t1 = t_nonce t2 ->
    t_gasprice t1 = t_gasprice t2 -> t_gaslimit t1 = t_gaslimit t2 -> t_payer t1 = t_payer t2 ->
    t_payload t1 = t_payload t2 ->
    t_hash t1 = t_hash t2.
Proof. intros H etx E C. exact (signatures_not_hashed H etx E C). Qed.
Print Assumptions c19_signatures_not_hashed.

(** 3'''. The hash binds the unsigned bytes, or a collision of H is exhibited. *)
Theorem c19_hash_binds_unsigned :
  forall (H : bytes -> bytes) etx (E : ethapi etx), rlp_canon E ->
  forall s1 s1' t1 s2 s2' t2, good s1 -> good s2 ->
    tx_deserialization H E s1 = (inl t1, s1') -> tx_deserialization H E s2 = (inl t2, s2') ->
    t_type t1 <> TX_EIP155 -> t_type t2 <> TX_EIP155 ->
    t_hash t1 = t_hash t2 ->
    tx_encode_unsigned E t1 = tx_encode_unsigned E t2 \/ exists x y, x <> y /\ H x = H y.
Proof. intros H etx E C. exact (hash_binds_unsigned H etx E C). Qed.
Print Assumptions c19_hash_binds_unsigned.

(** 3-eip. EIP-155 format (scope note of DESIGN §5 C19): hash = go-ethereum Hash() of the decoded
    transaction, signing hash = signer.Hash; the consumed bytes are 00 d3 varbytes(rlp). *)
Theorem c19_eip155_hashes :
  forall (H : bytes -> bytes) etx (E : ethapi etx), rlp_canon E ->
  forall s t s', good s -> tx_deserialization H E s = (inl t, s') -> t_type t = TX_EIP155 ->
    exists e, t_payload t = PEip e /\ t_hash t = e_hash E e /\ t_hash_unsigned t = e_sighash E e /\
              tx_encode E t = [0; TX_EIP155] ++ write_varbytes (rlp_enc E e).
Proof. intros H etx E C. exact (eip155_hashes H etx E C). Qed.
Print Assumptions c19_eip155_hashes.

(** 4. Decoding is total and safe on every byte string: it returns a transaction or one of the
    decoding errors, never the BackUp-underflow or VmType-panic outcome, and the source stays
    inside the buffer. *)
Theorem c19_decode_total :
  forall (H : bytes -> bytes) etx (E : ethapi etx), rlp_canon E ->
  forall b, wf_bytes b = true ->
    let '(r, s') := tx_from_raw_bytes H E b in
    r <> inr TBackUp /\ r <> inr TPanic /\ buf s' = b /\ (off s' <= length b)%nat.
Proof. intros H etx E C. exact (decode_total H etx E C). Qed.
Print Assumptions c19_decode_total.

Theorem c19_deserialization_total :
  forall (H : bytes -> bytes) etx (E : ethapi etx), rlp_canon E ->
  forall s, good s ->
    let '(r, s') := tx_deserialization H E s in
    step_safe s s' /\ r <> inr TBackUp /\ r <> inr TPanic.
Proof. intros H etx E C. exact (deserialization_total H etx E C). Qed.
Print Assumptions c19_deserialization_total.

(** 5. Inputs above the size limit are rejected (the bound on accepted ones is in 1 and 1'). *)
Theorem c19_oversize_rejected :
  forall (H : bytes -> bytes) etx (E : ethapi etx) b,
    MAX_TX_SIZE < N.of_nat (length b) -> fst (tx_from_raw_bytes H E b) = inr TOversize.
Proof. intros H etx E. exact (oversize_rejected H etx E). Qed.
Print Assumptions c19_oversize_rejected.

(** 6. Converse direction (completeness of the decoder, not required by the property text but it
    makes 1-3 two-sided). [ont_tx H etx E t] (Proofs/TxCodec.v) is exactly what acceptance
    establishes of an Ontology-format transaction: version 0, type byte <> EIP155, fields within
    their widths, payer of ADDR_LEN bytes, payload allowed for the type (DeployCode validated),
    attribute count 0, at most TX_MAX_SIG_SIZE signature entries, hashes = H u and H (H u).
    Every such transaction whose encoding fits MAX_TX_SIZE is decoded to itself from its encoding
    at any position of any buffer. *)
Theorem c19_encode_decode_roundtrip :
  forall (H : bytes -> bytes) etx (E : ethapi etx) t pre post,
    ont_tx H etx E t -> t_raw t = tx_encode E t -> N.of_nat (length (tx_encode E t)) <= MAX_TX_SIZE ->
    N.of_nat (length (pre ++ tx_encode E t ++ post)) < two64 ->
    tx_deserialization H E (at_ pre (tx_encode E t) post) = (inl t, after_ pre (tx_encode E t) post).
Proof. intros H etx E. exact (ont_roundtrip H etx E). Qed.
Print Assumptions c19_encode_decode_roundtrip.

(** 6'. One transaction per encoding (the writer is injective on accepted transactions). *)
Theorem c19_tx_encode_injective :
  forall (H : bytes -> bytes) etx (E : ethapi etx) t1 t2,
    ont_tx H etx E t1 -> t_raw t1 = tx_encode E t1 -> N.of_nat (length (tx_encode E t1)) <= MAX_TX_SIZE ->
    ont_tx H etx E t2 -> t_raw t2 = tx_encode E t2 -> N.of_nat (length (tx_encode E t2)) <= MAX_TX_SIZE ->
    tx_encode E t1 = tx_encode E t2 -> t1 = t2.
Proof. intros H etx E. exact (tx_encode_injective H etx E). Qed.
Print Assumptions c19_tx_encode_injective.

(** 7. The hash binds the signed content: equal hashes of accepted Ontology-format transactions
    mean equal unsigned fields, or a collision of H is exhibited. *)
Theorem c19_hash_binds_content :
  forall (H : bytes -> bytes) etx (E : ethapi etx), rlp_canon E ->
  forall s1 s1' t1 s2 s2' t2, good s1 -> good s2 ->
    tx_deserialization H E s1 = (inl t1, s1') -> tx_deserialization H E s2 = (inl t2, s2') ->
    t_type t1 <> TX_EIP155 -> t_type t2 <> TX_EIP155 ->
    t_hash t1 = t_hash t2 ->
    (t_version t1 = t_version t2 /\ t_type t1 = t_type t2 /\ t_nonce t1 = t_nonce t2 /\
     t_gasprice t1 = t_gasprice t2 /\ t_gaslimit t1 = t_gaslimit t2 /\ t_payer t1 = t_payer t2 /\
     t_payload t1 = t_payload t2) \/
    exists x y, x <> y /\ H x = H y.
Proof. intros H etx E C. exact (hash_binds_content H etx E C). Qed.
Print Assumptions c19_hash_binds_content.

(** 8. Signatures are not covered, existentially: replacing the signature section of an accepted
    transaction by ANY other one within the limits gives an accepted byte string with the same hash. *)
Theorem c19_resigned_accepted_same_hash :
  forall (H : bytes -> bytes) etx (E : ethapi etx) t sigs pre post,
    ont_tx H etx E t -> N.of_nat (length sigs) <= TX_MAX_SIG_SIZE ->
    let b := tx_encode_unsigned E t ++ sigs_encode sigs in
    N.of_nat (length b) <= MAX_TX_SIZE -> N.of_nat (length (pre ++ b ++ post)) < two64 ->
    exists t', tx_deserialization H E (at_ pre b post) = (inl t', after_ pre b post) /\
               t_hash t' = t_hash t /\ t_sigs t' = sigs /\ tx_to_array t' = b.
Proof. intros H etx E. exact (resigned_accepted_same_hash H etx E). Qed.
Print Assumptions c19_resigned_accepted_same_hash.

(** Non-vacuity: with a concrete hash stand-in and a concrete (canonical) Ethereum API, an invoke
    transaction without signatures and the same transaction with one signature entry are both
    accepted, consume different bytes, and have the same hash; an EIP-155 wrapper is accepted too. *)
Definition ex_H (b : bytes) : bytes := firstn 4 b ++ [N.of_nat (length b)].
Definition ex_E : ethapi bytes :=
  mkEth bytes (fun b => Some b) (fun e => e) (fun _ => 7) (fun _ => 3 * GWEI) (fun _ => 21000)
        (fun _ => Some (repeat 9 20)) (fun e => [1]) (fun e => [2]).
Definition ex_unsigned : bytes :=
  [0; 209; 1;0;0;0; 2;0;0;0;0;0;0;0; 3;0;0;0;0;0;0;0] ++ repeat 5 20 ++ [2; 81; 82; 0].
Definition ex_b1 : bytes := ex_unsigned ++ [0].
Definition ex_b2 : bytes := ex_unsigned ++ [1; 2; 170; 187; 1; 204] ++ [99].
Definition ex_b3 : bytes := [0; 211; 3; 193; 128; 128].

Example c19_nonvacuous :
  rlp_canon ex_E /\
  (exists t1 s1 t2 s2,
     tx_from_raw_bytes ex_H ex_E ex_b1 = (inl t1, s1) /\ tx_from_raw_bytes ex_H ex_E ex_b2 = (inl t2, s2) /\
     t_type t1 <> TX_EIP155 /\ t_sigs t1 = [] /\ length (t_sigs t2) = 1%nat /\
     tx_to_array t1 <> tx_to_array t2 /\ t_hash t1 = t_hash t2 /\
     src_pos s2 = 52 /\ length ex_b2 = 53%nat) /\
  (exists t3 s3, tx_from_raw_bytes ex_H ex_E ex_b3 = (inl t3, s3) /\ t_type t3 = TX_EIP155 /\
                 tx_to_array t3 = ex_b3).
Proof.
  split; [intros b e X; inversion X; reflexivity|]. split.
  - eexists _, _, _, _. split; [vm_compute; reflexivity|]. split; [vm_compute; reflexivity|].
    repeat split; try (vm_compute; reflexivity); vm_compute; discriminate.
  - eexists _, _. split; [vm_compute; reflexivity|]. split; vm_compute; reflexivity.
Qed.
