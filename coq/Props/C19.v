(** C19 (stub while the driver is being brought up) *)
From Ont Require Import Proofs.TxCodec.
