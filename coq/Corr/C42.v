(** C42 correspondence: recorded pre-executions on real solo-chain ledgers, re-run on
    Model/PreExec.v.

    CSession   a history of CacheDB operations performed through LedgerStoreImp.GetCacheDB() (the
               constructor executeEip155Tx uses) over the ledger's real state store, whose complete
               content [st] (every key/value pair of the `states` LevelDB, iterated through a hook) is
               part of the case: every value read and every iterator listing must be what the model's
               session computes over [st], and the model's ledger after the session is compared with
               the implementation's verdict "all digests unchanged".
    CDeploy    PreExecuteContractWithParam of a deploy transaction: error / gas against the model,
               with the process's real gas table and the WasmFactor override.
    CInvokeGas the MinGas rounding of an invoke (raw cost measured with MinGas=false).
    CBatch     PreExecuteContractBatch: error, number of results, reported height.
    CEntry     one pre-execution through an entry point: "ledger unchanged" on both sides. *)
From Coq Require Import List Bool NArith String.
Import ListNotations.
From Ont Require Export Lib.Bytes Lib.CorrLib Model.KV Model.PreExec.
Local Open Scope N_scope.
Open Scope bool_scope.

Inductive rec := RNone | RVal (v : bytes) | RList (l : list kv) | RFlag (nonempty : bool).

Inductive case :=
| CSession (st : list kv) (height : N) (ops : list (sop * rec)) (impl_unchanged : bool)
| CDeploy (gas : gastable) (height wasm_factor chk codelen : N) (impl_err : bool) (impl_gas : N) (impl_unchanged : bool)
| CInvokeGas (gas : gastable) (height codelen raw_cost impl_min_gas : N) (impl_unchanged : bool)
| CBatch (gas : gastable) (height : N) (kinds : list N) (atomic impl_err : bool) (impl_n impl_height : N) (impl_unchanged : bool)
| CEntry (entry : N) (st : list kv) (impl_unchanged : bool).

Definition kv_eqb (a b : kv) : bool := bytes_eqb (fst a) (fst b) && bytes_eqb (snd a) (snd b).
Definition kvs_eqb : list kv -> list kv -> bool := list_eqb kv_eqb.

Definition wr_eqb (a b : wr) : bool :=
  match a, b with
  | WPut k v, WPut k' v' => bytes_eqb k k' && bytes_eqb v v'
  | WDel k, WDel k' => bytes_eqb k k'
  | _, _ => false
  end.
Definition batch_eqb (a b : option (list wr)) : bool :=
  match a, b with
  | None, None => true
  | Some x, Some y => list_eqb wr_eqb x y
  | _, _ => false
  end.
Definition pstore_eqb (a b : pstore) : bool :=
  kvs_eqb (ps_data a) (ps_data b) && batch_eqb (ps_batch a) (ps_batch b).
Definition gas_eqb (a b : gastable) : bool :=
  list_eqb (fun x y => String.eqb (fst x) (fst y) && (snd x =? snd y)) a b.
Definition ledger_eqb (a b : ledger) : bool :=
  pstore_eqb (l_state a) (l_state b) && pstore_eqb (l_block a) (l_block b) && pstore_eqb (l_event a) (l_event b) &&
  bytes_eqb (l_merkle a) (l_merkle b) && (l_height a =? l_height b) && bytes_eqb (l_hash a) (l_hash b) &&
  gas_eqb (l_gas a) (l_gas b) && list_eqb kvs_eqb (l_pending a) (l_pending b).

Definition rec_ok (r : rec) (ob : list obs) : bool :=
  match r, ob with
  | RNone, [] => true
  | RVal v, [ObsVal v'] => bytes_eqb v v'
  | RList l, [ObsList l' true] => kvs_eqb l l'
  | RFlag b, [ObsVal v'] => Bool.eqb b (negb (is_empty v'))
  | _, _ => false
  end.

Fixpoint prog_of (ops : list (sop * rec)) (acc : bool) : prog evm_res :=
  match ops with
  | [] => PRet (mkEvmRes 0 [] (if acc then 1 else 0) [])
  | (o, r) :: t => POp o (fun ob => prog_of t (acc && rec_ok r ob))
  end.

Definition mk_ledger (st : list kv) (height : N) (gas : gastable) : ledger :=
  mkLedger (mkPStore st None) (mkPStore [([1], [1])] None) (mkPStore [([2], [2])] (Some [])) [3] height [4] gas [[([5; 1], [1])]].

Definition outcome_failed {R} (o : outcome R) : bool := match o with Failed _ => true | Done _ => false end.

Definition deploy_chk (n : N) : deploy_check :=
  match n with 0 => DOk | 1 => DWasmInvalid | _ => DNeoIsWasm end.

Definition batch_tx (k : N) : tx := match k with 0 => TxDeploy DOk 10 | _ => TxOther end.

(** a writer: put, delete, commit the cache into the overlay, put again *)
Definition writer : prog evm_res :=
  POp (SPut 5 [1; 2] [3]) (fun _ => POp (SDel 5 [9]) (fun _ => POp SCommit (fun _ =>
  POp (SPut 4 [7] [7]) (fun _ => PRet (mkEvmRes 21000 [] 1 []))))).
Definition writer_vm (g : gastable) (gas0 : N) : prog vm_res :=
  POp (SPut 5 [1; 2] [3]) (fun _ => POp (SIter 5 []) (fun _ => PRet (mkVmRes (gas0 - 1) [1] false []))).

Definition case_ok (c : case) : bool :=
  match c with
  | CSession st height ops impl_unchanged =>
      let L := mk_ledger st height [] in
      let '(o, L') := execute_eip155_tx L (prog_of ops true) in
      match o with
      | Done r => (er_state r =? 1) && Bool.eqb (ledger_eqb L' L) impl_unchanged
      | Failed _ => false
      end
  | CDeploy gas height wasm_factor chk codelen impl_err impl_gas impl_unchanged =>
      let L := mk_ledger [] height gas in
      let '(o, L') := pre_execute_with_param L (TxDeploy (deploy_chk chk) codelen) (mkParam false wasm_factor true) in
      Bool.eqb (ledger_eqb L' L) impl_unchanged &&
      match o with
      | Done r => negb impl_err && (pr_gas r =? impl_gas) && (pr_state r =? 1)
      | Failed _ => impl_err
      end
  | CInvokeGas gas height codelen raw_cost impl_min_gas impl_unchanged =>
      let L := mk_ledger [] height gas in
      let p := fun (g : gastable) (gas0 : N) => PRet (mkVmRes (max_u64 - raw_cost) [] false []) in
      let '(o1, L1) := pre_execute_with_param L (TxInvoke codelen p) (mkParam false 0 false) in
      let '(o2, L2) := pre_execute_with_param L1 (TxInvoke codelen p) (mkParam false 0 true) in
      Bool.eqb (ledger_eqb L2 L) impl_unchanged &&
      match o1, o2 with
      | Done r1, Done r2 => (pr_gas r1 =? raw_cost) && (pr_gas r2 =? impl_min_gas)
      | _, _ => false
      end
  | CBatch gas height kinds atomic impl_err impl_n impl_height impl_unchanged =>
      let L := mk_ledger [] height gas in
      let '(o, h, L') := pre_execute_batch L (map batch_tx kinds) atomic in
      Bool.eqb (ledger_eqb L' L) impl_unchanged && (h =? impl_height) &&
      match o with
      | Done rs => negb impl_err && (N.of_nat (List.length rs) =? impl_n)
      | Failed _ => impl_err && (impl_n =? 0)
      end
  | CEntry entry st impl_unchanged =>
      let L := mk_ledger st 5 [] in
      let L' := match entry with
                | 0 => snd (pre_execute_contract L (TxEip writer))
                | 1 => snd (pre_execute_eip155 L writer)
                | 2 => snd (execute_eip155_tx L writer)
                | 3 => snd (pre_execute_contract L (TxInvoke 100 writer_vm))
                | 4 => snd (pre_execute_with_param L (TxInvoke 100 writer_vm) (mkParam true 7 false))
                | _ => snd (pre_execute_batch L [TxInvoke 100 writer_vm; TxEip writer; TxOther] true)
                end in
      Bool.eqb (ledger_eqb L' L) impl_unchanged
  end.

Definition mismatches := mism case_ok.
