(** C10 correspondence: the fee-split model against recorded runs of splitCurve, splitNodeFee and
    executeSplit2 (through the add-only exporters of governance/verif_hooks.go) on storage
    produced by real governance histories and on crafted records. *)
From Coq Require Import List Bool NArith.
Import ListNotations.
From Ont Require Export Lib.AList Lib.CorrLib Gen.GovConsts Model.Gov Model.GovSplit.
Local Open Scope N_scope.
Open Scope bool_scope.

Inductive xres := XOk | XErr | XPanic.

Definition fees_eqb (a b : list (N * N)) : bool :=
  forallb (fun kv => nget (fst kv) b =? snd kv) a && forallb (fun kv => nget (fst kv) a =? snd kv) b.

Inductive case :=
| CCurve (Yi : list N) (pos avg yita : N) (r : xres) (s : N)
| CNodeFee (e : split_env) (k owner : N) (pre cur : bool) (init total nodeAmount : N)
           (attrs : list (N * (N * N))) (infos : list ((N * N) * infov)) (fees : list (N * N))
           (r : xres) (fees' : list (N * N))
| CSplit (e : split_env) (prev cur : list (N * peerv)) (attrs : list (N * (N * N)))
         (infos : list ((N * N) * infov)) (fees : list (N * N)) (balance splitFee : N)
         (r : xres) (fees' : list (N * N)) (splitSum dapp : N)
| CWithdrawFee (fees : list (N * N)) (splitFee balance a : N) (r : xres) (fees' : list (N * N)) (splitFee' balance' : N).

Definition case_ok (c : case) : bool :=
  match c with
  | CCurve Yi pos avg yita r s =>
      match split_curve Yi pos avg yita, r with
      | SOk v, XOk => v =? s
      | SErr, XErr => true
      | SPanic, XPanic => true
      | _, _ => false
      end
  | CNodeFee e k owner pre cur init total nodeAmount attrs infos fees r fees' =>
      match split_node_fee e k owner pre cur init total nodeAmount attrs infos fees, r with
      | SOk f, XOk => fees_eqb f fees'
      | SErr, XErr => true
      | SPanic, XPanic => true
      | _, _ => false
      end
  | CSplit e prev cur attrs infos fees balance splitFee r fees' splitSum dapp =>
      match execute_split2 e prev cur attrs infos fees balance splitFee, r with
      | SOk o, XOk => fees_eqb (so_fees o) fees' && (so_splitSum o =? splitSum) && (so_dapp o =? dapp)
      | SErr, XErr => true
      | SPanic, XPanic => true
      | _, _ => false
      end
  | CWithdrawFee fees splitFee balance a r fees' splitFee' balance' =>
      match withdraw_fee (mkFeeState fees splitFee balance) a, r with
      | SOk st, XOk => fees_eqb (fs_fees st) fees' && (fs_splitFee st =? splitFee') && (fs_balance st =? balance')
      | SErr, XErr => true
      | _, _ => false
      end
  end.

Definition mismatches := mism case_ok.
