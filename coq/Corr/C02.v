(** C02 correspondence: recorded runs of the implementation re-computed by the model.

    ChainCase   -- the state hash / state root mechanism of executeBlock + submitBlock over a whole chain:
                   for every block after genesis the recorded write set is replayed through the model's
                   [run_chain] (Model/Determinism.v, with SHA-256 and the real TreeHasher) and the model's
                   change hash, state merkle root and write set are compared with ExecuteResult.Hash,
                   ExecuteResult.MerkleRoot and ExecuteResult.WriteSet of the implementation.
    SignersCase -- one transaction: the validator's verdict and signer list (consensus member), the list
                   GetSignatureAddresses derives on a node that only decoded the bytes (syncer), and
                   SmartContract.CheckWitness under both for probe addresses.  Address derivations
                   (RIPEMD-160/SHA-256/Keccak) are supplied as data per signature set. *)
From Coq Require Import List Bool NArith.
Import ListNotations.
From Ont Require Import Lib.Bytes Lib.Sha256 Lib.CorrLib.
From Ont Require Export Model.WriteSet Model.Merkle Model.Determinism.
Local Open Scope N_scope.

Inductive case :=
| ChainCase (leaf0 : bytes) (blocks : list (list (bytes * bytes) * bytes * bytes))
| SignersCase (eip : option bytes) (payer : bytes) (sigs : list (bytes * bytes * bool))
              (member_got : option (list bytes)) (syncer_got : list bytes)
              (probes : list (bytes * bool * bool)).

(** a transaction that replays a recorded write set: Put for every entry (an empty value is how the
    overlay records a deletion) *)
Definition replay_tx (ws : list (bytes * bytes)) : tx (list op) :=
  mk_tx None [] [] (map (fun e => OPut (fst e) (snd e)) ws).

Definition replay_handle (_ : bytes -> bool) (_ _ : unit) (ov : overlay) (t : tx (list op)) : overlay * unit :=
  (ov_run_from ov (tx_body t), tt).

Fixpoint kvs_eqb (a b : list (bytes * bytes)) : bool :=
  match a, b with
  | [], [] => true
  | (k1, v1) :: r1, (k2, v2) :: r2 => bytes_eqb k1 k2 && bytes_eqb v1 v2 && kvs_eqb r1 r2
  | _, _ => false
  end.

Definition opt_bytes_eqb (a : option bytes) (b : bytes) : bool :=
  match a with Some x => bytes_eqb x b | None => false end.

Fixpoint results_match (rs : list (exec_result unit)) (obs : list (list (bytes * bytes) * bytes * bytes)) : bool :=
  match rs, obs with
  | [], [] => true
  | r :: rs', (ws, h, root) :: obs' =>
      bytes_eqb (r_hash unit r) h && opt_bytes_eqb (r_root unit r) root && kvs_eqb (r_writeset unit r) ws
      && results_match rs' obs'
  | _, _ => false
  end.

Definition chain_ok (leaf0 : bytes) (blocks : list (list (bytes * bytes) * bytes * bytes)) : bool :=
  match run_chain (list op) sha256 sha_hash_children unit unit unit replay_handle (fun s _ => s)
                  Syncer tt (mk_ctree bytes 1 [leaf0] None)
                  (map (fun b => (tt, [replay_tx (fst (fst b))])) blocks) with
  | Some rs => results_match rs blocks
  | None => false
  end.

(** multiset equality of address lists *)
Definition count_of (a : bytes) (l : list bytes) : nat := length (filter (fun v => bytes_eqb v a) l).
Definition perm_b (l1 l2 : list bytes) : bool :=
  Nat.eqb (length l1) (length l2) && forallb (fun a => Nat.eqb (count_of a l1) (count_of a l2)) l1.

Fixpoint list_bytes_eqb (a b : list bytes) : bool :=
  match a, b with
  | [], [] => true
  | x :: r1, y :: r2 => bytes_eqb x y && list_bytes_eqb r1 r2
  | _, _ => false
  end.

Definition signers_ok (eip : option bytes) (payer : bytes) (sigs : list (bytes * bytes * bool))
           (member_got : option (list bytes)) (syncer_got : list bytes)
           (probes : list (bytes * bool * bool)) : bool :=
  let t : tx unit := mk_tx eip payer (map (fun s => mk_sig (fst (fst s)) (snd (fst s)) (snd s)) sigs) tt in
  let syncer_model := get_signature_addresses (decoded_signed_addr t) t in
  list_bytes_eqb syncer_model syncer_got &&
  forallb (fun p => Bool.eqb (check_witness syncer_got (fst (fst p))) (snd p)) probes &&
  match member_got with
  | None =>
      (* rejected: the model rejects for every order (the verdict does not depend on it) *)
      match validate (validator_set t) t with None => true | Some _ => false end
  | Some l =>
      (* accepted: the recorded list is the model's result for the visiting order the validator used,
         which must be a permutation of the address set *)
      match eip with
      | Some _ => match validate (validator_set t) t with Some m => list_bytes_eqb m l | None => false end
      | None =>
          perm_b l (validator_set t) &&
          match validate l t with Some m => list_bytes_eqb (get_signature_addresses m t) l | None => false end
      end &&
      forallb (fun p => Bool.eqb (check_witness l (fst (fst p))) (snd (fst p))) probes
  end.

Definition case_ok (c : case) : bool :=
  match c with
  | ChainCase leaf0 blocks => chain_ok leaf0 blocks
  | SignersCase eip payer sigs m s probes => signers_ok eip payer sigs m s probes
  end.

Definition mismatches := mism case_ok.
