(** C36 correspondence: schedules run on the real ConnectController (harness/drivers/c36) against
    the model. A case is a configuration and a list of (event, observation after the event);
    the model executes the same events from the initial state and every observation must agree.

    Events: the model's own atomic events [SE (Spawn ..) | SE (Run i) | SE (Close i)]
    (driver level B: the real sections called one by one through the verif hooks, in the order of
    the extracted program), and [SAdv i] (driver level A: the real AcceptConnect / Connect
    goroutine i released until its next blocking point), which expands to the atomic steps up to
    just before / just after the next external blocking call (dialer.Dial, handshake). *)
From Coq Require Import List Bool NArith Arith.
Import ListNotations.
From Ont Require Export Lib.CorrLib Model.ConnCtrl.
Local Open Scope N_scope.

Inductive sev := SE (e : ev) | SAdv (tid : nat).

Inductive obs :=
| Obs (ins outs listen connecting : list addr) (peers : list (N * (N * addr))) (own : option addr)
      (nextcid : N) (fatal : bool) (status : list outcome)
      (win_in win_out : nat) (live_in live_out : N)
| ObsT (status : list outcome) (win_in win_out : nat)   (* controller part as after the previous event *)
| Same.   (* the observation is identical to the one after the previous event *)

Inductive case := CSched (cf : cfg) (steps : list (sev * obs)).

Definition blocking (i : option item) : bool :=
  match i with Some (IOp OpDial) | Some (IOp OpHandshake) => true | _ => false end.

Definition next_item (t : thread) : option item :=
  match t_out t with Pending => nth_error (prog_of (t_dir t)) (t_pc t) | _ => None end.

Definition is_pending (t : thread) : bool := match t_out t with Pending => true | _ => false end.

(** release goroutine [tid] until it blocks again (or returns) *)
Fixpoint adv (fuel : nat) (cf : cfg) (s : sys) (tid : nat) (first : bool) : sys :=
  match fuel with
  | O => s
  | S f =>
      match nth_error (s_threads s) tid with
      | None => s
      | Some t =>
          if finished t then s
          else
            let blk := blocking (next_item t) in
            if negb first && blk then s
            else
              let s' := step false cf s (Run tid) in
              if blk then
                match nth_error (s_threads s') tid with
                | Some t' => if is_pending t' then s' else adv f cf s' tid false
                | None => s'
                end
              else adv f cf s' tid false
      end
  end.

Definition apply_sev (cf : cfg) (s : sys) (e : sev) : sys :=
  match e with
  | SE e => step false cf s e
  | SAdv tid => adv 40 cf s tid true
  end.

Definition same_set (l1 l2 : list addr) : bool :=
  Nat.eqb (length l1) (length l2) && forallb (fun a => amem a l2) l1.

Definition peer_eqb (x y : N * (N * addr)) : bool :=
  (fst x =? fst y) && (fst (snd x) =? fst (snd y)) && addr_eqb (snd (snd x)) (snd (snd y)).

Definition same_peers (l1 l2 : list (N * (N * addr))) : bool :=
  Nat.eqb (length l1) (length l2) && forallb (fun p => existsb (peer_eqb p) l2) l1.

Definition err_eqb (a b : err) : bool :=
  match a, b with
  | ENotReserved, ENotReserved | EAlreadyBound, EAlreadyBound | ESelfAddr, ESelfAddr
  | EBoundFull, EBoundFull | EIpFull, EIpFull | EConnecting, EConnecting | EDial, EDial
  | EHandshake, EHandshake | EHandshakeSelf, EHandshakeSelf | EPeerIpMismatch, EPeerIpMismatch => true
  | _, _ => false
  end.

Definition outcome_eqb (a b : outcome) : bool :=
  match a, b with
  | Pending, Pending | Done, Done => true
  | Failed x, Failed y => err_eqb x y
  | _, _ => false
  end.

Definition opt_addr_eqb (a b : option addr) : bool :=
  match a, b with
  | None, None => true
  | Some x, Some y => addr_eqb x y
  | _, _ => false
  end.

Fixpoint list_eqb {A} (f : A -> A -> bool) (l1 l2 : list A) : bool :=
  match l1, l2 with
  | [], [] => true
  | x :: r1, y :: r2 => f x y && list_eqb f r1 r2
  | _, _ => false
  end.

Definition obs_ok (s : sys) (o : obs) : bool :=
  match o with
  | Obs ins outs listen connecting peers own nextcid fatal status win_in win_out live_in live_out =>
      let c := s_ctrl s in
      same_set (c_in c) ins && same_set (c_out c) outs && same_set (c_listen c) listen
      && same_set (c_connecting c) connecting && same_peers (c_peers c) peers
      && opt_addr_eqb (c_own c) own && (c_nextcid c =? nextcid) && Bool.eqb (c_fatal c) fatal
      && list_eqb outcome_eqb (map t_out (s_threads s)) status
      && Nat.eqb (window_count s Inbound) win_in && Nat.eqb (window_count s Outbound) win_out
      && (live_count s Inbound =? live_in) && (live_count s Outbound =? live_out)
  | _ => false
  end.

Definition merge (prev o : obs) : obs :=
  match o, prev with
  | Same, _ => prev
  | ObsT st wi wo, Obs a b c d e f g h _ _ _ li lo => Obs a b c d e f g h st wi wo li lo
  | _, _ => o
  end.

Definition obs_init : obs := Obs [] [] [] [] [] None 0 false [] 0 0 0 0.

Fixpoint steps_ok (cf : cfg) (s : sys) (prev : obs) (steps : list (sev * obs)) : bool :=
  match steps with
  | [] => true
  | (e, o) :: r =>
      let s' := apply_sev cf s e in
      let o' := merge prev o in
      obs_ok s' o' && steps_ok cf s' o' r
  end.

Definition case_ok (c : case) : bool :=
  match c with CSched cf steps => steps_ok cf sys_init obs_init steps end.

Definition mismatches := mism case_ok.
