(** C34 correspondence: the node model of Model/Vbft.v against recorded runs of REAL VBFT nodes
    (consensus/vbft Server + BlockPool + MsgPool driven through verif_hooks_c34.go), one case per
    node per schedule: after every local event the node's sent messages, marks, msgC contents and
    pending actions must be what the model computes for some iteration order of the EndorseSigs map;
    at the end the set of blocks the node's key signed and the four node-local side conditions of
    the partial safety theorem must agree with what the driver derived from real signature checks. *)
From Coq Require Import List Bool NArith ZArith.
Import ListNotations.
From Ont Require Export Lib.Bytes Lib.CorrLib Model.VbftPool Model.VbftPoolSpec Model.Vbft Model.VbftSpec.
Local Open Scope N_scope.
Open Scope bool_scope.

(** Iteration orders of a Go map with keys [l] (as in Corr/C31.v): all permutations up to four
    keys; beyond, for every subset S and every e outside S the order S ++ e :: rest. Every order
    produced is a genuine order, so an accepted outcome is a model outcome. *)
Fixpoint inserts (x : N) (l : list N) : list (list N) :=
  match l with
  | [] => [[x]]
  | y :: r => (x :: y :: r) :: map (cons y) (inserts x r)
  end.
Fixpoint perms (l : list N) : list (list N) :=
  match l with
  | [] => [[]]
  | x :: r => flat_map (inserts x) (perms r)
  end.
Fixpoint splits (l : list N) : list (list N * list N) :=
  match l with
  | [] => [([], [])]
  | x :: r => flat_map (fun ab => [(x :: fst ab, snd ab); (fst ab, x :: snd ab)]) (splits r)
  end.
Definition removeN (x : N) (l : list N) : list N := filter (fun y => negb (y =? x)) l.
Definition split_orders (l : list N) : list (list N) :=
  flat_map (fun ab => (fst ab ++ snd ab) :: map (fun e => fst ab ++ e :: removeN e (snd ab)) (snd ab)) (splits l).
Definition orders (l : list N) : list (list N) :=
  if Nat.leb (length l) 4 then perms l else split_orders l.

(** EndorsersSig is a Go map: compare as maps. *)
Definition ends_sim (a b : list (N * sg)) : bool :=
  Nat.eqb (length a) (length b)
  && forallb (fun x => match aget (fst x) b with Some s => sg_eqb (snd x) s | None => false end) a.

Definition msg_sim (a b : msg) : bool :=
  match a, b with
  | MCommit cm p e h s ends, MCommit cm' p' e' h' s' ends' =>
      (cm =? cm') && (p =? p') && eqb e e' && blk_eqb h h' && sg_eqb s s' && ends_sim ends ends'
  | _, _ => msg_eqb a b
  end.

Definition opt_eqb {A} (f : A -> A -> bool) (a b : option A) : bool :=
  match a, b with Some x, Some y => f x y | None, None => true | _, _ => false end.
Definition pk_eqb (a b : N * N) : bool := (fst a =? fst b) && (snd a =? snd b).
Definition pke_eqb (a b : N * N * bool) : bool := pk_eqb (fst a) (fst b) && eqb (snd a) (snd b).
Definition action_eqb (a b : action) : bool :=
  match a, b with
  | ASeal p k e, ASeal p' k' e' => (p =? p') && (k =? k') && eqb e e'
  | AEndorse p k e, AEndorse p' k' e' => (p =? p') && (k =? k') && eqb e e'
  | _, _ => false
  end.

(** A local event as recorded (the iteration order is not observable) and the observation.
    Messages are written once per case in a table and referred to by index. *)
Inductive xev := XLNet (from : N) (m : N) | XLProc | XLAct | XLTimer (t : timer) | XLPropose
  | XLCommitLate (p : N) (e : bool).

Record obs := mkObs {
  o_outs : list N;
  o_endorsed : option (N * N); o_endorsed_empty : option (N * N);
  o_committed : option (N * N); o_committed_empty : option (N * N);
  o_commit_done : bool; o_sealed : option blk;
  o_q : list N; o_acts : list action }.

Definition msg_at (tbl : list msg) (i : N) : msg := nth (N.to_nat i) tbl (MProposal 0 0 0).

Definition obs_ok (tbl : list msg) (r : node * list msg) (o : obs) : bool :=
  let nd := fst r in
  list_eqb msg_sim (snd r) (map (msg_at tbl) (o_outs o))
  && opt_eqb pk_eqb (n_endorsed nd) (o_endorsed o)
  && opt_eqb pk_eqb (n_endorsed_empty nd) (o_endorsed_empty o)
  && opt_eqb pk_eqb (fst (n_committed nd)) (o_committed o)
  && opt_eqb pk_eqb (snd (n_committed nd)) (o_committed_empty o)
  && eqb (n_commit_done nd) (o_commit_done o)
  && opt_eqb blk_eqb (n_sealed nd) (o_sealed o)
  && list_eqb msg_sim (n_q nd) (map (msg_at tbl) (o_q o))
  && list_eqb action_eqb (n_actions nd) (o_acts o).

Definition candidates (P : params) (self : N) (tbl : list msg) (nd : node) (e : xev) : list (node * list msg) :=
  let os := orders (akeys (c_esigs (pool nd))) in
  match e with
  | XLNet from i => let m := msg_at tbl i in
      [local_step P self nd (LNet from m false); local_step P self nd (LNet from m true)]
  | XLProc =>
      (* the order matters only after the head of msgC went into the pool *)
      match n_q nd with
      | [] => [local_step P self nd (LProc [])]
      | m :: _ =>
          let os' := orders (akeys (c_esigs (run_ops (n_ops nd ++ [to_op m]) cand_empty))) in
          map (fun ord => local_step P self nd (LProc ord)) os'
      end
  | XLAct => [local_step P self nd LAct]
  | XLTimer t => map (fun ord => local_step P self nd (LTimer t ord)) os
  | XLPropose => [local_step P self nd LPropose]
  | XLCommitLate p e => [local_step P self nd (LCommitLate p e)]
  end.

Fixpoint replay (P : params) (self : N) (tbl : list msg) (nd : node) (steps : list (xev * obs)) : option node :=
  match steps with
  | [] => Some nd
  | (e, o) :: r =>
      match find (fun c => obs_ok tbl c o) (candidates P self tbl nd e) with
      | Some c => replay P self tbl (fst c) r
      | None => None
      end
  end.

(** index of the first step the model cannot reproduce (for diagnosis) *)
Fixpoint first_bad (P : params) (self : N) (tbl : list msg) (nd : node) (steps : list (xev * obs)) (i : nat) : option nat :=
  match steps with
  | [] => None
  | (e, o) :: r =>
      match find (fun c => obs_ok tbl c o) (candidates P self tbl nd e) with
      | Some c => first_bad P self tbl (fst c) r (S i)
      | None => Some i
      end
  end.

Definition blocks_sim (a b : list blk) : bool :=
  forallb (fun x => existsb (blk_eqb x) b) a && forallb (fun x => existsb (blk_eqb x) a) b.

Inductive case :=
| CNode (P : params) (self : N) (tbl : list msg) (steps : list (xev * obs)) (signed : list blk) (v d e u : bool)
| CBlocks (blocks : list blk) (q : bool)
| CGcc (c n : Z) (msgs : list commit_msg) (p : N) (empty : bool)
| CMarks (ops : list mark_op) (oks : list bool) (en ee cb ce : option (N * N)).

Definition case_ok (k : case) : bool :=
  match k with
  | CNode P self tbl steps signed v d e u =>
      match replay P self tbl node0 steps with
      | None => false
      | Some nd =>
          blocks_sim (map snd (n_signed nd)) signed
          && eqb (forallb (fun o => negb (passes (op_ok o)) || op_verifiedb (P_peers P) o) (n_ops nd)) v
          && eqb (forallb (fun o => negb (passes (op_ok o)) || op_no_doubleb o) (n_ops nd)) d
          && eqb (forallb op_nonemptyb (n_ops nd)) e
          && eqb (single_voteb nd) u
      end
  | CBlocks blocks q => eqb (no_equiv_blocks blocks) q
  | CGcc c n msgs p e =>
      (* getCommitConsensus on the accepted commit messages of a node, in order: per-proposer tally *)
      let r := get_commit_consensus msgs c n in (fst r =? p) && eqb (snd r) e
  | CMarks ops oks en ee cb ce =>
      (* newBlockProposal / setProposalEndorsed / setProposalCommitted on one candidate of a real BlockPool *)
      let r := run_marks node0 ops in
      list_eqb eqb (snd r) oks
      && opt_eqb pk_eqb (n_endorsed (fst r)) en && opt_eqb pk_eqb (n_endorsed_empty (fst r)) ee
      && opt_eqb pk_eqb (fst (n_committed (fst r))) cb && opt_eqb pk_eqb (snd (n_committed (fst r))) ce
  end.

Definition mismatches := mism case_ok.
