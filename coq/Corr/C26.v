(** C26 correspondence: Model/Merkle.v against recorded runs of /repo/merkle.

    The Go code never inspects a hash, so the model is run over the free term algebra [sym]
    (hash_children = the constructor [SNode]); the driver renders every hash the implementation
    produced as a reference [href]: [HR a b] = "the RFC-6962 tree hash of leaves a..b-1" (looked up in
    a table the driver computes with its own SHA-256 reference, independent of the code under
    test), [HE] = hash_empty, [HZ] = EMPTY_HASH, [HJ k] = a hash that is none of these.  A recorded
    output matches the model's iff the model's term equals the expansion of the reference, i.e. iff
    the implementation's hash is the image of the model's term under the SHA-256 homomorphism.
    The hasher itself (prefix bytes, SHA-256, the empty hash) is tied by [CHash]/[CShaTree] cases
    run with Lib/Sha256.v. *)
From Coq Require Import List Bool NArith Arith.
Import ListNotations.
From Ont Require Export Lib.Bytes Lib.CorrLib Lib.Sha256 Model.Merkle.
Open Scope N_scope.
Open Scope bool_scope.

Inductive sym := SLeaf (i : N) | SNode (l r : sym) | SEmptyH | SZero | SJunk (k : N).

Fixpoint sym_eqb (a b : sym) : bool :=
  match a, b with
  | SLeaf i, SLeaf j => i =? j
  | SNode l r, SNode l' r' => sym_eqb l l' && sym_eqb r r'
  | SEmptyH, SEmptyH => true
  | SZero, SZero => true
  | SJunk i, SJunk j => i =? j
  | _, _ => false
  end.
Definition lsym_eqb := list_eqb sym_eqb.

Inductive href := HR (a b : N) | HE | HZ | HJ (k : N).

Definition sleaves (a b : N) : list sym :=
  map (fun i => SLeaf (N.of_nat i)) (seq (N.to_nat a) (N.to_nat (b - a))).
Definition expand (h : href) : sym :=
  match h with
  | HR a b => mth sym SNode SEmptyH (sleaves a b)
  | HE => SEmptyH
  | HZ => SZero
  | HJ k => SJunk k
  end.
Definition refs_ok (model : list sym) (rec : list href) : bool := lsym_eqb model (map expand rec).
Definition ref_ok (model : sym) (rec : href) : bool := sym_eqb model (expand rec).

Definition gerr_eqb (a b : gerr) : bool :=
  match a, b with
  | GWrongParams, GWrongParams | GNotAvailable, GNotAvailable | GNoStore, GNoStore
  | GStoreRead, GStoreRead | GFoldEmpty, GFoldEmpty | GAssert, GAssert | GFuel, GFuel => true
  | _, _ => false
  end.
Definition vres_eqb (a b : vres) : bool :=
  match a, b with
  | VOk, VOk | VWrongParams, VWrongParams | VTooShort, VTooShort | VTooLong, VTooLong
  | VRootMismatch, VRootMismatch | VOlderBigger, VOlderBigger | VSameSizeRoots, VSameSizeRoots
  | VEmptyOldRoot, VEmptyOldRoot | VWrongLength, VWrongLength | VNewRootMismatch, VNewRootMismatch
  | VOldRootMismatch, VOldRootMismatch => true
  | _, _ => false
  end.

Inductive gres := GErr (e : gerr) | GOk (l : list href).
Definition gres_ok (m : gerr + list sym) (r : gres) : bool :=
  match m, r with
  | inl e, GErr e' => gerr_eqb e e'
  | inr l, GOk l' => refs_ok l l'
  | _, _ => false
  end.
Inductive gres1 := GErr1 (e : gerr) | GOk1 (h : href).
Definition gres1_ok (m : gerr + sym) (r : gres1) : bool :=
  match m, r with
  | inl e, GErr1 e' => gerr_eqb e e'
  | inr h, GOk1 h' => ref_ok h h'
  | _, _ => false
  end.

(** one step of a build: after appending leaf i: Hashes(), Root(), the returned audit path,
    GetRootWithNewLeaf(next leaf), GetRootWithNewLeaves(next k leaves) *)
Record step := mk_step { st_hashes : list href; st_root : href; st_audit : list href;
                         st_new1 : href; st_newk : nat; st_newk_root : href }.

Inductive case :=
| CHash (kind : N) (a b out : bytes)
    (* 0: hash_leaf a; 1: hash_children a b; 2: hash_empty; 3: _hash_fold [a;b;out'] is not used *)
| CShaTree (leaves : list bytes) (roots : list bytes)
    (* Append(leaf data) one by one with the real hasher: Root() after each append *)
| CPos (n : N) (pos sizes : list N) (num : N) (cb : nat) (hb : N)
    (* getSubTreePos n, getSubTreeSize n, getStoredHashNum n, countBit n, highBit n *)
| CNewTree (size : N) (nhashes : nat) (ok : bool)
| CBuild (n : nat) (steps : list step) (store : list href)
| CGen (n : nat) (with_store : bool)
       (incl : list (N * N * gres)) (consl : list (N * N * gres)) (mroot : list (N * gres1))
| CReload (n k : nat) (extra : list href) (trunc : nat)
          (res : option (href * list href * list href * list (N * N * gres)))
    (* file store with n leaves; [trunc] hashes cut from / [extra] appended to the file; reopen with
       tree size n, restore (size, hashes), append k more leaves: root, hashes, file, proofs *)
| CVerIncl (leaf : href) (idx : N) (proof : list href) (root : href) (size : N) (res : vres)
| CVerCons (m n : N) (old new : href) (proof : list href) (res : vres)
| CFull (n : nat) (root : href).   (* HashFullTreeWithLeafHash *)

Definition T := sym.
Definition s_build (n : nat) : option (ctree sym) := build sym SNode (sleaves 0 (N.of_nat n)).
Definition s_root := ct_root sym SNode SEmptyH.

Fixpoint steps_ok (t : ctree sym) (i : N) (steps : list step) : option (ctree sym) :=
  match steps with
  | [] => Some t
  | s :: r =>
      match append_hash sym SNode t (SLeaf i) with
      | None => None
      | Some (t', audit) =>
          if refs_ok (ct_hashes sym t') (st_hashes s) && ref_ok (s_root t') (st_root s)
             && refs_ok audit (st_audit s)
             && match root_with_new_leaf sym SNode t' (SLeaf (i + 1)) with
                | Some h => ref_ok h (st_new1 s) | None => false end
             && match root_with_new_leaves sym SNode SEmptyH t' (sleaves (i + 1) (i + 1 + N.of_nat (st_newk s))) with
                | Some h => ref_ok h (st_newk_root s) | None => false end
          then steps_ok t' (i + 1) r else None
      end
  end.

Definition store_data (t : ctree sym) : list sym :=
  match ct_store sym t with Some s => hs_data sym s | None => [] end.

Definition sha_tree_roots (leaves : list bytes) : list bytes :=
  (fix go (t : ctree bytes) (ls : list bytes) : list bytes :=
     match ls with
     | [] => []
     | x :: r => match append_hash bytes sha_hash_children t (sha_hash_leaf x) with
                 | None => []
                 | Some (t', _) => ct_root bytes sha_hash_children sha_hash_empty t' :: go t' r
                 end
     end) (empty_tree_mem bytes) leaves.

Definition case_ok (c : case) : bool :=
  match c with
  | CHash kind a b out =>
      if kind =? 0 then bytes_eqb (sha_hash_leaf a) out
      else if kind =? 1 then bytes_eqb (sha_hash_children a b) out
      else bytes_eqb sha_hash_empty out
  | CShaTree leaves roots => list_eqb bytes_eqb (sha_tree_roots leaves) roots
  | CPos n pos sizes num cb hb =>
      list_eqb N.eqb (get_sub_tree_pos n) pos && list_eqb N.eqb (get_sub_tree_size n) sizes
      && (get_stored_hash_num n =? num) && Nat.eqb (countBit n) cb && (highBit n =? hb)
  | CNewTree size nh ok =>
      Bool.eqb (match new_tree sym size (repeat SZero nh) None with Some _ => true | None => false end) ok
  | CBuild n steps store =>
      Nat.eqb (length steps) n &&
      match steps_ok (empty_tree_mem sym) 0 steps with
      | None => false
      | Some t => refs_ok (store_data t) store
      end
  | CGen n with_store incl consl mroot =>
      match s_build n with
      | None => false
      | Some t0 =>
          let t := if with_store then t0 else mk_ctree sym (ct_size sym t0) (ct_hashes sym t0) None in
          forallb (fun '(m, k, r) => gres_ok (inclusion_proof sym SNode t m k) r) incl
          && forallb (fun '(m, k, r) => gres_ok (consistency_proof sym SNode t m k) r) consl
          && forallb (fun '(k, r) =>
                        match ct_store sym t with
                        | Some s => gres1_ok (merkle_root_at sym SNode s k) r
                        | None => false end) mroot
      end
  | CReload n k extra trunc res =>
      match s_build n with
      | None => false
      | Some t0 =>
          let data := store_data t0 in
          let file := firstn (length data - trunc) data ++ map expand extra in
          match hs_file_open sym file (N.of_nat n), res with
          | None, None => true
          | Some st, Some (root, hashes, file', proofs) =>
              match new_tree sym (ct_size sym t0) (ct_hashes sym t0) (Some st) with
              | None => false
              | Some t1 =>
                  match append_all sym SNode t1 (sleaves (N.of_nat n) (N.of_nat (n + k))) with
                  | None => false
                  | Some t2 =>
                      ref_ok (s_root t2) root && refs_ok (ct_hashes sym t2) hashes
                      && refs_ok (store_data t2) file'
                      && forallb (fun '(m, j, r) => gres_ok (inclusion_proof sym SNode t2 m j) r) proofs
                  end
              end
          | _, _ => false
          end
      end
  | CVerIncl leaf idx proof root size res =>
      vres_eqb (verify_leaf_hash_inclusion sym sym_eqb SNode (expand leaf) idx (map expand proof)
                  (expand root) size) res
  | CVerCons m n old new proof res =>
      vres_eqb (verify_consistency sym sym_eqb SNode SEmptyH m n (expand old) (expand new)
                  (map expand proof)) res
  | CFull n root => ref_ok (hash_full_tree sym SNode SEmptyH (sleaves 0 (N.of_nat n))) root
  end.

Definition mismatches := mism case_ok.
