(** Shared by Corr/C16.v and Corr/C17.v: the validator model (Model/Sig.v) run with recorded
    tables in place of the external functions.
    - [dtab]: byte strings keypair.DeserializePublicKey accepts, with the key it returns;
    - [stab]: byte strings signature.Deserialize accepts, with the abstract signature the harness
      determined for them with the crypto library (SigOf key message / SigJunk / SigEthShort);
    - [wtab]: the keys of [dtab] that are off-curve EC points (the model's [weak] keys);
    - [htab], [ktab]: inputs and 20-byte outputs of RIPEMD160.SHA256 and Keccak256(.)[12:].
    Anything not in a table is rejected (deserializers) or hashes to the empty string, which never
    equals a recorded 20-byte address. *)
From Coq Require Import List Bool NArith ZArith.
Import ListNotations.
From Ont Require Export Lib.Bytes Lib.CorrLib Model.Codec Model.Program Model.Sig.
Local Open Scope N_scope.
Open Scope bool_scope.

Definition tlookup {A} (tab : list (bytes * A)) (b : bytes) : option A :=
  match find (fun p => bytes_eqb (fst p) b) tab with
  | Some p => Some (snd p)
  | None => None
  end.

Definition hlookup (tab : list (bytes * bytes)) (b : bytes) : bytes :=
  match tlookup tab b with Some v => v | None => [] end.

Definition perr_eqb (a b : perr) : bool :=
  match a, b with
  | EWrongProgram, EWrongProgram | EUnexpectedEOF, EUnexpectedEOF
  | EUnexpectedOpcode, EUnexpectedOpcode | ENumRange, ENumRange | EExpectedEOF, EExpectedEOF
  | EMissingLen, EMissingLen | EDeser, EDeser | EUnmatched, EUnmatched
  | EWrongParam, EWrongParam | EUnsupported, EUnsupported | EFuel, EFuel => true
  | _, _ => false
  end.

Definition verr_eqb (a b : verr) : bool :=
  match a, b with
  | VEGetSig e, VEGetSig e' => perr_eqb e e'
  | VETooMany, VETooMany | VEParamLen, VEParamLen | VESingle, VESingle | VENotEnough, VENotEnough
  | VESigData, VESigData | VEMulti, VEMulti | VEAddr, VEAddr | VEPayer, VEPayer => true
  | _, _ => false
  end.

(** Address lists are compared as sets without repetition (tx.SignedAddr is filled from a Go map). *)
Definition addrs_eqb (a b : list bytes) : bool :=
  (length a =? length b)%nat && forallb (fun x => mem_addr x b) a && forallb (fun x => mem_addr x a) b.

(** As sets, repetitions allowed. *)
Definition addrs_same_set (a b : list bytes) : bool :=
  forallb (fun x => mem_addr x b) a && forallb (fun x => mem_addr x a) b.

(** What the harness observes of checkTransactionSignatures. *)
Inductive obs := OAccept (addrs : list bytes) | OEip | OReject (e : verr) | OPanic.

Definition obs_eqb (model : vres) (o : obs) : bool :=
  match model, o with
  | VAccept a, OAccept b => addrs_eqb a b
  | VAcceptEip, OEip => true
  | VReject e, OReject e' => verr_eqb e e'
  | VCrash, OPanic => true
  | _, _ => false
  end.

Definition oN_eqb (a b : option N) : bool :=
  match a, b with
  | Some x, Some y => x =? y
  | None, None => true
  | _, _ => false
  end.

Record tables := mkTab { t_d : list (bytes * pubkey); t_w : list pubkey; t_s : list (bytes * asig);
                         t_h : list (bytes * bytes); t_k : list (bytes * bytes) }.

(** [wtab]: the keys of [dtab] whose point is not on their curve. *)
Definition wlookup (wtab : list pubkey) (k : pubkey) : bool := existsb (pubkey_eqb k) wtab.

Definition run_cts (tb : tables) (t : vtx) : vres :=
  check_transaction_signatures (tlookup (t_d tb)) asig (tlookup (t_s tb)) (abs_verify (wlookup (t_w tb)))
                               (hlookup (t_h tb)) (hlookup (t_k tb)) t.

Definition run_code (tb : tables) (t : vtx) : option N :=
  verify_transaction_code (tlookup (t_d tb)) asig (tlookup (t_s tb)) (abs_verify (wlookup (t_w tb)))
                          (hlookup (t_h tb)) (hlookup (t_k tb)) t.
