(** C05 correspondence: Model/Fee.v against recorded blocks of the real ledger.

    A case is one block: network id, height, the gas-table entry for the invoke code length, the
    persisted ONG records of the payers and of the governance contract (as the store; the block
    overlay starts empty), the transactions with the outcome of their script as probed by the
    driver at one gas value, the execution records the real ExecuteBlock produced
    (State, GasConsumed, trailing fee-transfer event, number of events) and the block's write set.
    The model must reproduce records and write set exactly. *)
From Coq Require Import List Bool NArith ZArith.
Import ListNotations.
From Ont Require Export Lib.Bytes Lib.CorrLib Lib.U64 Model.KV Model.NeoInt Gen.FeeConsts Gen.FeeFormulas Model.Fee.
Local Open Scope N_scope.
Open Scope bool_scope.

(** the recorded interpreter: answers only for the gas the driver probed with *)
Definition probe_interp (p : option (N * outcome)) : interp :=
  fun _ g => match p with
             | Some (g', o) => if g =? g' then Some o else None
             | None => None
             end.

Definition obs := (N * N * list N * N)%type.     (* State, GasConsumed, fee event amounts, len(Notify) *)

Inductive case :=
| CBlock (net height : N) (codegas : option N) (store : list kv) (txs : list (txp * option (N * outcome)))
         (recs : list obs) (ws : list kv)
| CPanic (net height : N) (codegas : option N) (store : list kv) (txs : list (txp * option (N * outcome)))
         (panicked : bool)
| CDeploy (create unit : option N) (store : list kv) (d : deptx) (rec : obs) (ws : list kv).

Definition kv_eqb (a b : kv) : bool := bytes_eqb (fst a) (fst b) && bytes_eqb (snd a) (snd b).

Definition status_code (st : status) : option N :=
  match st with
  | StSuccess => Some FEE_STATE_SUCCESS
  | StFail => Some FEE_STATE_FAIL
  | _ => None
  end.

Definition rec_ok (r : result) (o : obs) : bool :=
  let '(st, gas, fe, n) := o in
  match status_code (r_status r) with
  | Some c => (c =? st) && (r_gas r =? gas) && list_eqb N.eqb (r_fee_events r) fe && (r_events r =? n)
  | None => false
  end.

Fixpoint recs_ok (rs : list result) (os : list obs) : bool :=
  match rs, os with
  | [], [] => true
  | r :: rs', o :: os' => rec_ok r o && recs_ok rs' os'
  | _, _ => false
  end.

Definition run_case (net height : N) (codegas : option N) (store : list kv) (txs : list (txp * option (N * outcome))) :=
  run_block (mkEnv height (tune_height_of FEE_TUNE_HEIGHTS net) codegas)
            (map (fun t => (fst t, probe_interp (snd t))) txs)
            (mkState [] [] store).

Definition case_ok (c : case) : bool :=
  match c with
  | CBlock net height codegas store txs recs ws =>
      let '(s, rs) := run_case net height codegas store txs in
      recs_ok rs recs && list_eqb kv_eqb (write_set s) ws
  | CPanic net height codegas store txs panicked =>
      let '(_, rs) := run_case net height codegas store txs in
      eqb panicked (match r_status (last rs (mkRes (mkState [] [] []) StFail 0 [] 0 None)) with StPanic => true | _ => false end)
  | CDeploy create unit store d rec ws =>
      let r := handle_deploy create unit d (mkState [] [] store) in
      rec_ok r rec && list_eqb kv_eqb (write_set (r_state r)) ws
  end.

Definition mismatches := mism case_ok.
