(** C09 correspondence: Model/Unbind.v against recorded runs of CalcUnbindOng,
    CalcGovernanceUnbindOng, GetOntHolderUnboundDeadline and GetGovUnboundDeadline under a given
    config.DefConfig.P2PNode.NetworkId. A recorded [None] is a panic of the implementation. *)
From Coq Require Import List Bool NArith.
Import ListNotations.
From Ont Require Export Lib.CorrLib Model.Unbind.
Local Open Scope N_scope.

Inductive case :=
| CHolder (net b s e : N) (r : option N)
| CGov (net s e : N) (r : option N)
| CDeadline (net hd : N) (gd : option (N * N)).

Definition res_eqb (m : res N) (r : option N) : bool :=
  match m, r with
  | Ok v, Some v' => v =? v'
  | Panic, None => true
  | _, _ => false
  end.

Definition case_ok (c : case) : bool :=
  match c with
  | CHolder net b s e r => res_eqb (calc_unbind_ong net b s e) r
  | CGov net s e r => res_eqb (calc_governance_unbind_ong net s e) r
  | CDeadline net hd gd =>
      (holder_deadline net =? hd) &&
      match get_gov_unbound_deadline net, gd with
      | Ok (d, g), Some (d', g') => (d =? d') && (g =? g')
      | Panic, None => true
      | _, _ => false
      end
  end.

Definition mismatches := mism case_ok.
