(** C23 correspondence: the signature-script model (Model/Program.v) against recorded runs of
    core/program (ProgramBuilder, ProgramFromPubKey, ProgramFromMultiPubKey, GetProgramInfo,
    GetParamInfo), keypair.SortPublicKeys and core/types (AddressFromPubKey,
    AddressFromMultiPubKeys, AddressFromBookkeepers).

    keypair.DeserializePublicKey and the two address hashes are supplied per case as tables
    recorded from the implementation: [dtab] lists every byte string found at a push position of
    the script that DeserializePublicKey accepts, with the key it returns (everything else is
    rejected); [htab]/[ktab] list hash inputs with their 20-byte outputs. *)
From Coq Require Import List Bool NArith ZArith.
Import ListNotations.
From Ont Require Export Lib.Bytes Lib.CorrLib Model.Codec Model.Program.
Local Open Scope N_scope.
Open Scope bool_scope.

Definition keys_eqb : list pubkey -> list pubkey -> bool := list_eqb pubkey_eqb.

Definition perr_eqb (a b : perr) : bool :=
  match a, b with
  | EWrongProgram, EWrongProgram | EUnexpectedEOF, EUnexpectedEOF
  | EUnexpectedOpcode, EUnexpectedOpcode | ENumRange, ENumRange | EExpectedEOF, EExpectedEOF
  | EMissingLen, EMissingLen | EDeser, EDeser | EUnmatched, EUnmatched
  | EWrongParam, EWrongParam | EUnsupported, EUnsupported | EFuel, EFuel => true
  | _, _ => false
  end.

Definition obytes_eqb (a b : option bytes) : bool :=
  match a, b with
  | Some x, Some y => bytes_eqb x y
  | None, None => true
  | _, _ => false
  end.

Definition bres_eqb (a b : bres) : bool :=
  match a, b with
  | BOk x, BOk y => bytes_eqb x y
  | BErrParam, BErrParam | BPanic, BPanic => true
  | _, _ => false
  end.

Definition ares_eqb (a b : ares) : bool :=
  match a, b with
  | AOk x, AOk y => bytes_eqb x y
  | AErrParam, AErrParam | APanic, APanic => true
  | _, _ => false
  end.

Definition dlookup (tab : list (bytes * pubkey)) (b : bytes) : option pubkey :=
  match find (fun p => bytes_eqb (fst p) b) tab with
  | Some p => Some (snd p)
  | None => None
  end.

(** A hash input that is not in the table gives the empty string, which never equals a recorded
    20-byte address. *)
Definition hlookup (tab : list (bytes * bytes)) (b : bytes) : bytes :=
  match find (fun p => bytes_eqb (fst p) b) tab with
  | Some p => snd p
  | None => []
  end.

(** ProgramBuilder calls. *)
Inductive bop := BNum (v : N) | BBytes (d : bytes) | BOp (c : N).

Definition run_bop (o : bop) : option bytes :=
  match o with
  | BNum v => push_num v
  | BBytes d => push_bytes d
  | BOp c => Some [c]
  end.

Fixpoint run_bops (ops : list bop) : option bytes :=
  match ops with
  | [] => Some []
  | o :: r => obind (run_bop o) (fun a => obind (run_bops r) (fun b => Some (a ++ b)))
  end.

Inductive pinfo := POk (keys : list pubkey) (m : N) | PErr (e : perr).
Inductive parres := ParOk (sigs : list bytes) | ParErr (e : perr).

Definition pinfo_eqb (a b : pinfo) : bool :=
  match a, b with
  | POk k m, POk k' m' => keys_eqb k k' && (m =? m')
  | PErr e, PErr e' => perr_eqb e e'
  | _, _ => false
  end.

Definition parres_eqb (a b : parres) : bool :=
  match a, b with
  | ParOk s, ParOk s' => list_eqb bytes_eqb s s'
  | ParErr e, ParErr e' => perr_eqb e e'
  | _, _ => false
  end.

Definition model_info (dtab : list (bytes * pubkey)) (prog : bytes) : pinfo :=
  match get_program_info (dlookup dtab) prog with
  | inl (ks, m) => POk ks m
  | inr e => PErr e
  end.

Definition model_params (prog : bytes) : parres :=
  match get_param_info prog with
  | inl s => ParOk s
  | inr e => ParErr e
  end.

Inductive case :=
| CBuild (ops : list bop) (out : option bytes)
| CSort (keys sorted : list pubkey)
| CSingle (k : pubkey) (prog : option bytes)
| CMulti (keys : list pubkey) (m : Z) (r : bres)
| CInfo (prog : bytes) (dtab : list (bytes * pubkey)) (r : pinfo)
| CParam (prog : bytes) (r : parres)
| CParams (sigs : list bytes) (prog : option bytes)
| CAddrPub (k : pubkey) (htab ktab : list (bytes * bytes)) (r : ares)
| CAddrMulti (keys : list pubkey) (m : Z) (htab : list (bytes * bytes)) (r : ares)
| CAddrBook (keys : list pubkey) (htab ktab : list (bytes * bytes)) (r : ares).

Definition case_ok (c : case) : bool :=
  match c with
  | CBuild ops out => obytes_eqb (run_bops ops) out
  | CSort keys sorted => keys_eqb (sort_keys keys) sorted
  | CSingle k prog => obytes_eqb (program_from_pubkey k) prog
  | CMulti keys m r => bres_eqb (program_from_multi_pubkey keys m) r
  | CInfo prog dtab r => pinfo_eqb (model_info dtab prog) r
  | CParam prog r => parres_eqb (model_params prog) r
  | CParams sigs prog => obytes_eqb (program_from_params sigs) prog
  | CAddrPub k htab ktab r => ares_eqb (address_from_pubkey (hlookup htab) (hlookup ktab) k) r
  | CAddrMulti keys m htab r => ares_eqb (address_from_multi_pubkeys (hlookup htab) keys m) r
  | CAddrBook keys htab ktab r => ares_eqb (address_from_bookkeepers (hlookup htab) (hlookup ktab) keys) r
  end.

Definition mismatches := mism case_ok.
