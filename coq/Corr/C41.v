(** C41 correspondence: Model/Auth.v replayed on recorded histories of the native auth contract.
    One case = one history: per step the block time, the identity-proof oracle (the outcomes of
    verifySignature(id, keyNo) for the ids of the pool; anything else fails), the operation, the
    implementation's result and the storage records the operation addresses as found in the store
    afterwards; the history ends with a full dump of the records of both contracts. *)
From Coq Require Import List Bool NArith.
Import ListNotations.
From Ont Require Export Lib.Bytes Lib.CorrLib Gen.AuthConsts Model.Auth.
Local Open Scope N_scope.
Open Scope bool_scope.

Inductive obs :=
| OAdmin (c : addr) (v : option ontid)
| OFuncs (c : addr) (r : role) (v : option (list fname))
| OTokens (c : addr) (id : ontid) (v : option (list token))
| ODeleg (c : addr) (id : ontid) (v : option (list dstat))
| OBad.   (* the stored record did not parse back (reported by the oracle); never matches *)

Record stepc := mkStep {
  st_now : N;
  st_sig : list (ontid * N * sigres);
  st_op : op;
  st_res : res;
  st_obs : list obs }.

(** [final]: the records present in the store at the end, for the contracts [cs] and the pools of
    roles and ids of the run; every other (contract, role/id) key of the pools must be absent. *)
Inductive case := CHist (valid : list ontid) (cs : list addr) (roles : list role) (ids : list ontid)
                        (steps : list stepc) (final : list obs).

Definition opt_eqb {A : Type} (eqb : A -> A -> bool) (a b : option A) : bool :=
  match a, b with
  | Some x, Some y => eqb x y
  | None, None => true
  | _, _ => false
  end.

Definition token_eqb (a b : token) : bool :=
  bytes_eqb (t_role a) (t_role b) && (t_expire a =? t_expire b) && (t_level a =? t_level b).
Definition dstat_eqb (a b : dstat) : bool :=
  bytes_eqb (d_root a) (d_root b) && token_eqb (d_tok a) (d_tok b).

Definition obs_ok (s : state) (o : obs) : bool :=
  match o with
  | OAdmin c v => opt_eqb bytes_eqb (s_admin s (c, [])) v
  | OFuncs c r v => opt_eqb (list_eqb bytes_eqb) (s_funcs s (c, r)) v
  | OTokens c id v => opt_eqb (list_eqb token_eqb) (s_tokens s (c, id)) v
  | ODeleg c id v => opt_eqb (list_eqb dstat_eqb) (s_deleg s (c, id)) v
  | OBad => false
  end.

Definition res_eqb (a b : res) : bool :=
  match a, b with RTrue, RTrue | RFalse, RFalse | RErr, RErr => true | _, _ => false end.

Definition sig_of (tbl : list (ontid * N * sigres)) : ontid -> N -> sigres :=
  fun id k =>
    match find (fun x => bytes_eqb (fst (fst x)) id && (snd (fst x) =? k)) tbl with
    | Some x => snd x
    | None => SigErr
    end.

Definition valid_of (valid : list ontid) : ontid -> bool := fun id => existsb (bytes_eqb id) valid.

Definition event_of (st : stepc) : event := mkEv (mkEnv (st_now st) (sig_of (st_sig st))) (st_op st).

Definition is_none {A : Type} (o : option A) : bool := match o with None => true | Some _ => false end.

Definition listed (o : obs) (final : list obs) : bool :=
  existsb (fun x =>
    match o, x with
    | OAdmin c _, OAdmin c' _ => bytes_eqb c c'
    | OFuncs c r _, OFuncs c' r' _ => bytes_eqb c c' && bytes_eqb r r'
    | OTokens c i _, OTokens c' i' _ => bytes_eqb c c' && bytes_eqb i i'
    | ODeleg c i _, ODeleg c' i' _ => bytes_eqb c c' && bytes_eqb i i'
    | _, _ => false
    end) final.

(** All keys of the pools: listed ones must match, the others must be absent in the model. *)
Definition final_ok (s : state) (cs : list addr) (roles : list role) (ids : list ontid) (final : list obs) : bool :=
  forallb (obs_ok s) final &&
  forallb (fun c =>
    (listed (OAdmin c None) final || is_none (s_admin s (c, []))) &&
    forallb (fun r => listed (OFuncs c r None) final || is_none (s_funcs s (c, r))) roles &&
    forallb (fun i => (listed (OTokens c i None) final || is_none (s_tokens s (c, i))) &&
                      (listed (ODeleg c i None) final || is_none (s_deleg s (c, i)))) ids) cs.

Fixpoint steps_ok (valid : list ontid) (s : state) (l : list stepc) (fin : state -> bool) : bool :=
  match l with
  | [] => fin s
  | st :: l' =>
      let '(r, s') := step (valid_of valid) s (event_of st) in
      res_eqb r (st_res st) && forallb (obs_ok s') (st_obs st) && steps_ok valid s' l' fin
  end.

Definition case_ok (c : case) : bool :=
  match c with
  | CHist valid cs roles ids steps final =>
      steps_ok valid init_state steps (fun s => final_ok s cs roles ids final)
  end.

Definition mismatches := mism case_ok.
