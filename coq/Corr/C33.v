(** C33 correspondence: Model/CrossHeader.v against recorded runs of header_sync.VerifyHeader,
    signature.VerifyMultiSignature and the SyncGenesisHeader / SyncBlockHeader entry points
    (NativeCall on a CacheDB over an in-memory store). *)
From Coq Require Import List Bool NArith ZArith.
Import ListNotations.
From Ont Require Export Lib.Bytes Lib.CorrLib Model.CrossHeader.
Local Open Scope N_scope.
Open Scope bool_scope.

(** error classes as the driver numbers them (0 = nil) *)
Definition vh_code (r : vh_result) : N :=
  match r with
  | ROk => 0
  | RErr ENoKeyHeight => 1
  | RErr ENoPeers => 2
  | RErr ETooFew => 3
  | RErr ENotPeer => 4
  | RErr ENotEnoughSigs => 5
  | RErr EBadSig => 6
  | RErr EMultiFailed => 7
  | RErr EPanic => 8
  | RErr EPayload => 9
  end.

Definition ms_code (r : option ms_err) : N :=
  match r with
  | None => 0
  | Some MsNotEnough => 5
  | Some MsBadSig => 6
  | Some MsFailed => 7
  | Some MsPanic => 8
  end.

(** one contract call of a recorded history *)
(** [kh]: the stored KeyHeights lists (chain, list in stored order) read back after the call *)
Inductive sop :=
| SGenesis (h : xheader) (res : N) (kh : list (N * list N))        (* SyncGenesisHeader(header) *)
| SBlock (hs : list xheader) (res : N) (kh : list (N * list N)).   (* SyncBlockHeader(headers) *)

Inductive case :=
| CVerify (st : hstore) (h : xheader) (res : N)
| CMulti (msg : N) (keys : list bkey) (m : Z) (sigs : list sigv) (res : N)
| CSync (ops : list sop)
        (final_kh : list (N * list N))              (* stored KeyHeights per chain, stored order *)
        (final_peers : list ((N * N) * list N))     (* stored ConsensusPeers per (chain, key height) *)
        (present : list ((N * N) * bool)).          (* GetHeaderByHeight(chain, height) != nil *)

Definition nlist_eqb (a b : list N) : bool := list_eqb N.eqb a b.

Definition same_set (a b : list N) : bool :=
  (length a =? length b)%nat && forallb (fun x => mem x b) a && forallb (fun x => mem x a) b.

Definition empty_state : cstate := mkC (mkStore [] []) [].

Definition kh_match (c : cstate) (kh : list (N * list N)) : bool :=
  forallb (fun e => nlist_eqb (get_key_heights (c_store c) (fst e)) (snd e)) kh.

(** run the history; [None] as soon as a recorded result or a recorded key-height list differs *)
Fixpoint run_ops (c : cstate) (ops : list sop) : option cstate :=
  match ops with
  | [] => Some c
  | SGenesis h res kh :: r =>
      let '(rr, c') := sync_genesis c h in
      if (vh_code rr =? res) && kh_match c' kh then run_ops c' r else None
  | SBlock hs res kh :: r =>
      let '(rr, c') := sync_block_header c hs in
      if (vh_code rr =? res) && kh_match c' kh then run_ops c' r else None
  end.

Definition case_ok (c : case) : bool :=
  match c with
  | CVerify st h res => vh_code (verify_header st h) =? res
  | CMulti msg keys m sigs res => ms_code (verify_multi msg keys m sigs) =? res
  | CSync ops fkh fpeers present =>
      match run_ops empty_state ops with
      | None => false
      | Some c =>
          forallb (fun e => nlist_eqb (get_key_heights (c_store c) (fst e)) (snd e)) fkh
          && forallb (fun e => match get_consensus_peers (c_store c) (fst (fst e)) (snd (fst e)) with
                               | Some pm => same_set pm (snd e)
                               | None => false
                               end) fpeers
          && forallb (fun e => eqb (has_header c (fst (fst e)) (snd (fst e))) (snd e)) present
      end
  end.

Definition mismatches := mism case_ok.
