(** C01 correspondence: Model/Recovery.v against recorded runs of the real ledger store.

    A case is one crash scenario on one chain: the data directory of the initial (post-genesis)
    ledger as read from disk, the blocks with the write sets the implementation computed for them,
    a crash point (c, j), and what the implementation showed — the assembled crashed directory,
    the reopened ledger, the answers to the following blocks, the final directory. The model is run
    on the same inputs ([exec] instantiated by the recorded write sets, [hc] by a table of the
    SHA-256 node hashes the implementation's TreeHasher produces) and every observation is compared.
    The model's consistency predicate (hypothesis of the theorems) is evaluated on the real initial
    directory as part of every case. *)
From Coq Require Import List Bool NArith ZArith String Ascii.
Import ListNotations.
From Ont Require Export Lib.Bytes Lib.CorrLib Model.RecoverTypes Gen.Recover Model.Recovery.
Local Open Scope N_scope.
Open Scope bool_scope.

(** Byte strings are written as hex strings in case files. *)
Definition hexv (a : ascii) : N := let n := N_of_ascii a in if n <? 58 then n - 48 else n - 87.
Fixpoint hb (s : string) : bytes :=
  match s with
  | String a (String b r) => (16 * hexv a + hexv b) :: hb r
  | _ => []
  end.

Definition hc_of (t : list (bytes * bytes * bytes)) (a b : bytes) : bytes :=
  match find (fun e => bytes_eqb (fst (fst e)) a && bytes_eqb (snd (fst e)) b) t with
  | Some e => snd e
  | None => []
  end.

Definition exec_of (t : list (bytes * xres)) (s : sstore) (b : blk) : option xres :=
  match find (fun e => bytes_eqb (fst e) (b_hash b)) t with
  | Some e => Some (snd e)
  | None => None
  end.

(** verifyHeader beyond the height relation (checked by the model itself): the harness only builds
    correctly signed blocks, so the remaining condition is the link to the previous hash. *)
Definition hdr_ok_c (p b : blk) : bool := bytes_eqb (b_prev b) (b_hash p).

Definition sval_eqb (a b : sval) : bool :=
  match a, b with
  | SVCur h1 n1, SVCur h2 n2 => bytes_eqb h1 h2 && (n1 =? n2)
  | SVTree n1 l1, SVTree n2 l2 => (n1 =? n2) && list_eqb bytes_eqb l1 l2
  | SVRoot a1 b1, SVRoot a2 b2 => bytes_eqb a1 a2 && bytes_eqb b1 b2
  | SVHashes l1, SVHashes l2 => list_eqb bytes_eqb l1 l2
  | SVRaw v1, SVRaw v2 => bytes_eqb v1 v2
  | _, _ => false
  end.

Definition opt_eqb {A} (eqb : A -> A -> bool) (a b : option A) : bool :=
  match a, b with Some x, Some y => eqb x y | None, None => true | _, _ => false end.

(** What is read from a closed data directory: current heights of the three stores (-1: none),
    the hash file, and the state store as a difference against the initial directory plus its
    number of keys. *)
Record dobs := mkDobs {
  do_bcur : Z; do_scur : Z; do_ecur : Z; do_file : bytes;
  do_sdiff : list (skey * option sval); do_nkeys : nat }.

(** What is read through the ledger API of an open ledger. *)
Record lobs := mkLobs { lo_height : N; lo_hash : bytes; lo_sroot : option bytes; lo_broot : option bytes }.

Definition key_in (k : skey) (l : list (skey * option sval)) : bool :=
  existsb (fun e => skey_eqb k (fst e)) l.

Definition state_matches (s0 : sstore) (diff : list (skey * option sval)) (n : nat) (s : sstore) : bool :=
  forallb (fun e => opt_eqb sval_eqb (kv_get skey_eqb s (fst e)) (snd e)) diff
  && forallb (fun e => key_in (fst e) diff || opt_eqb sval_eqb (kv_get skey_eqb s (fst e)) (Some (snd e))) s0
  && Nat.eqb (List.length s) n.

Definition bcur_of (d : disk) : Z :=
  match kv_get bkey_eqb (d_block d) BKCur with Some (BVCur _ h) => Z.of_N h | _ => (-1)%Z end.
Definition scur_of (d : disk) : Z :=
  match kv_get skey_eqb (d_state d) SKCur with Some (SVCur _ h) => Z.of_N h | _ => (-1)%Z end.
Definition ecur_of (d : disk) : Z :=
  match kv_get ekey_eqb (d_event d) EKCur with Some (EVCur _ h) => Z.of_N h | _ => (-1)%Z end.

Definition dobs_ok (s0 : sstore) (d : disk) (o : dobs) : bool :=
  Z.eqb (bcur_of d) (do_bcur o) && Z.eqb (scur_of d) (do_scur o) && Z.eqb (ecur_of d) (do_ecur o)
  && bytes_eqb (d_file d) (do_file o)
  && state_matches s0 (do_sdiff o) (do_nkeys o) (d_state d).

Definition outcome_eqb (a b : outcome) : bool :=
  match a, b with
  | OAccepted, OAccepted | OIgnored, OIgnored | OErrHeight, OErrHeight | OErrHeader, OErrHeader
  | OErrExec, OErrExec | OErrStateRoot, OErrStateRoot | OErrBlockRoot, OErrBlockRoot => true
  | _, _ => false
  end.

(** Write-set keys must not be keys of the system records (assumption of the typed-key model). *)
Definition xres_ok (x : xres) : bool :=
  forallb (fun kvp => match fst kvp with [] => false | _ => true end) (x_ws x).

Inductive case :=
| CScen (hct : list (bytes * bytes * bytes)) (hempty : bytes) (shh : N) (probe : bytes)
        (d0 : disk) (xtab : list (bytes * xres))
        (prefix : list blk) (pre_obs : lobs)
        (cb : blk) (c j : nat) (crashed : dobs)
        (reopened : option lobs)
        (after : list (blk * outcome * lobs)) (final : dobs).

Section Eval.
  Variables (hct : list (bytes * bytes * bytes)) (hempty : bytes) (shh : N) (probe : bytes)
            (xtab : list (bytes * xres)).
  Let hc := hc_of hct.
  Let ex := exec_of xtab.

  Definition lobs_ok (l : ledger) (o : lobs) : bool :=
    let ob := observe hc hempty shh l in
    (o_height ob =? lo_height o) && bytes_eqb (o_hash ob) (lo_hash o)
    && opt_eqb bytes_eqb (o_state_root ob) (lo_sroot o)
    && opt_eqb bytes_eqb (o_block_root ob probe) (lo_broot o).

  Fixpoint after_ok (l : ledger) (after : list (blk * outcome * lobs)) : bool * ledger :=
    match after with
    | [] => (true, l)
    | (b, out, o) :: r =>
        let '(l', out') := add_block hc hempty shh ex hdr_ok_c l b in
        let '(ok, lf) := after_ok l' r in
        (outcome_eqb out' out && lobs_ok l' o && ok, lf)
    end.

  Definition scen_ok (d0 : disk) (prefix : list blk) (pre_obs : lobs) (cb : blk) (c j : nat)
             (crashed : dobs) (reopened : option lobs) (after : list (blk * outcome * lobs)) (final : dobs) : bool :=
    forallb (fun e => xres_ok (snd e)) xtab &&
    match reopen hc hempty shh ex d0 with
    | Ok l0 =>
        consistent_b shh l0 &&
        let l := run hc hempty shh ex hdr_ok_c l0 prefix in
        lobs_ok l pre_obs &&
        match crash_add hc hempty shh ex hdr_ok_c l cb c j with
        | Ok dk =>
            dobs_ok (d_state d0) dk crashed &&
            match reopen hc hempty shh ex dk, reopened with
            | Ok l', Some o =>
                lobs_ok l' o &&
                let '(ok, lf) := after_ok l' after in
                ok && dobs_ok (d_state d0) (l_disk lf) final
            | Err _, None => true
            | _, _ => false
            end
        | Err _ => false
        end
    | Err _ => false
    end.
End Eval.

Definition case_ok (cs : case) : bool :=
  match cs with
  | CScen hct hempty shh probe d0 xtab prefix pre_obs cb c j crashed reopened after final =>
      scen_ok hct hempty shh probe xtab d0 prefix pre_obs cb c j crashed reopened after final
  end.

Definition mismatches := mism case_ok.
