(** C32 correspondence: the header-acceptance model against recorded runs of
    LedgerStoreImp.verifyHeader (through the add-only wrapper VerifC32VerifyHeader),
    LedgerStoreImp.AddHeaders and signature.VerifyMultiSignature on a VBFT-configured ledger. *)
From Coq Require Import List Bool NArith ZArith.
Import ListNotations.
From Ont Require Export Lib.CorrLib Model.HeaderSync Proofs.C32.
Local Open Scope N_scope.

(** projection of the returned error to a small enum (the three JSON-decoding failures of
    vconfig.VbftBlock carry the same message and are one code) *)
Inductive rcode :=
| KOk | KPrevMissing | KHeight | KTime | KPayload | KCfgHeaderMissing | KNoNewCfg | KPeerMapMissing
| KFewListed | KNonMember | KFewDistinct | KSigNotEnough | KSigBad | KSigFailed | KPanic
| KWrongNextHeight | KOther.

Definition rcode_eqb (a b : rcode) : bool :=
  match a, b with
  | KOk, KOk | KPrevMissing, KPrevMissing | KHeight, KHeight | KTime, KTime | KPayload, KPayload
  | KCfgHeaderMissing, KCfgHeaderMissing | KNoNewCfg, KNoNewCfg | KPeerMapMissing, KPeerMapMissing
  | KFewListed, KFewListed | KNonMember, KNonMember | KFewDistinct, KFewDistinct
  | KSigNotEnough, KSigNotEnough | KSigBad, KSigBad | KSigFailed, KSigFailed | KPanic, KPanic
  | KWrongNextHeight, KWrongNextHeight => true
  | _, _ => false
  end.

Definition code_of_vms (e : vms_res) : rcode :=
  match e with
  | VmsOk => KOk | VmsNotEnough => KSigNotEnough | VmsBadSig => KSigBad
  | VmsFailed => KSigFailed | VmsPanic => KPanic
  end.

Definition code_of (r : vres) : rcode :=
  match r with
  | ROk _ => KOk | EPrevMissing => KPrevMissing | EHeight => KHeight | ETime => KTime
  | EPayload | EPrevPayload | ECfgPayload => KPayload
  | ECfgHeaderMissing => KCfgHeaderMissing | ENoNewCfg => KNoNewCfg
  | EPeerMapMissing => KPeerMapMissing | EFewListed => KFewListed | ENonMember => KNonMember
  | EFewDistinct => KFewDistinct | ESig e => code_of_vms e
  end.

(** peer maps compared as finite maps from heights to key SETS *)
Definition entry_in (e : N * list key) (l : list (N * list key)) : bool :=
  match lookup (fst e) l with Some v => keyset_eqb (snd e) v | None => false end.
Definition peers_eqb (a b : list (N * list key)) : bool :=
  forallb (fun e => entry_in e b) a && forallb (fun e => entry_in e a) b
  && (length a =? length b)%nat.

Definition bool_eqb (a b : bool) : bool := if a then b else negb b.

Inductive case :=
(** one verifyHeader call: the store it ran against, the header, the error code and the whole
    vbftPeerInfoMap afterwards *)
| CVerify (st : store) (h : header) (code : rcode) (peers_after : list (N * list key))
(** one AddHeaders([h]) call: error code, current header height and peer map afterwards, and
    whether GetHeaderByHeight(h.Height) then returns this header *)
| CAdd (st : store) (h : header) (code : rcode) (tip_after : N) (peers_after : list (N * list key))
       (indexed : bool)
(** one signature.VerifyMultiSignature call *)
| CVms (msg : N) (keys : list bkey) (m : Z) (sigs : list sig) (code : rcode)
(** the driver's classification of an input (finding classes, governing height) against the
    predicates the partial theorem uses *)
| CClass (st : store) (h : header) (stale thr dup ow : bool) (gov : option N).

Definition case_ok (c : case) : bool :=
  match c with
  | CVerify st h code pa =>
      let r := verify_header st h in
      rcode_eqb (code_of r) code && peers_eqb (st_peers (apply_verify st r)) pa
  | CAdd st h code tip pa indexed =>
      (* [indexed]: the header returned for h's height has h's hash (a refused variant of an
         already indexed header has the same hash: Header.Hash() covers the unsigned fields only) *)
      let indexed_in s :=
        match header_at s (h_height h) with Some x => h_hash x =? h_hash h | None => false end in
      match add_header st h with
      | AddOk st' =>
          rcode_eqb code KOk && (st_tip st' =? tip) && peers_eqb (st_peers st') pa
          && bool_eqb indexed (indexed_in st')
      | AddWrongHeight =>
          rcode_eqb code KWrongNextHeight && (st_tip st =? tip) && peers_eqb (st_peers st) pa
          && bool_eqb indexed (indexed_in st)
      | AddRejected e =>
          rcode_eqb (code_of e) code && negb (rcode_eqb code KOk) && (st_tip st =? tip)
          && peers_eqb (st_peers st) pa && bool_eqb indexed (indexed_in st)
      end
  | CVms msg keys m sigs code => rcode_eqb (code_of_vms (verify_multi msg keys m sigs)) code
  | CClass st h stale thr dup ow gov =>
      bool_eqb (fc_stale st h) stale && bool_eqb (fc_threshold st h) thr && bool_eqb (fc_dup h) dup
      && bool_eqb (fc_overwritten st h) ow
      && opt_eqb (gov_height st (h_height h)) gov
  end.

Definition mismatches := mism case_ok.

(** constructors used by the generated case files *)
Definition gk (l : list key) : list bkey := map BkKey l.   (* all genuine key objects *)
Definition mk_header (height prev time : N) (info : option blkinfo) (bks : list bkey) (sigs : list sig) (hash : N) : header :=
  {| h_height := height; h_prev := prev; h_time := time; h_info := info; h_bks := bks; h_sigs := sigs; h_hash := hash |}.
Definition mk_info (last : N) (cfg : option chaincfg) : blkinfo := {| bi_last := last; bi_newcfg := cfg |}.
Definition mk_cfg (c : N) (peers : list key) : chaincfg := {| cc_c := c; cc_peers := peers |}.
Definition mk_store (hs : list header) (idx : list (N * N)) (peers : list (N * list key)) (tip : N) : store :=
  {| st_headers := hs; st_index := idx; st_peers := peers; st_tip := tip |}.
(** the store after a header was added to the cache and index, with the observed peer map *)
Definition push_header (h : header) (peers : list (N * list key)) (st : store) : store :=
  {| st_headers := h :: st_headers st; st_index := set_entry (h_height h) (h_hash h) (st_index st);
     st_peers := peers; st_tip := h_height h |}.
Definition with_peers (peers : list (N * list key)) (st : store) : store :=
  {| st_headers := st_headers st; st_index := st_index st; st_peers := peers; st_tip := st_tip st |}.
