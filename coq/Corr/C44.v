(** C44 correspondence.

    [CApi]: a recorded history on a real CacheDB over OverlayDB over an in-memory LevelDB — puts and
    deletes in all three layers, PutContract / GetContract / IsContractDestroyed /
    SetContractDestroyed / UnsetContractDestroyed / DeleteContract, MigrateContractStorage,
    CleanContractStorage(Data), Commit / Reset / CommitTo — with every Get result, every prefix
    listing and every GetContract / IsContractDestroyed answer embedded, re-run on
    Model/ContractStore.v. [track] is config.GetTrackDestroyedContractHeight() at the time of the run.

    [CChain]: blocks executed by a real ledger (solo chain): deploy transactions and NeoVM invoke
    transactions whose scripts call Contract.Create / Migrate / Destroy and Storage.Put / Delete
    directly or through APPCALL of deployed contracts; per block the transaction states
    (event notify State) and, for every address in play, GetContract, IsContractDestroyed and the
    storage listing read from a CacheDB over the committed state; re-run with [run_block]. *)
From Coq Require Import List Bool NArith.
Import ListNotations.
From Ont Require Export Lib.Bytes Lib.CorrLib Model.KV Model.ContractStore.
Local Open Scope N_scope.
Open Scope bool_scope.

Inductive aop :=
| APut (k v : bytes)
| ADel (k : bytes)
| AGet (k res : bytes)
| AIter (p : bytes) (res : list kv)
| AOvPut (k v : bytes)
| AOvDel (k : bytes)
| APutContract (a code : bytes)
| AGetContract (a : bytes) (rec : option bytes) (destroyed : bool)
| AIsDestroyed (a : bytes) (res : bool)
| ASetDestroyed (a : bytes) (h : N)
| AUnsetDestroyed (a : bytes) (h : N)
| ADeleteContract (a : bytes) (h : N)
| AMigrate (old new : bytes) (h : N)
| AClean (a : bytes) (h : N)
| ACleanData (a : bytes)
| ACommit
| AReset
| AOvCommit.

(** observation of one address after a block: record, destroyed flag, storage listing *)
Inductive aobs := AObs (a : bytes) (rec : option bytes) (destroyed : bool) (listing : list kv).

Inductive case :=
| CApi (track : N) (store0 : list kv) (ops : list aop)
| CChain (track : N) (blocks : list (block * list outcome * list aobs)).

Definition kv_eqb (a b : kv) : bool := bytes_eqb (fst a) (fst b) && bytes_eqb (snd a) (snd b).
Definition kvs_eqb : list kv -> list kv -> bool := list_eqb kv_eqb.
Definition opt_eqb (a b : option bytes) : bool :=
  match a, b with Some x, Some y => bytes_eqb x y | None, None => true | _, _ => false end.
Definition contract_eqb (x : option bytes * bool) (rec : option bytes) (d : bool) : bool :=
  opt_eqb (fst x) rec && Bool.eqb (snd x) d.
Definition outcome_eqb (a b : outcome) : bool :=
  match a, b with Committed, Committed | Failed, Failed | NoFuel, NoFuel => true | _, _ => false end.

Definition step (track : N) (s : state) (o : aop) : state * bool :=
  match o with
  | APut k v => (cache_put ST_STORAGE k v s, true)
  | ADel k => (cache_delete ST_STORAGE k s, true)
  | AGet k res => (s, bytes_eqb (cache_get ST_STORAGE s k) res)
  | AIter p res => let '(l, ok) := cache_iterate ST_STORAGE s p in (s, ok && kvs_eqb l res)
  | AOvPut k v => (overlay_put k v s, true)
  | AOvDel k => (overlay_delete k s, true)
  | APutContract a code => (put_contract a code s, true)
  | AGetContract a rec d => (s, contract_eqb (get_contract s a) rec d)
  | AIsDestroyed a res => (s, Bool.eqb (is_destroyed s a) res)
  | ASetDestroyed a h => (set_destroyed track h a s, true)
  | AUnsetDestroyed a h => (unset_destroyed track h a s, true)
  | ADeleteContract a h => (delete_contract track h a s, true)
  | AMigrate old new h => let '(s', ok) := migrate_contract_storage track h old new s in (s', ok)
  | AClean a h => let '(s', ok) := clean_contract_storage track h a s in (s', ok)
  | ACleanData a => let '(s', ok) := clean_contract_storage_data a s in (s', ok)
  | ACommit => (cache_commit s, true)
  | AReset => (cache_reset s, true)
  | AOvCommit => (overlay_commit s, true)
  end.

Fixpoint run_ok (track : N) (s : state) (ops : list aop) : bool :=
  match ops with
  | [] => true
  | o :: r => let '(s', ok) := step track s o in ok && run_ok track s' r
  end.

Definition init_state (store0 : list kv) : state :=
  mkState [] [] (fold_left (fun st e => store_put (fst e) (snd e) st) store0 []).

Definition obs_ok (s : state) (o : aobs) : bool :=
  match o with
  | AObs a rec d listing =>
      contract_eqb (get_contract s a) rec d &&
      (let '(l, ok) := cache_iterate ST_STORAGE s a in ok && kvs_eqb l listing)
  end.

Fixpoint chain_ok (track : N) (s : state) (bs : list (block * list outcome * list aobs)) : bool :=
  match bs with
  | [] => true
  | (b, outs, obs) :: r =>
      let '(s', o) := run_block false track s b in
      list_eqb outcome_eqb o outs && forallb (obs_ok (cache_reset s')) obs && chain_ok track s' r
  end.

Definition case_ok (c : case) : bool :=
  match c with
  | CApi track store0 ops => run_ok track (init_state store0) ops
  | CChain track blocks => chain_ok track (mkState [] [] []) blocks
  end.

Definition mismatches := mism case_ok.
