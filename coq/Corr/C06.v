(** C06 correspondence: Model/Token.v against recorded runs of the real native ONT / ONG
    contracts (native.NativeService.NativeCall on a CacheDB, one call per transaction).
    A case is one history: network id, the stored start state, and per call the call, the
    implementation's outcome and the full decoded storage of both contracts afterwards.
    CalcUnbindOng is instantiated with the C09 model (Model/Unbind.v over Gen/Unbind.v), the holder
    deadline with its [holder_deadline] for the network id the run used. *)
From Coq Require Import List Bool NArith ZArith.
Import ListNotations.
From Ont Require Export Lib.CorrLib Model.Token.
From Ont Require Model.Unbind.
Local Open Scope Z_scope.

Inductive outcome := ROk (b : bool) | RErr (e : err).

Inductive case :=
| CSeq (net : N) (init : state) (steps : list (call * outcome * state)).

Definition err_eqb (a b : err) : bool :=
  match a, b with
  | EDecode, EDecode | ENoMethod, ENoMethod | EBound, EBound | EAuth, EAuth
  | EAllowance, EAllowance | EBalance, EBalance | ETimestamp, ETimestamp | EPanic, EPanic => true
  | _, _ => false
  end.

Definition outcome_ok (r : res bool) (o : outcome) : bool :=
  match r, o with
  | Ok b, ROk b' => eqb b b'
  | Err e, RErr e' => err_eqb e e'
  | _, _ => false
  end.

(** The model's map and the dumped map hold the same entries (the dump is sorted by storage key,
    the model's list is in insertion order). *)
Definition map_equiv {K} (keqb : K -> K -> bool) (m d : amap K) : bool :=
  Nat.eqb (length m) (length d)
  && forallb (fun p => match aget keqb m (fst p) with Some v => v =? snd p | None => false end) d.

Definition state_equiv (m d : state) : bool :=
  map_equiv addr_eqb (ont_bal m) (ont_bal d) && map_equiv addr_eqb (ong_bal m) (ong_bal d)
  && map_equiv pair_eqb (ont_allow m) (ont_allow d) && map_equiv pair_eqb (ong_allow m) (ong_allow d)
  && map_equiv addr_eqb (offs m) (offs d).

(** utils.CalcUnbindOng as modelled for C09 (a panic of that model would show as -1 here and
    make the case disagree). *)
Definition unbind_inst (d : Z) (balance s e : Z) : Z :=
  match Unbind.calc_unbind_ong_at (Z.to_N d) (Z.to_N balance) (Z.to_N s) (Z.to_N e) with
  | Unbind.Ok v => Z.of_N v
  | _ => -1
  end.

Definition deadline_of (net : N) : Z := Z.of_N (Unbind.holder_deadline net).

Fixpoint replay (d : Z) (s : state) (steps : list (call * outcome * state)) : bool :=
  match steps with
  | [] => true
  | (k, out, dump) :: r =>
      let (s', res) := step (unbind_inst d) d s k in
      outcome_ok res out && state_equiv s' dump && inv_check dump && replay d s' r
  end.

Definition case_ok (c : case) : bool :=
  match c with
  | CSeq net init steps => inv_check init && replay (deadline_of net) init steps
  end.

Definition mismatches := mism case_ok.
