(** C06 correspondence: Model/Token.v against recorded runs of the real native ONT / ONG
    contracts (native.NativeService.NativeCall on a CacheDB, one call per transaction).
    A case is one history: network id, the stored start state, and per call the call, the
    implementation's outcome and the full decoded storage of both contracts afterwards.
    CalcUnbindOng is instantiated with the C09 model (Model/Unbind.v over Gen/Unbind.v), the holder
    deadline with its [holder_deadline] for the network id the run used. *)
From Coq Require Import List Bool NArith ZArith.
Import ListNotations.
From Ont Require Export Lib.CorrLib Model.Token.
From Ont Require Model.Unbind.
Local Open Scope Z_scope.

Inductive outcome := ROk (b : bool) | RErr (e : err)
| RSucc   (* succeeded, return value not observed (ledger mode) *)
| RFail.  (* failed, error class not observed (ledger mode) *)

(** Changed records of one call: [B a v] balance / offset record of [a] now holds [v], [BX a] it
    was deleted; [A o s v] / [AX o s] likewise for allowances.  (Monomorphic constructors keep the
    case files small and quick to elaborate.) *)
Inductive bent := B (a : N) (v : Z) | BX (a : N).
Inductive aent := A (o s : N) (v : Z) | AX (o s : N).
(** What the implementation's storage looked like after a call: the changed records of the five
    key families and, per family, the number of records and the sum of their values. *)
Inductive delta := Delta (ont_b ong_b : list bent) (ont_a ong_a : list aent) (off : list bent) (digest : list Z).

Inductive cstep := Step (k : call) (out : outcome) (d : delta).

Inductive case :=
| CSeq (net : N) (init : state) (steps : list cstep) (final : state).

Definition err_eqb (a b : err) : bool :=
  match a, b with
  | EDecode, EDecode | ENoMethod, ENoMethod | EBound, EBound | EAuth, EAuth
  | EAllowance, EAllowance | EBalance, EBalance | ETimestamp, ETimestamp | EPanic, EPanic => true
  | _, _ => false
  end.

Definition outcome_ok (r : res bool) (o : outcome) : bool :=
  match r, o with
  | Ok b, ROk b' => eqb b b'
  | Err e, RErr e' => err_eqb e e'
  | Ok _, RSucc => true
  | Err _, RFail => true
  | _, _ => false
  end.

(** The model's map and the dumped map hold the same entries (the dump is sorted by storage key,
    the model's list is in insertion order). *)
Definition map_equiv {K} (keqb : K -> K -> bool) (m d : amap K) : bool :=
  Nat.eqb (length m) (length d)
  && forallb (fun p => match aget keqb m (fst p) with Some v => v =? snd p | None => false end) d.

Definition state_equiv (m d : state) : bool :=
  map_equiv addr_eqb (ont_bal m) (ont_bal d) && map_equiv addr_eqb (ong_bal m) (ong_bal d)
  && map_equiv pair_eqb (ont_allow m) (ont_allow d) && map_equiv pair_eqb (ong_allow m) (ong_allow d)
  && map_equiv addr_eqb (offs m) (offs d).

(** utils.CalcUnbindOng as modelled for C09 (a panic of that model would show as -1 here and
    make the case disagree). *)
Definition unbind_inst (d : Z) (balance s e : Z) : Z :=
  match Unbind.calc_unbind_ong_at (Z.to_N d) (Z.to_N balance) (Z.to_N s) (Z.to_N e) with
  | Unbind.Ok v => Z.of_N v
  | _ => -1
  end.

Definition deadline_of (net : N) : Z := Z.of_N (Unbind.holder_deadline net).

Definition bent_ok (m : amap addr) (e : bent) : bool :=
  match e with
  | B a v => match aget addr_eqb m a with Some v' => v' =? v | None => false end
  | BX a => match aget addr_eqb m a with Some _ => false | None => true end
  end.
Definition aent_ok (m : amap (addr * addr)) (e : aent) : bool :=
  match e with
  | A o s v => match aget pair_eqb m (o, s) with Some v' => v' =? v | None => false end
  | AX o s => match aget pair_eqb m (o, s) with Some _ => false | None => true end
  end.
Definition digest_of (s : state) : list Z :=
  [Z.of_nat (length (ont_bal s)); asum (ont_bal s); Z.of_nat (length (ong_bal s)); asum (ong_bal s);
   Z.of_nat (length (ont_allow s)); asum (ont_allow s); Z.of_nat (length (ong_allow s)); asum (ong_allow s);
   Z.of_nat (length (offs s)); asum (offs s)].
Fixpoint zlist_eqb (a b : list Z) : bool :=
  match a, b with
  | [], [] => true
  | x :: r, y :: r' => (x =? y) && zlist_eqb r r'
  | _, _ => false
  end.
Definition delta_ok (s : state) (d : delta) : bool :=
  match d with
  | Delta b1 b2 a1 a2 o dg =>
      forallb (bent_ok (ont_bal s)) b1 && forallb (bent_ok (ong_bal s)) b2
      && forallb (aent_ok (ont_allow s)) a1 && forallb (aent_ok (ong_allow s)) a2
      && forallb (bent_ok (offs s)) o && zlist_eqb (digest_of s) dg
  end.

(** Replays the history in the model from the start state; after every call the model's state
    must show the recorded changes and digests, at the end it must equal the full dump. *)
Fixpoint replay (d : Z) (s : state) (steps : list cstep) (final : state) : bool :=
  match steps with
  | [] => state_equiv s final && inv_check final
  | Step k out dl :: r =>
      let (s', res) := step (unbind_inst d) d s k in
      outcome_ok res out && delta_ok s' dl && inv_check s' && replay d s' r final
  end.

Definition case_ok (c : case) : bool :=
  match c with
  | CSeq net init steps final => inv_check init && replay (deadline_of net) init steps final
  end.

Definition mismatches := mism case_ok.
