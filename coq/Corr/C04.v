(** C04 correspondence: recorded histories on a real CacheDB over OverlayDB over an in-memory
    LevelDB, re-run on the model of Model/KV.v. Every observation (Get results, full iterator
    outputs, outputs of iterations interleaved with writes) is embedded in the history and compared
    element-wise. The CacheDB key prefix is the ST_STORAGE byte printed from the linked package
    (Gen/KVConsts.v). *)
From Coq Require Import List Bool NArith.
Import ListNotations.
From Ont Require Export Lib.Bytes Lib.CorrLib Model.KV.
From Ont Require Import Gen.KVConsts.
Local Open Scope N_scope.
Open Scope bool_scope.

Inductive op :=
| OPut (k v : bytes)                                   (* CacheDB.Put *)
| ODel (k : bytes)                                     (* CacheDB.Delete *)
| OGet (k : bytes) (res : bytes)                       (* CacheDB.Get *)
| OIter (p : bytes) (res : list kv)                    (* CacheDB.NewIterator(p): First; Next* *)
| OLive (p : bytes) (steps : list (list wr)) (res : list kv)  (* ... with writes before each Next *)
| OCommit                                              (* CacheDB.Commit *)
| OReset                                               (* CacheDB.Reset *)
| OvPut (k v : bytes)                                  (* OverlayDB.Put (raw key) *)
| OvDel (k : bytes)
| OvGet (k : bytes) (res : bytes)                      (* OverlayDB.Get *)
| OvIter (p : bytes) (res : list kv)                   (* OverlayDB.NewIterator(p) *)
| OvCommit                                             (* NewBatch; OverlayDB.CommitTo; BatchCommit *)
| OvReset.                                             (* OverlayDB.Reset *)

Inductive case := CHist (store0 : list kv) (ops : list op).

Definition kv_eqb (a b : kv) : bool := bytes_eqb (fst a) (fst b) && bytes_eqb (snd a) (snd b).
Definition kvs_eqb : list kv -> list kv -> bool := list_eqb kv_eqb.

Definition pfx : N := ST_STORAGE.

(** one step: new state and whether the recorded observation agrees *)
Definition step (s : state) (o : op) : state * bool :=
  match o with
  | OPut k v => (cache_put pfx k v s, true)
  | ODel k => (cache_delete pfx k s, true)
  | OGet k res => (s, bytes_eqb (cache_get pfx s k) res)
  | OIter p res => let '(l, ok) := cache_iterate pfx s p in (s, ok && kvs_eqb l res)
  | OLive p steps res =>
      let '(l, ok, s') := cache_live_iterate pfx s p steps in (s', ok && kvs_eqb l res)
  | OCommit => (cache_commit s, true)
  | OReset => (cache_reset s, true)
  | OvPut k v => (overlay_put k v s, true)
  | OvDel k => (overlay_delete k s, true)
  | OvGet k res => (s, bytes_eqb (overlay_get s k) res)
  | OvIter p res => let '(l, ok) := overlay_iterate s p in (s, ok && kvs_eqb l res)
  | OvCommit => (overlay_commit s, true)
  | OvReset => (overlay_reset s, true)
  end.

Fixpoint run_ok (s : state) (ops : list op) : bool :=
  match ops with
  | [] => true
  | o :: r => let '(s', ok) := step s o in ok && run_ok s' r
  end.

Definition init_state (store0 : list kv) : state :=
  mkState [] [] (fold_left (fun st e => store_put (fst e) (snd e) st) store0 []).

Definition case_ok (c : case) : bool :=
  match c with CHist store0 ops => run_ok (init_state store0) ops end.

Definition mismatches := mism case_ok.
