(** C37 correspondence: the routing-table model against recorded runs of
    kbucket.RouteTable (Update / Remove / NearestPeers, observed through rt.Buckets, the
    PeerAdded / PeerRemoved callbacks and the returned values) and of common.CommonPrefixLen /
    PeerId.Distance / PeerId.Closer.  Histories name peers by their index in a per-case pool of
    distinct ids, so that case terms stay small. *)
From Coq Require Import List Bool NArith ZArith.
Import ListNotations.
From Ont Require Export Lib.Bytes Lib.CorrLib Gen.KBucketGen Model.KBucket.
Open Scope bool_scope.

(** Compact case terms (the case file is dominated by parsing time): a peer id is written as
    the number its [KB_ID_LEN] bytes denote, most significant byte first; an entry of a bucket or of
    a query result is written as [16 * pool index + address number] (addresses are 1..9). *)
Definition id_of (n : N) : bytes := rev (le_encode KB_ID_LEN n).

(** operations over pool indices *)
Inductive iop :=
| IUpdate (i : N) (addr : N)
| IRemove (i : N)
| INearest (i : N) (count : Z).

(** recorded results *)
Inductive ires :=
| IRUpdate (r : ures)
| IRRemove (removed : bool)
| IRNearest (out : list N)
| IRPanic.

Fixpoint list_match {A B : Type} (f : A -> B -> bool) (a : list A) (b : list B) : bool :=
  match a, b with
  | [], [] => true
  | x :: a', y :: b' => f x y && list_match f a' b'
  | _, _ => false
  end.

Definition pool_id (pool : list N) (i : N) : bytes := id_of (nth (N.to_nat i) pool 0%N).

Definition to_op (pool : list N) (o : iop) : op :=
  match o with
  | IUpdate i a => OUpdate (pool_id pool i) a
  | IRemove i => ORemove (pool_id pool i)
  | INearest i c => ONearest (pool_id pool i) c
  end.

Definition peer_matches (pool : list N) (p : peer) (q : N) : bool :=
  bytes_eqb (fst p) (pool_id pool (q / 16)%N) && N.eqb (snd p) (q mod 16)%N.

Definition ures_eqb (a b : ures) : bool :=
  match a, b with
  | UMoved, UMoved | UAdded, UAdded | URejected, URejected | UDiverged, UDiverged => true
  | _, _ => false
  end.

Definition res_matches (pool : list N) (m : opres) (r : ires) : bool :=
  match m, r with
  | RUpdate a, IRUpdate b => ures_eqb a b
  | RRemove a, IRRemove b => eqb a b
  | RNearest (NOk out), IRNearest out' => list_match (peer_matches pool) out out'
  | RNearest NPanic, IRPanic => true
  | _, _ => false
  end.

Inductive case :=
(* a history on NewRoutingTable(size, local): per-call results and the final rt.Buckets *)
| CHist (size : Z) (local : N) (pool : list N) (ops : list iop)
        (res : list ires) (final : list (list N))
(* the same history prefix run in a child process: did every call return? *)
| CReturns (size : Z) (local : N) (pool : list N) (ops : list iop) (returned : bool)
(* common.CommonPrefixLen a b, a.Distance(b), target.Closer(a, b) with target = first argument *)
| CId (t a b : N) (cpl_ta : N) (dist_ta : N) (closer : bool).

Definition case_ok (c : case) : bool :=
  match c with
  | CHist size local pool ops res final =>
      let '(t, rs) := run (new_table size (id_of local)) (map (to_op pool) ops) in
      list_match (res_matches pool) rs res &&
      list_match (list_match (peer_matches pool)) (t_buckets t) final
  | CReturns size local pool ops returned =>
      let '(t, rs) := run (new_table size (id_of local)) (map (to_op pool) ops) in
      eqb (negb (existsb diverged rs)) returned
  | CId t a b n d closer =>
      N.eqb (N.of_nat (cpl (id_of t) (id_of a))) n &&
      bytes_eqb (distance (id_of t) (id_of a)) (id_of d) &&
      eqb (dist_less (id_of t) (id_of a, 0%N) (id_of b, 0%N)) closer
  end.

Definition mismatches := mism case_ok.
