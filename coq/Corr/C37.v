(** C37 correspondence: the routing-table model against recorded runs of
    kbucket.RouteTable (Update / Remove / NearestPeers, observed through rt.Buckets, the
    PeerAdded / PeerRemoved callbacks and the returned values) and of common.CommonPrefixLen /
    PeerId.Distance / PeerId.Closer.

    Case terms are kept small because checking the case file is dominated by the number of bits
    of its numerals.  The peers of a history form a pool; a pool entry is not the 160-bit id but a
    short description of its XOR offset from the local id (prefix length and a 16-bit seed expanded
    by a fixed multiplicative mix); the harness derives the ids it feeds the implementation with
    the same rule (drivers/c37: poolIDs).  Calls and results name peers by pool index. *)
From Coq Require Import List Bool NArith ZArith.
Import ListNotations.
From Ont Require Export Lib.Bytes Lib.CorrLib Gen.KBucketGen Model.KBucket.
Open Scope bool_scope.
Local Open Scope N_scope.

(** an id written as the number its [KB_ID_LEN] bytes denote, most significant byte first *)
Definition id_of (n : N) : bytes := rev (le_encode KB_ID_LEN n).

Definition id_bits : N := 8 * N.of_nat KB_ID_LEN.
Definition mix_mult : N := 1311185441393030098788534042950262523632243239815.
Definition mix (s : N) : N := ((s + 1) * mix_mult) mod 2 ^ id_bits.

(** Pool entry [e = 65536 * k + s]: the XOR offset of the id from the local id.
      k < id_bits        : common prefix of exactly k bits, the lower bits from [mix s]
      k = id_bits        : offset 0 (the local id itself)
      id_bits < k < 200  : [mix s] (an unrelated id)
      k >= 200           : the offset of entry k - 200 with bit s flipped (a neighbour of it) *)
Definition offset_of (earlier : list N) (e : N) : N :=
  let k := e / 65536 in
  let s := e mod 65536 in
  if k <? id_bits then 2 ^ (id_bits - 1 - k) + mix s mod 2 ^ (id_bits - 1 - k)
  else if k =? id_bits then 0
  else if k <? 200 then mix s
  else N.lxor (nth (N.to_nat (k - 200)) earlier 0) (2 ^ s).

Fixpoint offsets (acc : list N) (es : list N) : list N :=
  match es with
  | [] => acc
  | e :: r => offsets (acc ++ [offset_of acc e]) r
  end.

Definition pool_ids (local : N) (pool : list N) : list bytes :=
  map (fun d => id_of (N.lxor local d)) (offsets [] pool).

(** operations over pool indices *)
Inductive iop :=
| IUpdate (i : N) (addr : N)
| IRemove (i : N)
| INearest (i : N) (count : Z).

(** recorded results; a peer is [16 * pool index + address number] (addresses are 1..9) *)
Inductive ires :=
| IRUpdate (r : ures)
| IRRemove (removed : bool)
| IRNearest (out : list N)
| IRPanic.

Fixpoint list_match {A B : Type} (f : A -> B -> bool) (a : list A) (b : list B) : bool :=
  match a, b with
  | [], [] => true
  | x :: a', y :: b' => f x y && list_match f a' b'
  | _, _ => false
  end.

Definition pool_id (ids : list bytes) (i : N) : bytes := nth (N.to_nat i) ids [].

Definition to_op (ids : list bytes) (o : iop) : op :=
  match o with
  | IUpdate i a => OUpdate (pool_id ids i) a
  | IRemove i => ORemove (pool_id ids i)
  | INearest i c => ONearest (pool_id ids i) c
  end.

Definition peer_matches (ids : list bytes) (p : peer) (q : N) : bool :=
  bytes_eqb (fst p) (pool_id ids (q / 16)) && N.eqb (snd p) (q mod 16).

Definition ures_eqb (a b : ures) : bool :=
  match a, b with
  | UMoved, UMoved | UAdded, UAdded | URejected, URejected | UDiverged, UDiverged => true
  | _, _ => false
  end.

Definition res_matches (ids : list bytes) (m : opres) (r : ires) : bool :=
  match m, r with
  | RUpdate a, IRUpdate b => ures_eqb a b
  | RRemove a, IRRemove b => eqb a b
  | RNearest (NOk out), IRNearest out' => list_match (peer_matches ids) out out'
  | RNearest NPanic, IRPanic => true
  | _, _ => false
  end.

(** final rt.Buckets, sparse: the number of buckets and the non-empty ones as (index, entries) *)
Fixpoint sparse_lookup (i : N) (sp : list (N * list N)) : list N :=
  match sp with
  | [] => []
  | (j, b) :: r => if N.eqb i j then b else sparse_lookup i r
  end.

Fixpoint buckets_match (ids : list bytes) (i : N) (bs : list bucket) (sp : list (N * list N)) : bool :=
  match bs with
  | [] => true
  | b :: r => list_match (peer_matches ids) b (sparse_lookup i sp) && buckets_match ids (i + 1) r sp
  end.

Inductive case :=
(* a history on NewRoutingTable(size, local): per-call results and the final rt.Buckets *)
| CHist (size : Z) (local : N) (pool : list N) (ops : list iop)
        (res : list ires) (nbuckets : N) (final : list (N * list N))
(* a history run in a child process of its own: did every call return? *)
| CReturns (size : Z) (local : N) (pool : list N) (ops : list iop) (returned : bool)
(* ids t, a = pool entry ea from t, b = pool entry eb from t:
   common.CommonPrefixLen(t, a), t.Distance(a), t.Closer(a, b) *)
| CId (t ea eb : N) (cpl_ta : N) (dist_ta : N) (closer : bool).

Definition case_ok (c : case) : bool :=
  match c with
  | CHist size local pool ops res nb final =>
      let ids := pool_ids local pool in
      let '(t, rs) := run (new_table size (id_of local)) (map (to_op ids) ops) in
      list_match (res_matches ids) rs res &&
      N.eqb (N.of_nat (length (t_buckets t))) nb &&
      forallb (fun e => fst e <? nb) final &&
      buckets_match ids 0 (t_buckets t) final
  | CReturns size local pool ops returned =>
      let ids := pool_ids local pool in
      let '(t, rs) := run (new_table size (id_of local)) (map (to_op ids) ops) in
      eqb (negb (existsb diverged rs)) returned
  | CId t ea eb n d closer =>
      match pool_ids t [ea; eb] with
      | [a; b] =>
          N.eqb (N.of_nat (cpl (id_of t) a)) n &&
          bytes_eqb (distance (id_of t) a) (id_of d) &&
          eqb (dist_less (id_of t) (a, 0) (b, 0)) closer
      | _ => false
      end
  end.

Definition mismatches := mism case_ok.
