(** C12 correspondence: the guard model (Model/Guards.v) against recorded runs of the real
    ValueStack, of single Executor.ExecuteOp steps, and of StructValue.Clone /
    ConvertNeoVmValueHexString on heap graphs (cyclic ones included), all executed in a child
    process. A case holds what the implementation was given and what it answered; [case_ok] runs
    the model on the same input. The model may never answer [GPanic] / out-of-fuel on a recorded
    case (the implementation came back). *)
From Coq Require Import List Bool Arith NArith ZArith.
Import ListNotations.
From Ont Require Export Lib.Bytes Lib.CorrLib Model.NeoInt Model.VmValue Gen.GuardSites Model.Guards.
Local Open Scope Z_scope.
Open Scope bool_scope.

Definition gerr_eqb (a b : gerr) : bool :=
  match a, b with
  | EIndexOOB, EIndexOOB | EOverStackLen, EOverStackLen | EOverLimitStack, EOverLimitStack
  | EOverMaxArray, EOverMaxArray | EBadValue, EBadValue | EFault, EFault | EDcallOffset, EDcallOffset
  | ENoSuchKey, ENoSuchKey | EShort, EShort | EOther, EOther => true
  | _, _ => false
  end.

Fixpoint zlist_eqb (a b : list Z) : bool :=
  match a, b with
  | [], [] => true
  | x :: a', y :: b' => Z.eqb x y && zlist_eqb a' b'
  | _, _ => false
  end.

(** recorded answer: an error kind, or a result value (when the operation has one) and the
    container / stack contents afterwards (bottom first) *)
Inductive obs := OErr (e : gerr) | OOk (res : list Z) (after : list Z).

Inductive sop := SInsert | SPeek | SRemove | SSet | SPush | SPop | SSwap | SPushMany.
Inductive xop := XSubstr | XLeft | XRight | XPickArray | XPickStruct | XPickBytes | XSetArray | XSetStruct
               | XRemoveAt | XNewArray | XNewStruct | XPack.

Inductive case :=
| CStack (op : sop) (limit : Z) (data : list Z) (i j t : Z) (o : obs)
| CExec (op : xop) (data : list Z) (a b : Z) (o : obs)
| CJmp (ip codelen num : Z) (newip : option Z)          (* None = fault *)
| CDcall (codelen target : Z) (newip : option Z)
| CCall (callers : Z) (ok : bool)                      (* PushContext with [callers] saved contexts *)
| CClone (h : heap) (a : nat) (ok : bool)              (* StructValue.Clone returned without error *)
| CConvert (h : heap) (v : hval) (ok : bool).          (* ConvertNeoVmValueHexString without error *)

Definition cmp1 (r : gres Z) (after : list Z) (o : obs) : bool :=
  match r, o with
  | GOk v, OOk [v'] aft => Z.eqb v v' && zlist_eqb after aft
  | GErr e, OErr e' => gerr_eqb e e'
  | _, _ => false
  end.
Definition cmpl (r : gres (list Z)) (o : obs) : bool :=
  match r, o with
  | GOk l, OOk [] aft => zlist_eqb l aft
  | GErr e, OErr e' => gerr_eqb e e'
  | _, _ => false
  end.
(** result = a list (SUBSTR...), nothing kept afterwards *)
Definition cmpr (r : gres (list Z)) (o : obs) : bool :=
  match r, o with
  | GOk l, OOk res [] => zlist_eqb l res
  | GErr e, OErr e' => gerr_eqb e e'
  | _, _ => false
  end.
Definition cmpp (r : gres (Z * list Z)) (o : obs) : bool :=
  match r, o with
  | GOk (v, l), OOk [v'] aft => Z.eqb v v' && zlist_eqb l aft
  | GErr e, OErr e' => gerr_eqb e e'
  | _, _ => false
  end.
Definition cmp2 (r : gres (list Z * list Z)) (o : obs) : bool :=
  match r, o with
  | GOk (x, l), OOk res aft => zlist_eqb x res && zlist_eqb l aft
  | GErr e, OErr e' => gerr_eqb e e'
  | _, _ => false
  end.

(** byte length ConvertNeoVmValueHexString adds for a primitive *)
Definition plen (p : prim) : Z :=
  match p with
  | PBool _ => 1
  | PBytes b => Z.of_nat (length b)
  | PInt z | PBig z => if Z.eqb z 0 then 1 else Z.of_nat (length (neo_of_Z z))
  end.

Definition opt_eqb (a b : option Z) : bool :=
  match a, b with Some x, Some y => Z.eqb x y | None, None => true | _, _ => false end.
Definition gz (r : gres Z) : option Z := match r with GOk z => Some z | _ => None end.

Definition case_ok (c : case) : bool :=
  match c with
  | CStack SInsert limit data i _ t o => cmpl (vs_insert limit data i t) o
  | CStack SPeek _ data i _ _ o => cmp1 (vs_peek data i) data o
  | CStack SRemove _ data i _ _ o => cmpp (vs_remove data i) o
  | CStack SSet _ data i _ t o => cmpl (vs_set data i t) o
  | CStack SPush limit data _ _ t o => cmpl (vs_push limit data t) o
  | CStack SPop _ data _ _ _ o => cmpp (vs_pop data) o
  | CStack SSwap _ data i j _ o => cmpl (vs_swap data i j) o
  | CStack SPushMany limit data i _ t o => cmpl (vs_pushmany limit data (repeat t (Z.to_nat i))) o
  | CExec XSubstr data a b o => cmpr (ex_substr data a b) o
  | CExec XLeft data a _ o => cmpr (ex_left data a) o
  | CExec XRight data a _ o => cmpr (ex_right data a) o
  | CExec XPickArray data a _ o => cmp1 (ex_pickitem_array data a) data o
  | CExec XPickStruct data a _ o => cmp1 (ex_pickitem_struct data a) data o
  | CExec XPickBytes data a _ o => cmp1 (ex_pickitem_bytes data a) data o
  | CExec XSetArray data a b o => cmpl (ex_setitem_array data a b) o
  | CExec XSetStruct data a b o => cmpl (ex_setitem_struct data a b) o
  | CExec XRemoveAt data a _ o => cmpl (arr_removeat data a) o
  | CExec XNewArray _ a _ o => cmpl (ex_newarray a 0) o
  | CExec XNewStruct _ a _ o =>
      cmpl (if ex_newstruct_bad a then GErr EBadValue else append_n (Z.to_nat a) [] 0) o
  | CExec XPack data a _ o => cmp2 (ex_pack data a) o
  | CJmp ip codelen num newip => opt_eqb (gz (ex_jmp_target ip codelen num)) newip
  | CDcall codelen target newip => opt_eqb (gz (ex_dcall_target codelen target)) newip
  | CCall callers ok => Bool.eqb (match ex_pushcontext callers with GOk _ => true | _ => false end) ok
  | CClone h a ok =>
      match clone_struct h clone_fuel a 0 with
      | CDone _ => Bool.eqb ok true
      | CRefused => Bool.eqb ok false
      | COof => false
      end
  | CConvert h v ok =>
      match convert plen h convert_fuel v 0 0 with
      | VDone _ l => Bool.eqb ok (negb (convert_length_over l))
      | VRefused => Bool.eqb ok false
      | VOof => false
      end
  end.

Definition mismatches := mism case_ok.
