(** C27 correspondence: the merkle path model against recorded runs of merkle.MerkleLeafPath,
    MerkleProve, MerkleHashes, depth, HashLeaf, HashChildren and
    TreeHasher.HashFullTreeWithLeafHash.

    SHA-256 inside Coq costs tens of milliseconds per block, so the bulk cases ([CList]) run the
    model with a *table* hash: the harness records (preimage, digest) for every hash the reference
    computation needs (digests from Go's crypto/sha256); a preimage that is not in the table
    hashes to [[]], which makes the case fail.  The preimages the model asks for are built by the
    model (prefix byte, order of children), so a change of prefix or order in the code shows up
    as a mismatch.  [CHash] and [CSha] run the real [Lib.Sha256.sha256] on small inputs. *)
From Coq Require Import List Bool NArith ZArith FMapPositive.
From Coq Require Export Uint63.
Import ListNotations.
From Ont Require Export Lib.Bytes Lib.CorrLib Lib.Sha256 Model.Codec Model.MerklePath.
Local Open Scope N_scope.
Open Scope bool_scope.

(** Byte strings in cases.v are written [B len words]: 7 bytes per primitive 63-bit integer,
    little-endian (N literals cost ~100 us each to elaborate, primitive integers do not). *)
Fixpoint int_to_N (k : nat) (w : int) : N :=
  match k with
  | O => 0
  | S k' => let r := int_to_N k' (Uint63.lsr w 1) in
            if Uint63.eqb (Uint63.land w 1) 0 then N.double r else N.succ_double r
  end.
Fixpoint unpack_word (cnt : nat) (w : int) : bytes :=
  match cnt with
  | O => []
  | S c => int_to_N 8 (Uint63.land w 255) :: unpack_word c (Uint63.lsr w 8)
  end.
Fixpoint unpack (len : nat) (ws : list int) : bytes :=
  match ws with
  | [] => []
  | w :: r => if (len <=? 7)%nat then unpack_word len w else unpack_word 7 w ++ unpack (len - 7) r
  end.
Definition B (len : int) (ws : list int) : bytes := unpack (N.to_nat (int_to_N 40 len)) ws.

Fixpoint tbl_hash (tbl : list (bytes * bytes)) (x : bytes) : bytes :=
  match tbl with
  | [] => []
  | (k, v) :: r => if bytes_eqb k x then v else tbl_hash r x
  end.

(** The same table behind a 24-bit fingerprint trie (bytes 1..3 of the preimage), so that a lookup
    does not scan the whole list. *)
Definition fp (x : bytes) : positive :=
  match x with
  | _ :: a :: b :: c :: _ => N.succ_pos (a + 256 * (b + 256 * c))
  | _ => 1%positive
  end.
Definition tbl_build (tbl : list (bytes * bytes)) : PositiveMap.t (list (bytes * bytes)) :=
  fold_left (fun m kv =>
               let p := fp (fst kv) in
               PositiveMap.add p (kv :: match PositiveMap.find p m with Some l => l | None => [] end) m)
            tbl (PositiveMap.empty _).
Definition map_hash (m : PositiveMap.t (list (bytes * bytes))) (x : bytes) : bytes :=
  match PositiveMap.find (fp x) m with Some l => tbl_hash l x | None => [] end.

Definition lerr_eqb (a b : lerr) : bool :=
  match a, b with
  | ETooLarge, ETooLarge | ENotFound, ENotFound | EPanic, EPanic => true
  | _, _ => false
  end.
Definition verr_eqb (a b : verr) : bool :=
  match a, b with
  | EReadBytes, EReadBytes | EReadByte, EReadByte | EReadHash, EReadHash | ERootMismatch, ERootMismatch => true
  | _, _ => false
  end.
Definition lres_eqb (a b : lerr + bytes) : bool :=
  match a, b with
  | inr x, inr y => bytes_eqb x y
  | inl x, inl y => lerr_eqb x y
  | _, _ => false
  end.
Definition vres_eqb (a b : verr + bytes) : bool :=
  match a, b with
  | inr x, inr y => bytes_eqb x y
  | inl x, inl y => verr_eqb x y
  | _, _ => false
  end.

Inductive item :=
| IPath (data : bytes) (res : lerr + bytes)          (* MerkleLeafPath(data, hs); the code then proved it *)
| IProve (path root : bytes) (res : verr + bytes).   (* MerkleProve(path, root) *)

Inductive case :=
| CHash (leaf : bool) (a b : bytes) (out : bytes)
| CDepth (n : N) (d : Z)
| CList (tbl : list (bytes * bytes)) (hs : list bytes) (rfc : bytes)
        (levels : list (list bytes)) (items : list item)
| CSha (xs : list bytes) (data : bytes) (res : lerr + bytes) (rfc : bytes).

Definition item_ok (H : bytes -> bytes) (hs : list bytes) (rfc : bytes) (i : item) : bool :=
  match i with
  | IPath data res =>
      lres_eqb (merkle_leaf_path_f64 H data hs) res
      && match res with
         | inr p => vres_eqb (merkle_prove H p rfc) (inr data)
         | inl _ => true
         end
  | IProve path root res => vres_eqb (merkle_prove H path root) res
  end.

Definition case_ok (c : case) : bool :=
  match c with
  | CHash true a _ out => bytes_eqb (hash_leaf sha256 a) out
  | CHash false a b out => bytes_eqb (hash_children sha256 a b) out
  | CDepth n d =>
      match depth_f64_N n with
      | Some k => (Z.of_nat k =? d)%Z
      | None => (d <? 0)%Z
      end
  | CList tbl hs rfc levels items =>
      let m := tbl_build tbl in
      let H := map_hash m in
      bytes_eqb (rfc_root H hs) rfc
      && match hs with
         | [] => true
         | _ => match depth_f64 (length hs) with
                | Some d => list_eqb (list_eqb bytes_eqb) (merkle_hashes H hs d) levels
                            && bytes_eqb (path_root H hs) rfc
                | None => false
                end
         end
      && forallb (item_ok H hs rfc) items
  | CSha xs data res rfc =>
      let hs := map (hash_leaf sha256) xs in
      lres_eqb (merkle_leaf_path_f64 sha256 data hs) res
      && bytes_eqb (rfc_root sha256 hs) rfc
      && match res with
         | inr p => vres_eqb (merkle_prove sha256 p rfc) (inr data)
         | inl _ => true
         end
  end.

Definition mismatches := mism case_ok.
