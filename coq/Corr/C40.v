(** C40 correspondence: the block-store model against recorded runs of the real ledger store
    (core/store/ledgerstore through core/ledger): histories of AddBlock / AddHeader / Close+Open with
    the answers of every chain query, the persisted records and the header-index cache window
    observed at checkpoints.  Hashes, and the SHA-256 digests of serialized headers and transactions, are recorded as small
    identifiers (order of first appearance in the run; the zero hash is 0): the model only compares
    them and tests for the zero hash. *)
From Coq Require Import List Bool NArith ZArith.
Import ListNotations.
From Ont Require Export Lib.CorrLib Model.BlockStore.
Local Open Scope N_scope.
Open Scope bool_scope.

(** compact constructors used by the case files *)
Definition HS (k ht body nk ns : N) : header := {| h_hash := k; h_height := ht; h_body := body; h_keys := nk; h_sigs := ns |}.
Definition H (k ht body : N) : header := HS k ht body 1 1.   (* solo chains: one key, one signature *)
Definition BH (hd : header) (txs : list (N * N)) : block :=
  {| b_hdr := hd; b_txs := map (fun p => {| t_hash := fst p; t_body := snd p |}) txs |}.
Definition B (k ht body : N) (txs : list (N * N)) : block :=
  {| b_hdr := H k ht body; b_txs := map (fun p => {| t_hash := fst p; t_body := snd p |}) txs |}.
(* a block whose n transactions have consecutive hash ids hb, hb+1, ... and digests db, db+1, ... *)
Fixpoint gen_pairs (n : nat) (hb db : N) : list (N * N) :=
  match n with O => [] | S m => (hb, db) :: gen_pairs m (hb + 1) (db + 1) end.
Definition BG (k ht body hb db n : N) : block := B k ht body (gen_pairs (N.to_nat n) hb db).
Definition BGH (hd : header) (hb db n : N) : block := BH hd (gen_pairs (N.to_nat n) hb db).
Definition T (k body : N) : tx := {| t_hash := k; t_body := body |}.

(** operations with the status the implementation reported *)
Inductive xop :=
| XCommit (b : block) (st : status)
| XHeader (hd : header) (st : status)
| XRun (l : list (N * N))            (* AddBlock of consecutive empty next blocks (hash, header digest), all Added *)
| XReopen.

(** one observation *)
Inductive qobs :=
| QH (h : N)                         (* a height *)
     (byheight : hash)               (* GetBlockHash *)
     (cached : option hash)          (* entry of the header index cache *)
     (stored : option hash)          (* BlockStore.GetBlockHash (persisted record) *)
     (blk : option (option block))   (* GetBlockByHeight: None error, Some None (nil,nil) *)
| QHH (h : N) (hdr : option header)  (* GetHeaderByHeight *)
| QK (k : hash)                      (* a block hash *)
     (blk : option block)            (* GetBlockByHash *)
     (hdr : option header)           (* GetHeaderByHash *)
     (hc : bool)                     (* headerCache holds it *)
| QR (k : hash) (r : option (N * N))    (* GetRawHeaderByHash: height, digest of the payload *)
| QT (k : hash) (r : option (tx * N)).  (* GetTransaction *)

Inductive ckpt :=
| CK (cur : N * hash)                (* in-memory current block *)
     (dcur : option (hash * N))      (* persisted current block *)
     (win : N * N * N)               (* header index cache: firstIndex, lastIndex, entries *)
     (cb : list hash)                (* hashes the ARC block cache holds *)
     (ct : list (hash * hash))       (* hashes the ARC transaction cache holds, as inclusive id ranges *)
     (qs : list qobs).

Inductive case :=
| CHist (g : block) (c0 : ckpt) (segs : list (list xop * ckpt)).

(** equality tests *)
Definition header_eqb (a b : header) : bool :=
  (h_hash a =? h_hash b) && (h_height a =? h_height b) && (h_body a =? h_body b)
  && (h_keys a =? h_keys b) && (h_sigs a =? h_sigs b).
Definition tx_eqb (a b : tx) : bool := (t_hash a =? t_hash b) && (t_body a =? t_body b).
Fixpoint list_eqb {A} (e : A -> A -> bool) (x y : list A) : bool :=
  match x, y with
  | [], [] => true
  | a :: x', b :: y' => e a b && list_eqb e x' y'
  | _, _ => false
  end.
Definition block_eqb (a b : block) : bool := header_eqb (b_hdr a) (b_hdr b) && list_eqb tx_eqb (b_txs a) (b_txs b).
Definition opt_eqb {A} (e : A -> A -> bool) (x y : option A) : bool :=
  match x, y with Some a, Some b => e a b | None, None => true | _, _ => false end.
Definition status_eqb (a b : status) : bool :=
  match a, b with Added, Added => true | Ignored, Ignored => true | Rejected, Rejected => true | _, _ => false end.

Definition mem (l : list hash) (k : hash) : bool := existsb (N.eqb k) l.
Definition memr (l : list (hash * hash)) (k : hash) : bool := existsb (fun r => (fst r <=? k) && (k <=? snd r)) l.

Definition byheight_obs (r : byheight) : option (option block) :=
  match r with BHNil => Some None | BHErr => None | BHOk b => Some (Some b) end.

Definition q_ok (cb : list hash) (ct : list (hash * hash)) (s : store) (q : qobs) : bool :=
  match q with
  | QH h byh cached stored blk =>
      (get_block_hash s h =? byh)
      && opt_eqb N.eqb (lookup h (hi_map (s_hic s))) cached
      && opt_eqb N.eqb (lookup h (d_bhash (s_db s))) stored
      && opt_eqb (opt_eqb block_eqb) (byheight_obs (get_block_by_height (mem cb) (memr ct) s h)) blk
  | QHH h hdr => opt_eqb header_eqb (get_header_by_height (mem cb) s h) hdr
  | QK k blk hdr hc =>
      opt_eqb block_eqb (get_block (mem cb) (memr ct) s k) blk
      && opt_eqb header_eqb (get_header_by_hash (mem cb) s k) hdr
      && Bool.eqb (match lookup k (s_hdrcache s) with Some _ => true | None => false end) hc
  | QR k r => opt_eqb (fun x y => (fst x =? fst y) && (snd x =? snd y)) (get_raw_header_by_hash (mem cb) s k) r
  | QT k r =>
      opt_eqb (fun x y => tx_eqb (fst x) (fst y) && (snd x =? snd y)) (get_transaction (memr ct) s k) r
  end.

Definition ck_ok (s : store) (c : ckpt) : bool :=
  match c with
  | CK (ch, ck) dcur (f, l, n) cb ct qs =>
      (s_cur_height s =? ch) && (s_cur_hash s =? ck)
      && opt_eqb (fun x y => (fst x =? fst y) && (snd x =? snd y)) (d_cur (s_db s)) dcur
      && (hi_first (s_hic s) =? f) && (hi_last (s_hic s) =? l)
      && (N.of_nat (length (keys (hi_map (s_hic s)))) =? n)
      && forallb (q_ok cb ct s) qs
  end.

Fixpoint run_empty (s : store) (l : list (N * N)) : option store :=
  match l with
  | [] => Some s
  | (k, d) :: r =>
      let '(s', st') := add_block s (B k (s_cur_height s + 1) d []) in
      if status_eqb Added st' then run_empty s' r else None
  end.

(** run the recorded operations; None when the model's status differs from the recorded one or the
    model fails to open where the implementation opened *)
Fixpoint run_x (g : block) (s : store) (ops : list xop) : option store :=
  match ops with
  | [] => Some s
  | XCommit b st :: r =>
      let '(s', st') := add_block s b in if status_eqb st st' then run_x g s' r else None
  | XHeader hd st :: r =>
      let '(s', st') := add_header s hd in if status_eqb st st' then run_x g s' r else None
  | XRun l :: r => match run_empty s l with Some s' => run_x g s' r | None => None end
  | XReopen :: r => match open_store (s_db s) g with Some s' => run_x g s' r | None => None end
  end.

Fixpoint segs_ok (g : block) (s : store) (segs : list (list xop * ckpt)) : bool :=
  match segs with
  | [] => true
  | (ops, c) :: r =>
      match run_x g s ops with
      | None => false
      | Some s' => ck_ok s' c && segs_ok g s' r
      end
  end.

Definition case_ok (c : case) : bool :=
  match c with
  | CHist g c0 segs =>
      match open_store empty_db g with
      | None => false
      | Some s => ck_ok s c0 && segs_ok g s segs
      end
  end.

Definition mismatches := mism case_ok.
