(** C14 correspondence: the value-codec model against recorded runs of VmValue.Serialize,
    BuildParamToNative, CircularRefAndDepthDetection and Deserialize.

    The encoders' model answers with the SET of outcomes Go's randomised map iteration allows; a
    case is accepted when the recorded outcome is in the set, the model did not run out of the
    fuel the driver allotted (the driver knows how deep its value is), and - when the driver marks
    the input as order-independent ([det]: no reachable map with two or more entries) - the set is a
    singleton. *)
From Coq Require Import List Bool Arith NArith ZArith.
Import ListNotations.
From Ont Require Export Lib.Bytes Lib.CorrLib Model.NeoInt Model.VmValue.
Local Open Scope N_scope.
Open Scope bool_scope.

Definition prim_eqb (a b : prim) : bool :=
  match a, b with
  | PBytes x, PBytes y => bytes_eqb x y
  | PBool x, PBool y => eqb x y
  | PInt x, PInt y => Z.eqb x y
  | PBig x, PBig y => Z.eqb x y
  | _, _ => false
  end.

Fixpoint tval_eqb (a b : tval) : bool :=
  match a, b with
  | TPrim p, TPrim q => prim_eqb p q
  | TArr l, TArr l' | TStruct l, TStruct l' =>
      (fix go (x y : list tval) : bool :=
         match x, y with
         | [], [] => true
         | u :: x', w :: y' => tval_eqb u w && go x' y'
         | _, _ => false
         end) l l'
  | TMap m, TMap m' =>
      (fix go (x y : list (prim * tval)) : bool :=
         match x, y with
         | [], [] => true
         | (k, u) :: x', (k', w) :: y' => prim_eqb k k' && tval_eqb u w && go x' y'
         | _, _ => false
         end) m m'
  | TInterop, TInterop => true
  | _, _ => false
  end.

Definition serr_eqb (a b : serr) : bool :=
  match a, b with
  | ECircular, ECircular | ESize, ESize | EInterop, EInterop | EBadType, EBadType => true
  | _, _ => false
  end.
Definition derr_eqb (a b : derr) : bool :=
  match a, b with
  | DEof, DEof | DIrregular, DIrregular | DItemSize, DItemSize | DIntSize, DIntSize
  | DArraySize, DArraySize | DDepth, DDepth | DBadType, DBadType => true
  | _, _ => false
  end.

(** recorded encoder outcome *)
Inductive sobs := SOk (out : bytes) | SErr (e : serr).
(** recorded decoder outcome: value (maps listed in sorted key order) and number of unread bytes *)
Inductive dobs := DObsOk (t : tval) (rest : N) | DObsErr (e : derr).

Definition distinct_errs (l : list serr) : nat :=
  length (filter (fun e => existsb (serr_eqb e) l) [ECircular; ESize; EInterop; EBadType]).

Definition rs_accepts (det : bool) (r : rs) (o : sobs) : bool :=
  negb (r_oof r) &&
  (match o with
   | SOk out => match r_ok r with Some s => bytes_eqb s out | None => false end
   | SErr e => existsb (serr_eqb e) (r_errs r)
   end) &&
  (if det then Nat.eqb ((if r_ok r then 1 else 0) + distinct_errs (r_errs r)) 1 else true).

Definition dset_accepts (det : bool) (d : dset) (b : bool) : bool :=
  (if b then snd d else fst d) && (if det then negb (fst d && snd d) else true).

Inductive case :=
(* [base]: zero bytes put into the sink before the call; [prefix]: further bytes written before the
   call, which the recorded output includes *)
| CSer (h : heap) (v : hval) (base : N) (prefix : bytes) (fuel : nat) (det : bool) (o : sobs)
| CBuild (h : heap) (v : hval) (prefix : bytes) (fuel : nat) (det : bool) (o : sobs)
| CDetect (h : heap) (v : hval) (det : bool) (answer : bool)
| CDeser (b : bytes) (o : dobs)
(* the implementation's BuildParamToNative did not return (fatal stack overflow in a child
   process): the model must still be recursing after [fuel] nested calls, without a success *)
| CDiverge (h : heap) (v : hval) (fuel : nat)
| CKey (p : prim) (image : bytes).

Definition case_ok (c : case) : bool :=
  match c with
  | CSer h v base s fuel det o => rs_accepts det (h_serialize h base fuel v s) o
  | CBuild h v s fuel det o => rs_accepts det (h_build h fuel v s) o
  | CDetect h v det b => dset_accepts det (detect_top h v) b
  | CDeser b o =>
      match deserialize b, o with
      | DOk (t, r), DObsOk t' n => tval_eqb t t' && (N.of_nat (length r) =? n)
      | DErr e, DObsErr e' => derr_eqb e e'
      | _, _ => false
      end
  | CDiverge h v fuel =>
      let r := h_build h fuel v [] in
      r_oof r && match r_ok r with None => true | Some _ => false end
  | CKey p image => bytes_eqb (prim_bytes p) image
  end.

Definition mismatches := mism case_ok.
