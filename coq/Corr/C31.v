(** C31 correspondence: the pool model against recorded runs of the real receive check + BlockPool
    (through consensus/vbft/verif_hooks_c31.go), and of getCommitConsensus directly. *)
From Coq Require Import List Bool NArith ZArith.
Import ListNotations.
From Ont Require Export Lib.Bytes Lib.CorrLib Model.VbftPool Model.VbftPoolSpec.
From Ont Require Import Proofs.C31.
Local Open Scope N_scope.
Open Scope bool_scope.

Definition esig_eqb (a b : esig) : bool :=
  (es_proposer a =? es_proposer b) && eqb (es_empty a) (es_empty b) && eqb (es_valid a) (es_valid b).
Definition prop_eqb (a b : proposal) : bool :=
  (pp_proposer a =? pp_proposer b) && (pp_sig a =? pp_sig b) && eqb (pp_valid a) (pp_valid b).
Definition cm_eqb (a b : commit_msg) : bool :=
  (cm_committer a =? cm_committer b) && (cm_proposer a =? cm_proposer b) && (cm_hash a =? cm_hash b)
  && eqb (cm_empty a) (cm_empty b) && eqb (cm_valid a) (cm_valid b)
  && list_eqb (fun x y => (fst x =? fst y) && eqb (snd x) (snd y)) (cm_endorsers a) (cm_endorsers b).

(** newBlockCommitment/newBlockProposal return nil both when they add and when they ignore an
    identical duplicate: the observable result does not separate the two. *)
Definition res_obs (r : add_res) : add_res := match r with DupSame => Added | x => x end.
Definition res_eqb (a b : add_res) : bool :=
  match res_obs a, res_obs b with
  | Added, Added | DupErr, DupErr | Dropped, Dropped => true
  | _, _ => false
  end.

Definition out_eqb (a b : N * bool * bool) : bool :=
  let '(p, e, d) := a in let '(p', e', d') := b in (p =? p') && eqb e e' && eqb d d'.

(** Iteration orders of a Go map with keys [l]. Up to four keys: all permutations. Beyond: for
    every subset S and every e outside S, the order S ++ [e] ++ rest — the outcome of the
    early-exit loops depends on the order only through the set processed before the entry at which
    the loop stops. Every order produced here is a genuine order, so an accepted outcome is a
    model outcome; completeness of the enumeration only affects false alarms. *)
Fixpoint inserts (x : N) (l : list N) : list (list N) :=
  match l with
  | [] => [[x]]
  | y :: r => (x :: y :: r) :: map (cons y) (inserts x r)
  end.
Fixpoint perms (l : list N) : list (list N) :=
  match l with
  | [] => [[]]
  | x :: r => flat_map (inserts x) (perms r)
  end.
Fixpoint splits (l : list N) : list (list N * list N) :=
  match l with
  | [] => [([], [])]
  | x :: r => flat_map (fun ab => [(x :: fst ab, snd ab); (fst ab, x :: snd ab)]) (splits r)
  end.
Definition removeN (x : N) (l : list N) : list N := filter (fun y => negb (y =? x)) l.
Definition split_orders (l : list N) : list (list N) :=
  flat_map (fun ab => (fst ab ++ snd ab) :: map (fun e => fst ab ++ e :: removeN e (snd ab)) (snd ab)) (splits l).
Definition orders (l : list N) : list (list N) :=
  if Nat.leb (length l) 4 then perms l else split_orders l.

Inductive case :=
| CGcc (c n : Z) (msgs : list commit_msg) (p : N) (empty : bool)
| CHist (n c self : N) (peers connected ends : list N) (ops : list op) (results : list add_res)
        (dprops : list proposal) (dcommits : list commit_msg) (desigs : list (N * list esig))
        (isend : list (N * bool)) (cds eds : list (N * bool * bool))
        (signers : list (N * nat)) (unverified double : bool).

Definition case_ok (k : case) : bool :=
  match k with
  | CGcc c n msgs p e =>
      let r := get_commit_consensus msgs c n in (fst r =? p) && eqb (snd r) e
  | CHist n c self peers connected ends ops results dprops dcommits desigs isend cds eds signers unv dbl =>
      let st := run_ops ops cand_empty in
      let isE := is_endorser c (peer_active self peers connected) ends in
      let os := orders (akeys (c_esigs st)) in
      list_eqb res_eqb (run_ops_res ops cand_empty) results
      && list_eqb prop_eqb (c_proposals st) dprops
      && list_eqb cm_eqb (c_commits st) dcommits
      && (Nat.eqb (length (c_esigs st)) (length desigs))
      && forallb (fun kv => match aget (fst kv) (c_esigs st) with
                            | Some l => list_eqb esig_eqb l (snd kv)
                            | None => false
                            end) desigs
      && forallb (fun ib => eqb (isE (fst ib)) (snd ib)) isend
      && forallb (fun got => existsb (fun ord => out_eqb (commit_done isE ord st c n) got) os) cds
      && forallb (fun got => existsb (fun ord => out_eqb (endorse_done ord st c) got) os) eds
      && forallb (fun pc => Nat.eqb (count_signers peers st (fst pc)) (snd pc)) signers
      && eqb (in_class_unverified peers ops) unv
      && eqb (in_class_double ops) dbl
  end.

Definition mismatches := mism case_ok.
