(** C19 correspondence: the transaction codec model against recorded runs of
    Transaction.Deserialization / TransactionFromRawBytes / MutableTransaction.IntoImmutable.

    The Ethereum side is supplied as data by the harness (what go-ethereum answered for the
    payload bytes of this very case): [eorc]. The hash function is instantiated two ways: with the
    identity (then the model's hash *is* the hashed byte range, compared with the range the
    harness measured on the implementation) and, on a subset, with the Gallina SHA-256. *)
From Coq Require Import List Bool NArith.
Import ListNotations.
From Ont Require Export Lib.Bytes Lib.CorrLib Model.Codec Model.TxCodec.
From Ont Require Import Lib.Sha256.
Local Open Scope N_scope.
Open Scope bool_scope.

(** go-ethereum's answers for one payload: the bytes given to rlp.DecodeBytes, its re-encoding by
    rlp.EncodeToBytes, Nonce(), GasPrice(), Gas(), the recovered sender, signer.Hash, Hash(). *)
Record eorc := mkEorc {
  eo_code : bytes; eo_enc : bytes; eo_nonce : N; eo_gasprice : N; eo_gas : N;
  eo_sender : option bytes; eo_sighash : bytes; eo_hash : bytes }.

(** [None]: rlp.DecodeBytes was not reached or failed on whatever it was given. *)
Definition eth_of (o : option eorc) : ethapi eorc :=
  mkEth eorc
    (fun code => match o with
                 | Some r => if bytes_eqb code (eo_code r) then Some r else None
                 | None => None end)
    eo_enc eo_nonce eo_gasprice eo_gas eo_sender eo_sighash eo_hash.

(** Byte strings of the recorded outcome that are sub-slices of the input buffer (the decoder is
    zero-copy) are recorded by position: [Sl off len] = slice buffer off len. *)
Inductive bref := Lit (b : bytes) | Sl (off len : N).
Definition deref (buffer : bytes) (r : bref) : bytes :=
  match r with Lit b => b | Sl o l => slice buffer (N.to_nat o) (N.to_nat l) end.

Inductive opayload :=
| OInvoke (code : bref)
| ODeploy (code : bref) (flags : N) (name version author email desc : bref)
| OEip.

(** go-ethereum's answers as recorded (payload and re-encoding by reference). *)
Inductive eref := ERef (code enc : bref) (nonce gasprice gas : N) (sender : option bytes) (sighash hash : bytes).
Definition eorc_of (buffer : bytes) (e : eref) : eorc :=
  match e with ERef code enc nonce gp gas sender sh h =>
    mkEorc (deref buffer code) (deref buffer enc) nonce gp gas sender sh h end.

(** Projection of an accepted types.Transaction. [hpre]: length of the prefix p of the consumed
    bytes with sha256(sha256(p)) = tx.Hash() as measured by the harness (Ontology format). *)
Inductive outcome :=
| OErr (e : terr)
| OTx (ver ty nonce gp gl : N) (payer : bytes) (p : opayload) (sigs : list (bref * bref))
      (raw : bref) (hpre : N) (hash : bytes)
(** accepted (large input): only the consumed range, Raw, the writer and the hash range are compared *)
| OAccepted (hpre : N).

Inductive case :=
(** source over [b] positioned at [start]; Deserialization; outcome; Pos() afterwards *)
| CDeser (real : bool) (b : bytes) (start : N) (eo : option eref) (out : outcome) (pos : N)
(** same, [b] given as prefix ++ repeat fill n ++ suffix (large inputs) *)
| CDeserBig (pre : bytes) (fill n : N) (suf : bytes) (start : N) (out : outcome) (pos : N)
(** TransactionFromRawBytes *)
| CRaw (b : bytes) (eo : option eref) (out : outcome)
| CRawBig (pre : bytes) (fill n : N) (suf : bytes) (out : outcome)
(** MutableTransaction{fields, no sigs}.IntoImmutable().ToArray() *)
| CMut (ver ty nonce gp gl : N) (payer : bytes) (p : opayload) (out : bytes).
(* in CMut the payload references point into [out] *)

Definition terr_eqb (a b : terr) : bool :=
  match a, b with
  | TEof, TEof | TIrregular, TIrregular | TVersion, TVersion | TTxType, TTxType
  | TUnreachable, TUnreachable | TAttr, TAttr | TSigCount, TSigCount | TOversize, TOversize
  | TVmFlags, TVmFlags | TDeployLimit, TDeployLimit | TRlp, TRlp | TEipSender, TEipSender
  | TEipBig, TEipBig | TEipGwei, TEipGwei | TBackUp, TBackUp | TPanic, TPanic => true
  | _, _ => false
  end.

Definition payload_matches (B : bytes) (p : payload eorc) (o : opayload) : bool :=
  match p, o with
  | PInvoke c, OInvoke c' => bytes_eqb c (deref B c')
  | PDeploy d, ODeploy code flags name version author email desc =>
      bytes_eqb (d_code d) (deref B code) && (d_flags d =? flags) && bytes_eqb (d_name d) (deref B name) &&
      bytes_eqb (d_version d) (deref B version) && bytes_eqb (d_author d) (deref B author) &&
      bytes_eqb (d_email d) (deref B email) && bytes_eqb (d_desc d) (deref B desc)
  | PEip _, OEip => true
  | _, _ => false
  end.

Definition sig_matches (g o : bytes * bytes) : bool :=
  bytes_eqb (fst g) (fst o) && bytes_eqb (snd g) (snd o).

Definition is_eip (p : payload eorc) : bool := match p with PEip _ => true | _ => false end.

(** [consumed]: the bytes between the start position and the end position. *)
Definition outcome_matches (B : bytes) (real : bool) (E : ethapi eorc) (consumed : bytes)
           (r : tx eorc + terr) (out : outcome) : bool :=
  match r, out with
  | inr e, OErr e' => terr_eqb e e'
  | inl t, OTx ver ty nonce gp gl payer p sigs raw hpre hash =>
      (t_version t =? ver) && (t_type t =? ty) && (t_nonce t =? nonce) && (t_gasprice t =? gp) &&
      (t_gaslimit t =? gl) && bytes_eqb (t_payer t) payer && payload_matches B (t_payload t) p &&
      list_eqb sig_matches (map (fun g => (sg_invoke g, sg_verify g)) (t_sigs t))
                           (map (fun g => (deref B (fst g), deref B (snd g))) sigs) &&
      bytes_eqb (t_raw t) (deref B raw) &&
      (* the model's own writer reproduces the consumed bytes and Raw *)
      bytes_eqb (tx_encode E t) consumed &&
      (if is_eip (t_payload t) || real then bytes_eqb (t_hash t) hash
       else bytes_eqb (t_hash t) (firstn (N.to_nat hpre) consumed))
  | inl t, OAccepted hpre =>
      bytes_eqb (t_raw t) consumed && bytes_eqb (tx_encode E t) consumed &&
      bytes_eqb (t_hash t) (firstn (N.to_nat hpre) consumed)
  | _, _ => false
  end.

Definition idH (b : bytes) : bytes := b.

Definition deser_ok (real : bool) (b : bytes) (start : N) (eo : option eref) (out : outcome) (pos : N) : bool :=
  let E := eth_of (option_map (eorc_of b) eo) in
  let s := mkSrc b (N.to_nat start) in
  let '(r, s') := tx_deserialization (if real then sha256 else idH) E s in
  (src_pos s' =? pos) &&
  outcome_matches b real E (slice b (N.to_nat start) (off s' - N.to_nat start)) r out.

(** Inputs derived from a base transaction are recorded as edits of it:
    [spl base p del ins] = base with the [del] bytes at position [p] replaced by [ins]. *)
Definition spl (base : bytes) (p del : N) (ins : bytes) : bytes :=
  firstn (N.to_nat p) base ++ ins ++ skipn (N.to_nat (p + del)) base.

Definition big (pre : bytes) (fill n : N) (suf : bytes) : bytes := pre ++ repeat fill (N.to_nat n) ++ suf.

Definition raw_ok (b : bytes) (eo : option eref) (out : outcome) : bool :=
  let E := eth_of (option_map (eorc_of b) eo) in
  let '(r, s') := tx_from_raw_bytes idH E b in
  outcome_matches b false E (firstn (off s') b) r out.

Definition of_opayload (B : bytes) (o : opayload) : payload eorc :=
  match o with
  | OInvoke c => PInvoke (deref B c)
  | ODeploy code flags name version author email desc =>
      PDeploy (mkDeploy (deref B code) flags (deref B name) (deref B version) (deref B author) (deref B email) (deref B desc))
  | OEip => PInvoke []
  end.

Definition case_ok (c : case) : bool :=
  match c with
  | CDeser real b start eo out pos => deser_ok real b start eo out pos
  | CDeserBig pre fill n suf start out pos => deser_ok false (big pre fill n suf) start None out pos
  | CRaw b eo out => raw_ok b eo out
  | CRawBig pre fill n suf out => raw_ok (big pre fill n suf) None out
  | CMut ver ty nonce gp gl payer p out =>
      bytes_eqb (encode_unsigned (eth_of None) ver ty nonce gp gl payer (of_opayload out p) 0 ++ sigs_encode [])
                out
  end.

Definition mismatches := mism case_ok.
