(** C43 correspondence: the bloom / section-index model against recorded runs of go-ethereum's
    types.Bloom / bitutil and of ontology's BlockStore (SaveBloomData, LoadBloomBits, GetBloomData,
    PutBloomIndex, ReadBloomBits) — stand-alone block stores at arbitrary heights and real ledgers
    executing EVM transactions. *)
From Coq Require Import List Bool NArith ZArith FMapPositive.
Import ListNotations.
From Ont Require Export Lib.Bytes Lib.CorrLib Gen.BloomConsts Model.Bloom.
Local Open Scope N_scope.
Open Scope bool_scope.

(** Keccak oracle table: data -> first six bytes of its Keccak-256 *)
Definition table := list (bytes * bytes).
Fixpoint lookup (t : table) (d : bytes) : bytes :=
  match t with
  | [] => []
  | (k, v) :: r => if bytes_eqb d k then v else lookup r d
  end.

(** sparse bloom: (byte index, value) of the non-zero bytes *)
Definition sparse := list (N * N).
Definition mk_bloom (sp : sparse) : bloom :=
  fold_left (fun b iv => or_at b (N.to_nat (fst iv)) (snd iv)) sp zero_bloom.

Definition opt_eqb {A : Type} (eqb : A -> A -> bool) (a b : option A) : bool :=
  match a, b with
  | Some x, Some y => eqb x y
  | None, None => true
  | _, _ => false
  end.

(** block-store histories at explicit heights *)
Inductive hop :=
| HSave (h : N) (sp : sparse)
| HRun (h n : N)            (* n zero blooms at heights h, h+1, ... *)
| HRestart.

Fixpoint commits (st : bstate) (hs : list N) : option bstate :=
  match hs with
  | [] => Some st
  | h :: r => match commit st h zero_bloom with Some st' => commits st' r | None => None end
  end.

Fixpoint hrun (adh : N) (st : bstate) (ops : list hop) : option bstate :=
  match ops with
  | [] => Some st
  | HSave h sp :: r => match commit st h (mk_bloom sp) with Some st' => hrun adh st' r | None => None end
  | HRun h n :: r => match commits st (nseq h n) with Some st' => hrun adh st' r | None => None end
  | HRestart :: r => match load_bloom_bits adh st with Some st' => hrun adh st' r | None => None end
  end.

(** ledger histories: blocks with receipts, runs of blocks without transactions, restarts *)
Inductive cop :=
| KB (txs : list tx_receipt)
| KE (n : N)
| KR.

Definition expand (ops : list cop) : list lop :=
  flat_map (fun o => match o with
                     | KB txs => [LBlock txs]
                     | KE n => repeat (LBlock []) (N.to_nat n)
                     | KR => [LRestart]
                     end) ops.

Definition check_blooms (s : kvstore) (obs : list (N * sparse)) : bool :=
  forallb (fun hb => opt_eqb bytes_eqb (get_bloom_data s (fst hb)) (Some (mk_bloom (snd hb)))) obs.

Definition check_bits (s : kvstore) (obs : list (N * N * option bytes)) : bool :=
  forallb (fun x => match x with (i, sec, v) => opt_eqb bytes_eqb (read_bloom_bits s i sec) v end) obs.

Inductive case :=
| CLogs (t : table) (logs : list (N * list N * bytes)) (bloom : sparse) (tests : list (N * bool * list N))
| CKeys (h i s : N) (k1 k2 : bytes)
| CKeyPair (i1 s1 i2 s2 : N) (k1 k2 : bytes)   (* two consecutive builds, both results read after the second *)
| CComp (d c : bytes)
| CDecomp (data : bytes) (target : N) (res : option bytes)
| CIndex (blooms : list (N * sparse)) (sec : N) (bits : list (N * option bytes))
| CHist (adh : N) (preload : bool) (ops : list hop) (panicked : bool) (fs : N) (fsrec : option N)
        (ncache : N) (cached : list (N * bool)) (blooms : list (N * sparse)) (bits : list (N * N * option bytes))
| CChain (t : table) (ops : list cop) (fs : N) (blooms : list (N * sparse)) (bits : list (N * N * option bytes)).

Fixpoint assoc_bloom (l : list (N * sparse)) (k : N) : bloom :=
  match l with
  | [] => zero_bloom
  | (k', sp) :: r => if k =? k' then mk_bloom sp else assoc_bloom r k
  end.

Definition case_ok (c : case) : bool :=
  match c with
  | CLogs t logs bloom tests =>
      (* logs and probes refer to the entries of the table by index *)
      let K := lookup t in
      let item i := fst (nth (N.to_nat i) t ([], [])) in
      let logs' := map (fun l => match l with (a, ts, d) => Log (item a) (map item ts) d end) logs in
      let bloom' := mk_bloom bloom in
      bytes_eqb (logs_bloom K logs') bloom'
      && opt_eqb bytes_eqb (bytes_to_bloom bloom') (Some bloom')
      && forallb (fun x => match x with (i, r, ps) =>
                   eqb (bloom_test K (item i) bloom') r && list_eqb N.eqb (bloom_positions K (item i)) ps
                   && eqb (forallb (bloom_bit bloom') ps) r end) tests
  | CKeys h i s k1 k2 => bytes_eqb (bloom_key h) k1 && bytes_eqb (bloom_bits_key i s) k2
  | CKeyPair i1 s1 i2 s2 k1 k2 =>
      (* the key is a pure function of (bit, section): a later build does not change an earlier result *)
      bytes_eqb (bloom_bits_key i1 s1) k1 && bytes_eqb (bloom_bits_key i2 s2) k2
  | CComp d c =>
      bytes_eqb (compress_bytes d) c && opt_eqb bytes_eqb (decompress_bytes c (length d)) (Some d)
  | CDecomp data target res => opt_eqb bytes_eqb (decompress_bytes data (N.to_nat target)) res
  | CIndex blooms sec bits =>
      match put_bloom_index (PositiveMap.empty bytes) (map (assoc_bloom blooms) (nseq 0 BloomBitsBlocks)) sec with
      | Some s => forallb (fun iv => opt_eqb bytes_eqb (read_bloom_bits s (fst iv) sec) (snd iv)) bits
      | None => false
      end
  | CHist adh preload ops panicked fs fsrec ncache cached blooms bits =>
      match hrun adh init_state (if preload then HRestart :: ops else ops) with
      | None => panicked
      | Some st =>
          negb panicked && (filter_start st =? fs) && opt_eqb N.eqb (fs_rec st) fsrec
          && (N.of_nat (PositiveMap.cardinal (cache st)) =? ncache)
          && forallb (fun hp => eqb (PositiveMap.mem (ckey (fst hp)) (cache st)) (snd hp)) cached
          && check_blooms (kv st) blooms && check_bits (kv st) bits
      end
  | CChain t ops fs blooms bits =>
      match lrun (lookup t) 0 (expand ops) with
      | None => false
      | Some st => (filter_start st =? fs) && check_blooms (kv st) blooms && check_bits (kv st) bits
      end
  end.

Definition mismatches := mism case_ok.
