(** C03 correspondence: Model/WriteSet.v against recorded runs of a real overlaydb.OverlayDB
    (over goleveldb's in-memory storage): GetWriteSet().ForEach output and ChangeHash, the latter
    re-computed with the Gallina SHA-256 of Lib/Sha256.v. *)
From Coq Require Import List Bool NArith.
Import ListNotations.
From Coq Require Export PrimInt63.
From Ont Require Export Lib.Bytes Lib.CorrLib Lib.Sha256 Model.WriteSet.
Local Open Scope N_scope.
Open Scope bool_scope.

(** Compact byte-string literals for the generated case file (a list-of-N literal costs ~30 us per
    character to parse and type-check; a primitive integer literal is one node): [pk lastn chunks]
    is the concatenation of the chunks, each a little-endian packing of 7 bytes into a primitive
    63-bit integer, except the last one which packs [lastn] (1..7) bytes. *)
Definition bit_at (x : int) (i : int) : bool :=
  negb (PrimInt63.eqb (PrimInt63.land (PrimInt63.lsr x i) 1%uint63) 0%uint63).
Definition push_bit (b : bool) (acc : N) : N := if b then N.succ_double acc else N.double acc.
(** the low byte of [x] *)
Definition byte_lo (x : int) : N :=
  push_bit (bit_at x 0%uint63) (push_bit (bit_at x 1%uint63) (push_bit (bit_at x 2%uint63)
  (push_bit (bit_at x 3%uint63) (push_bit (bit_at x 4%uint63) (push_bit (bit_at x 5%uint63)
  (push_bit (bit_at x 6%uint63) (push_bit (bit_at x 7%uint63) 0))))))).
Fixpoint unpack_chunk (n : nat) (x : int) : bytes :=
  match n with
  | O => []
  | S n' => byte_lo x :: unpack_chunk n' (PrimInt63.lsr x 8%uint63)
  end.
Fixpoint pk (lastn : nat) (chunks : list int) : bytes :=
  match chunks with
  | [] => []
  | [x] => unpack_chunk lastn x
  | x :: r => unpack_chunk 7 x ++ pk lastn r
  end.

(** run-length literal: [rp n b] is [n] copies of the byte [b] (large filler values) *)
Definition rp (n : N) (b : N) : bytes := repeat b (N.to_nat n).

Example pk_example : pk 2 [1976943448883713%uint63; 2313%uint63] = [1; 2; 3; 4; 5; 6; 7; 9; 9].
Proof. vm_compute. reflexivity. Qed.

Definition kv_eqb (a b : kv) : bool := bytes_eqb (fst a) (fst b) && bytes_eqb (snd a) (snd b).
Definition ws_eqb : list kv -> list kv -> bool := list_eqb kv_eqb.

(** write set after every prefix of the history (the empty prefix excluded) *)
Fixpoint ws_steps (o : overlay) (ops : list op) : list (list kv) :=
  match ops with
  | [] => []
  | x :: r => let o' := ov_apply o x in ov_write_set o' :: ws_steps o' r
  end.

Inductive case :=
(** history, ForEach output of GetWriteSet(), ChangeHash() *)
| CHist (ops : list op) (ws : list kv) (hash : bytes)
(** history, ForEach output only *)
| CSet (ops : list op) (ws : list kv)
(** history, ForEach output after every operation, final ChangeHash() *)
| CSteps (ops : list op) (wss : list (list kv)) (hash : bytes).

Definition case_ok (c : case) : bool :=
  match c with
  | CHist ops ws hash =>
      let o := ov_run ops in
      ws_eqb (ov_write_set o) ws && bytes_eqb (ov_change_hash sha256 o) hash
      (* the specification side computes the same list *)
      && ws_eqb (sort_by_key (last_write_assoc ops)) ws
  | CSet ops ws =>
      ws_eqb (ov_write_set (ov_run ops)) ws && ws_eqb (sort_by_key (last_write_assoc ops)) ws
  | CSteps ops wss hash =>
      list_eqb ws_eqb (ws_steps ov_new ops) wss
      && bytes_eqb (ov_change_hash sha256 (ov_run ops)) hash
  end.

Definition mismatches := mism case_ok.
