(** C15 correspondence: the program model (Model/VmMapExec.v) and the map-order model
    (Model/VmMapOrder.v) against recorded invocations of the NeoVM service.

    A case records a program (compiled to byte code and run 64 times in fresh engines, a subset in
    fresh processes) and the DISTINCT outcomes that were observed. The model must
    - contain every observed outcome in its set of possible outcomes ([run_any]: at every Serialize
      whose outcome set (C14) is not a singleton, any member of the set), and
    - when the program is outside the finding class ([run_ref] = Some o): have o as the one and only
      observed outcome. *)
From Coq Require Import List Bool Arith NArith ZArith.
Import ListNotations.
From Ont Require Export Lib.Bytes Lib.CorrLib Model.NeoInt Model.VmValue Model.VmMapOrder Model.VmMapExec.
Local Open Scope N_scope.
Open Scope bool_scope.

(** * Equality of observables *)
Definition prim_eqb (a b : prim) : bool :=
  match a, b with
  | PBytes x, PBytes y => bytes_eqb x y
  | PBool x, PBool y => Bool.eqb x y
  | PInt x, PInt y => Z.eqb x y
  | PBig x, PBig y => Z.eqb x y
  | _, _ => false
  end.

Fixpoint otree_eqb (a b : otree) : bool :=
  match a, b with
  | OPrimT p, OPrimT q => prim_eqb p q
  | OArrT l, OArrT l' =>
    (fix go (l l' : list otree) : bool :=
       match l, l' with
       | [], [] => true
       | x :: r, y :: r' => otree_eqb x y && go r r'
       | _, _ => false
       end) l l'
  | OMapT m, OMapT m' =>
    (fix go (m m' : list (prim * otree)) : bool :=
       match m, m' with
       | [], [] => true
       | (k, x) :: r, (k', y) :: r' => prim_eqb k k' && otree_eqb x y && go r r'
       | _, _ => false
       end) m m'
  | OOther, OOther => true
  | OCut, OCut => true
  | _, _ => false
  end.

Fixpoint ntree_eqb (a b : ntree) : bool :=
  match a, b with
  | NStr x, NStr y => bytes_eqb x y
  | NList l, NList l' =>
    (fix go (l l' : list ntree) : bool :=
       match l, l' with
       | [], [] => true
       | x :: r, y :: r' => ntree_eqb x y && go r r'
       | _, _ => false
       end) l l'
  | _, _ => false
  end.

Definition fault_eqb (a b : fault) : bool :=
  match a, b with
  | FIndex, FIndex | FOverStack, FOverStack | FBadType, FBadType | FBadValue, FBadValue
  | FMapNotExist, FMapNotExist | FArraySize, FArraySize | FIntSize, FIntSize | FIntUnderflow, FIntUnderflow
  | FAppendType, FAppendType | FRemoveType, FRemoveType | FSerOof, FSerOof | FItemSize, FItemSize
  | FNotify, FNotify | FNotifyOof, FNotifyOof | FPutKeyLen, FPutKeyLen | FOutside, FOutside => true
  | FSer e, FSer e' => serr_eqb e e'
  | _, _ => false
  end.

(** the write set the caller sees: last Put per key, sorted by key (what the overlay's write set
    enumerates); the model records the Put calls in order *)
Fixpoint ws_put (k v : bytes) (l : list (bytes * bytes)) : list (bytes * bytes) :=
  match l with
  | [] => [(k, v)]
  | (k', v') :: r =>
    if bytes_eqb k k' then (k, v) :: r
    else if bytes_ltb k k' then (k, v) :: l
    else (k', v') :: ws_put k v r
  end.
Definition canon_writes (l : list (bytes * bytes)) : list (bytes * bytes) :=
  fold_left (fun acc kv => ws_put (fst kv) (snd kv) acc) l [].

Definition opt_eqb {A} (eq : A -> A -> bool) (a b : option A) : bool :=
  match a, b with Some x, Some y => eq x y | None, None => true | _, _ => false end.

(** [m] from the model (Put calls), [o] observed (write set) *)
Definition outcome_matches (m o : outcome) : bool :=
  match m, o with
  | OHalt r n w, OHalt r' n' w' =>
    opt_eqb otree_eqb r r' && list_eqb ntree_eqb n n' &&
    list_eqb (fun a b => bytes_eqb (fst a) (fst b) && bytes_eqb (snd a) (snd b)) (canon_writes w) w'
  | OFault f, OFault f' => fault_eqb f f'
  | _, _ => false
  end.

(** * The set of possible outcomes *)
(** the possible answers to a request: the members of C14's outcome set *)
Definition candidates (fuel : nat) (rq : request) : list answer :=
  match rq with
  | RqNone => [AnNone]
  | RqEntries m => [AnEntries (map_sorted_entries [] m)]
  | RqSerialize h v =>
    let r := h_serialize h 0 fuel v [] in
    (match r_ok r with Some s => [AnSer (SOk s)] | None => [] end) ++
    map (fun e => AnSer (SErr e)) (r_errs r) ++
    (if r_oof r then [AnSer SOof] else [])
  end.

Fixpoint run_any (fuel : nat) (prog : list instr) (st : vmstate) (obs : outcome) : bool :=
  match prog with
  | [] => outcome_matches (halt_outcome st) obs
  | i :: rest =>
    existsb (fun ans =>
      match step i st ans with
      | inl f => outcome_matches (OFault f) obs
      | inr st' => run_any fuel rest st' obs
      end) (candidates fuel (request_of i st))
  end.

(** * Stringify of the value a program leaves on top of the stack *)
Fixpoint exec_ref (fuel : nat) (prog : list instr) (st : vmstate) : option vmstate :=
  match prog with
  | [] => Some st
  | i :: rest =>
    match answer_ref fuel (request_of i st) with
    | None => None
    | Some ans => match step i st ans with inl _ => None | inr st' => exec_ref fuel rest st' end
    end
  end.

Definition strres_eqb (a b : strres) : bool :=
  match a, b with
  | StrOk x, StrOk y => bytes_eqb x y
  | StrCircular, StrCircular => true
  | StrOof, StrOof => true
  | _, _ => false
  end.

(** schedules tried when the detector's answer set is not a singleton: first entry number c at every range *)
Definition sched_family : list sched := map (fun c => const_sched [c] 8) [0; 1; 2; 3]%nat.

(** * Generated program parts (so that cases.v stays small)
    [build_map n]: a new map with n distinct 2-byte keys (key i = 7919*i mod 2^16, little endian:
    distinct because 7919 is odd; unrelated to insertion order), value i mod 16, left on the
    evaluation stack. The driver emits the same instructions (harness/drivers/c15: buildMap). *)
Definition big_key (i : nat) : bytes := let k := (N.of_nat i * 7919) mod 65536 in [k mod 256; k / 256].
Definition build_map (n : nat) : list instr :=
  [INewMap; IToAlt] ++
  flat_map (fun i => [IPushInt (Z.of_nat (i mod 16)); IDupFromAlt; ISwap; IPushBytes (big_key i); ISwap; ISetItem]) (seq 0 n) ++
  [IFromAlt].

(** [quadruple]: [x ..] -> [Serialize [x; x; x; x] ..] (four references to the same value) *)
Definition quadruple : list instr :=
  [IDup; IDup; IDup; IPushInt 0; INewArray; IToAlt;
   IDupFromAlt; ISwap; IAppend; IDupFromAlt; ISwap; IAppend; IDupFromAlt; ISwap; IAppend; IDupFromAlt; ISwap; IAppend;
   IFromAlt; ISerialize].
Fixpoint quadruples (r : nat) : list instr := match r with O => [] | S k => quadruple ++ quadruples k end.

Inductive case :=
| CRun (fuel : nat) (prog : list instr) (obs : list outcome)
    (* distinct outcomes of the repeated invocations *)
| CRunBig (fuel : nat) (n : N) (tail : list instr) (obs : list outcome)
    (* program = build_map n ++ tail *)
| CRunQuad (fuel : nat) (head : list instr) (r : N) (tail : list instr) (obs : list outcome)
    (* program = head ++ r times quadruple ++ tail *)
| CStringify (fuel : nat) (prog : list instr) (obs : list strres).
    (* distinct results of VmValue.Stringify on the value the program returns *)

(** outside the finding class the single outcome of the model must be the only one observed
    (it is then the only member of [run_any]'s set as well); inside, every observed outcome must be
    a member of the set *)
Definition run_ok (fuel : nat) (prog : list instr) (obs : list outcome) : bool :=
  negb (match obs with [] => true | _ => false end) &&
  match run_ref fuel prog st0 with
  | Some o => forallb (outcome_matches o) obs && (length obs =? 1)%nat
  | None => forallb (run_any fuel prog st0) obs
  end.

Definition case_ok (c : case) : bool :=
  match c with
  | CRun fuel prog obs => run_ok fuel prog obs
  | CRunBig fuel n tail obs => run_ok fuel (build_map (N.to_nat n) ++ tail) obs
  | CRunQuad fuel head r tail obs => run_ok fuel (head ++ quadruples (N.to_nat r) ++ tail) obs
  | CStringify fuel prog obs =>
    match exec_ref fuel prog st0 with
    | Some st =>
      match st_eval st with
      | v :: _ =>
        let h := st_heap st in
        match detect_top h v with
        | (true, true) =>
          forallb (fun o => existsb (fun sch => strres_eqb (fst (h_stringify_s h fuel v sch)) o) sched_family) obs
        | _ =>
          forallb (strres_eqb (fst (h_stringify_s h fuel v []))) obs && (length obs =? 1)%nat
        end
      | [] => false
      end
    | None => false
    end
  end.

Definition mismatches := mism case_ok.
