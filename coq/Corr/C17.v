(** C17 correspondence: the two derivations of a transaction's signer accounts (Model/Sig.v)
    against recorded runs of the implementation (tables as in Corr/SigTab.v).

    [CSigners t tb validated fallback agree]: for a decoded transaction whose validator input is
    [t]: the outcome of checkTransactionSignatures on one copy (for an accepted transaction the
    accounts GetSignatureAddresses then returns = tx.SignedAddr), the list
    GetSignatureAddresses returns on a second, freshly decoded copy (the fallback, in order), and
    whether the harness found the two equal as sets (and SmartContract.CheckWitness equal on every
    account of either). *)
From Coq Require Import List Bool NArith ZArith.
Import ListNotations.
From Ont Require Export Corr.SigTab.
Local Open Scope N_scope.
Open Scope bool_scope.

Inductive case :=
| CSigners (t : vtx) (tb : tables) (validated : obs) (fallback : list bytes) (agree : bool).

Definition case_ok (c : case) : bool :=
  match c with
  | CSigners t tb validated fallback agree =>
    let r := run_cts tb t in
    let fb := get_signature_addresses (hlookup (t_h tb)) [] t in
    obs_eqb r validated && list_eqb bytes_eqb fb fallback &&
    match r with
    | VAccept a => Bool.eqb (addrs_same_set (get_signature_addresses (hlookup (t_h tb)) a t) fb) agree
    | _ => true
    end
  end.

Definition mismatches := mism case_ok.
