(** C17 correspondence: the two derivations of a transaction's signer accounts (Model/Sig.v)
    against recorded runs of the implementation (tables as in Corr/SigTab.v).

    [CSigners t tb validated fallback agree]: for a decoded transaction whose validator input is
    [t]: the outcome of checkTransactionSignatures on one copy (for an accepted transaction the
    accounts GetSignatureAddresses then returns = tx.SignedAddr), the list
    GetSignatureAddresses returns on a second, freshly decoded copy (the fallback, in order), and
    whether the harness found the two equal as sets (and SmartContract.CheckWitness equal on every
    account of either). *)
From Coq Require Import List Bool NArith ZArith.
Import ListNotations.
From Ont Require Export Corr.SigTab.
Local Open Scope N_scope.
Open Scope bool_scope.

Definition bres_eqb (a b : bres) : bool :=
  match a, b with
  | BOk x, BOk y => bytes_eqb x y
  | BErrParam, BErrParam | BPanic, BPanic => true
  | _, _ => false
  end.

Definition ares_eqb (a b : ares) : bool :=
  match a, b with
  | AOk x, AOk y => bytes_eqb x y
  | AErrParam, AErrParam | APanic, APanic => true
  | _, _ => false
  end.

(** [CBuildMulti keys m out]: program.ProgramFromMultiPubKey(keys, m) - the node's own encoder of
    the standard m-of-n script (for 16 keys it must end PUSH16 CHECKMULTISIG = 0x60 0xAE).
    [CAddrMulti keys m htab r]: types.AddressFromMultiPubKeys(keys, m), the account the validator
    caches; [htab] maps the STANDARD script (written by the harness's own encoder) to its hash. *)
Inductive case :=
| CSigners (t : vtx) (tb : tables) (validated : obs) (fallback : list bytes) (agree : bool)
| CBuildMulti (keys : list pubkey) (m : Z) (out : bres)
| CAddrMulti (keys : list pubkey) (m : Z) (htab : list (bytes * bytes)) (r : ares).

Definition case_ok (c : case) : bool :=
  match c with
  | CSigners t tb validated fallback agree =>
    let r := run_cts tb t in
    let fb := get_signature_addresses (hlookup (t_h tb)) [] t in
    obs_eqb r validated && list_eqb bytes_eqb fb fallback &&
    match r with
    | VAccept a => Bool.eqb (addrs_same_set (get_signature_addresses (hlookup (t_h tb)) a t) fb) agree
    | _ => true
    end
  | CBuildMulti keys m out => bres_eqb (program_from_multi_pubkey keys m) out
  | CAddrMulti keys m htab r => ares_eqb (address_from_multi_pubkeys (hlookup htab) keys m) r
  end.

Definition mismatches := mism case_ok.
