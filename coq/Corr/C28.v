(** C28 correspondence: the translated bookkeeper-address threshold against the m observed
    through types.AddressFromBookkeepers. *)
From Coq Require Import List NArith ZArith.
Import ListNotations.
From Ont Require Import Lib.CorrLib Gen.Thresholds.

Inductive case := AddrM (n : N) (m : option N).

Definition case_ok (c : case) : bool :=
  match c with
  | AddrM n (Some m) => Z.eqb (addr_bookkeepers_m (Z.of_N n)) (Z.of_N m)
  | AddrM n None => false
  end.

Definition mismatches := mism case_ok.
