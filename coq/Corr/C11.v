(** C11 correspondence: the governance model against recorded histories executed through the
    real native contracts.  A case is one history: the genesis parameters, the decoded storage
    after genesis, and for every transaction the operation, its height, the implementation's
    result class and the decoded storage afterwards.  The model is threaded through the whole
    history and compared after every step. *)
From Coq Require Import List Bool NArith.
Import ListNotations.
From Ont Require Export Lib.AList Lib.CorrLib Gen.GovConsts Model.Gov.
Local Open Scope N_scope.
Open Scope bool_scope.

Record obs := mkObs {
  o_view : N; o_vheight : N;
  o_pool : list (N * peerv);
  o_infos : list ((N * N) * infov);
  o_stakes : list (N * N);
  o_pens : list (N * (N * N));
  o_bal : list (N * N);
  o_black : list N;
  o_maxauth : list (N * N);
  o_prev : list (N * peerv)             (* the pool stored under view-1 *)
}.

Definition peerv_eqb (a b : peerv) : bool :=
  (p_owner a =? p_owner b) && (p_status a =? p_status b) && (p_init a =? p_init b) && (p_total a =? p_total b).
Definition infov_eqb (a b : infov) : bool :=
  (i_cons a =? i_cons b) && (i_cand a =? i_cand b) && (i_new a =? i_new b) &&
  (i_wcons a =? i_wcons b) && (i_wcand a =? i_wcand b) && (i_wunf a =? i_wunf b).

Definition res_code (a : res) : N :=
  match a with
  | ROk => 0 | EDecode => 1 | EHeight => 2 | EWitness => 3 | EToken => 4 | EPubkey => 5
  | EBlack => 6 | ENotBlack => 7 | EDup => 8 | EFull => 9 | EInit => 10 | EPos => 11
  | ENoPeer => 12 | EOwner => 13 | ENotOwner => 14 | EStatus => 15 | EPosLimit => 16
  | EMaxAuth => 17 | ENotEnough => 18 | EStake => 19 | EOntBound => 20 | EOntBalance => 21
  | ELessK => 22 | ETwice => 23 | EBucket => 24 | EReduce => 25 | EPromise => 26
  end.
Definition res_eqb (a b : res) : bool := res_code a =? res_code b.

(** both directions, absent = default *)
Definition nmap_eqb (a b : list (N * N)) : bool :=
  forallb (fun kv => nget (fst kv) b =? snd kv) a && forallb (fun kv => nget (fst kv) a =? snd kv) b.
Definition imap_eqb (a b : list ((N * N) * infov)) : bool :=
  forallb (fun kv => infov_eqb (iget (fst (fst kv)) (snd (fst kv)) b) (snd kv)) a &&
  forallb (fun kv => infov_eqb (iget (fst (fst kv)) (snd (fst kv)) a) (snd kv)) b.
Definition penmap_eqb (a b : list (N * (N * N))) : bool :=
  forallb (fun kv => pair_eqb (penget (fst kv) b) (snd kv)) a && forallb (fun kv => pair_eqb (penget (fst kv) a) (snd kv)) b.
Definition pool_eqb (a b : list (N * peerv)) : bool :=
  let sub x y := forallb (fun kv => match pget (fst kv) y with Some p => peerv_eqb p (snd kv) | None => false end) x in
  sub a b && sub b a && (N.of_nat (length a) =? N.of_nat (length b)).
Definition set_eqb (a b : list N) : bool :=
  forallb (fun x => existsb (N.eqb x) b) a && forallb (fun x => existsb (N.eqb x) a) b.

Definition obs_ok (s : state) (o : obs) : bool :=
  (s_view s =? o_view o) && (s_vheight s =? o_vheight o) &&
  pool_eqb (s_pool s) (o_pool o) && imap_eqb (s_infos s) (o_infos o) &&
  nmap_eqb (s_stakes s) (o_stakes o) && penmap_eqb (s_pens s) (o_pens o) &&
  nmap_eqb (s_ont s) (o_bal o) && set_eqb (s_black s) (o_black o) &&
  nmap_eqb (s_maxauth s) (o_maxauth o) && pool_eqb (s_prev s) (o_prev o).

(** A step records either the whole decoded storage ([st_full]) or only the records that
    differ from the previous step ([st_del] = peers that left the pool; a record that
    disappeared is listed with its default value). *)
Record stepRec := mkStep { st_h : N; st_op : op; st_res : res; st_full : bool; st_prevchg : bool; st_del : list N; st_obs : obs }.

Definition delta_ok (s : state) (prevchg : bool) (del : list N) (o : obs) : bool :=
  (if prevchg then pool_eqb (s_prev s) (o_prev o) else true) &&
  (s_view s =? o_view o) && (s_vheight s =? o_vheight o) &&
  forallb (fun kv => match pget (fst kv) (s_pool s) with Some p => peerv_eqb p (snd kv) | None => false end) (o_pool o) &&
  forallb (fun k => match pget k (s_pool s) with Some _ => false | None => true end) del &&
  forallb (fun kv => infov_eqb (iget (fst (fst kv)) (snd (fst kv)) (s_infos s)) (snd kv)) (o_infos o) &&
  forallb (fun kv => nget (fst kv) (s_stakes s) =? snd kv) (o_stakes o) &&
  forallb (fun kv => pair_eqb (penget (fst kv) (s_pens s)) (snd kv)) (o_pens o) &&
  forallb (fun kv => nget (fst kv) (s_ont s) =? snd kv) (o_bal o) &&
  set_eqb (s_black s) (o_black o) &&
  forallb (fun kv => nget (fst kv) (s_maxauth s) =? snd kv) (o_maxauth o).

Definition step_ok (s' : state) (e : res) (r : stepRec) : bool :=
  res_eqb e (st_res r) && (if st_full r then obs_ok s' (st_obs r) else delta_ok s' (st_prevchg r) (st_del r) (st_obs r)).

Fixpoint steps_ok (s : state) (l : list stepRec) : bool :=
  match l with
  | [] => true
  | r :: rest =>
      let '(s', e) := step s (st_h r, st_op r) in
      step_ok s' e r && steps_ok s' rest
  end.

Inductive case :=
| CHist (par : params) (h0 : N) (peers : list (N * N * N)) (ont0 : list (N * N)) (o0 : obs) (steps : list stepRec).

Definition case_ok (c : case) : bool :=
  match c with
  | CHist par h0 peers ont0 o0 steps =>
      let s0 := genesis par h0 peers ont0 in
      obs_ok s0 o0 && steps_ok s0 steps
  end.

Definition mismatches := mism case_ok.

(** Diagnosis helper (development): index and model result of the first disagreeing step. *)
Fixpoint first_bad (s : state) (l : list stepRec) (n : nat) : option (nat * res * state) :=
  match l with
  | [] => None
  | r :: rest =>
      let '(s', e) := step s (st_h r, st_op r) in
      if step_ok s' e r then first_bad s' rest (S n) else Some (n, e, s')
  end.
Definition diag (c : case) :=
  match c with
  | CHist par h0 peers ont0 o0 steps =>
      let s0 := genesis par h0 peers ont0 in
      if obs_ok s0 o0 then first_bad s0 steps 0 else Some (0%nat, ROk, s0)
  end.
