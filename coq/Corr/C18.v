(** C18 correspondence: the codec model against recorded runs of ZeroCopySource/Sink and
    common/serialization. *)
From Coq Require Import List Bool NArith ZArith.
Import ListNotations.
From Ont Require Export Lib.Bytes Lib.CorrLib Model.Codec.
Local Open Scope N_scope.
Open Scope bool_scope.

Definition rerr_eqb (a b : rerr) : bool :=
  match a, b with EIrregular, EIrregular => true | EEof, EEof => true | _, _ => false end.

Definition rres_eqb (a b : rres) : bool :=
  match a, b with
  | VNum v e, VNum v' e' => (v =? v') && eqb e e'
  | VInt v e, VInt v' e' => Z.eqb v v' && eqb e e'
  | VBool x i e, VBool x' i' e' => eqb x x' && eqb i i' && eqb e e'
  | VVarUint v s i e, VVarUint v' s' i' e' => (v =? v') && (s =? s') && eqb i i' && eqb e e'
  | VBytes d e, VBytes d' e' => bytes_eqb d d' && eqb e e'
  | VVarBytes d s i e, VVarBytes d' s' i' e' => bytes_eqb d d' && (s =? s') && eqb i i' && eqb e e'
  | VEofOnly e, VEofOnly e' => eqb e e'
  | VOkNum v, VOkNum v' => v =? v'
  | VOkBytes d, VOkBytes d' => bytes_eqb d d'
  | VErr e, VErr e' => rerr_eqb e e'
  | _, _ => false
  end.

Inductive sres := SNum (v rest : N) | SBytes (d : bytes) (rest : N) | SEof | SRange.

Inductive case :=
| CRead (b : bytes) (ops : list rop) (res : list (rres * N))
| CWrite (ops : list wop) (out : bytes) (sizes : list N)
| CSer (b : bytes) (maxint : N) (r1 r2 : sres)
| CSerWrite (v : N) (d : bytes) (b1 b2 : bytes).

Definition wop_sizes (o : wop) : list N :=
  match o with
  | WVarUint v => [varuint_size v]
  | WVarBytes d => [varuint_size (N.of_nat (length d)) + N.of_nat (length d)]
  | _ => []
  end.

Definition sres_eqb (a b : sres) : bool :=
  match a, b with
  | SNum v r, SNum v' r' => (v =? v') && (r =? r')
  | SBytes d r, SBytes d' r' => bytes_eqb d d' && (r =? r')
  | SEof, SEof => true
  | SRange, SRange => true
  | _, _ => false
  end.

Definition model_ser1 (b : bytes) (maxint : N) : sres :=
  match ser_read_varuint b maxint with
  | inl (v, r) => SNum v (N.of_nat (length r))
  | inr SErrEof => SEof
  | inr SErrRange => SRange
  end.
Definition model_ser2 (b : bytes) : sres :=
  match ser_read_varbytes b with
  | inl (d, r) => SBytes d (N.of_nat (length r))
  | inr _ => SEof
  end.

Definition case_ok (c : case) : bool :=
  match c with
  | CRead b ops res =>
      list_eqb (fun x y => rres_eqb (fst x) (fst y) && (snd x =? snd y)) (run_script (src_new b) ops) res
  | CWrite ops out sizes =>
      bytes_eqb (run_wscript ops) out && list_eqb N.eqb (flat_map wop_sizes ops) sizes
      (* and the model reads its own output back *)
      && list_eqb rres_eqb (map fst (run_script (src_new (run_wscript ops)) (map (fun o => fst (readback o)) ops)))
                           (map (fun o => snd (readback o)) ops)
  | CSer b maxint r1 r2 => sres_eqb (model_ser1 b maxint) r1 && sres_eqb (model_ser2 b) r2
  | CSerWrite v d b1 b2 => bytes_eqb (ser_write_varuint v) b1 && bytes_eqb (ser_write_varbytes d) b2
  end.

Definition mismatches := mism case_ok.
