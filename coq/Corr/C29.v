(** C29 correspondence: Model.Participants against recorded runs of calcParticipantPeers and
    calcParticipant (through /repo/consensus/vbft/verif_hooks_c29.go). [None] = the implementation
    panicked. *)
From Coq Require Import List Bool NArith ZArith.
Import ListNotations.
From Ont Require Export Lib.Bytes Lib.CorrLib Model.Participants.
Local Open Scope N_scope.
Open Scope bool_scope.

Inductive case :=
| CSel (n c : N) (peers pos vrf : list N) (res : option (list N * list N * list N))
| CPart (vrf table : list N) (k : N) (res : option N).

Definition ids_eqb : list N -> list N -> bool := list_eqb N.eqb.

Definition case_ok (c : case) : bool :=
  match c with
  | CSel n cc peers pos vrf res =>
      match calc_participant_peers vrf (mkCfg n cc peers pos), res with
      | SelOk p e cm, Some (p', e', cm') => ids_eqb p p' && ids_eqb e e' && ids_eqb cm cm'
      | SelPanic _, None => true
      | _, _ => false
      end
  | CPart vrf table k res =>
      match calc_participant vrf table k, res with
      | CpPeer id, Some id' => id =? id'
      | CpPanic, None => true
      | _, _ => false
      end
  end.

Definition mismatches := mism case_ok.
