(** C21 correspondence: Model/NeoInt.v against recorded runs of common.BigIntToNeoBytes /
    BigIntFromNeoBytes, common.I128*, native/utils Encode/DecodeVarUint(+Wrapping) and
    states.NativeTokenBalance <-> StorageItem (<-> raw bytes). *)
From Coq Require Import List Bool NArith ZArith.
Import ListNotations.
From Ont Require Export Lib.Bytes Lib.CorrLib Model.NeoInt.
Local Open Scope N_scope.
Open Scope bool_scope.

(** Observables as the driver records them. *)
Inductive verr := VEof | VIrregular | VRange.           (* VRange: "value not uint64" / "negative" *)
Inductive vres := VOk (v : N) (rest : N) | VErr (e : verr).
Inductive bres := BOk (b : Z) | BErrEof | BErrNegative.
Inductive rres := ROk (b : Z) | RErrEof | RErrIrregular | RErrNegative.

Inductive case :=
| CEnc (z : Z) (out : bytes)                                  (* BigIntToNeoBytes *)
| CDec (b : bytes) (z : Z)                                    (* BigIntFromNeoBytes *)
| CI128Of (z : Z) (r : option bytes)                          (* I128FromBigInt; None = error *)
| CI128To (b : bytes) (z u : Z)                               (* I128.ToBigInt, U128.ToBigInt *)
| CI128I64 (z : Z) (b : bytes)                                (* I128FromInt64 *)
| CI128U64 (v : N) (b : bytes)                                (* I128FromUint64 *)
| CVarEnc (v : N) (out : bytes)                               (* EncodeVarUint *)
| CVarDec (b : bytes) (r rw : vres)                           (* DecodeVarUint, DecodeVarUintWrapping *)
| CBalTo (b : Z) (it : option (N * bytes)) (raw : option bytes)  (* MustToStorageItem(+Bytes); None = panic *)
| CBalFrom (ver : N) (val : bytes) (r : bres)                 (* NativeTokenBalanceFromStorageItem *)
| CBalRaw (raw : bytes) (r : rres).                           (* StorageItem.Deserialization + FromStorageItem *)

Definition opt_bytes_eqb (a b : option bytes) : bool :=
  match a, b with
  | Some x, Some y => bytes_eqb x y
  | None, None => true
  | _, _ => false
  end.

Definition verr_eqb (a b : verr) : bool :=
  match a, b with VEof, VEof => true | VIrregular, VIrregular => true | VRange, VRange => true | _, _ => false end.

Definition vres_eqb (a b : vres) : bool :=
  match a, b with
  | VOk v r, VOk v' r' => (v =? v') && (r =? r')
  | VErr e, VErr e' => verr_eqb e e'
  | _, _ => false
  end.

Definition model_vres (x : (N * bytes) + nverr) : vres :=
  match x with
  | inl (v, rest) => VOk v (N.of_nat (length rest))
  | inr NvEof => VErr VEof
  | inr NvIrregular => VErr VIrregular
  | inr NvNotUint64 => VErr VRange
  | inr NvNegative => VErr VRange
  end.

Definition bres_eqb (a b : bres) : bool :=
  match a, b with
  | BOk x, BOk y => Z.eqb x y
  | BErrEof, BErrEof => true
  | BErrNegative, BErrNegative => true
  | _, _ => false
  end.

Definition model_bres (x : Z + balerr) : bres :=
  match x with inl b => BOk b | inr BalEof => BErrEof | inr BalNegative => BErrNegative end.

Definition rres_eqb (a b : rres) : bool :=
  match a, b with
  | ROk x, ROk y => Z.eqb x y
  | RErrEof, RErrEof => true
  | RErrIrregular, RErrIrregular => true
  | RErrNegative, RErrNegative => true
  | _, _ => false
  end.

Definition model_rres (x : Z + rawerr) : rres :=
  match x with
  | inl b => ROk b
  | inr (RawItem ItEofVersion) => RErrEof
  | inr (RawItem ItEof) => RErrEof
  | inr (RawItem ItIrregular) => RErrIrregular
  | inr (RawBal BalEof) => RErrEof
  | inr (RawBal BalNegative) => RErrNegative
  end.

Definition item_opt_eqb (a : option storage_item) (b : option (N * bytes)) : bool :=
  match a, b with
  | Some it, Some (ver, val) => (state_version it =? ver) && bytes_eqb (item_value it) val
  | None, None => true
  | _, _ => false
  end.

Definition case_ok (c : case) : bool :=
  match c with
  | CEnc z out => bytes_eqb (neo_of_Z z) out
  | CDec b z => Z.eqb (Z_of_neo b) z
  | CI128Of z r => opt_bytes_eqb (i128_of_Z z) r
  | CI128To b z u => Z.eqb (Z_of_i128 b) z && Z.eqb (Z_of_u128 b) u
  | CI128I64 z b => bytes_eqb (i128_of_int64 z) b
  | CI128U64 v b => bytes_eqb (i128_of_uint64 v) b
  | CVarEnc v out => bytes_eqb (encode_varuint v) out
  | CVarDec b r rw =>
      vres_eqb (model_vres (decode_varuint b)) r && vres_eqb (model_vres (decode_varuint_wrapping b)) rw
  | CBalTo b it raw => item_opt_eqb (balance_to_item b) it && opt_bytes_eqb (balance_to_bytes b) raw
  | CBalFrom ver val r => bres_eqb (model_bres (balance_of_item (mkItem ver val))) r
  | CBalRaw raw r => rres_eqb (model_rres (balance_of_bytes raw)) r
  end.

Definition mismatches := mism case_ok.
