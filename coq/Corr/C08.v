(** C08 correspondence: Model/StateDB.v against recorded histories of the real
    storage.StateDB (over CacheDB / OverlayDB / in-memory LevelDB, with ong.OngBalanceHandle).

    A case is one history: the effective backend content, the Keccak values of the codes used, the
    universe of addresses and slots that is observed, and for every step the operation, what it
    returned (or that it panicked, and how) and the answers of ALL getters over the universe right
    after it; at the end the raw content of the transaction memdb, the self-destruct set and the
    whole snapshot stack (read through the verif hook). [case_ok] replays the history on the model
    and compares everything. *)
From Coq Require Import List Bool NArith ZArith.
Import ListNotations.
From Ont Require Export Lib.Bytes Lib.CorrLib Model.StateDB.
Local Open Scope N_scope.
Open Scope bool_scope.

(** Compact constructors used by the driver: big-endian fixed-width byte strings. *)
Definition be (w : nat) (v : N) : bytes := rev (le_encode w v).
Definition A (v : N) : bytes := be 20 v.   (* address *)
Definition W (v : N) : bytes := be 32 v.   (* hash / slot / value *)
Definition be_decode (b : bytes) : N := fold_left (fun acc x => acc * 256 + x) b 0.

(** Keccak as a table supplied by the implementation run. *)
Definition mk_H (tbl : list (bytes * bytes)) (code : bytes) : bytes :=
  match find (fun p => bytes_eqb (fst p) code) tbl with
  | Some p => snd p
  | None => []
  end.

Definition b2n (b : bool) : N := if b then 1 else 0.

(** All getters of one address, then of each of its slots. *)
Definition obs_addr (backend : memdb) (s : statedb) (slots : list bytes) (a : bytes) : list N :=
  [ get_nonce backend s a;
    be_decode (get_code_hash backend s a);
    be_decode (1 :: get_code backend s a);
    N.of_nat (get_code_size backend s a);
    get_balance_v backend s a;
    b2n (has_suicided s a);
    b2n (exist backend s a);
    b2n (empty backend s a) ]
  ++ flat_map (fun k => [be_decode (get_state backend s a k); be_decode (get_committed_state backend s a k)]) slots.

Definition obs_vec (backend : memdb) (s : statedb) (addrs slots : list bytes) : list N * bool :=
  (flat_map (obs_addr backend s slots) addrs ++ [get_refund s; N.of_nat (length (get_logs s))] ++ get_logs s,
   existsb (getters_err backend s) addrs).

Definition ret_eqb (a b : ret) : bool :=
  match a, b with
  | RUnit, RUnit => true
  | RBool x, RBool y => eqb x y
  | RInt x, RInt y => Z.eqb x y
  | RPanic, RPanic => true
  | RFault, RFault => true
  | _, _ => false
  end.

Definition kv_eqb (a b : bytes * bytes) : bool := bytes_eqb (fst a) (fst b) && bytes_eqb (snd a) (snd b).
Definition memdb_eqb : memdb -> memdb -> bool := list_eqb kv_eqb.

Definition snapdump := (memdb * list bytes * nat * N)%type.
Definition snap_eqb (sn : snapshot) (d : snapdump) : bool :=
  let '(m, su, n, r) := d in
  memdb_eqb (sn_changes sn) m && list_eqb bytes_eqb (sn_suicided sn) su && Nat.eqb (sn_logsSize sn) n && (sn_refund sn =? r).

Fixpoint snaps_eqb (l : list snapshot) (d : list snapdump) : bool :=
  match l, d with
  | [], [] => true
  | x :: l', y :: d' => snap_eqb x y && snaps_eqb l' d'
  | _, _ => false
  end.

Inductive case :=
| CHist (backend : memdb) (tbl : list (bytes * bytes)) (addrs slots : list bytes)
        (steps : list (op * ret * list N))     (* op, result, getters ++ [dbErr] *)
        (fin_mem : memdb) (fin_suicided : list bytes) (fin_snaps : list snapdump).

Fixpoint replay (H : bytes -> bytes) (backend : memdb) (addrs slots : list bytes)
                (s : statedb) (steps : list (op * ret * list N)) : option statedb :=
  match steps with
  | [] => Some s
  | (o, r, v) :: rest =>
      let '(s1, r1) := step H backend s o in
      let '(vec, e) := obs_vec backend s1 addrs slots in
      let s2 := with_err s1 e in
      if ret_eqb r1 r && list_eqb N.eqb (vec ++ [b2n (sd_err s2)]) v
      then replay H backend addrs slots s2 rest
      else None
  end.

Definition case_ok (c : case) : bool :=
  match c with
  | CHist backend tbl addrs slots steps fm fs fsn =>
      match replay (mk_H tbl) backend addrs slots sdb_new steps with
      | None => false
      | Some s => memdb_eqb (sd_mem s) fm && list_eqb bytes_eqb (sd_suicided s) fs && snaps_eqb (sd_snaps s) fsn
      end
  end.

Definition mismatches := mism case_ok.

(** Index of the first step on which the model disagrees (for diagnosis by hand). *)
Fixpoint first_bad (H : bytes -> bytes) (backend : memdb) (addrs slots : list bytes)
                   (s : statedb) (steps : list (op * ret * list N)) (i : nat) : option (nat * ret * list N) :=
  match steps with
  | [] => None
  | (o, r, v) :: rest =>
      let '(s1, r1) := step H backend s o in
      let '(vec, e) := obs_vec backend s1 addrs slots in
      let s2 := with_err s1 e in
      if ret_eqb r1 r && list_eqb N.eqb (vec ++ [b2n (sd_err s2)]) v
      then first_bad H backend addrs slots s2 rest (S i)
      else Some (i, r1, vec ++ [b2n (sd_err s2)])
  end.
