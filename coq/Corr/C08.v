(** C08 correspondence: Model/StateDB.v against recorded histories of the real
    storage.StateDB (over CacheDB / OverlayDB / in-memory LevelDB, with ong.OngBalanceHandle).

    A case is one history: the Keccak values of the codes used, the universe of addresses and slots
    that is observed, the effective backend content, and for every step the operation, what it
    returned (or that it panicked, and how) and the answers of ALL getters over the universe right
    after it, followed by DbErr; at the end the raw content of the transaction memdb, the
    self-destruct set and the whole snapshot stack (read through the verif hook).
    [case_ok] replays the history on the model and compares everything.

    Two forms. [CHist] carries the getter vectors and the final dump literally (scripted histories
    and replays). [CHistD] carries, per step, a 61-bit fingerprint of (result, getter vector, DbErr)
    and one of the final dump: Coq needs ~0.1-20 ms to read one numeral, so literal vectors
    (about 40 numbers per step) are affordable only for a few histories. The fingerprint is the
    polynomial hash [digest] below over the same numbers in the same order, computed by the driver
    on the implementation's answers and here on the model's. *)
From Coq Require Import List Bool NArith ZArith.
Import ListNotations.
From Ont Require Export Lib.Bytes Lib.CorrLib Model.StateDB.
From Ont Require Import Gen.StateDBConsts.
Local Open Scope N_scope.
Open Scope bool_scope.

(** Compact constructors used by the driver: big-endian fixed-width byte strings. *)
Definition be (w : nat) (v : N) : bytes := rev (le_encode w v).
Definition A (v : N) : bytes := be 20 v.              (* address with a small numeric value *)
Definition AH (v : N) : bytes := be 4 v ++ repeat 0 16. (* address: 4 leading bytes, rest zero *)
Definition W (v : N) : bytes := be 32 v.              (* 32-byte word with a small numeric value *)
Definition WH (v : N) : bytes := be 4 v ++ repeat 0 28. (* word: 4 leading bytes, rest zero *)
Definition WF : bytes := repeat 255 32.
Definition AF (v : N) : bytes := repeat 255 19 ++ [v].
Definition be_decode (b : bytes) : N := fold_left (fun acc x => acc * 256 + x) b 0.
Definition bn (b : bytes) : N := be_decode (1 :: b).   (* injective on byte strings *)

(** Keccak as a table supplied by the implementation run. *)
Definition mk_H (tbl : list (bytes * bytes)) (code : bytes) : bytes :=
  match find (fun p => bytes_eqb (fst p) code) tbl with
  | Some p => snd p
  | None => []
  end.

Definition b2n (b : bool) : N := if b then 1 else 0.

(** All getters of one address, then of each of its slots. *)
Definition obs_addr (backend : memdb) (s : statedb) (slots : list bytes) (a : bytes) : list N :=
  [ get_nonce backend s a;
    be_decode (get_code_hash backend s a);
    bn (get_code backend s a);
    N.of_nat (get_code_size backend s a);
    get_balance_v backend s a;
    b2n (has_suicided s a);
    b2n (exist backend s a);
    b2n (empty backend s a) ]
  ++ flat_map (fun k => [be_decode (get_state backend s a k); be_decode (get_committed_state backend s a k)]) slots.

Definition obs_vec (backend : memdb) (s : statedb) (addrs slots : list bytes) : list N * bool :=
  (flat_map (obs_addr backend s slots) addrs ++ [get_refund s; N.of_nat (length (get_logs s))] ++ get_logs s,
   existsb (getters_err backend s) addrs).

Definition ret_eqb (a b : ret) : bool :=
  match a, b with
  | RUnit, RUnit => true
  | RBool x, RBool y => eqb x y
  | RInt x, RInt y => Z.eqb x y
  | RPanic, RPanic => true
  | RFault, RFault => true
  | _, _ => false
  end.

Definition ret_code (r : ret) : list N :=
  match r with
  | RUnit => [0]
  | RBool b => [1; b2n b]
  | RInt z => [2; Z.to_N z]
  | RPanic => [3]
  | RFault => [4]
  end.

(** Fingerprint: polynomial hash modulo the Mersenne number 2^61-1, reduced by folding
    ([N.modulo] costs ~0.15 ms per call under vm_compute, shifts and masks almost nothing). *)
Definition M61 : N := 2305843009213693951.
Definition DBASE : N := 1000000007.
Fixpoint red61 (fuel : nat) (x : N) : N :=
  match fuel with
  | O => x
  | S f => if x <=? M61 then x else red61 f (N.land x M61 + N.shiftr x 61)
  end.
Definition mix (h x : N) : N := red61 24 (h * DBASE + red61 24 x + 1).
Definition digest (seed : N) (l : list N) : N := fold_left mix l seed.

(** Final dump as a list of numbers. *)
Definition mem_nums (m : memdb) : list N :=
  N.of_nat (length m) :: flat_map (fun kv => [bn (fst kv); bn (snd kv)]) m.
Definition set_nums (l : list bytes) : list N := N.of_nat (length l) :: map bn l.
Definition snap_nums (sn : snapshot) : list N :=
  mem_nums (sn_changes sn) ++ set_nums (sn_suicided sn) ++ [N.of_nat (sn_logsSize sn); sn_refund sn].
Definition final_nums (s : statedb) : list N :=
  mem_nums (sd_mem s) ++ set_nums (sd_suicided s) ++ N.of_nat (length (sd_snaps s)) :: flat_map snap_nums (sd_snaps s).

(** Operations over the universe (addresses, slots and codes by position). *)
Inductive cop :=
| CSetState (a s : nat) (v : bytes)
| CSetNonce (a : nat) (n : N)
| CSetCode (a c : nat)
| CAddBalance (a : nat) (v : N)
| CSubBalance (a : nat) (v : N)
| CSuicide (a : nat)
| CAddLog (l : N)
| CAddRefund (g : N)
| CSubRefund (g : N)
| CCreate (a : nat)
| CBurst (a s : nat) (n : nat) (v : N)   (* n SetState calls on one slot, values W v, W (v+1), ... *)
| CSnap
| CRevert (i : Z)
| CDiscard (i : Z).

Definition nthb (l : list bytes) (i : nat) : bytes := nth i l [].

Definition to_ops (tbl : list (bytes * bytes)) (addrs slots : list bytes) (o : cop) : list op :=
  match o with
  | CSetState a s v => [OSetState (nthb addrs a) (nthb slots s) v]
  | CSetNonce a n => [OSetNonce (nthb addrs a) n]
  | CSetCode a c => [OSetCode (nthb addrs a) (fst (nth c tbl ([], [])))]
  | CAddBalance a v => [OAddBalance (nthb addrs a) v]
  | CSubBalance a v => [OSubBalance (nthb addrs a) v]
  | CSuicide a => [OSuicide (nthb addrs a)]
  | CAddLog l => [OAddLog l]
  | CAddRefund g => [OAddRefund g]
  | CSubRefund g => [OSubRefund g]
  | CCreate a => [OCreateAccount (nthb addrs a)]
  | CBurst a s n v => map (fun i => OSetState (nthb addrs a) (nthb slots s) (W (v + N.of_nat i))) (seq 0 n)
  | CSnap => [OSnapshot]
  | CRevert i => [ORevert i]
  | CDiscard i => [ODiscard i]
  end.

(** run a (non-empty) list of model operations; the result is the last one's (RUnit for none). *)
Fixpoint run_ops (H : bytes -> bytes) (backend : memdb) (s : statedb) (ops : list op) (r : ret) : statedb * ret :=
  match ops with
  | [] => (s, r)
  | o :: rest => let '(s1, r1) := step H backend s o in run_ops H backend s1 rest r1
  end.

(** Backend entries, by position in the universe where possible. Keys are built with the model's
    own key functions (from the regenerated constants); the implementation was given keys built
    from the real package constants, so a layout disagreement shows as wrong reads. *)
Inductive hsel := HZero | HTbl (c : nat) | HRaw (b : bytes).
Inductive bent :=
| BRaw (k v : bytes)
| BAcct (a : nat) (nonce : N) (h : hsel)
| BAcctRaw (a : nat) (raw : bytes)
| BBal (a : nat) (v : N)
| BBalRaw (a : nat) (raw : bytes)
| BSlot (a s : nat) (v : bytes)
| BCode (h : hsel) (code : bytes).

Definition hsel_bytes (tbl : list (bytes * bytes)) (h : hsel) : bytes :=
  match h with HZero => zero_hash | HTbl c => snd (nth c tbl ([], [])) | HRaw b => b end.

Definition bent_kv (tbl : list (bytes * bytes)) (addrs slots : list bytes) (e : bent) : bytes * bytes :=
  match e with
  | BRaw k v => (k, v)
  | BAcct a n h => (ST_ETH_ACCOUNT :: nthb addrs a, acct_ser (mkAcct n (hsel_bytes tbl h)))
  | BAcctRaw a raw => (ST_ETH_ACCOUNT :: nthb addrs a, raw)
  | BBal a v => (ST_STORAGE :: balance_key (nthb addrs a),
                 match balance_item v with Some b => b | None => [] end)
  | BBalRaw a raw => (ST_STORAGE :: balance_key (nthb addrs a), raw)
  | BSlot a s v => (ST_STORAGE :: nthb addrs a ++ nthb slots s, v)
  | BCode h code => (ST_ETH_CODE :: hsel_bytes tbl h, code)
  end.

Inductive vstep := VSt (o : cop) (r : ret) (v : list N).   (* getters ++ [dbErr] *)
Inductive dstep := DSt (o : cop) (r : ret) (d : N).        (* fingerprint of ret, getters, dbErr *)

Definition kv_eqb (a b : bytes * bytes) : bool := bytes_eqb (fst a) (fst b) && bytes_eqb (snd a) (snd b).
Definition memdb_eqb : memdb -> memdb -> bool := list_eqb kv_eqb.

Inductive snapdump := SnapD (m : memdb) (su : list bytes) (n : nat) (r : N).
Definition snap_eqb (sn : snapshot) (d : snapdump) : bool :=
  let '(SnapD m su n r) := d in
  memdb_eqb (sn_changes sn) m && list_eqb bytes_eqb (sn_suicided sn) su && Nat.eqb (sn_logsSize sn) n && (sn_refund sn =? r).

Fixpoint snaps_eqb (l : list snapshot) (d : list snapdump) : bool :=
  match l, d with
  | [], [] => true
  | x :: l', y :: d' => snap_eqb x y && snaps_eqb l' d'
  | _, _ => false
  end.

Inductive case :=
| CHist (tbl : list (bytes * bytes)) (addrs slots : list bytes) (backend : list bent)
        (steps : list vstep)
        (fin_mem : memdb) (fin_suicided : list bytes) (fin_snaps : list snapdump)
| CHistD (tbl : list (bytes * bytes)) (addrs slots : list bytes) (backend : list bent)
        (steps : list dstep) (fin : N).

Section Replay.
  Variable tbl : list (bytes * bytes).
  Variable addrs slots : list bytes.
  Variable backend : memdb.

  (** one step on the model: new state (with the error flag the getters may have set), result,
      getter vector ++ [dbErr] *)
  Definition model_step (s : statedb) (o : cop) : statedb * ret * list N :=
    let '(s1, r1) := run_ops (mk_H tbl) backend s (to_ops tbl addrs slots o) RUnit in
    let '(vec, e) := obs_vec backend s1 addrs slots in
    let s2 := with_err s1 e in
    (s2, r1, vec ++ [b2n (sd_err s2)]).

  Fixpoint replay_v (s : statedb) (steps : list vstep) : option statedb :=
    match steps with
    | [] => Some s
    | VSt o r v :: rest =>
        let '(s2, r1, vec) := model_step s o in
        if ret_eqb r1 r && list_eqb N.eqb vec v then replay_v s2 rest else None
    end.

  Fixpoint replay_d (s : statedb) (steps : list dstep) : option statedb :=
    match steps with
    | [] => Some s
    | DSt o r d :: rest =>
        let '(s2, r1, vec) := model_step s o in
        if ret_eqb r1 r && (digest 7 (ret_code r1 ++ vec) =? d) then replay_d s2 rest else None
    end.

  (** Diagnosis by hand: index of the first disagreeing step and what the model answers there. *)
  Fixpoint first_bad_v (s : statedb) (steps : list vstep) (i : nat) : option (nat * ret * list N) :=
    match steps with
    | [] => None
    | VSt o r v :: rest =>
        let '(s2, r1, vec) := model_step s o in
        if ret_eqb r1 r && list_eqb N.eqb vec v then first_bad_v s2 rest (S i) else Some (i, r1, vec)
    end.
  Fixpoint first_bad_d (s : statedb) (steps : list dstep) (i : nat) : option (nat * ret * list N) :=
    match steps with
    | [] => None
    | DSt o r d :: rest =>
        let '(s2, r1, vec) := model_step s o in
        if ret_eqb r1 r && (digest 7 (ret_code r1 ++ vec) =? d) then first_bad_d s2 rest (S i) else Some (i, r1, vec)
    end.
End Replay.

Definition mk_backend (tbl : list (bytes * bytes)) (addrs slots : list bytes) (b : list bent) : memdb :=
  map (bent_kv tbl addrs slots) b.

Definition case_ok (c : case) : bool :=
  match c with
  | CHist tbl addrs slots b steps fm fs fsn =>
      match replay_v tbl addrs slots (mk_backend tbl addrs slots b) sdb_new steps with
      | None => false
      | Some s => memdb_eqb (sd_mem s) fm && list_eqb bytes_eqb (sd_suicided s) fs && snaps_eqb (sd_snaps s) fsn
      end
  | CHistD tbl addrs slots b steps fin =>
      match replay_d tbl addrs slots (mk_backend tbl addrs slots b) sdb_new steps with
      | None => false
      | Some s => digest 11 (final_nums s) =? fin
      end
  end.

Definition mismatches := mism case_ok.

Definition first_bad (c : case) : option (nat * ret * list N) :=
  match c with
  | CHist tbl addrs slots b steps _ _ _ => first_bad_v tbl addrs slots (mk_backend tbl addrs slots b) sdb_new steps 0
  | CHistD tbl addrs slots b steps _ => first_bad_d tbl addrs slots (mk_backend tbl addrs slots b) sdb_new steps 0
  end.
