(** C25 correspondence: Model/CrossVM.v against recorded runs of vm/crossvm_codec
    (EncodeValue, DecodeValue, DeserializeCallParam, parseNotify, DeserializeNotify). *)
From Coq Require Import List Bool NArith ZArith.
Import ListNotations.
From Ont Require Export Lib.Bytes Lib.CorrLib Model.Codec Model.CrossVM.
Local Open Scope N_scope.
Open Scope bool_scope.

(** What the harness observes of a decode: the value and Pos() of the source afterwards, or which
    of the two package errors came back. *)
Inductive dobs := OOk (v : value) (pos : N) | OErrFormat | OErrNotSupported.

Definition obs_of (r : dres value) : option dobs :=
  match r with
  | DOk v s => Some (OOk v (src_pos s))
  | DErr ErrFormat => Some OErrFormat
  | DErr ErrNotSupported => Some OErrNotSupported
  | DFuel => None
  end.

Definition wobs_of (r : wres) : option dobs := match r with WRes r => obs_of r | WPanic => None end.

Definition dobs_eqb (a b : dobs) : bool :=
  match a, b with
  | OOk v p, OOk v' p' => value_eqb v v' && (p =? p')
  | OErrFormat, OErrFormat => true
  | OErrNotSupported, OErrNotSupported => true
  | _, _ => false
  end.

Definition obs_ok (m : option dobs) (impl : dobs) : bool :=
  match m with Some o => dobs_eqb o impl | None => false end.

Definition eres_eqb (a b : eres) : bool :=
  match a, b with
  | EOk x, EOk y => bytes_eqb x y
  | EErrRange, EErrRange => true
  | EErrUnsupported, EErrUnsupported => true
  | _, _ => false
  end.

(** * Compact descriptions (boundary families: long lists, long byte strings)
    Values and inputs with thousands of equal parts are written with repetition constructors that
    are expanded here, so that cases.v stays small. A length and a fingerprint of the actual bytes
    the implementation produced / was given tie the description to them. *)
Inductive gexp :=
| EVal (g : gvalue)
| ERep (n : N) (e : gexp)           (* n consecutive copies (as items of the enclosing list) *)
| EList (items : list gexp)
| EBytes (n x : N)                  (* GBytes of n bytes x *)
| EString (n x : N).

Fixpoint gitems (e : gexp) : list gvalue :=
  match e with
  | EVal g => [g]
  | ERep n e' => concat (repeat (gitems e') (N.to_nat n))
  | EList items => [GList (flat_map gitems items)]
  | EBytes n x => [GBytes (repeat x (N.to_nat n))]
  | EString n x => [GString (repeat x (N.to_nat n))]
  end.
Definition gexpand (e : gexp) : gvalue := match gitems e with [g] => g | l => GList l end.

Inductive bexp := BRaw (b : bytes) | BRep (n : N) (e : bexp) | BCat (l : list bexp).
Fixpoint bexpand (e : bexp) : bytes :=
  match e with
  | BRaw b => b
  | BRep n e' => concat (repeat (bexpand e') (N.to_nat n))
  | BCat l => flat_map bexpand l
  end.

(** Fingerprint of a byte string (the harness computes the same over the real bytes). *)
Definition fp (b : bytes) : N := fold_left (fun h x => (h * 1000003 + x + 1) mod 4294967291) b 7.
Definition same_bytes (b : bytes) (len f : N) : bool := (N.of_nat (length b) =? len) && (fp b =? f).

Inductive eresx := EXOk (len f : N) | EXErrRange | EXErrUnsupported.
Definition eresx_ok (m : eres) (r : eresx) : bool :=
  match m, r with
  | EOk b, EXOk len f => same_bytes b len f
  | EErrRange, EXErrRange => true
  | EErrUnsupported, EXErrUnsupported => true
  | _, _ => false
  end.

Inductive dobsx := XOk (e : gexp) (pos : N) | XErrFormat | XErrNotSupported.
Definition dobs_of_x (r : dobsx) : dobs :=
  match r with
  | XOk e pos => OOk (norm (gexpand e)) pos
  | XErrFormat => OErrFormat
  | XErrNotSupported => OErrNotSupported
  end.

Inductive case :=
(** EncodeValue(g) returned [res]; [indomain] is the generator's claim that g satisfies the
    hypotheses of the round-trip theorem. *)
| CEnc (g : gvalue) (indomain : bool) (res : eres)
(** DecodeValue on a source over [b] after Skip(skip). *)
| CDec (b : bytes) (skip : N) (res : dobs)
(** DeserializeCallParam(b) *)
| CCall (b : bytes) (res : dobs)
(** parseNotify(b) *)
| CNotify (b : bytes) (res : dobs)
(** DeserializeNotify(b) returned the raw input ([raw] = true) or a rendered value. *)
| CNotifyOut (b : bytes) (raw : bool)
(** The same observations on compactly described values / inputs. *)
| CEncX (e : gexp) (indomain : bool) (res : eresx)
| CDecX (b : bexp) (skip len f : N) (res : dobsx)
| CCallX (b : bexp) (len f : N) (res : dobsx)
| CNotifyX (b : bexp) (len f : N) (res : dobsx).

Definition enc_ok (g : gvalue) (indomain : bool) : bool :=
  eqb indomain (wf_g g && top_supported g)
  && (if indomain then
        (* the model decodes its own output back to the normalised value, consuming all of it *)
        match g_encode_value g with
        | EOk b => obs_ok (obs_of (decode_value (src_new b))) (OOk (norm g) (N.of_nat (length b)))
        | _ => false
        end
      else true).

Definition case_ok (c : case) : bool :=
  match c with
  | CEnc g indomain res => eres_eqb (g_encode_value g) res && enc_ok g indomain
  | CDec b sk res =>
      let '(_, s) := skip (src_new b) sk in obs_ok (obs_of (decode_value s)) res
  | CCall b res => obs_ok (wobs_of (deserialize_call_param b)) res
  | CNotify b res => obs_ok (wobs_of (parse_notify b)) res
  | CNotifyOut b raw =>
      match deserialize_notify b with
      | NRaw b' => raw && bytes_eqb b b'
      | NParsed _ => negb raw
      | NPanic => false
      end
  | CEncX e indomain res =>
      let g := gexpand e in eresx_ok (g_encode_value g) res && enc_ok g indomain
  | CDecX be sk len f res =>
      let b := bexpand be in
      same_bytes b len f &&
      let '(_, s) := skip (src_new b) sk in obs_ok (obs_of (decode_value s)) (dobs_of_x res)
  | CCallX be len f res =>
      let b := bexpand be in same_bytes b len f && obs_ok (wobs_of (deserialize_call_param b)) (dobs_of_x res)
  | CNotifyX be len f res =>
      let b := bexpand be in same_bytes b len f && obs_ok (wobs_of (parse_notify b)) (dobs_of_x res)
  end.

Definition mismatches := mism case_ok.
