(** C25 correspondence: Model/CrossVM.v against recorded runs of vm/crossvm_codec
    (EncodeValue, DecodeValue, DeserializeCallParam, parseNotify, DeserializeNotify). *)
From Coq Require Import List Bool NArith ZArith.
Import ListNotations.
From Ont Require Export Lib.Bytes Lib.CorrLib Model.Codec Model.CrossVM.
Local Open Scope N_scope.
Open Scope bool_scope.

(** What the harness observes of a decode: the value and Pos() of the source afterwards, or which
    of the two package errors came back. *)
Inductive dobs := OOk (v : value) (pos : N) | OErrFormat | OErrNotSupported.

Definition obs_of (r : dres value) : option dobs :=
  match r with
  | DOk v s => Some (OOk v (src_pos s))
  | DErr ErrFormat => Some OErrFormat
  | DErr ErrNotSupported => Some OErrNotSupported
  | DFuel => None
  end.

Definition wobs_of (r : wres) : option dobs := match r with WRes r => obs_of r | WPanic => None end.

Definition dobs_eqb (a b : dobs) : bool :=
  match a, b with
  | OOk v p, OOk v' p' => value_eqb v v' && (p =? p')
  | OErrFormat, OErrFormat => true
  | OErrNotSupported, OErrNotSupported => true
  | _, _ => false
  end.

Definition obs_ok (m : option dobs) (impl : dobs) : bool :=
  match m with Some o => dobs_eqb o impl | None => false end.

Definition eres_eqb (a b : eres) : bool :=
  match a, b with
  | EOk x, EOk y => bytes_eqb x y
  | EErrRange, EErrRange => true
  | EErrUnsupported, EErrUnsupported => true
  | _, _ => false
  end.

Inductive case :=
(** EncodeValue(g) returned [res]; [indomain] is the generator's claim that g satisfies the
    hypotheses of the round-trip theorem. *)
| CEnc (g : gvalue) (indomain : bool) (res : eres)
(** DecodeValue on a source over [b] after Skip(skip). *)
| CDec (b : bytes) (skip : N) (res : dobs)
(** DeserializeCallParam(b) *)
| CCall (b : bytes) (res : dobs)
(** parseNotify(b) *)
| CNotify (b : bytes) (res : dobs)
(** DeserializeNotify(b) returned the raw input ([raw] = true) or a rendered value. *)
| CNotifyOut (b : bytes) (raw : bool).

Definition case_ok (c : case) : bool :=
  match c with
  | CEnc g indomain res =>
      eres_eqb (g_encode_value g) res
      && eqb indomain (wf_g g && top_supported g)
      && (if indomain then
            (* the model decodes its own output back to the normalised value, consuming all of it *)
            match g_encode_value g with
            | EOk b => obs_ok (obs_of (decode_value (src_new b))) (OOk (norm g) (N.of_nat (length b)))
            | _ => false
            end
          else true)
  | CDec b sk res =>
      let '(_, s) := skip (src_new b) sk in obs_ok (obs_of (decode_value s)) res
  | CCall b res => obs_ok (wobs_of (deserialize_call_param b)) res
  | CNotify b res => obs_ok (wobs_of (parse_notify b)) res
  | CNotifyOut b raw =>
      match deserialize_notify b with
      | NRaw b' => raw && bytes_eqb b b'
      | NParsed _ => negb raw
      | NPanic => false
      end
  end.

Definition mismatches := mism case_ok.
