(** C07 correspondence: Model/EvmEnvelope.v against recorded runs of
    StateStore.HandleEIP155Transaction.  The interpreter's observed effect on the recorded accounts
    (left-over gas, refund counter, error, balances / nonces / code flags / suicide set after the
    invocation) is supplied as the model's [run]; the oracle also checks that the model invokes the
    interpreter with the gas, the creation flag and the sender balance the implementation used. *)
From Coq Require Import List Bool NArith.
Import ListNotations.
From Ont Require Export Lib.Bytes Lib.CorrLib Gen.EvmEnvelopeGen Model.EvmEnvelope Model.EvmFrames.
Local Open Scope N_scope.
Open Scope bool_scope.

Record acct := mkA { a_id : N; a_bal : N; a_nonce : N; a_code : bool }.

Fixpoint find_acct (l : list acct) (a : N) : option acct :=
  match l with
  | [] => None
  | x :: r => if a_id x =? a then Some x else find_acct r a
  end.

Definition st_of (l : list acct) : state unit :=
  mkState (fun a => match find_acct l a with Some x => a_bal x | None => 0 end)
          (fun a => match find_acct l a with Some x => a_nonce x | None => 0 end)
          (fun a => match find_acct l a with Some x => a_code x | None => false end)
          (fun _ => false) false tt.

(** the state after the invocation: recorded accounts overwrite, everything else as handed in *)
Definition overlay (s : state unit) (l : list acct) (su : list N) : state unit :=
  mkState (fun a => match find_acct l a with Some x => a_bal x | None => bal s a end)
          (fun a => match find_acct l a with Some x => a_nonce x | None => nonce s a end)
          (fun a => match find_acct l a with Some x => a_code x | None => has_code s a end)
          (fun a => existsb (N.eqb a) su) (dberr s) tt.

Inductive oracle :=
| NoRun
| Ran (create : bool) (gas_in sender_bal : N) (gas_left refund : N) (err : option N)
      (post : list acct) (suicided : list N).

Definition poison (s : state unit) : run_result unit := mkRun s 0 0 (Some 999).

Definition oracle_run (o : oracle) (c : bool) (s : state unit) (m : msg) (g : N) : run_result unit :=
  match o with
  | NoRun => poison s
  | Ran c' gin sb gl rf err post su =>
      if Bool.eqb c c' && (g =? gin) && (bal s (m_from m) =? sb)
      then mkRun (overlay s post su) gl rf err
      else poison s
  end.

Inductive obs := ObsErr (code : N) | ObsOk (used : N) (failed : option N).

Definition vm_code (e : option vm_err) : option N :=
  match e with
  | None => None
  | Some VmIntrinsicGas => Some 1
  | Some VmInsufficientFundsForTransfer => Some 2
  | Some (VmRun k) => Some (100 + k)
  end.

Definition optN_eqb (a b : option N) : bool :=
  match a, b with Some x, Some y => x =? y | None, None => true | _, _ => false end.

Definition obs_ok (o : outcome) (r : obs) : bool :=
  match o, r with
  | OErr ErrNonceTooHigh, ObsErr 1 => true
  | OErr ErrNonceTooLow, ObsErr 2 => true
  | ODbErr, ObsErr 3 => true
  | OOk res, ObsOk used failed => (used_gas res =? used) && optN_eqb (vm_code (vm_error res)) failed
  | _, _ => false
  end.

Definition acct_ok (s : state unit) (x : acct) : bool :=
  (bal s (a_id x) =? a_bal x) && (nonce s (a_id x) =? a_nonce x) && Bool.eqb (has_code s (a_id x)) (a_code x).

Definition clean_unit : (addr -> bool) -> unit -> unit := fun _ u => u.

(** The frame model instrumented with a log: for every SELFDESTRUCT the tree executes (also inside
    frames that are reverted later), the executing contract, the balance opSuicide moves, and the
    contract's balance right after StateDB.Suicide -- what the tracer observes at that moment.
    [case_ok] also requires the state of this instrumented copy to agree with [run_effect]. *)
Fixpoint run_log (h d : N) (self : addr) (s : state unit) (ef : effect) {struct ef}
  : state unit * list (N * N * N) :=
  match ef with
  | ESelfDestruct ben =>
      let s' := op_selfdestruct s self ben in (s', [(self, bal s self, bal s' self)])
  | EFrame k to v ok body =>
      let run_body (ctx : addr) :=
        (fix go (l : list effect) (st : state unit) (acc : list (N * N * N)) {struct l} :=
           match l with
           | [] => (st, acc)
           | e :: r => let '(st', lg) := run_log h (d + 1) ctx st e in go r st' (acc ++ lg)
           end) body in
      if CALL_CREATE_DEPTH <? d then (s, [])
      else
      match k with
      | KCall =>
          if (negb (v =? 0)) && negb (can_transfer (bal s self) v) then (s, [])
          else
            let s1 := transfer s self to v in
            let '(s2, lg) := if has_code s1 to then run_body to s1 [] else (s1, []) in
            (if ok then s2 else s, lg)
      | KCallCode =>
          if negb (can_transfer (bal s self) v) then (s, [])
          else let '(s2, lg) := run_body self s [] in (if ok then s2 else s, lg)
      | KDelegateCall => let '(s2, lg) := run_body self s [] in (if ok then s2 else s, lg)
      | KStaticCall => (if ok then add_balance s to 0 else s, [])
      | KCreate =>
          if negb (can_transfer (bal s self) v) then (s, [])
          else
            let s0 := set_nonce s self (next_nonce (nonce s self)) in
            if collision s0 to then (s0, [])
            else
              let s1 := if is_fork EIP158_BLOCK h then set_nonce s0 to 1 else s0 in
              let '(s2, lg) := run_body to (transfer s1 self to v) [] in
              (if ok then set_code s2 to else s0, lg)
      end
  end.

Definition sd_eqb (a b : N * N * N) : bool :=
  let '(a1, a2, a3) := a in let '(b1, b2, b3) := b in (a1 =? b1) && (a2 =? b2) && (a3 =? b3).

Inductive case :=
| CTx (chain height receiver : N) (pre : list acct) (m : msg) (o : oracle) (r : obs) (post : list acct)
| CSuicide (pre : list acct) (from to value beneficiary : N) (post : list acct) (suicided : list N)
| CTree (height : N) (pre : list acct) (sender : N) (create : bool) (target value : N) (ok : bool)
        (body : list effect) (post : list acct) (suicided : list N)
        (sdlog : list (N * N * N)) (* per executed SELFDESTRUCT: contract, balance moved, balance after *).

Definition case_ok (c : case) : bool :=
  match c with
  | CTx chain height receiver pre m o r post =>
      let e := mkEnv chain height receiver in
      let '(out, s') := handle_eip155 clean_unit (oracle_run o) e (st_of pre) m in
      (* [post] lists the accounts of [pre] whose record changed; the others must be unchanged *)
      obs_ok out r && forallb (acct_ok s') post
      && forallb (fun x => match find_acct post (a_id x) with Some _ => true | None => acct_ok s' x end) pre
  | CSuicide pre from to value ben post su =>
      (* evm.Call into a contract whose code is `PUSH beneficiary; SELFDESTRUCT`: the nonce step of
         TransitionDb, the value transfer, then opSuicide *)
      let s0 := set_nonce (st_of pre) from (next_nonce (nonce (st_of pre) from)) in
      let s1 := op_selfdestruct (transfer s0 from to value) to ben in
      forallb (acct_ok s1) post
      && forallb (fun x => Bool.eqb (suicided s1 (a_id x)) (existsb (N.eqb (a_id x)) su)) post
  | CTree height pre sender create target value ok body post su sdlog =>
      (* [pre] is the state after buyGas; TransitionDb advances the nonce itself before evm.Call *)
      let s0 := if create then st_of pre
                else set_nonce (st_of pre) sender (next_nonce (nonce (st_of pre) sender)) in
      let s1 := run_effect height 0 sender s0 (EFrame (if create then KCreate else KCall) target value ok body) in
      forallb (acct_ok s1) post
      && forallb (fun x => match find_acct post (a_id x) with Some _ => true | None => acct_ok s1 x end) pre
      && forallb (fun x => Bool.eqb (suicided s1 (a_id x)) (existsb (N.eqb (a_id x)) su)) pre
      (* the instrumented copy: same state, and every SELFDESTRUCT (the second one of a contract
         included) leaves the balance the implementation showed at that moment *)
      && (let '(s2, lg) := run_log height 0 sender s0 (EFrame (if create then KCreate else KCall) target value ok body) in
          forallb (acct_ok s2) post
          && forallb (fun x => match find_acct post (a_id x) with Some _ => true | None => acct_ok s2 x end) pre
          && list_eqb sd_eqb lg sdlog)
  end.

Definition mismatches := mism case_ok.
