(** C22 correspondence: Model/Base58.v against recorded runs of common/address.go
    (ToBase58, AddressFromBase58, ToHexString, AddressFromHexString, AddressParseFromBytes), of the
    linked base58 package (Encode, Decode) and of the math/big conversions used.

    SHA-256: the executable Lib/Sha256.v costs ~0.2 s per hash under vm_compute, so most cases carry
    the hash values the run needs as a table [(input, crypto/sha256 output)] and the model is run
    with the table as [H] (a query outside the table answers [[]], which makes the case fail); the
    [*Sha] cases run the model with the real Lib/Sha256.sha256 and tie it to crypto/sha256 on
    address payloads. *)
From Coq Require Import List Bool NArith.
Import ListNotations.
From Ont Require Export Lib.Bytes Lib.CorrLib Lib.Sha256 Model.Base58.
Local Open Scope N_scope.
Open Scope bool_scope.

Definition htable := list (bytes * bytes).

Fixpoint tbl_hash (t : htable) (x : bytes) : bytes :=
  match t with
  | [] => []
  | (k, v) :: r => if bytes_eqb k x then v else tbl_hash r x
  end.

(** result of AddressFromBase58 as recorded by the driver *)
Inductive ares := AOk (a : bytes) | AErr (e : aerr) | AUnknownErr.
Inductive hres := HOk (a : bytes) | HErr (e : herr) | HUnknownErr.

Definition aerr_eqb (x y : aerr) : bool :=
  match x, y with
  | EInvalid, EInvalid | EBadChar, EBadChar | EWrong, EWrong | EParseLen, EParseLen | EVerify, EVerify => true
  | _, _ => false
  end.

Definition herr_eqb (x y : herr) : bool :=
  match x, y with
  | HErrLength, HErrLength | HParseLen, HParseLen => true
  | HErrChar c, HErrChar d => c =? d
  | _, _ => false
  end.

Definition ares_ok (m : aerr + bytes) (r : ares) : bool :=
  match m, r with
  | inr a, AOk b => bytes_eqb a b
  | inl e, AErr f => aerr_eqb e f
  | _, _ => false
  end.

Definition hres_ok (m : herr + bytes) (r : hres) : bool :=
  match m, r with
  | inr a, HOk b => bytes_eqb a b
  | inl e, HErr f => herr_eqb e f
  | _, _ => false
  end.

Definition obytes_eqb (x y : option bytes) : bool :=
  match x, y with
  | Some a, Some b => bytes_eqb a b
  | None, None => true
  | _, _ => false
  end.

Inductive case :=
| CTo (a : bytes) (t : htable) (out : bytes)              (* Address.ToBase58 *)
| CFrom (s : bytes) (t : htable) (r : ares)               (* AddressFromBase58 *)
| CToSha (a : bytes) (out : bytes)                        (* the same with Lib/Sha256 *)
| CFromSha (s : bytes) (r : ares)
| CHexTo (a : bytes) (out : bytes)                        (* Address.ToHexString *)
| CHexFrom (s : bytes) (r : hres)                         (* AddressFromHexString *)
| CParse (f : bytes) (r : ares)                           (* AddressParseFromBytes *)
| CB58Enc (src : bytes) (r : option bytes)                (* base58.BitcoinEncoding.Encode *)
| CB58Dec (src : bytes) (r : option bytes)                (* base58.BitcoinEncoding.Decode *)
| CBig (d : bytes) (str back : bytes)                     (* SetBytes(d).String(), SetBytes(d).Bytes() *)
| CBigStr (s : bytes) (r : option bytes).                 (* SetString(s, 10) then String() *)

Definition case_ok (c : case) : bool :=
  match c with
  | CTo a t out => bytes_eqb (to_base58 (tbl_hash t) a) out
  | CFrom s t r => ares_ok (from_base58 (tbl_hash t) s) r
  | CToSha a out => bytes_eqb (to_base58 sha256 a) out
  | CFromSha s r => ares_ok (from_base58 sha256 s) r
  | CHexTo a out => bytes_eqb (to_hex_string a) out
  | CHexFrom s r => hres_ok (from_hex_string s) r
  | CParse f r => ares_ok (address_parse_from_bytes f) r
  | CB58Enc src r => obytes_eqb (b58_encode src) r
  | CB58Dec src r => obytes_eqb (b58_decode src) r
  | CBig d str back =>
      bytes_eqb (big_string10 (big_set_bytes d)) str && bytes_eqb (big_bytes (big_set_bytes d)) back
  | CBigStr s r =>
      obytes_eqb (match big_set_string10 s with Some x => Some (big_string10 x) | None => None end) r
  end.

Definition mismatches := mism case_ok.
