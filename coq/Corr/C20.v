(** C20 correspondence: the header/block codec and merkle-root model against recorded runs of
    Header.Deserialization / Block.Deserialization / ToArray / Hash / ComputeMerkleRoot.

    Per case the harness supplies the behaviour of the external functions on the arguments that
    occur: the key parser as a table (encoding -> re-serialization or rejection), the
    transaction decoder as a table keyed by the number of remaining bytes, and the hash either as
    the executable SHA-256 of Lib/Sha256.v (applied gen_hdr_hash_rounds times) or as a table of the
    values crypto/sha256 gave. *)
From Coq Require Import List Bool Arith NArith.
Import ListNotations.
From Ont Require Export Lib.Bytes Lib.CorrLib Model.Codec Model.BlockCodecTypes Model.BlockCodec.
From Ont Require Import Lib.Sha256 Gen.BlockLayout.
Local Open Scope N_scope.
Open Scope bool_scope.

Fixpoint blookup {A : Type} (k : bytes) (t : list (bytes * A)) (d : A) : A :=
  match t with
  | [] => d
  | (k', v) :: r => if bytes_eqb k k' then v else blookup k r d
  end.

Fixpoint nlookup {A : Type} (k : nat) (t : list (nat * A)) (d : A) : A :=
  match t with
  | [] => d
  | (k', v) :: r => if Nat.eqb k k' then v else nlookup k r d
  end.

Definition hash_real (x : bytes) : bytes := Nat.iter gen_hdr_hash_rounds sha256 x.

(** Hash tables are keyed by a fingerprint of the argument (its length, its bytes 0..3, 32..35 and
    the last four) to keep case files small; a fingerprint clash inside one case would show up as
    a mismatch, never as a false agreement on a wrong hash value of the right argument. *)
Definition fp (x : bytes) : nat * bytes :=
  (length x, firstn 4 x ++ firstn 4 (skipn 32 x) ++ firstn 4 (skipn (length x - 4) x)).

Fixpoint flookup (k : nat * bytes) (t : list (nat * bytes * bytes)) : bytes :=
  match t with
  | [] => []
  | (n, f, v) :: r => if Nat.eqb (fst k) n && bytes_eqb (snd k) f then v else flookup k r
  end.

Definition hash_of (ht : option (list (nat * bytes * bytes))) : bytes -> bytes :=
  match ht with
  | None => hash_real
  | Some t => fun x => flookup (fp x) t
  end.

Definition pk_of (t : list (bytes * option bytes)) : bytes -> option bytes := fun k => blookup k t None.
Definition tx_of (t : list (nat * txres)) : bytes -> txres := fun r => nlookup (length r) t (TxErr 0).

(** Observable of one run. [reenc = None]: ToArray() returned exactly the bytes consumed;
    [ids]: the first four bytes of each transaction hash, in order. *)
Inductive bres :=
| BOk (consumed : nat) (reenc : option bytes) (hash : bytes) (ids : list bytes) (nkeys nsigs : N)
| BErr (e : N).

Definition errcode (e : derr) : N :=
  match e with
  | DEof => 0 | DIrregular => 1 | DKey => 2
  | DTx c => if c <? 2 then c else 2
  | DDup => 4 | DRoot => 5 | DFuel => 9
  end.

Inductive case :=
| CBlock (b : bytes) (pk : list (bytes * option bytes)) (tx : list (nat * txres))
         (ht : option (list (nat * bytes * bytes))) (res : bres)
| CHeader (b : bytes) (pk : list (bytes * option bytes)) (ht : option (list (nat * bytes * bytes))) (res : bres)
| CMerkle (l : list bytes) (ht : option (list (nat * bytes * bytes))) (root : bytes).

(** model result: consumed, re-encoding, hash, ids, counts — or an error code *)
Definition check (b : bytes) (m : (nat * bytes * bytes * list bytes * N * N) + N) (res : bres) : bool :=
  match m, res with
  | inl (c, r, h, i, nk, ns), BOk c' r' h' i' nk' ns' =>
      Nat.eqb c c' &&
      bytes_eqb r (match r' with None => firstn c' b | Some x => x end) &&
      bytes_eqb h h' && list_eqb bytes_eqb (map (firstn 4) i) i' && (nk =? nk') && (ns =? ns')
  | inr e, BErr e' => e =? e'
  | _, _ => false
  end.

Definition model_block (b : bytes) pk tx ht :=
  let H := hash_of ht in
  match block_decode H (pk_of pk) (tx_of tx) b with
  | inl (blk, aux, s') =>
      inl (off s', block_encode blk, block_hash H blk, map fst (b_txs blk), a_nkeys aux, a_nsigs aux)
  | inr e => inr (errcode e)
  end.

Definition model_header (b : bytes) pk ht :=
  match header_decode (pk_of pk) (src_new b) with
  | inl (h, aux, s') => inl (off s', header_encode h, header_hash (hash_of ht) h, @nil bytes, a_nkeys aux, a_nsigs aux)
  | inr e => inr (errcode e)
  end.

Definition case_ok (c : case) : bool :=
  match c with
  | CBlock b pk tx ht res => check b (model_block b pk tx ht) res
  | CHeader b pk ht res => check b (model_header b pk ht) res
  | CMerkle l ht root => bytes_eqb (merkle_root (hash_of ht) l) root
  end.

Definition mismatches := mism case_ok.
