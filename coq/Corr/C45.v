(** C45 correspondence: Model/OntId.v replayed on recorded histories of the native ONT ID contract.
    One case = one history on a fresh store: the address of every pool key, the id tokens that
    encodeID accepts and those account.VerifyID accepts, then per step whether the call ran
    below the new-ONT-ID height, the transaction's signer addresses, the operation (as the contract parses its bytes), whether the implementation
    accepted it and the addressed identity's record as read from the store afterwards; the
    history ends with the records of all identities of the run. *)
From Coq Require Import List Bool NArith.
Import ListNotations.
From Ont Require Export Lib.CorrLib Model.OntId.
Local Open Scope N_scope.
Open Scope bool_scope.

Record stepc := mkStep { st_lg : bool; st_sig : list addr; st_op : op; st_ok : bool; st_rec : idrec }.

Inductive case :=
  CHist (kaddr : list N) (ids_ok ids_valid : list id) (steps : list stepc) (final : list (id * idrec)).

Definition opt_eqb {A : Type} (eqb : A -> A -> bool) (a b : option A) : bool :=
  match a, b with
  | Some x, Some y => eqb x y
  | None, None => true
  | _, _ => false
  end.

Fixpoint list_eqb {A : Type} (eqb : A -> A -> bool) (a b : list A) : bool :=
  match a, b with
  | [], [] => true
  | x :: a', y :: b' => eqb x y && list_eqb eqb a' b'
  | _, _ => false
  end.

Definition pk_eqb (a b : pk) : bool :=
  (pk_key a =? pk_key b) && Bool.eqb (pk_revoked a) (pk_revoked b) &&
  Bool.eqb (pk_list a) (pk_list b) && Bool.eqb (pk_auth a) (pk_auth b).

Fixpoint group_eqb (a b : group) : bool :=
  match a, b with
  | G ms t, G ms' t' =>
      (t =? t') &&
      (fix go (l l' : list member) : bool :=
         match l, l' with
         | [], [] => true
         | m :: r, m' :: r' =>
             match m, m' with
             | MId i, MId j => i =? j
             | MGrp g, MGrp g' => group_eqb g g'
             | _, _ => false
             end && go r r'
         | _, _ => false
         end) ms ms'
  end.

Definition ctrl_eqb (a b : controller) : bool :=
  match a, b with
  | CSingle i, CSingle j => i =? j
  | CGroup g, CGroup g' => group_eqb g g'
  | _, _ => false
  end.

Definition recov_eqb (a b : recovery) : bool :=
  match a, b with
  | ROld x, ROld y => x =? y
  | RNew g, RNew g' => group_eqb g g'
  | _, _ => false
  end.

Definition attr_eqb (a b : attr) : bool := (fst a =? fst b) && (snd a =? snd b).

Definition rec_eqb (a b : idrec) : bool :=
  (r_flag a =? r_flag b) && list_eqb pk_eqb (r_keys a) (r_keys b) &&
  opt_eqb ctrl_eqb (r_ctrl a) (r_ctrl b) && opt_eqb recov_eqb (r_rec a) (r_rec b) &&
  list_eqb attr_eqb (r_attrs a) (r_attrs b).

Definition in_list (l : list N) (x : N) : bool := existsb (N.eqb x) l.

Section Replay.
  Variables (kaddr : list N) (ids_ok ids_valid : list id).
  Definition c_addr_of (k : key) : addr := nth (N.to_nat k) kaddr 999999.
  Definition c_step := step (in_list ids_ok) (in_list ids_valid) c_addr_of.

  Fixpoint steps_ok (s : state) (l : list stepc) (fin : state -> bool) : bool :=
    match l with
    | [] => fin s
    | st :: l' =>
        match c_step (st_lg st) s (st_sig st) (st_op st) with
        | Some s' => st_ok st && rec_eqb (s' (target (st_op st))) (st_rec st) && steps_ok s' l' fin
        | None => negb (st_ok st) && rec_eqb (s (target (st_op st))) (st_rec st) && steps_ok s l' fin
        end
    end.
End Replay.

Definition case_ok (c : case) : bool :=
  match c with
  | CHist kaddr ids_ok ids_valid steps final =>
      steps_ok kaddr ids_ok ids_valid init_state steps
        (fun s => forallb (fun x => rec_eqb (s (fst x)) (snd x)) final)
  end.

(** For diagnosis: index of the first step on which model and implementation differ. *)
Section Diag.
  Variables (kaddr : list N) (ids_ok ids_valid : list id).
  Fixpoint first_bad (s : state) (l : list stepc) (n : nat) : option nat :=
    match l with
    | [] => None
    | st :: l' =>
        match c_step kaddr ids_ok ids_valid (st_lg st) s (st_sig st) (st_op st) with
        | Some s' => if st_ok st && rec_eqb (s' (target (st_op st))) (st_rec st)
                     then first_bad s' l' (S n) else Some n
        | None => if negb (st_ok st) && rec_eqb (s (target (st_op st))) (st_rec st)
                  then first_bad s l' (S n) else Some n
        end
    end.
End Diag.
Definition case_first_bad (c : case) : option nat :=
  match c with
  | CHist kaddr ids_ok ids_valid steps _ => first_bad kaddr ids_ok ids_valid init_state steps 0
  end.

Definition mismatches := mism case_ok.
