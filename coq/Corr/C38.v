(** C38 correspondence: the wallet model (Model/Wallet.v, instantiated with the executable ideal
    cipher) against recorded runs of account.ClientImpl on a real wallet file.

    A case is a whole history: the wallet's scrypt parameters, the operations with their inputs
    (labels, passwords, key numbers, the address/public key/curve the implementation derived),
    each operation's outcome, and three observations made by the driver through the exported
    getters only: of the client after the history, of a client freshly opened on the wallet file,
    and of the JSON file itself (parsed by the driver). The model must reproduce every outcome and
    all three observations, the driver's own bookkeeping of (address -> key, current password) must
    be the model's specification state, and the driver's flag "the caller kept his obligation on
    every import" must be the model's [caller_ok] (in boolean form). *)
From Coq Require Import List Bool String NArith ZArith Arith.
Import ListNotations.
From Ont Require Export Lib.CorrLib Model.Wallet.
Local Open Scope string_scope.

(** short constructors for the case terms *)
Definition KI (k : N) (addr pub : string) (alg : N) (curve : string) : keyinfo N :=
  {| ki_key := k; ki_addr := addr; ki_pub := pub; ki_alg := alg; ki_curve := curve |}.
Definition New := ONew N.
Definition Imp := OImport N.
Definition Delete := ODelete N.
Definition SetDefault := OSetDefault N.
Definition SetLabel := OSetLabel N.
Definition ChangePwd := OChangePwd N.
Definition ChangeSch := OChangeSch N.
Definition Reload := OReload N.

Definition rs := res N.
Definition Ok : rs := ROk.
Definition Key (k : N) : rs := RKey k.
Definition Nil : rs := RNil.
Definition EEmpty : rs := EEmptyPwd.
Definition ESig : rs := ESigScheme.
Definition EDup : rs := EDupLabel.
Definition EDupA : rs := EDupAddr.
Definition ENF : rs := ENotFound.
Definition EDelDef : rs := EDeleteDefault.
Definition EDec : rs := EDecrypt.
Definition ESchName : rs := ESchemeName.
Definition ENoDef : rs := ENoDefault.
Definition ESav : rs := ESave.

Definition res_eqb (a b : rs) : bool :=
  match a, b with
  | ROk, ROk | RNil, RNil | EEmptyPwd, EEmptyPwd | ESigScheme, ESigScheme | EDupLabel, EDupLabel | EDupAddr, EDupAddr
  | ENotFound, ENotFound | EDeleteDefault, EDeleteDefault | EDecrypt, EDecrypt | ESchemeName, ESchemeName
  | ENoDefault, ENoDefault | ESave, ESave => true
  | RKey k, RKey k' => N.eqb k k'
  | _, _ => false
  end.

(** AccountMetadata without the encrypted key: address, label, public key, scheme, key type,
    curve, hash name, default flag *)
Record meta := M { m_addr : string; m_label : string; m_pub : string; m_sch : N; m_alg : N; m_curve : string; m_hash : string; m_default : bool }.

Definition meta_eqb (a b : meta) : bool :=
  String.eqb (m_addr a) (m_addr b) && String.eqb (m_label a) (m_label b) && String.eqb (m_pub a) (m_pub b) &&
  N.eqb (m_sch a) (m_sch b) && N.eqb (m_alg a) (m_alg b) && String.eqb (m_curve a) (m_curve b) &&
  String.eqb (m_hash a) (m_hash b) &&
  Bool.eqb (m_default a) (m_default b).

Definition meta_of (x : acct iblob) : meta :=
  M (a_addr _ x) (a_label _ x) (a_pub _ x) (a_sch _ x) (a_alg _ x) (a_curve _ x) (a_hash _ x) (a_default _ x).

Definition opt_eqb {A} (e : A -> A -> bool) (a b : option A) : bool :=
  match a, b with Some x, Some y => e x y | None, None => true | _, _ => false end.

Fixpoint list_eqb {A} (e : A -> A -> bool) (a b : list A) : bool :=
  match a, b with
  | [], [] => true
  | x :: r, y :: s => e x y && list_eqb e r s
  | _, _ => false
  end.

(** What the driver observes of a client, through exported methods only. Probe sets: [pwds]
    (every password of the history and a few others, the empty one included), [addrs] (every
    address of the history and an unknown one), [labels] (every label of the history, "", ...). *)
Record view := V {
  v_num : nat;                          (* GetAccountNum *)
  v_index : list (option meta);         (* GetAccountMetadataByIndex 0 .. v_num+2 *)
  v_addr : list (option meta);          (* GetAccountMetadataByAddress, per probe address *)
  v_label : list (option meta);         (* GetAccountMetadataByLabel, per probe label *)
  v_default : option meta;              (* GetDefaultAccountMetadata *)
  v_open_index : list (list rs);        (* GetAccountByIndex i pwd, i = 1 .. length slice, per probe password *)
  v_open_addr : list (list rs);         (* GetAccountByAddress, per probe address and password *)
  v_open_label : list (list rs);        (* GetAccountByLabel, per probe label (a second, possibly shorter list) and password *)
  v_open_default : list rs              (* GetDefaultAccount, per probe password *)
}.

Definition view_eqb (a b : view) : bool :=
  Nat.eqb (v_num a) (v_num b) &&
  list_eqb (opt_eqb meta_eqb) (v_index a) (v_index b) &&
  list_eqb (opt_eqb meta_eqb) (v_addr a) (v_addr b) &&
  list_eqb (opt_eqb meta_eqb) (v_label a) (v_label b) &&
  opt_eqb meta_eqb (v_default a) (v_default b) &&
  list_eqb (list_eqb res_eqb) (v_open_index a) (v_open_index b) &&
  list_eqb (list_eqb res_eqb) (v_open_addr a) (v_open_addr b) &&
  list_eqb (list_eqb res_eqb) (v_open_label a) (v_open_label b) &&
  list_eqb res_eqb (v_open_default a) (v_open_default b).

Definition iw := wallet iblob.

(** the same observation, of the model; [n_index] is the number of slice entries the driver saw
    (it asks indices 0 .. n_index+1 for metadata and 1 .. n_index for opening) *)
Definition view_of (w : iw) (n_index : nat) (pwds addrs labels olabels : list string) : view :=
  let idx_meta := map (fun i => Z.of_nat i) (seq 0 (n_index + 2)) in
  let idx_open := map (fun i => Z.of_nat i) (seq 1 n_index) in
  V (account_num _ w)
    (map (fun i => option_map meta_of (get_meta_by_index _ w i)) idx_meta)
    (map (fun a => option_map meta_of (get_meta_by_address _ w a)) addrs)
    (map (fun l => option_map meta_of (get_meta_by_label _ w l)) labels)
    (option_map meta_of (get_default_meta _ w))
    (map (fun i => map (get_account_by_index N iblob idec w i) pwds) idx_open)
    (map (fun a => map (get_account_by_address N iblob idec w a) pwds) addrs)
    (map (fun l => map (get_account_by_label N iblob idec w l) pwds) olabels)
    (map (get_default_account N iblob idec w) pwds).

Definition ghost_eqb (addrs : list string) (g g' : ghost N) : bool :=
  forallb (fun a => opt_eqb (fun x y => N.eqb (fst x) (fst y) && String.eqb (snd x) (snd y)) (mget a g) (mget a g')) addrs.

(** [caller_ok] as a boolean on the executable instance *)
Definition op_caller_okb (w : iw) (o : op N) : bool :=
  match o with
  | OImport _ _ _ _ _ _ _ _ _ prm pwd _ => scrypt_eqb prm (open_params _ w) && negb (String.eqb pwd "")
  | _ => true
  end.
Fixpoint caller_okb (w : iw) (ops : list (op N)) : bool :=
  match ops with
  | [] => true
  | o :: r => op_caller_okb w o && caller_okb (fst (step N iblob ienc idec w o)) r
  end.

(** per-wallet part of a multi-wallet observation *)
Record wobs := WO { o_tracker : ghost N; o_npre : nat; o_npost : nat; o_pre : view; o_post : view;
                    o_fprm : scrypt; o_file : list meta }.

Definition wallet_ok (pwds addrs labels olabels : list string) (wg : iw * ghost N) (o : wobs) : bool :=
  let (w, g) := wg in
  ghost_eqb addrs g (o_tracker o) && ghost_eqb addrs (o_tracker o) g &&
  view_eqb (view_of w (o_npre o) pwds addrs labels olabels) (o_pre o) &&
  view_eqb (view_of (reload iblob w) (o_npost o) pwds addrs labels olabels) (o_post o) &&
  scrypt_eqb (fst (save iblob w)) (o_fprm o) &&
  list_eqb meta_eqb (map meta_of (snd (save iblob w))) (o_file o).

Fixpoint all2 {A B} (f : A -> B -> bool) (a : list A) (b : list B) : bool :=
  match a, b with
  | [], [] => true
  | x :: r, y :: s => f x y && all2 f r s
  | _, _ => false
  end.

Definition Open := MOpen N.
Definition On := MOp N.

Fixpoint mcaller_okb (s : system N iblob) (ms : list (mop N)) : bool :=
  match ms with
  | [] => true
  | m :: r =>
    (match m with
     | MOp _ i o => match nth_error s i with Some (w, _) => op_caller_okb w o | None => true end
     | MOpen _ _ => true
     end) && mcaller_okb (fst (mstep N iblob ienc idec s m)) r
  end.

Inductive case :=
| CHist (prm : scrypt) (ops : list (op N)) (results : list rs)
        (tracker : ghost N) (obliged : bool)
        (pwds addrs labels olabels : list string)
        (n_pre n_post : nat) (pre post : view)
        (file_prm : scrypt) (file : list meta)
(** one wallet, each operation issued with saves blocked (true) or not *)
| CHistF (prm : scrypt) (ops : list (bool * op N)) (results : list rs)
         (tracker : ghost N) (obliged : bool)
         (pwds addrs labels olabels : list string)
         (n_pre n_post : nat) (pre post : view)
         (file_prm : scrypt) (file : list meta)
(** several wallets in one process: the interleaved operations, their outcomes, and for each open
    wallet what CHist records for one *)
| CMulti (mops : list (mop N)) (results : list rs) (obliged : bool)
         (pwds addrs labels olabels : list string) (obs : list wobs).

Definition case_ok (c : case) : bool :=
  match c with
  | CHist prm ops results tracker obliged pwds addrs labels olabels n_pre n_post pre post file_prm file =>
    let '(w, g, rs') := run N iblob ienc idec (init iblob prm) [] ops in
    list_eqb res_eqb rs' results &&
    ghost_eqb addrs g tracker && ghost_eqb addrs tracker g &&
    Bool.eqb (caller_okb (init iblob prm) ops) obliged &&
    view_eqb (view_of w n_pre pwds addrs labels olabels) pre &&
    view_eqb (view_of (reload iblob w) n_post pwds addrs labels olabels) post &&
    (* the JSON file is [save w] *)
    scrypt_eqb (fst (save iblob w)) file_prm &&
    list_eqb meta_eqb (map meta_of (snd (save iblob w))) file
  | CHistF prm ops results tracker obliged pwds addrs labels olabels n_pre n_post pre post file_prm file =>
    let '(w, g, rs') := run_sf N iblob ienc idec (init iblob prm) [] ops in
    list_eqb res_eqb rs' results &&
    ghost_eqb addrs g tracker && ghost_eqb addrs tracker g &&
    Bool.eqb (caller_okb (init iblob prm) (map snd ops)) obliged &&
    view_eqb (view_of w n_pre pwds addrs labels olabels) pre &&
    view_eqb (view_of (reload iblob w) n_post pwds addrs labels olabels) post &&
    scrypt_eqb (fst (save iblob w)) file_prm &&
    list_eqb meta_eqb (map meta_of (snd (save iblob w))) file
  | CMulti mops results obliged pwds addrs labels olabels obs =>
    let (s, rs') := mrun N iblob ienc idec [] mops in
    list_eqb res_eqb rs' results &&
    Bool.eqb (mcaller_okb [] mops) obliged &&
    all2 (wallet_ok pwds addrs labels olabels) s obs
  end.

Definition mismatches := mism case_ok.
