(** C39 correspondence: Model/AddBlock.v against recorded histories of real solo-chain ledgers.
    One case = one chain: genesis, then every offered block (valid history, every mutant through
    the network path / AddBlock / SubmitBlock / validation.VerifyBlock, the final valid block)
    with the implementation's outcome and the observable ledger state after the offer.  The model
    is run on the same sequence, threading its own state, and must agree at every step.
    Hash-like functions are instantiated by the tables the driver recorded from the real
    functions (merkle roots, tx roots, bookkeeper addresses). *)
From Coq Require Import List Bool NArith ZArith.
Import ListNotations.
From Ont Require Export Lib.Bytes Lib.CorrLib Model.AddBlock.
Local Open Scope N_scope.
Open Scope bool_scope.

Inductive via := VWire | VMem | VSubmit | VVerify | VHeader | VHeaders.
(* OVerify also carries the result of AddHeader / AddHeaders (an error or nil) *)
Inductive ores := OOut (o : outcome) | OVerify (e : option err).

Record obs := mkObs {
  o_height : N; o_cur : hash; o_hdr_height : N; o_hdr_hash : hash;
  o_block_root : hash;      (* GetBlockRootWithNewTxRoots(h+1, nil) *)
  o_state_root : hash;      (* GetStateMerkleRoot(h) *)
  o_next_idx : hash;        (* GetBlockHash(h+1) *)
  o_bcount : Z; o_ecount : Z (* key counts of the block / event stores, relative to genesis *)
}.

Record offer := mkOffer {
  of_via : via; of_blk : block; of_sroot : hash; of_ex : option exec_res;
  of_iofail : option io_stage; of_res : ores; of_obs : obs }.

Inductive case :=
| CChain (mtab ttab atab : list (list N * N)) (g : block) (gex : exec_res) (gobs : obs) (offers : list offer).

Definition unknown : N := 1329227995784915872903807060280344575. (* 2^120-1: never an interned id *)
Fixpoint lookup (t : list (list N * N)) (k : list N) : N :=
  match t with
  | [] => unknown
  | (k', v) :: r => if list_eqb N.eqb k' k then v else lookup r k
  end.

Definition io_stage_eqb (a b : io_stage) : bool :=
  match a, b with
  | IoNotify, IoNotify | IoCommitBlock, IoCommitBlock | IoCommitEvent, IoCommitEvent | IoCommitState, IoCommitState => true
  | _, _ => false
  end.
Definition err_eqb (a b : err) : bool :=
  match a, b with
  | EHeight, EHeight | EPrevNotFound, EPrevNotFound | EPrevHeight, EPrevHeight | ETimestamp, ETimestamp
  | EBookkeeperParam, EBookkeeperParam | EBookkeeperAddr, EBookkeeperAddr | ESigNotEnough, ESigNotEnough
  | ESigData, ESigData | ESigVerify, ESigVerify | EExec, EExec | EStateRoot, EStateRoot | EBlockRoot, EBlockRoot
  | EDupTx, EDupTx | ETxRoot, ETxRoot => true
  | EIo s, EIo s' => io_stage_eqb s s'
  | _, _ => false
  end.
Definition outcome_eqb (a b : outcome) : bool :=
  match a, b with
  | Added, Added | Ignored, Ignored => true
  | Rejected e, Rejected e' => err_eqb e e'
  | _, _ => false
  end.
Definition ores_eqb (a b : ores) : bool :=
  match a, b with
  | OOut o, OOut o' => outcome_eqb o o'
  | OVerify None, OVerify None => true
  | OVerify (Some e), OVerify (Some e') => err_eqb e e'
  | _, _ => false
  end.

Section Run.
  Variables mtab ttab atab : list (list N * N).
  Let mroot := lookup mtab.
  Let txroot := lookup ttab.
  Let bkaddr := lookup atab.

  Definition io_of (f : option io_stage) (s : io_stage) : bool :=
    match f with Some s' => negb (io_stage_eqb s s') | None => true end.

  Definition observe (base_b base_e : N) (st : ledger) : obs :=
    mkObs (cur_height st) (cur_hash st) (current_header_height st) (current_header_hash st)
          (block_root_with_new mroot st (next_height (cur_height st)) [])
          (match db_get (sstore st) (KStateRoot (cur_height st)) with Some (VStateRoot _ r) => r | _ => 0 end)
          (get_block_hash st (next_height (cur_height st)))
          (Z.of_N (db_count (bstore st)) - Z.of_N base_b)%Z
          (Z.of_N (db_count (estore st)) - Z.of_N base_e)%Z.

  Definition obs_eqb (ignore_sroot : bool) (a b : obs) : bool :=
    (o_height a =? o_height b) && (o_cur a =? o_cur b) && (o_hdr_height a =? o_hdr_height b)
    && (o_hdr_hash a =? o_hdr_hash b) && (o_block_root a =? o_block_root b)
    && (ignore_sroot || (o_state_root a =? o_state_root b)) && (o_next_idx a =? o_next_idx b)
    && Z.eqb (o_bcount a) (o_bcount b) && Z.eqb (o_ecount a) (o_ecount b).

  Definition dummy_exec : exec_res := mkExec 0 0 [] [].

  Definition run_offer (st : ledger) (o : offer) : ledger * ores :=
    let io := io_of (of_iofail o) in
    match of_via o with
    | VWire => let '(st', r) := receive_block mroot txroot bkaddr io st (of_blk o) (of_sroot o) (of_ex o) in (st', OOut r)
    | VMem => let '(st', r) := add_block mroot bkaddr io st (of_blk o) (of_sroot o) (of_ex o) in (st', OOut r)
    | VSubmit =>
        let '(st', r) := submit_block_entry mroot bkaddr io st (of_blk o)
                           (match of_ex o with Some r => r | None => dummy_exec end) in (st', OOut r)
    | VVerify => (st, OVerify (verify_block bkaddr st (b_hdr (of_blk o))))
    | VHeader => let '(st', e) := add_header bkaddr st (b_hdr (of_blk o)) in (st', OVerify e)
    | VHeaders => let '(st', e) := add_headers bkaddr st [b_hdr (of_blk o)] in (st', OVerify e)
    end.

  Fixpoint run_offers (bb be : N) (st : ledger) (l : list offer) : bool :=
    match l with
    | [] => true
    | o :: r =>
        let '(st', res) := run_offer st o in
        ores_eqb res (of_res o)
        && obs_eqb (match of_iofail o with Some _ => true | None => false end) (observe bb be st') (of_obs o)
        && run_offers bb be st' r
    end.

  Definition run_chain (g : block) (gex : exec_res) (gobs : obs) (offers : list offer) : bool :=
    match init_genesis mroot (fun _ => true) g gex with
    | (st, Added) =>
        let bb := db_count (bstore st) in
        let be := db_count (estore st) in
        obs_eqb false (observe bb be st) gobs && run_offers bb be st offers
    | _ => false
    end.
End Run.

Definition case_ok (c : case) : bool :=
  match c with
  | CChain mtab ttab atab g gex gobs offers => run_chain mtab ttab atab g gex gobs offers
  end.

Definition mismatches := mism case_ok.
