(** C13 correspondence: the NeoVM integer model against recorded runs of
    vm/neovm Executor.ExecuteOp (evaluation stack before, top of stack / fault after), of the
    IntValue methods with explicitly chosen representations, and of overflow.Add64/Sub64/Mul64/Div64. *)
From Coq Require Import List Bool ZArith Uint63.
Import ListNotations.
From Ont Require Export Lib.CorrLib Model.IntValue Model.IntSpec.
Local Open Scope Z_scope.
Open Scope bool_scope.

(** Large integers in case files are written as little-endian lists of 60-bit limbs of primitive
    integers ([zp] non-negative, [zn] negated): Coq's decimal Z literals take ~18 ms each at 256 bits
    (the conversion runs inside Coq), primitive-integer literals are read natively.  Used only for
    writing down recorded data; no theorem depends on it. *)
Definition zp (l : list int) : Z := fold_right (fun d acc => Uint63.to_Z d + 1152921504606846976 * acc) 0 l.
Definition zn (l : list int) : Z := - zp l.

Definition vmerr_eqb (a b : vmerr) : bool :=
  match a, b with
  | ErrOverMaxBigIntegerSize, ErrOverMaxBigIntegerSize | ErrShiftByNeg, ErrShiftByNeg
  | ErrDivModByZero, ErrDivModByZero | ErrBadType, ErrBadType
  | ErrIndexOutOfBound, ErrIndexOutOfBound | ErrOverStackLen, ErrOverStackLen => true
  | _, _ => false
  end.

Definition item_eqb (a b : item) : bool :=
  match a, b with
  | IInt x, IInt y | IBigInt x, IBigInt y | IBytes x, IBytes y => x =? y
  | IBool x, IBool y => Bool.eqb x y
  | IOther, IOther => true
  | _, _ => false
  end.

Definition iv_eqb (a b : IntValue) : bool :=
  match a, b with
  | Small x, Small y | Big x, Big y => x =? y
  | _, _ => false
  end.

(** Observed outcome of one ExecuteOp: the new top of the stack and the new depth, or the fault. *)
Inductive obs := Top (t : item) (depth : nat) | Err (e : vmerr).

Definition obs_of (r : result stack) : option obs :=
  match r with
  | Ok (t :: rest) => Some (Top t (S (length rest)))
  | Ok [] => None
  | Fault e => Some (Err e)
  end.

Definition obs_eqb (a : option obs) (b : obs) : bool :=
  match a, b with
  | Some (Top t d), Top t' d' => item_eqb t t' && Nat.eqb d d'
  | Some (Err e), Err e' => vmerr_eqb e e'
  | _, _ => false
  end.

(** Compact outcome of a sweep cell (stack = the two operands only). *)
Inductive cell := RI (z : Z) | RB (z : Z) | RT | RF | RE (e : vmerr).

Definition cell_obs (c : cell) : obs :=
  match c with
  | RI z => Top (IInt z) 1 | RB z => Top (IBigInt z) 1
  | RT => Top (IBool true) 1 | RF => Top (IBool false) 1
  | RE e => Err e
  end.

(** Short names used in recorded sweep rows. *)
Definition EO := RE ErrOverMaxBigIntegerSize.
Definition ES := RE ErrShiftByNeg.
Definition EZ := RE ErrDivModByZero.

Inductive meth :=
| MeAdd | MeSub | MeMul | MeDiv | MeMod | MeMax | MeMin | MeAnd | MeOr | MeXor | MeLsh | MeRsh
| MeCmp | MeNot | MeAbs | MeSign | MeIsZero.

Inductive mres := MV (v : IntValue) | ME (e : vmerr) | MZ (z : Z).

Definition MS (z : Z) := MV (Small z).
Definition MB (z : Z) := MV (Big z).
Definition MO := ME ErrOverMaxBigIntegerSize.
Definition MSh := ME ErrShiftByNeg.
Definition MDz := ME ErrDivModByZero.

Definition mres_of (r : result IntValue) : mres := match r with Ok v => MV v | Fault e => ME e end.

Definition run_meth (m : meth) (a b : IntValue) : mres :=
  match m with
  | MeAdd => mres_of (iv_add a b) | MeSub => mres_of (iv_sub a b) | MeMul => mres_of (iv_mul a b)
  | MeDiv => mres_of (iv_div a b) | MeMod => mres_of (iv_mod a b)
  | MeMax => mres_of (iv_max a b) | MeMin => mres_of (iv_min a b)
  | MeAnd => mres_of (iv_and a b) | MeOr => mres_of (iv_or a b) | MeXor => mres_of (iv_xor a b)
  | MeLsh => mres_of (iv_lsh a b) | MeRsh => mres_of (iv_rsh a b)
  | MeCmp => MZ (iv_cmp a b)
  | MeNot => MV (iv_not a) | MeAbs => MV (iv_abs a)
  | MeSign => MZ (iv_sign a) | MeIsZero => MZ (if iv_is_zero a then 1 else 0)
  end.

Definition mres_eqb (a b : mres) : bool :=
  match a, b with
  | MV x, MV y => iv_eqb x y
  | ME x, ME y => vmerr_eqb x y
  | MZ x, MZ y => x =? y
  | _, _ => false
  end.

Inductive ovfn := OvAdd | OvSub | OvMul | OvDiv.
Definition run_ov (f : ovfn) (a b : Z) : Z * bool :=
  match f with OvAdd => ov_add64 a b | OvSub => ov_sub64 a b | OvMul => ov_mul64 a b | OvDiv => ov_div64 a b end.

Inductive case :=
| CExec (op : opcode) (st : list item) (o : obs)
    (* one ExecuteOp on the given evaluation stack (head = top) *)
| CRow (op : opcode) (a : item) (xs : list item) (row : list cell)
    (* sweep row: left operand a, for every right operand b of xs: ExecuteOp on [b; a] *)
| CMeth (m : meth) (a b : IntValue) (r : mres)
| CMethRow (m : meth) (a : IntValue) (xs : list IntValue) (row : list mres)
| COvRow (f : ovfn) (a : Z) (xs : list Z) (row : list (Z * bool)).

Fixpoint row_ok {A B} (f : A -> B -> bool) (ys : list A) (row : list B) : bool :=
  match ys, row with
  | [], [] => true
  | b :: ys', c :: row' => f b c && row_ok f ys' row'
  | _, _ => false
  end.

Definition case_ok (c : case) : bool :=
  match c with
  | CExec op st o => obs_eqb (obs_of (exec_op op st)) o
  | CRow op a xs row =>
      row_ok (fun b c => obs_eqb (obs_of (exec_op op [b; a])) (cell_obs c)) xs row
  | CMeth m a b r => mres_eqb (run_meth m a b) r
  | CMethRow m a xs row => row_ok (fun b r => mres_eqb (run_meth m a b) r) xs row
  | COvRow f a xs row =>
      row_ok (fun b r => let '(v, ok) := run_ov f a b in (v =? fst r) && Bool.eqb ok (snd r)) xs row
  end.

Definition mismatches := mism case_ok.
