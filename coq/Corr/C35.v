(** C35 correspondence: operation sequences run on the real TXPool, IncrementValidator and a
    real solo ledger, replayed on Model/TxPool.v; every operation's result and the complete
    state after it are compared. *)
From Coq Require Import List Bool NArith.
Import ListNotations.
From Ont Require Export Lib.Bytes Lib.CorrLib Model.TxPool.
Local Open Scope N_scope.
Open Scope bool_scope.

Definition T := mkTx.

Inductive cop :=
| CAdd (t : tx) (vh vn : N)                 (* AddTxList(&VerifiedTx{t, vh, vn}) *)
| CGet (bc : bool) (height : N)             (* GetTxPool *)
| CCommit (b : list tx)                     (* ledger executes and adds the next block *)
| CIvAdd (height : N) (b : list tx)         (* IncrementValidator.AddBlock *)
| CIvClean
| CPoolClean (height : N) (b : list tx)     (* CleanCompletedTransactionList; CleanStaledEIPTx *)
| CRemoveBelow (g : N)
| CRemain
| CPropose                                  (* the makeBlock/makeProposal sequence *)
| CVerifyList (l : list tx) (start : N).    (* Verify over a list with a fresh context *)

Inductive cobs :=
| BCode (c : errcode)
| BGet (valid old : list N)
| BCommit (ok : bool) (nonces : list (N * N))
| BRange (s e : N)
| BUnit
| BTxs (l : list N)
| BVerify (r : list verr)
| BPanic.

Record dump := mkD {
  d_valid : list (N * (N * N));
  d_eips : list (N * list (N * N));
  d_latest : list (N * (N * N));
  d_base : N;
  d_blocks : list (list N);
  d_nonces : list (list (N * N))
}.

Fixpoint insN (x : N) (l : list N) : list N :=
  match l with [] => [x] | y :: r => if x <=? y then x :: l else y :: insN x r end.
Definition sortN (l : list N) : list N := fold_right insN [] l.

Definition dump_of (w : world) : dump :=
  mkD (map (fun kv => (fst kv, (v_height (snd kv), v_nonce (snd kv)))) (p_valid (w_pool w)))
      (map (fun kv => (fst kv, map (fun nt => (fst nt, tx_hash (snd nt))) (snd kv))) (p_eips (w_pool w)))
      (p_latest (w_pool w))
      (iv_base (w_iv w))
      (map sortN (iv_blocks (w_iv w)))
      (iv_nonces (w_iv w)).

Definition nn_eqb (a b : N * N) : bool := (fst a =? fst b) && (snd a =? snd b).
Definition nnn_eqb (a b : N * (N * N)) : bool := (fst a =? fst b) && nn_eqb (snd a) (snd b).
Definition dump_eqb (a b : dump) : bool :=
  list_eqb nnn_eqb (d_valid a) (d_valid b)
  && list_eqb (fun x y => (fst x =? fst y) && list_eqb nn_eqb (snd x) (snd y)) (d_eips a) (d_eips b)
  && list_eqb nnn_eqb (d_latest a) (d_latest b)
  && (d_base a =? d_base b)
  && list_eqb (list_eqb N.eqb) (d_blocks a) (d_blocks b)
  && list_eqb (list_eqb nn_eqb) (d_nonces a) (d_nonces b).

Definition errcode_eqb (a b : errcode) : bool :=
  match a, b with
  | ENoError, ENoError | ENonceTooBig, ENonceTooBig | ESameNonce, ESameNonce | EDuplicated, EDuplicated => true
  | _, _ => false
  end.
Definition verr_eqb (a b : verr) : bool :=
  match a, b with
  | VOk, VOk | VBelowBase, VBelowBase | VDuplicated, VDuplicated | VWrongNonce, VWrongNonce => true
  | _, _ => false
  end.

Definition cobs_eqb (a b : cobs) : bool :=
  match a, b with
  | BCode x, BCode y => errcode_eqb x y
  | BGet v o, BGet v' o' => list_eqb N.eqb v v' && list_eqb N.eqb o o'
  | BCommit k n, BCommit k' n' => Bool.eqb k k' && list_eqb nn_eqb n n'
  | BRange s e, BRange s' e' => (s =? s') && (e =? e')
  | BUnit, BUnit => true
  | BTxs l, BTxs l' => list_eqb N.eqb l l'
  | BVerify r, BVerify r' => list_eqb verr_eqb r r'
  | BPanic, BPanic => true
  | _, _ => false
  end.

Definition setp (w : world) (p : pool) : world := mkW (w_chain w) (w_nonce w) p (w_iv w) (w_maxtx w).
Definition setv (w : world) (v : ival) : world := mkW (w_chain w) (w_nonce w) (w_pool w) v (w_maxtx w).

Fixpoint verify_list (v : ival) (ln : N -> N) (s : N) (l : list tx) (ctx : list (N * N)) : list verr :=
  match l with
  | [] => []
  | t :: r => let '(res, ctx') := iv_verify v ln t s ctx in res :: verify_list v ln s r ctx'
  end.

(** [payers]: the accounts whose ledger nonce the implementation run reported after a commit *)
Definition cstep (w : world) (c : cop) (payers : list N) : world * cobs :=
  match c with
  | CAdd t vh vn => let '(p, code) := add_tx_list (w_pool w) (mkV t vh vn) in (setp w p, BCode code)
  | CGet bc h =>
      let g := get_tx_pool canonical_oracle bc h (w_maxtx w) (w_pool w) in
      (setp w (g_pool g),
       if g_ok g then BGet (map (fun e => tx_hash (v_tx e)) (g_valid g)) (map tx_hash (g_old g)) else BPanic)
  | CCommit b =>
      match ledger_exec b (w_nonce w) with
      | Some n' => (mkW (w_chain w ++ [b]) n' (w_pool w) (w_iv w) (w_maxtx w),
                    BCommit true (map (fun p => (p, n' p)) payers))
      | None => (w, BCommit false (map (fun p => (p, w_nonce w p)) payers))
      end
  | CIvAdd h b => let v := iv_add_block h b (w_iv w) in (setv w v, BRange (fst (iv_range v)) (snd (iv_range v)))
  | CIvClean => (setv w (iv_clean (w_iv w)), BUnit)
  | CPoolClean h b => (setp w (clean_staled h (clean_completed b h (w_pool w))), BUnit)
  | CRemoveBelow g => let '(p, ok) := remove_below_price g (w_pool w) in (setp w p, if ok then BUnit else BPanic)
  | CRemain => let '(txs, p) := remain (w_pool w) in (setp w p, BTxs (map tx_hash txs))
  | CPropose => let r := propose canonical_oracle w in
                (pr_world r, if pr_ok r then BTxs (map tx_hash (pr_txs r)) else BPanic)
  | CVerifyList l s => (w, BVerify (verify_list (w_iv w) (w_nonce w) s l []))
  end.

Record cstep_rec := mkS { s_op : cop; s_obs : cobs; s_dump : option dump }.
Definition S1 (o : cop) (b : cobs) (d : dump) := mkS o b (Some d).
Definition S0 (o : cop) (b : cobs) := mkS o b None.

Inductive case := CHist (maxBlocks maxtx : N) (payers : list N) (steps : list cstep_rec).

Fixpoint run_steps (w : world) (payers : list N) (steps : list cstep_rec) : bool :=
  match steps with
  | [] => true
  | s :: r =>
      let '(w', obs) := cstep w (s_op s) payers in
      cobs_eqb obs (s_obs s)
      && (match s_dump s with Some d => dump_eqb (dump_of w') d | None => true end)
      && run_steps w' payers r
  end.

(** index of the first disagreeing step (for diagnosis) *)
Fixpoint first_bad (w : world) (payers : list N) (steps : list cstep_rec) (i : nat) : option (nat * cobs * dump) :=
  match steps with
  | [] => None
  | s :: r =>
      let '(w', obs) := cstep w (s_op s) payers in
      if cobs_eqb obs (s_obs s)
         && (match s_dump s with Some d => dump_eqb (dump_of w') d | None => true end)
      then first_bad w' payers r (S i) else Some (i, obs, dump_of w')
  end.

Definition case_ok (c : case) : bool :=
  match c with CHist mb mx payers steps => run_steps (world_init mb mx) payers steps end.

Definition diagnose (c : case) :=
  match c with CHist mb mx payers steps => first_bad (world_init mb mx) payers steps 0 end.

Definition mismatches := mism case_ok.
