(** C24 correspondence: the P2P message model against recorded runs of
    makeEmptyMessage(cmd).Deserialization / Serialization, types.ReadMessage and types.WriteMessage.
    The externals are instantiated from data recorded with the case: public-key parsing and
    signature verification are tables filled by the driver from the real functions, the clock is the
    recorded value, SHA-256 is Lib/Sha256.v; the embedded core/types codecs are not exercised here
    (they reject everything; those message types are compared by the driver's oracle only). *)
From Coq Require Import String.
From Coq Require Import List Bool NArith ZArith.
Import ListNotations.
From Ont Require Export Lib.Bytes Lib.CorrLib Model.Codec Model.P2PMsg.
From Ont Require Import Lib.Sha256.
Local Open Scope N_scope.
Open Scope bool_scope.

Record env := mkEnv {
  e_pk : list (bytes * option bytes);        (* DeserializePublicKey b -> SerializePublicKey, or error *)
  e_vpk : list (bytes * option bytes);       (* vconfig.Pubkey(string) likewise *)
  e_sigs : list (bytes * bytes * bytes);     (* (key, data, sig) triples signature.Verify accepts *)
  e_now1h : N }.

Definition lookup_pk (t : list (bytes * option bytes)) (b : bytes) : option bytes :=
  match find (fun e => bytes_eqb (fst e) b) t with Some (_, r) => r | None => None end.

Definition sig_in (t : list (bytes * bytes * bytes)) (pk d sg : bytes) : bool :=
  existsb (fun e => bytes_eqb (fst (fst e)) pk && bytes_eqb (snd (fst e)) d && bytes_eqb (snd e) sg) t.

Definition fail_emb (s : source) : dres (bytes * source) := DErr ErrEmb.

Definition mk_ext (e : env) : ext bytes :=
  mkExt bytes sha256 (lookup_pk (e_pk e)) (lookup_pk (e_vpk e)) (sig_in (e_sigs e)) (e_now1h e)
        fail_emb (fun x => x) fail_emb (fun x => x) fail_emb (fun x => x) fail_emb (fun x => x).

(** Error classes as the driver can tell them apart. *)
Inductive eclass := CEof | CIrregular | CKey | CKadKey | CSig | CExpired | CTooMany | CVoteIdx | CEmb | CPanic.
Definition class_of (e : derr) : eclass :=
  match e with
  | ErrEOF => CEof | ErrIrregular => CIrregular | ErrKey => CKey | ErrKadKey => CKadKey | ErrSig => CSig
  | ErrExpired => CExpired | ErrTooMany => CTooMany | ErrVoteIdx => CVoteIdx | ErrEmb => CEmb
  | ErrOutOfRange => CPanic | ErrFuel => CPanic
  end.
Definition eclass_eqb (a b : eclass) : bool :=
  match a, b with
  | CEof, CEof | CIrregular, CIrregular | CKey, CKey | CKadKey, CKadKey | CSig, CSig | CExpired, CExpired
  | CTooMany, CTooMany | CVoteIdx, CVoteIdx | CEmb, CEmb | CPanic, CPanic => true
  | _, _ => false
  end.

(** Field-wise equality of decoded messages. *)
Definition pa_eqb (a b : peer_addr) : bool :=
  Z.eqb (pa_time a) (pa_time b) && (pa_services a =? pa_services b) && bytes_eqb (pa_ip a) (pa_ip b) &&
  (pa_port a =? pa_port b) && (pa_cport a =? pa_cport b) && bytes_eqb (pa_id a) (pa_id b).
Definition ver_eqb (a b : version_payload) : bool :=
  (v_version a =? v_version b) && (v_services a =? v_services b) && Z.eqb (v_timestamp a) (v_timestamp b) &&
  (v_syncport a =? v_syncport b) && (v_httpport a =? v_httpport b) && (v_consport a =? v_consport b) &&
  bytes_eqb (v_cap a) (v_cap b) && (v_nonce a =? v_nonce b) && (v_height a =? v_height b) &&
  (v_relay a =? v_relay b) && eqb (v_iscons a) (v_iscons b) && bytes_eqb (v_soft a) (v_soft b).
Definition cons_eqb (a b : cons_payload) : bool :=
  (c_version a =? c_version b) && bytes_eqb (c_prevhash a) (c_prevhash b) && (c_height a =? c_height b) &&
  (c_bkindex a =? c_bkindex b) && (c_timestamp a =? c_timestamp b) && bytes_eqb (c_data a) (c_data b) &&
  bytes_eqb (c_owner a) (c_owner b) && bytes_eqb (c_sig a) (c_sig b).
Definition voter_eqb (a b : voter) : bool :=
  bytes_eqb (vt_index a) (vt_index b) && bytes_eqb (vt_pubkey a) (vt_pubkey b) && bytes_eqb (vt_sig a) (vt_sig b).
Definition off_eqb (a b : offline) : bool :=
  (ow_timestamp a =? ow_timestamp b) && (ow_view a =? ow_view b) && list_eqb bytes_eqb (ow_keys a) (ow_keys b) &&
  bytes_eqb (ow_proposer a) (ow_proposer b) && bytes_eqb (ow_propsig a) (ow_propsig b) &&
  list_eqb voter_eqb (ow_voters a) (ow_voters b).
Definition pair_eqb (a b : bytes * bytes) : bool := bytes_eqb (fst a) (fst b) && bytes_eqb (snd a) (snd b).

Definition msg_eqb (a b : msg bytes) : bool :=
  match a, b with
  | MAddr l, MAddr l' => list_eqb pa_eqb l l'
  | MAddrReq, MAddrReq => true
  | MVersion v, MVersion v' => ver_eqb v v'
  | MVerAck x, MVerAck y => eqb x y
  | MPing h, MPing h' => h =? h'
  | MPong h, MPong h' => h =? h'
  | MHeadersReq n x y, MHeadersReq n' x' y' => (n =? n') && bytes_eqb x x' && bytes_eqb y y'
  | MBlocksReq n x y, MBlocksReq n' x' y' => (n =? n') && bytes_eqb x x' && bytes_eqb y y'
  | MDataReq t h, MDataReq t' h' => (t =? t') && bytes_eqb h h'
  | MInv t l, MInv t' l' => (t =? t') && list_eqb bytes_eqb l l'
  | MNotFound h, MNotFound h' => bytes_eqb h h'
  | MFindNodeReq i, MFindNodeReq i' => bytes_eqb i i'
  | MFindNodeResp i s x l, MFindNodeResp i' s' x' l' => bytes_eqb i i' && eqb s s' && bytes_eqb x x' && list_eqb pair_eqb l l'
  | MUpdateKadId k, MUpdateKadId k' => bytes_eqb k k'
  | MSubnetReq f t ts k sg, MSubnetReq f' t' ts' k' sg' =>
      bytes_eqb f f' && bytes_eqb t t' && (ts =? ts') && bytes_eqb k k' && bytes_eqb sg sg'
  | MSubnetMembers l, MSubnetMembers l' => list_eqb pair_eqb l l'
  | MOffline o, MOffline o' => off_eqb o o'
  | MConsensus c, MConsensus c' => cons_eqb c c'
  | MUnknown c p, MUnknown c' p' => bytes_eqb c c' && bytes_eqb p p'
  | _, _ => false
  end.

Inductive outcome :=
| OErr (c : eclass)
| OOk (m : msg bytes) (pos : N) (reser : bytes).   (* decoded fields, Pos() afterwards, Serialization output *)

Inductive fkind := KShortHeader | KMagic | KLength | KShortPayload | KChecksum | KDecode (c : eclass).
Inductive fout :=
| FoErr (k : fkind)
| FoOk (m : msg bytes) (len : N) (restlen : N).     (* message, returned payload size, bytes left in the reader *)

Definition fkind_eqb (a b : fkind) : bool :=
  match a, b with
  | KShortHeader, KShortHeader | KMagic, KMagic | KLength, KLength | KShortPayload, KShortPayload
  | KChecksum, KChecksum => true
  | KDecode c, KDecode c' => eclass_eqb c c'
  | _, _ => false
  end.
Definition fkind_of (e : ferr) : fkind :=
  match e with
  | FShortHeader => KShortHeader | FMagic => KMagic | FLength => KLength | FShortPayload => KShortPayload
  | FChecksum => KChecksum | FDecode d => KDecode (class_of d)
  end.

Inductive case :=
| CPayload (cmd payload : bytes) (e : env) (o : outcome)
| CFrame (magic : N) (stream : bytes) (e : env) (o : fout)
| CWrite (magic : N) (m : msg bytes) (out : bytes).

Definition case_ok (c : case) : bool :=
  match c with
  | CPayload cmd payload e o =>
      let X := mk_ext e in
      match decode_payload X cmd payload, o with
      | DErr er, OErr c => eclass_eqb (class_of er) c
      | DOk (m, s', _), OOk m' pos reser =>
          msg_eqb m m' && (src_pos s' =? pos) && bytes_eqb (enc_msg X m) reser
      | _, _ => false
      end
  | CFrame magic stream e o =>
      let X := mk_ext e in
      match read_message X magic stream, o with
      | FErr er, FoErr k => fkind_eqb (fkind_of er) k
      | FOk m len _ _ rest, FoOk m' len' restlen =>
          msg_eqb m m' && (len =? len') && (N.of_nat (length rest) =? restlen)
      | _, _ => false
      end
  | CWrite magic m out =>
      bytes_eqb (write_message (mk_ext (mkEnv [] [] [] 0)) magic m) out
  end.

Definition mismatches := mism case_ok.
