(** C30 correspondence: Model/ChainConfig.v against recorded runs of GenesisChainConfig,
    genConsensusPayload (parameter checks), shuffle_hash, and the Go float64 rank expression. *)
From Coq Require Import List Bool NArith ZArith.
Import ListNotations.
From Ont Require Export Lib.Bytes Lib.CorrLib Lib.F64 Gen.ChainConfigGen Model.ChainConfig.
Local Open Scope N_scope.
Open Scope bool_scope.

Inductive res :=
| ROk (version view n c bdelay hdelay handshake maxview : N) (peers : list (N * bytes)) (postable : list N)
| RErr (e : cc_err)
| ROther.

Inductive case :=
| CConfig (conf : vbft_config) (peers : list peer) (txid : bytes) (height : N) (r : res)
| CHash (txid : bytes) (height : N) (id : bytes) (idx : N) (h : N)
| CPayload (conf : vbft_config) (npeers : nat) (e : option payload_err)
| CRank (pos scale k sum : N) (r : option N).

Definition err_eqb (a b : cc_err) : bool :=
  match a, b with
  | EPanic, EPanic | EScale, EScale | ERankRange, ERankRange => true
  | _, _ => false
  end.

Definition perr_eqb (a b : option payload_err) : bool :=
  match a, b with
  | None, None | Some PCzero, Some PCzero | Some PPeerCount, Some PPeerCount
  | Some PKC, Some PKC | Some PKL, Some PKL => true
  | _, _ => false
  end.

Definition peercfg_eqb (a b : N * bytes) : bool := (fst a =? fst b) && bytes_eqb (snd a) (snd b).

Definition res_ok (m : cc_err + chain_config) (r : res) : bool :=
  match m, r with
  | inl e, RErr e' => err_eqb e e'
  | inr cc, ROk ver view n c bd hd hs mv peers pt =>
      (cc_version cc =? ver) && (cc_view cc =? view) && (cc_n cc =? n) && (cc_c cc =? c)
      && (cc_block_delay cc =? bd) && (cc_hash_delay cc =? hd) && (cc_handshake cc =? hs)
      && (cc_max_view cc =? mv)
      && list_eqb peercfg_eqb (cc_peers cc) peers
      && list_eqb N.eqb (cc_postable cc) pt
  | _, _ => false
  end.

Definition optN_eqb (a b : option N) : bool :=
  match a, b with
  | Some x, Some y => x =? y
  | None, None => true
  | _, _ => false
  end.

Definition case_ok (c : case) : bool :=
  match c with
  | CConfig conf peers txid height r =>
      res_ok (genesis_chain_config (shuffle_hash txid height) conf peers) r
  | CHash txid height id idx h => shuffle_hash txid height id idx =? h
  | CPayload conf npeers e => perr_eqb (payload_check conf npeers) e
  | CRank pos scale k sum r => optN_eqb (f64_ceil_u64 (rank_float pos scale k sum)) r
  end.

Definition mismatches := mism case_ok.
