(** C16 correspondence: Model/Sig.v against recorded runs of
    validation.VerifyTransaction / checkTransactionSignatures (see Corr/SigTab.v for the tables).

    [CCheck t tb o code]: the validator input [t] (IsEipTx, Hash, Payer, Sigs of the decoded
    transaction), the observed outcome of checkTransactionSignatures ([o]: signer accounts stored
    in tx.SignedAddr / early EIP-155 return / error class / panic) and the error code
    VerifyTransaction returned (None = panic).
    [CAbs weak k h s v]: one call of the crypto library's Verify on a key, a message and a signature the
    harness classified as [s] - validates the abstract signature model itself. *)
From Coq Require Import List Bool NArith ZArith.
Import ListNotations.
From Ont Require Export Corr.SigTab.
Local Open Scope N_scope.
Open Scope bool_scope.

Definition vout_eqb (a b : vout) : bool :=
  match a, b with
  | VTrue, VTrue | VFalse, VFalse | VPanic, VPanic => true
  | _, _ => false
  end.

(** What the harness observes of signature.VerifyMultiSignature called directly. *)
Inductive mobs := MONil | MOErr (e : verr) | MOPanic.

Definition mobs_eqb (model : mres) (o : mobs) : bool :=
  match model, o with
  | MOk, MONil => true
  | MErr e, MOErr e' => verr_eqb e e'
  | MCrash, MOPanic => true
  | _, _ => false
  end.

(** [CMulti tb h keys m sigs o]: signature.VerifyMultiSignature(h, keys, m, sigs) called directly
    (key lists with hostile encodings: the library's Verify may panic, the wrapper maps that to
    "does not verify"); [tb] supplies the abstract signatures and the weak keys. *)
Inductive case :=
| CCheck (t : vtx) (tb : tables) (o : obs) (code : option N)
| CAbs (weak : bool) (k : pubkey) (h : bytes) (s : asig) (v : vout)
| CMulti (tb : tables) (h : bytes) (keys : list pubkey) (m : Z) (sigs : list bytes) (o : mobs).

Definition case_ok (c : case) : bool :=
  match c with
  | CCheck t tb o code => obs_eqb (run_cts tb t) o && oN_eqb (run_code tb t) code
  | CAbs w k h s v => vout_eqb (abs_verify (fun _ => w) k h s) v
  | CMulti tb h keys m sigs o =>
    mobs_eqb (verify_multi asig (tlookup (t_s tb)) (abs_verify (wlookup (t_w tb))) h keys m sigs) o
  end.

Definition mismatches := mism case_ok.
