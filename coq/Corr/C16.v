(** C16 correspondence: Model/Sig.v against recorded runs of
    validation.VerifyTransaction / checkTransactionSignatures (see Corr/SigTab.v for the tables).

    [CCheck t tb o code]: the validator input [t] (IsEipTx, Hash, Payer, Sigs of the decoded
    transaction), the observed outcome of checkTransactionSignatures ([o]: signer accounts stored
    in tx.SignedAddr / early EIP-155 return / error class / panic) and the error code
    VerifyTransaction returned (None = panic).
    [CAbs weak k h s v]: one call of the crypto library's Verify on a key, a message and a signature the
    harness classified as [s] - validates the abstract signature model itself. *)
From Coq Require Import List Bool NArith ZArith.
Import ListNotations.
From Ont Require Export Corr.SigTab.
Local Open Scope N_scope.
Open Scope bool_scope.

Definition vout_eqb (a b : vout) : bool :=
  match a, b with
  | VTrue, VTrue | VFalse, VFalse | VPanic, VPanic => true
  | _, _ => false
  end.

Inductive case :=
| CCheck (t : vtx) (tb : tables) (o : obs) (code : option N)
| CAbs (weak : bool) (k : pubkey) (h : bytes) (s : asig) (v : vout).

Definition case_ok (c : case) : bool :=
  match c with
  | CCheck t tb o code => obs_eqb (run_cts tb t) o && oN_eqb (run_code tb t) code
  | CAbs w k h s v => vout_eqb (abs_verify (fun _ => w) k h s) v
  end.

Definition mismatches := mism case_ok.
