#!/bin/sh
# Full .vo build of the development (no -vos). Usage: build.sh [make targets...]
set -e
cd "$(dirname "$0")"
mkdir -p ../.work
exec 9>../.work/coq.lock
flock 9
{
  echo "-Q . Ont"
  echo "-arg -w -arg -notation-overridden,-deprecated-hint-without-locality,-deprecated-instance-without-locality,-deprecated-syntactic-definition"
  find Lib Gen Model Proofs Props Corr Extract -name '*.v' 2>/dev/null | LC_ALL=C sort
} > _CoqProject.new
if ! cmp -s _CoqProject.new _CoqProject || [ ! -f Makefile.coq ]; then
  mv _CoqProject.new _CoqProject
  coq_makefile -f _CoqProject -o Makefile.coq >/dev/null
else
  rm -f _CoqProject.new
fi
exec make -f Makefile.coq -j16 "$@"
