(** Proofs for C07 over Model/EvmEnvelope.v (formulas from Gen/EvmEnvelopeGen.v). *)
From Coq Require Import List Bool NArith ZArith Lia ZifyN ZifyBool.
Import ListNotations.
From Ont Require Import Gen.EvmEnvelopeGen Model.EvmEnvelope.
Local Open Scope N_scope.
Ltac Zify.zify_post_hook ::= Z.to_euclidean_division_equations.

Lemma U64_val : U64 = 18446744073709551616. Proof. reflexivity. Qed.
Global Opaque U64.

Lemma upd_same {X} (f : addr -> X) a v : upd f a v a = v.
Proof. unfold upd. now rewrite N.eqb_refl. Qed.
Lemma upd_other {X} (f : addr -> X) a v x : x <> a -> upd f a v x = f x.
Proof. unfold upd. intros H. destruct (N.eqb_spec x a); [contradiction|reflexivity]. Qed.

Section Lib.
  Variable R : Type.
  Notation state := (state R).

  Lemma total_cons x (U : list addr) (s : state) : total (x :: U) s = bal s x + total U s.
  Proof. reflexivity. Qed.

  Lemma total_ext (U : list addr) (s s' : state) :
    (forall a, In a U -> bal s a = bal s' a) -> total U s = total U s'.
  Proof.
    induction U as [|x U IH]; intros H; [reflexivity|]. rewrite !total_cons.
    rewrite (H x (or_introl eq_refl)), IH; [reflexivity|]. intros a Ha. apply H. now right.
  Qed.

  Lemma total_set_bal_notin U (s : state) a v : ~ In a U -> total U (set_bal s a v) = total U s.
  Proof.
    intros H. apply total_ext. intros x Hx. cbn. apply upd_other. intros ->. contradiction.
  Qed.

  Lemma total_set_bal_in U (s : state) a v :
    NoDup U -> In a U -> total U (set_bal s a v) + bal s a = total U s + v.
  Proof.
    induction U as [|x U IH]; intros Hnd Hin; [contradiction|].
    inversion Hnd as [|? ? Hnx Hnd']; subst. rewrite !total_cons.
    destruct Hin as [->|Hin].
    - rewrite total_set_bal_notin by assumption.
      cbn [bal set_bal]. rewrite upd_same. lia.
    - assert (x <> a) by (intros ->; contradiction).
      specialize (IH Hnd' Hin). cbn [bal set_bal]. rewrite upd_other by assumption. lia.
  Qed.

  Lemma total_add_balance U (s : state) a v :
    NoDup U -> In a U -> total U (add_balance s a v) = total U s + v.
  Proof.
    intros Hnd Hin. unfold add_balance. pose proof (total_set_bal_in U s a (bal s a + v) Hnd Hin). lia.
  Qed.

  Lemma total_add_balance_notin U (s : state) a v :
    ~ In a U -> total U (add_balance s a v) = total U s.
  Proof. intros H. unfold add_balance. now apply total_set_bal_notin. Qed.

  Lemma total_set_nonce U (s : state) a v : total U (set_nonce s a v) = total U s.
  Proof. now apply total_ext. Qed.
  Lemma total_set_dberr U (s : state) : total U (set_dberr s) = total U s.
  Proof. now apply total_ext. Qed.
  Lemma total_mark_suicided U (s : state) a : total U (mark_suicided s a) = total U s.
  Proof. now apply total_ext. Qed.
  Lemma total_commit clean U (s : state) : total U (commit clean s) = total U s.
  Proof. now apply total_ext. Qed.

  (** SubBalance without underflow. *)
  Lemma sub_balance_ok (s : state) a v : v <= bal s a -> sub_balance s a v = set_bal s a (bal s a - v).
  Proof.
    intros H. unfold sub_balance, handle_sub_balance.
    destruct (N.ltb_spec (bal s a) v); [lia|reflexivity].
  Qed.
  Lemma sub_balance_underflow (s : state) a v : bal s a < v -> sub_balance s a v = set_dberr s.
  Proof.
    intros H. unfold sub_balance, handle_sub_balance.
    destruct (N.ltb_spec (bal s a) v); [reflexivity|lia].
  Qed.

  Lemma total_sub_balance U (s : state) a v :
    NoDup U -> In a U -> v <= bal s a -> total U (sub_balance s a v) + v = total U s.
  Proof.
    intros Hnd Hin Hle. rewrite sub_balance_ok by assumption.
    pose proof (total_set_bal_in U s a (bal s a - v) Hnd Hin). lia.
  Qed.

  (** service/evm.Transfer conserves the sum (and does nothing but record an error on underflow
      of the debit -- unreachable behind CanTransfer). *)
  Lemma total_transfer U (s : state) from to v :
    NoDup U -> In from U -> In to U -> v <= bal s from -> total U (transfer s from to v) = total U s.
  Proof.
    intros Hnd Hf Ht Hle. unfold transfer. rewrite total_add_balance by assumption.
    pose proof (total_sub_balance U s from v Hnd Hf Hle). lia.
  Qed.
End Lib.
