(** Proofs for C07 over Model/EvmEnvelope.v (formulas from Gen/EvmEnvelopeGen.v). *)
From Coq Require Import List Bool NArith ZArith Lia ZifyN ZifyBool.
Import ListNotations.
From Ont Require Import Gen.EvmEnvelopeGen Model.EvmEnvelope.
Local Open Scope N_scope.
Ltac Zify.zify_post_hook ::= Z.to_euclidean_division_equations.

Lemma U64_val : U64 = 18446744073709551616. Proof. reflexivity. Qed.
Global Opaque U64.

Lemma upd_same {X} (f : addr -> X) a v : upd f a v a = v.
Proof. unfold upd. now rewrite N.eqb_refl. Qed.
Lemma upd_other {X} (f : addr -> X) a v x : x <> a -> upd f a v x = f x.
Proof. unfold upd. intros H. destruct (N.eqb_spec x a); [contradiction|reflexivity]. Qed.

Section Lib.
  Variable R : Type.
  Notation state := (state R).

  Lemma total_cons x (U : list addr) (s : state) : total (x :: U) s = bal s x + total U s.
  Proof. reflexivity. Qed.

  Lemma total_ext (U : list addr) (s s' : state) :
    (forall a, In a U -> bal s a = bal s' a) -> total U s = total U s'.
  Proof.
    induction U as [|x U IH]; intros H; [reflexivity|]. rewrite !total_cons.
    rewrite (H x (or_introl eq_refl)), IH; [reflexivity|]. intros a Ha. apply H. now right.
  Qed.

  Lemma total_set_bal_notin U (s : state) a v : ~ In a U -> total U (set_bal s a v) = total U s.
  Proof.
    intros H. apply total_ext. intros x Hx. cbn. apply upd_other. intros ->. contradiction.
  Qed.

  Lemma total_set_bal_in U (s : state) a v :
    NoDup U -> In a U -> total U (set_bal s a v) + bal s a = total U s + v.
  Proof.
    induction U as [|x U IH]; intros Hnd Hin; [contradiction|].
    inversion Hnd as [|? ? Hnx Hnd']; subst. rewrite !total_cons.
    destruct Hin as [->|Hin].
    - rewrite total_set_bal_notin by assumption.
      cbn [bal set_bal]. rewrite upd_same. lia.
    - assert (x <> a) by (intros ->; contradiction).
      specialize (IH Hnd' Hin). cbn [bal set_bal]. rewrite upd_other by assumption. lia.
  Qed.

  Lemma total_add_balance U (s : state) a v :
    NoDup U -> In a U -> total U (add_balance s a v) = total U s + v.
  Proof.
    intros Hnd Hin. unfold add_balance. pose proof (total_set_bal_in U s a (bal s a + v) Hnd Hin). lia.
  Qed.

  Lemma total_add_balance_notin U (s : state) a v :
    ~ In a U -> total U (add_balance s a v) = total U s.
  Proof. intros H. unfold add_balance. now apply total_set_bal_notin. Qed.

  Lemma total_set_nonce U (s : state) a v : total U (set_nonce s a v) = total U s.
  Proof. now apply total_ext. Qed.
  Lemma total_set_dberr U (s : state) : total U (set_dberr s) = total U s.
  Proof. now apply total_ext. Qed.
  Lemma total_mark_suicided U (s : state) a : total U (mark_suicided s a) = total U s.
  Proof. now apply total_ext. Qed.
  Lemma total_commit clean U (s : state) : total U (commit clean s) = total U s.
  Proof. now apply total_ext. Qed.

  (** SubBalance without underflow. *)
  Lemma sub_balance_ok (s : state) a v : v <= bal s a -> sub_balance s a v = set_bal s a (bal s a - v).
  Proof.
    intros H. unfold sub_balance, handle_sub_balance.
    destruct (N.ltb_spec (bal s a) v); [lia|reflexivity].
  Qed.
  Lemma sub_balance_underflow (s : state) a v : bal s a < v -> sub_balance s a v = set_dberr s.
  Proof.
    intros H. unfold sub_balance, handle_sub_balance.
    destruct (N.ltb_spec (bal s a) v); [reflexivity|lia].
  Qed.

  Lemma total_sub_balance U (s : state) a v :
    NoDup U -> In a U -> v <= bal s a -> total U (sub_balance s a v) + v = total U s.
  Proof.
    intros Hnd Hin Hle. rewrite sub_balance_ok by assumption.
    pose proof (total_set_bal_in U s a (bal s a - v) Hnd Hin). lia.
  Qed.

  (** service/evm.Transfer conserves the sum (and does nothing but record an error on underflow
      of the debit -- unreachable behind CanTransfer). *)
  Lemma total_transfer U (s : state) from to v :
    NoDup U -> In from U -> In to U -> v <= bal s from -> total U (transfer s from to v) = total U s.
  Proof.
    intros Hnd Hf Ht Hle. unfold transfer. rewrite total_add_balance by assumption.
    pose proof (total_sub_balance U s from v Hnd Hf Hle). lia.
  Qed.
End Lib.

Ltac gen_unfold :=
  unfold buygas_want, buygas_short, buygas_short_cost_old, buygas_short_gas, buygas_short_cost_fixed,
    nonce_too_high, nonce_too_low, intrinsic_short, transfer_short, can_transfer,
    next_nonce, next_nonce_failed, fee_amount, refund_cap, refund_over, refund_remaining, gas_used in *.

Section Envelope.
  Variable R : Type.
  Variable clean : (addr -> bool) -> R -> R.
  Variable run : bool -> state R -> msg -> N -> run_result R.
  Notation state := (state R).

  (** Ranges enforced by the Go types (uint64 gas, nonce) and by TransactionFromEIP155 (price). *)
  Definition wf_msg (m : msg) : Prop := m_gas m < U64 /\ m_price m < U64 /\ m_nonce m < U64.

  (** buyGas: what is debited ([cost]) and what is bought. *)
  Lemma buy_gas_spec e (s : state) m : wf_msg m ->
    let b := buy_gas e s m in
    exists cost,
      cost <= bal s (m_from m) /\
      b_state b = set_bal s (m_from m) (bal s (m_from m) - cost) /\
      cost <= m_gas m * m_price m /\
      b_initial b * m_price m <= cost /\
      (buygas_fixed (chain_id e) (height e) = true \/ b_adjusted b = false ->
         cost = b_initial b * m_price m) /\
      b_gas b = b_initial b /\ b_initial b <= m_gas m /\ b_initial b < U64.
  Proof.
    clear clean run. intros (Hg & Hp & Hn). cbv zeta. unfold buy_gas. gen_unfold.
    rewrite U64_val in *.
    destruct (N.ltb_spec (bal s (m_from m)) (m_gas m * m_price m)) as [Hlt|Hge].
    - assert (Hp0 : m_price m <> 0) by (intros H0; rewrite H0, N.mul_0_r in Hlt; lia).
      assert (Hq : bal s (m_from m) / m_price m < m_gas m)
        by (apply N.div_lt_upper_bound; [assumption|rewrite N.mul_comm; assumption]).
      pose proof (N.mul_div_le (bal s (m_from m)) (m_price m) Hp0) as Hle.
      set (q := bal s (m_from m) / m_price m) in *.
      rewrite (N.mod_small q) by lia. rewrite N.add_0_l. rewrite (N.mod_small q) by lia.
      destruct (buygas_fixed (chain_id e) (height e)) eqn:Hfix.
      + exists (q * m_price m). cbn [b_state b_gas b_initial b_adjusted].
        assert (q * m_price m <= bal s (m_from m)) by lia.
        rewrite sub_balance_ok by assumption.
        repeat split; try reflexivity; try lia.
      + exists (bal s (m_from m)). cbn [b_state b_gas b_initial b_adjusted].
        rewrite sub_balance_ok by lia.
        repeat split; try reflexivity; try lia.
    - exists (m_gas m * m_price m). cbn [b_state b_gas b_initial b_adjusted].
      rewrite sub_balance_ok by assumption. rewrite N.add_0_l, N.mod_small by lia.
      repeat split; try reflexivity; lia.
  Qed.
  (** uint64 subtraction without wrap. *)
  Lemma u64_sub_small a b : b <= a -> a < U64 -> u64_sub a b = a - b.
  Proof. unfold u64_sub. rewrite U64_val. intros. lia. Qed.

  Lemma plan_gas e (b : bought R) m : b_gas b < U64 ->
    match plan_of e b m with PFail _ gl => gl <= b_gas b | PRun _ _ g => g <= b_gas b end.
  Proof.
    intros Hb. unfold plan_of. gen_unfold.
    set (ig := intrinsic_gas _ _ _ _).
    destruct (N.ltb_spec (b_gas b) ig).
    - rewrite u64_sub_small by lia. lia.
    - destruct (_ && _); [rewrite u64_sub_small by lia; lia|].
      destruct (is_create m); rewrite u64_sub_small by lia; lia.
  Qed.

  (** The state handed to the interpreter is the state after buyGas, with the sender nonce already
      advanced for a call. *)
  Lemma plan_state e (b : bought R) m c s0 g : plan_of e b m = PRun c s0 g ->
    c = is_create m /\
    s0 = (if c then b_state b
          else set_nonce (b_state b) (m_from m) (next_nonce (nonce (b_state b) (m_from m)))) /\
    (m_value m <= bal (b_state b) (m_from m)).
  Proof.
    unfold plan_of. gen_unfold. set (ig := intrinsic_gas _ _ _ _).
    destruct (b_gas b <? ig); [discriminate|].
    destruct (N.ltb_spec 0 (m_value m)); destruct (N.leb_spec (m_value m) (bal (b_state b) (m_from m)));
      cbn [andb negb]; try discriminate;
      (destruct (is_create m); intros HH; inversion HH; subst; repeat split; lia).
  Qed.

  (** refundGas + handleGasFee applied to the sender. *)
  Definition pay_back (e : env) (b : bought R) (m : msg) (s : state) (stgas : N) : state :=
    let s1 := add_balance s (m_from m) (stgas * m_price m) in
    if gasfee_skip (b_adjusted b) (height e) then s1 else add_balance s1 (m_from m) REFUND_VALUE.

  Lemma finish_spec e (b : bought R) m (x : ran R) : b_initial b < U64 -> x_gas x <= b_initial b ->
    exists stgas, x_gas x <= stgas /\ stgas <= b_initial b /\ (x_refund x = 0 -> stgas = x_gas x) /\
      finish e b m x =
        (add_balance (pay_back e b m (x_state x) stgas) (gas_receiver e)
                     ((b_initial b - stgas) * m_price m),
         mkRes (b_initial b - stgas) (x_err x)).
  Proof.
    intros HG Hx. unfold finish, pay_back. gen_unfold. rewrite U64_val in *.
    set (G := b_initial b) in *. set (xg := x_gas x) in *.
    assert (E1 : (G + 18446744073709551616 - xg) mod 18446744073709551616 = G - xg) by lia.
    rewrite E1.
    set (rf := if x_refund x <? (G - xg) / 2 then x_refund x else (G - xg) / 2).
    assert (Hrf : rf <= (G - xg) / 2 /\ (x_refund x = 0 -> rf = 0)).
    { unfold rf. destruct (N.ltb_spec (x_refund x) ((G - xg) / 2)); split; lia. }
    destruct Hrf as [Hrf1 Hrf2].
    assert (E2 : (xg + rf) mod 18446744073709551616 = xg + rf) by lia.
    rewrite E2.
    assert (E3 : (G + 18446744073709551616 - (xg + rf)) mod 18446744073709551616 = G - (xg + rf)) by lia.
    rewrite E3.
    exists (xg + rf). repeat split; try lia.
  Qed.
  (** * Hypotheses about the one interpreter invocation a transaction makes *)
  Definition inv_holds (e : env) (s : state) (m : msg)
      (P : bool -> state -> N -> run_result R -> Prop) : Prop :=
    forall c s0 g, invocation e s m = Some (c, s0, g) -> P c s0 g (run c s0 m g).

  (** left-over gas is at most the gas supplied *)
  Definition H_gas e s m := inv_holds e s m (fun _ _ g r => r_gas r <= g).
  (** H1: the interpreter conserves the ONG sum over [U] *)
  Definition H_sum U e s m := inv_holds e s m (fun _ s0 _ r => total U (r_state r) = total U s0).
  (** evm.Create advances the sender nonce, evm.Call leaves it alone *)
  Definition H_nonce e s m := inv_holds e s m (fun c s0 _ r =>
    nonce (r_state r) (m_from m) = if c then next_nonce (nonce s0 (m_from m)) else nonce s0 (m_from m)).
  (** the interpreter debits the sender by at most the transferred value *)
  Definition H_debit e s m := inv_holds e s m (fun _ s0 _ r =>
    bal s0 (m_from m) <= bal (r_state r) (m_from m) + m_value m).
  (** the sender (an externally owned account) does not self-destruct *)
  Definition H_alive e s m := inv_holds e s m (fun _ _ _ r => suicided (r_state r) (m_from m) = false).
  (** no storage error inside the interpreter *)
  Definition H_nodberr e s m := inv_holds e s m (fun _ s0 _ r => dberr (r_state r) = dberr s0).
  (** H2: a failing invocation leaves the state as at its snapshot (the nonce advanced by
      evm.Create before its snapshot excepted) and the refund counter at 0 *)
  Definition H_revert e s m := inv_holds e s m (fun _ s0 _ r => r_err r <> None ->
    (forall a, bal (r_state r) a = bal s0 a) /\
    (forall a, a <> m_from m -> nonce (r_state r) a = nonce s0 a) /\
    (forall a, has_code (r_state r) a = has_code s0 a) /\
    (forall a, suicided (r_state r) a = suicided s0 a) /\
    r_refund r = 0).

  (** * preCheck *)
  Lemma pre_check_inl e (s : state) m b : pre_check e s m = inl b -> b = buy_gas e s m.
  Proof.
    unfold pre_check. destruct (m_check_nonce m); [|intros H; now inversion H].
    destruct (nonce_too_high _ _); [discriminate|]. destruct (nonce_too_low _ _); [discriminate|].
    intros H; now inversion H.
  Qed.

  Lemma pre_check_match e (s : state) m :
    m_check_nonce m = false \/ nonce s (m_from m) = m_nonce m -> pre_check e s m = inl (buy_gas e s m).
  Proof.
    unfold pre_check. gen_unfold. intros [->|E]; [reflexivity|]. destruct (m_check_nonce m); [|reflexivity].
    rewrite E, N.ltb_irrefl. reflexivity.
  Qed.

  Lemma pre_check_mismatch e (s : state) m :
    m_check_nonce m = true -> nonce s (m_from m) <> m_nonce m ->
    pre_check e s m = inr (if nonce s (m_from m) <? m_nonce m then ErrNonceTooHigh else ErrNonceTooLow).
  Proof.
    unfold pre_check. gen_unfold. intros -> Hne.
    destruct (N.ltb_spec (nonce s (m_from m)) (m_nonce m)); [reflexivity|].
    destruct (N.ltb_spec (m_nonce m) (nonce s (m_from m))); [reflexivity|lia].
  Qed.

  (** * The run phase *)
  Lemma invocation_of_plan e (s : state) m b c s0 g :
    pre_check e s m = inl b -> plan_of e b m = PRun c s0 g -> invocation e s m = Some (c, s0, g).
  Proof. intros Hp Hpl. unfold invocation. now rewrite Hp, Hpl. Qed.

  Lemma invocation_none e (s : state) m b err gl :
    pre_check e s m = inl b -> plan_of e b m = PFail err gl -> invocation e s m = None.
  Proof. intros Hp Hpl. unfold invocation. now rewrite Hp, Hpl. Qed.

  Lemma run_phase_gas e (s : state) m b : wf_msg m -> H_gas e s m -> pre_check e s m = inl b ->
    x_gas (run_phase run e b m) <= b_initial b /\ b_initial b < U64.
  Proof.
    intros Hwf Hgas Hp. pose proof (pre_check_inl _ _ _ _ Hp) as ->.
    destruct (buy_gas_spec e s m Hwf) as (cost & _ & _ & _ & _ & _ & Hgi & _ & HG).
    split; [|assumption].
    assert (Hb : b_gas (buy_gas e s m) < U64) by (rewrite Hgi; assumption).
    pose proof (plan_gas e (buy_gas e s m) m Hb) as Hpl. unfold run_phase.
    destruct (plan_of e (buy_gas e s m) m) as [err gl|c s0 g] eqn:Epl; cbn [x_gas].
    - lia.
    - pose proof (Hgas c s0 g (invocation_of_plan _ _ _ _ _ _ _ Hp Epl)) as Hr. cbn beta in Hr. lia.
  Qed.

  (** TransitionDb, once the pre-check passed. *)
  Lemma transition_eq e (s : state) m b : wf_msg m -> H_gas e s m -> pre_check e s m = inl b ->
    let x := run_phase run e b m in
    exists stgas, x_gas x <= stgas /\ stgas <= b_initial b /\ (x_refund x = 0 -> stgas = x_gas x) /\
      transition_db run e s m =
        inl (add_balance (pay_back e b m (x_state x) stgas) (gas_receiver e)
                         ((b_initial b - stgas) * m_price m),
             mkRes (b_initial b - stgas) (x_err x)).
  Proof.
    intros Hwf Hgas Hp x. destruct (run_phase_gas e s m b Hwf Hgas Hp) as [Hx HG].
    destruct (finish_spec e b m x HG Hx) as (stgas & H1 & H2 & H3 & H4).
    exists stgas. repeat split; try assumption. unfold transition_db. rewrite Hp. now rewrite <- H4.
  Qed.

  (** finish touches balances of the sender and the fee receiver only, and nothing else. *)
  Lemma bal_add_balance (s : state) a v x :
    bal (add_balance s a v) x = if x =? a then bal s a + v else bal s x.
  Proof. reflexivity. Qed.

  Lemma finish_fields e (b : bought R) m (x : ran R) :
    let s' := fst (finish e b m x) in
    nonce s' = nonce (x_state x) /\ has_code s' = has_code (x_state x) /\
    suicided s' = suicided (x_state x) /\ dberr s' = dberr (x_state x) /\ rest s' = rest (x_state x) /\
    forall a, a <> m_from m -> a <> gas_receiver e -> bal s' a = bal (x_state x) a.
  Proof.
    unfold finish. cbn [fst]. destruct (gasfee_skip _ _); repeat split; intros a H1 H2;
      rewrite !bal_add_balance; destruct (N.eqb_spec a (gas_receiver e)); try contradiction;
      destruct (N.eqb_spec a (m_from m)); try contradiction; reflexivity.
  Qed.

  Lemma bal_add_balance_ge (s : state) a v x : bal s x <= bal (add_balance s a v) x.
  Proof. rewrite bal_add_balance. destruct (N.eqb_spec x a); subst; lia. Qed.

  Lemma pay_back_ge e (b : bought R) m (s : state) g x : bal s x <= bal (pay_back e b m s g) x.
  Proof.
    unfold pay_back. destruct (gasfee_skip _ _).
    - apply bal_add_balance_ge.
    - etransitivity; [|apply bal_add_balance_ge]. apply bal_add_balance_ge.
  Qed.

  Lemma total_pay_back U e (b : bought R) m (s : state) g : NoDup U -> In (m_from m) U ->
    total U (pay_back e b m s g) =
    total U s + g * m_price m + (if gasfee_skip (b_adjusted b) (height e) then 0 else REFUND_VALUE).
  Proof.
    intros Hnd Hin. unfold pay_back. destruct (gasfee_skip _ _).
    - rewrite total_add_balance by assumption. lia.
    - rewrite !total_add_balance by assumption. lia.
  Qed.

  Lemma total_run_phase U e (s : state) m b : H_sum U e s m -> pre_check e s m = inl b ->
    total U (x_state (run_phase run e b m)) = total U (b_state b).
  Proof.
    intros Hsum Hp. unfold run_phase. destruct (plan_of e b m) as [err gl|c s0 g] eqn:Epl; cbn [x_state].
    - apply total_set_nonce.
    - rewrite (Hsum c s0 g (invocation_of_plan _ _ _ _ _ _ _ Hp Epl)).
      destruct (plan_state _ _ _ _ _ _ Epl) as (_ & -> & _). destruct c; [reflexivity|apply total_set_nonce].
  Qed.

  (** What the state handed to the interpreter looks like. *)
  Lemma invocation_facts e (s : state) m c s0 g : wf_msg m -> invocation e s m = Some (c, s0, g) ->
    c = is_create m /\
    has_code s0 = has_code s /\ suicided s0 = suicided s /\ dberr s0 = dberr s /\
    (forall a, a <> m_from m -> nonce s0 a = nonce s a /\ bal s0 a = bal s a) /\
    nonce s0 (m_from m) = (if c then nonce s (m_from m) else next_nonce (nonce s (m_from m))) /\
    m_value m <= bal s0 (m_from m) /\ bal s0 (m_from m) <= bal s (m_from m).
  Proof.
    clear clean run. intros Hwf Hinv. unfold invocation in Hinv.
    destruct (pre_check e s m) as [b|] eqn:Hp; [|discriminate].
    destruct (plan_of e b m) as [|c' s0' g'] eqn:Epl; [discriminate|]. inversion Hinv; subst c' s0' g'.
    destruct (plan_state _ _ _ _ _ _ Epl) as (Ec & Es0 & Hv).
    pose proof (pre_check_inl _ _ _ _ Hp) as Eb.
    destruct (buy_gas_spec e s m Hwf) as (cost & Hc1 & Hc2 & _). rewrite <- Eb in *.
    rewrite Es0, Hc2 in *. clear Es0.
    split; [exact Ec|].
    destruct c; cbn [set_nonce set_bal has_code suicided dberr nonce bal] in *.
    - refine (conj eq_refl (conj eq_refl (conj eq_refl (conj _ (conj eq_refl (conj _ _)))))).
      + intros x Hx. now rewrite upd_other.
      + exact Hv.
      + rewrite upd_same. lia.
    - refine (conj eq_refl (conj eq_refl (conj eq_refl (conj _ (conj _ (conj _ _)))))).
      + intros x Hx. now rewrite !upd_other.
      + now rewrite upd_same.
      + exact Hv.
      + rewrite upd_same. lia.
  Qed.

  (** * Exact accounting of the ONG sum for every accepted transaction, on every chain id *)
  Theorem ong_accounting U e (s : state) m :
    wf_msg m -> NoDup U -> In (m_from m) U -> In (gas_receiver e) U ->
    H_gas e s m -> H_sum U e s m ->
    exists dust mint,
      total U (snd (handle_eip155 clean run e s m)) + dust = total U s + mint /\
      (buygas_fixed (chain_id e) (height e) = true -> dust = 0) /\
      dust <= bal s (m_from m) /\
      (height e <> REFUND_HEIGHT -> mint = 0) /\ mint <= REFUND_VALUE.
  Proof.
    intros Hwf Hnd Hf Hr Hgas Hsum. unfold handle_eip155.
    destruct (pre_check e s m) as [b|err] eqn:Hp.
    2:{ unfold transition_db. rewrite Hp. exists 0, 0. cbn [snd]. repeat split; lia. }
    destruct (transition_eq e s m b Hwf Hgas Hp) as (stgas & Hs1 & Hs2 & _ & ->).
    cbv beta iota zeta.
    match goal with |- context [snd (if ?c then (?a, ?x) else (?b, ?x))] =>
      replace (snd (if c then (a, x) else (b, x))) with x by (destruct c; reflexivity) end.
    pose proof (pre_check_inl _ _ _ _ Hp) as Eb.
    destruct (buy_gas_spec e s m Hwf) as (cost & Hc1 & Hc2 & Hc3 & Hc4 & Hc5 & _ & _ & _).
    rewrite <- Eb in *.
    set (G := b_initial b) in *.
    exists (cost - G * m_price m),
           (if gasfee_skip (b_adjusted b) (height e) then 0 else REFUND_VALUE).
    rewrite total_commit, total_add_balance by assumption.
    rewrite total_pay_back by assumption. rewrite (total_run_phase U e s m b Hsum Hp).
    rewrite N.mul_sub_distr_r.
    assert (stgas * m_price m <= G * m_price m) by (apply N.mul_le_mono_r; assumption).
    rewrite Hc2.
    pose proof (total_set_bal_in _ U s (m_from m) (bal s (m_from m) - cost) Hnd Hf) as Hset.
    repeat split.
    - lia.
    - intros Hfix. rewrite (Hc5 (or_introl Hfix)). lia.
    - lia.
    - intros Hh. unfold gasfee_skip. destruct (N.eqb_spec (height e) REFUND_HEIGHT); [contradiction|].
      now rewrite orb_true_r.
    - destruct (gasfee_skip _ _); lia.
  Qed.

  (** The interpreter may destroy ONG (H_sum replaced by an inequality): the envelope still never
      creates any, the compensation payment aside. *)
  Definition H_sum_le U e s m := inv_holds e s m (fun _ s0 _ r => total U (r_state r) <= total U s0).

  Lemma total_run_phase_le U e (s : state) m b : H_sum_le U e s m -> pre_check e s m = inl b ->
    total U (x_state (run_phase run e b m)) <= total U (b_state b).
  Proof.
    intros Hsum Hp. unfold run_phase. destruct (plan_of e b m) as [err gl|c s0 g] eqn:Epl; cbn [x_state].
    - rewrite total_set_nonce. lia.
    - pose proof (Hsum c s0 g (invocation_of_plan _ _ _ _ _ _ _ Hp Epl)) as Hle. cbn beta in Hle.
      destruct (plan_state _ _ _ _ _ _ Epl) as (_ & Es0 & _). rewrite Es0 in Hle at 2.
      destruct c; [exact Hle|]. now rewrite total_set_nonce in Hle.
  Qed.

  Theorem ong_never_minted U e (s : state) m :
    wf_msg m -> NoDup U -> In (m_from m) U -> In (gas_receiver e) U ->
    H_gas e s m -> H_sum_le U e s m ->
    exists mint,
      total U (snd (handle_eip155 clean run e s m)) <= total U s + mint /\
      (height e <> REFUND_HEIGHT -> mint = 0) /\ mint <= REFUND_VALUE.
  Proof.
    intros Hwf Hnd Hf Hr Hgas Hsum. unfold handle_eip155.
    destruct (pre_check e s m) as [b|err] eqn:Hp.
    2:{ unfold transition_db. rewrite Hp. exists 0. cbn [snd]. repeat split; lia. }
    destruct (transition_eq e s m b Hwf Hgas Hp) as (stgas & Hs1 & Hs2 & _ & ->).
    cbv beta iota zeta.
    match goal with |- context [snd (if ?c then (?a, ?x) else (?b, ?x))] =>
      replace (snd (if c then (a, x) else (b, x))) with x by (destruct c; reflexivity) end.
    pose proof (pre_check_inl _ _ _ _ Hp) as Eb.
    destruct (buy_gas_spec e s m Hwf) as (cost & Hc1 & Hc2 & Hc3 & Hc4 & Hc5 & _ & _ & _).
    rewrite <- Eb in *.
    set (G := b_initial b) in *.
    exists (if gasfee_skip (b_adjusted b) (height e) then 0 else REFUND_VALUE).
    rewrite total_commit, total_add_balance by assumption.
    rewrite total_pay_back by assumption.
    pose proof (total_run_phase_le U e s m b Hsum Hp) as Hle.
    rewrite N.mul_sub_distr_r.
    assert (stgas * m_price m <= G * m_price m) by (apply N.mul_le_mono_r; assumption).
    rewrite Hc2 in Hle.
    pose proof (total_set_bal_in _ U s (m_from m) (bal s (m_from m) - cost) Hnd Hf) as Hset.
    repeat split.
    - lia.
    - intros Hh. unfold gasfee_skip. destruct (N.eqb_spec (height e) REFUND_HEIGHT); [contradiction|].
      now rewrite orb_true_r.
    - destruct (gasfee_skip _ _); lia.
  Qed.

  (** Conservation: non-mainnet chain id, any height but the compensation height. *)
  Theorem ong_conserved U e (s : state) m :
    wf_msg m -> NoDup U -> In (m_from m) U -> In (gas_receiver e) U ->
    chain_id e <> EIP155_CHAINID_MAINNET -> height e <> REFUND_HEIGHT ->
    H_gas e s m -> H_sum U e s m ->
    total U (snd (handle_eip155 clean run e s m)) = total U s.
  Proof.
    intros Hwf Hnd Hf Hr Hc Hh Hgas Hsum.
    destruct (ong_accounting U e s m Hwf Hnd Hf Hr Hgas Hsum) as (dust & mint & E & Hd & _ & Hm & _).
    assert (Hfix : buygas_fixed (chain_id e) (height e) = true).
    { unfold buygas_fixed. destruct (N.eqb_spec (chain_id e) EIP155_CHAINID_MAINNET); [contradiction|reflexivity]. }
    rewrite (Hd Hfix), (Hm Hh) in E. lia.
  Qed.
  Lemma snd_if {A B} (c : bool) (a b : A) (x : B) : snd (if c then (a, x) else (b, x)) = x.
  Proof. now destruct c. Qed.

  (** * Rejection on a nonce mismatch: an error, and the state is the input state. *)
  Theorem nonce_mismatch_rejected e (s : state) m :
    m_check_nonce m = true -> nonce s (m_from m) <> m_nonce m ->
    handle_eip155 clean run e s m =
      (OErr (if nonce s (m_from m) <? m_nonce m then ErrNonceTooHigh else ErrNonceTooLow), s).
  Proof.
    intros Hc Hne. unfold handle_eip155, transition_db. now rewrite (pre_check_mismatch e s m Hc Hne).
  Qed.

  (** Conversely an accepted transaction passed the check. *)
  Lemma accepted_nonce e (s : state) m r :
    fst (handle_eip155 clean run e s m) = OOk r -> m_check_nonce m = true -> nonce s (m_from m) = m_nonce m.
  Proof.
    intros Hok Hc. destruct (N.eq_dec (nonce s (m_from m)) (m_nonce m)) as [|Hne]; [assumption|].
    rewrite (nonce_mismatch_rejected e s m Hc Hne) in Hok. discriminate.
  Qed.

  (** * The sender is charged at most gasLimit * gasPrice + value *)
  Theorem charge_bound e (s : state) m :
    wf_msg m -> H_gas e s m -> H_debit e s m ->
    bal s (m_from m) <= bal (snd (handle_eip155 clean run e s m)) (m_from m) + m_gas m * m_price m + m_value m.
  Proof.
    intros Hwf Hgas Hdeb. unfold handle_eip155.
    destruct (pre_check e s m) as [b|err] eqn:Hp.
    2:{ unfold transition_db. rewrite Hp. cbn [snd]. lia. }
    destruct (transition_eq e s m b Hwf Hgas Hp) as (stgas & _ & _ & _ & ->).
    cbv beta iota zeta. rewrite snd_if. cbn [commit bal].
    pose proof (pre_check_inl _ _ _ _ Hp) as Eb.
    destruct (buy_gas_spec e s m Hwf) as (cost & Hc1 & Hc2 & Hc3 & _). rewrite <- Eb in *.
    set (xs := x_state (run_phase run e b m)).
    assert (Hxs : bal (b_state b) (m_from m) <= bal xs (m_from m) + m_value m).
    { unfold xs, run_phase. destruct (plan_of e b m) as [err gl|c s0 g] eqn:Epl; cbn [x_state].
      - cbn. lia.
      - pose proof (Hdeb c s0 g (invocation_of_plan _ _ _ _ _ _ _ Hp Epl)) as Hd. cbn beta in Hd.
        destruct (plan_state _ _ _ _ _ _ Epl) as (_ & Es0 & _).
        assert (E0 : bal s0 (m_from m) = bal (b_state b) (m_from m)) by (rewrite Es0; now destruct c).
        rewrite E0 in Hd. exact Hd. }
    pose proof (bal_add_balance_ge (pay_back e b m xs stgas) (gas_receiver e)
                  ((b_initial b - stgas) * m_price m) (m_from m)) as G1.
    pose proof (pay_back_ge e b m xs stgas (m_from m)) as G2.
    rewrite Hc2 in Hxs. cbn [bal set_bal] in Hxs. rewrite upd_same in Hxs. lia.
  Qed.

  (** * The sender nonce advances by exactly one for every accepted transaction *)
  Theorem nonce_advances e (s : state) m r :
    wf_msg m -> H_nonce e s m -> H_alive e s m ->
    suicided s (m_from m) = false -> nonce s (m_from m) + 1 < U64 ->
    fst (handle_eip155 clean run e s m) = OOk r ->
    nonce (snd (handle_eip155 clean run e s m)) (m_from m) = nonce s (m_from m) + 1.
  Proof.
    intros Hwf Hn Hal Hs0 Hmax. unfold handle_eip155, transition_db.
    destruct (pre_check e s m) as [b|err] eqn:Hp; [|discriminate].
    destruct (finish e b m (run_phase run e b m)) as [s' res] eqn:Ef.
    pose proof (finish_fields e b m (run_phase run e b m)) as Hff. rewrite Ef in Hff. cbn [fst] in Hff.
    destruct Hff as (Hno & _ & Hsu & _). cbv zeta. intros _. rewrite snd_if. cbn [commit nonce].
    rewrite Hno, Hsu.
    pose proof (pre_check_inl _ _ _ _ Hp) as Eb.
    destruct (buy_gas_spec e s m Hwf) as (cost & _ & Hc2 & _). rewrite <- Eb in *.
    assert (Hnext : forall n, n + 1 < U64 -> (n + 1) mod 18446744073709551616 = n + 1)
      by (intros n; rewrite U64_val; intros; lia).
    unfold run_phase. destruct (plan_of e b m) as [er gl|c s0 g] eqn:Epl; cbn [x_state].
    - cbn [set_nonce suicided nonce]. rewrite upd_same. rewrite Hc2. cbn [set_bal suicided nonce].
      rewrite Hs0. unfold next_nonce_failed. apply Hnext. assumption.
    - pose proof (Hn c s0 g (invocation_of_plan _ _ _ _ _ _ _ Hp Epl)) as Hd. cbn beta in Hd.
      rewrite (Hal c s0 g (invocation_of_plan _ _ _ _ _ _ _ Hp Epl)). rewrite Hd.
      destruct (plan_state _ _ _ _ _ _ Epl) as (_ & Es0 & _). rewrite Es0, Hc2.
      destruct c; cbn [set_nonce set_bal nonce]; [|rewrite upd_same]; unfold next_nonce; apply Hnext; assumption.
  Qed.

  (** * Frame: the envelope moves ONG of the sender and of the fee receiver only *)
  Theorem envelope_frame e (s : state) m a :
    a <> m_from m -> a <> gas_receiver e ->
    bal (snd (handle_eip155 clean run e s m)) a = bal (after_run run e s m) a /\
    (forall c s0 g, invocation e s m = Some (c, s0, g) -> bal s0 a = bal s a) /\
    (invocation e s m = None -> bal (after_run run e s m) a = bal s a).
  Proof.
    intros Ha1 Ha2. unfold handle_eip155, transition_db, after_run, invocation.
    destruct (pre_check e s m) as [b|err] eqn:Hp.
    2:{ cbn [snd]. repeat split; congruence. }
    pose proof (pre_check_inl _ _ _ _ Hp) as Eb.
    assert (Hb : bal (b_state b) a = bal s a).
    { rewrite Eb. unfold buy_gas. destruct (buygas_short _ _); cbn [b_state];
        unfold sub_balance, handle_sub_balance;
        match goal with |- context [if ?c then None else _] => destruct c end; cbn [bal set_bal set_dberr];
        try rewrite upd_other by assumption; reflexivity. }
    destruct (finish e b m (run_phase run e b m)) as [s' res] eqn:Ef.
    pose proof (finish_fields e b m (run_phase run e b m)) as Hff. rewrite Ef in Hff. cbn [fst] in Hff.
    destruct Hff as (_ & _ & _ & _ & _ & Hbal). cbv zeta. rewrite snd_if. cbn [commit bal].
    split; [apply Hbal; assumption|]. unfold run_phase.
    destruct (plan_of e b m) as [er gl|c s0 g] eqn:Epl; cbn [x_state]; split.
    - discriminate.
    - intros _. cbn [set_nonce bal]. exact Hb.
    - intros c' s0' g' H. inversion H; subst.
      destruct (plan_state _ _ _ _ _ _ Epl) as (_ & Es0 & _). rewrite Es0. destruct c'; exact Hb.
    - discriminate.
  Qed.

  (** * No storage error from the envelope: an accepted check always yields a result *)
  Theorem accepted_gives_result e (s : state) m :
    wf_msg m -> dberr s = false -> H_nodberr e s m ->
    m_check_nonce m = false \/ nonce s (m_from m) = m_nonce m ->
    exists r, fst (handle_eip155 clean run e s m) = OOk r.
  Proof.
    intros Hwf Hd Hnd Hc. unfold handle_eip155, transition_db.
    pose proof (pre_check_match e s m Hc) as Hp. rewrite Hp.
    destruct (finish e _ m (run_phase run e _ m)) as [s' res] eqn:Ef.
    pose proof (finish_fields e (buy_gas e s m) m (run_phase run e (buy_gas e s m) m)) as Hff.
    rewrite Ef in Hff. cbn [fst] in Hff. destruct Hff as (_ & _ & _ & Hdb & _).
    cbv zeta. cbn [commit dberr]. rewrite Hdb.
    destruct (buy_gas_spec e s m Hwf) as (cost & _ & Hc2 & _).
    assert (Hx : dberr (x_state (run_phase run e (buy_gas e s m) m)) = false).
    { unfold run_phase. destruct (plan_of e (buy_gas e s m) m) as [er gl|c s0 g] eqn:Epl; cbn [x_state].
      - cbn [set_nonce dberr]. rewrite Hc2. exact Hd.
      - rewrite (Hnd c s0 g (invocation_of_plan _ _ _ _ _ _ _ Hp Epl)).
        destruct (plan_state _ _ _ _ _ _ Epl) as (_ & Es0 & _). rewrite Es0, Hc2. now destruct c. }
    rewrite Hx. eexists. reflexivity.
  Qed.

  (** * The fee receiver is paid exactly usedGas * gasPrice, and usedGas <= gasLimit *)
  Theorem fee_exact e (s : state) m r :
    wf_msg m -> H_gas e s m -> m_from m <> gas_receiver e ->
    fst (handle_eip155 clean run e s m) = OOk r ->
    bal (snd (handle_eip155 clean run e s m)) (gas_receiver e)
      = bal (after_run run e s m) (gas_receiver e) + used_gas r * m_price m /\
    used_gas r <= m_gas m.
  Proof.
    intros Hwf Hgas Hne. unfold handle_eip155, after_run.
    destruct (pre_check e s m) as [b|err] eqn:Hp; [|unfold transition_db; rewrite Hp; discriminate].
    destruct (transition_eq e s m b Hwf Hgas Hp) as (stgas & _ & Hs2 & _ & ->).
    cbv beta iota zeta. rewrite snd_if. intros Hok.
    assert (Er : r = mkRes (b_initial b - stgas) (x_err (run_phase run e b m))).
    { destruct (dberr _); cbn [fst] in Hok; [discriminate|now inversion Hok]. }
    rewrite Er. cbn [used_gas commit bal]. rewrite bal_add_balance, N.eqb_refl.
    pose proof (pre_check_inl _ _ _ _ Hp) as Eb.
    destruct (buy_gas_spec e s m Hwf) as (cost & _ & _ & _ & _ & _ & _ & Hle & _). rewrite <- Eb in *.
    split; [|lia]. f_equal. unfold pay_back.
    assert (Hne' : gas_receiver e <> m_from m) by congruence.
    destruct (gasfee_skip _ _); rewrite !bal_add_balance;
      destruct (N.eqb_spec (gas_receiver e) (m_from m)); try contradiction; reflexivity.
  Qed.

  (** * A failed transaction (revert, out of gas, ...) costs the sender exactly the fee and
        changes no other balance, nonce or code flag. *)
  Theorem failed_tx_only_fee e (s : state) m r :
    wf_msg m -> H_gas e s m -> H_revert e s m ->
    (forall a, suicided s a = false) ->
    m_from m <> gas_receiver e ->
    buygas_fixed (chain_id e) (height e) = true -> height e <> REFUND_HEIGHT ->
    fst (handle_eip155 clean run e s m) = OOk r -> vm_error r <> None ->
    let s' := snd (handle_eip155 clean run e s m) in
    bal s' (m_from m) + used_gas r * m_price m = bal s (m_from m) /\
    bal s' (gas_receiver e) = bal s (gas_receiver e) + used_gas r * m_price m /\
    (forall a, a <> m_from m -> a <> gas_receiver e -> bal s' a = bal s a) /\
    (forall a, a <> m_from m -> nonce s' a = nonce s a) /\
    (forall a, has_code s' a = has_code s a).
  Proof.
    intros Hwf Hgas Hrev Hsu Hne Hfix Hh. unfold handle_eip155.
    destruct (pre_check e s m) as [b|err] eqn:Hp; [|unfold transition_db; rewrite Hp; discriminate].
    destruct (transition_eq e s m b Hwf Hgas Hp) as (stgas & Hs1 & Hs2 & Hs3 & ->).
    cbv beta iota zeta. rewrite snd_if. intros Hok Hfail.
    assert (Er : r = mkRes (b_initial b - stgas) (x_err (run_phase run e b m))).
    { destruct (dberr _); cbn [fst] in Hok; [discriminate|now inversion Hok]. }
    rewrite Er in *. cbn [used_gas vm_error] in *. clear Hok Er.
    pose proof (pre_check_inl _ _ _ _ Hp) as Eb.
    destruct (buy_gas_spec e s m Hwf) as (cost & Hc1 & Hc2 & _ & _ & Hc5 & Hgi & _ & HG).
    rewrite <- Eb in *. rewrite (Hc5 (or_introl Hfix)) in *. clear Hc5.
    set (G := b_initial b) in *.
    (* the state after the run phase is the state after buyGas, sender nonce aside *)
    assert (Hx : (forall a, bal (x_state (run_phase run e b m)) a = bal (b_state b) a) /\
                 (forall a, a <> m_from m -> nonce (x_state (run_phase run e b m)) a = nonce (b_state b) a) /\
                 (forall a, has_code (x_state (run_phase run e b m)) a = has_code (b_state b) a) /\
                 (forall a, suicided (x_state (run_phase run e b m)) a = suicided (b_state b) a) /\
                 x_refund (run_phase run e b m) = 0).
    { revert Hfail. unfold run_phase. destruct (plan_of e b m) as [er gl|c s0 g] eqn:Epl;
        cbn [x_state x_err x_refund].
      - intros _. cbn [set_nonce bal nonce has_code suicided]. repeat split; try reflexivity.
        intros a Ha. now rewrite upd_other.
      - intros Hfail.
        assert (Hre : r_err (run c s0 m g) <> None) by (destruct (r_err (run c s0 m g)); [discriminate|exact (fun _ => Hfail eq_refl)]).
        destruct (Hrev c s0 g (invocation_of_plan _ _ _ _ _ _ _ Hp Epl) Hre) as (B1 & B2 & B3 & B4 & B5).
        destruct (plan_state _ _ _ _ _ _ Epl) as (_ & Es0 & _).
        repeat split; try assumption; intros a; [rewrite B1|intros Ha; rewrite B2 by assumption|rewrite B3|rewrite B4];
          rewrite Es0; destruct c; cbn [set_nonce bal nonce has_code suicided]; try reflexivity.
        now rewrite upd_other. }
    destruct Hx as (X1 & X2 & X3 & X4 & X5). pose proof (Hs3 X5) as Est.
    assert (Hskip : gasfee_skip (b_adjusted b) (height e) = true).
    { unfold gasfee_skip. destruct (N.eqb_spec (height e) REFUND_HEIGHT); [contradiction|]. now rewrite orb_true_r. }
    assert (Hne' : gas_receiver e <> m_from m) by congruence.
    assert (Hmul : (G - stgas) * m_price m + stgas * m_price m = G * m_price m).
    { rewrite <- N.mul_add_distr_r. f_equal. lia. }
    cbn [commit bal nonce has_code]. unfold pay_back. rewrite Hskip.
    repeat split.
    - rewrite !bal_add_balance, N.eqb_refl. destruct (N.eqb_spec (m_from m) (gas_receiver e)); [contradiction|].
      rewrite X1, Hc2. cbn [set_bal bal]. rewrite upd_same. lia.
    - rewrite !bal_add_balance, N.eqb_refl. destruct (N.eqb_spec (gas_receiver e) (m_from m)); [contradiction|].
      rewrite X1, Hc2. cbn [set_bal bal]. now rewrite upd_other.
    - intros a Ha1 Ha2. rewrite !bal_add_balance.
      destruct (N.eqb_spec a (gas_receiver e)); [contradiction|]. destruct (N.eqb_spec a (m_from m)); [contradiction|].
      rewrite X1, Hc2. cbn [set_bal bal]. now rewrite upd_other.
    - intros a Ha. cbn [add_balance set_bal suicided nonce]. rewrite X4, Hc2. cbn [set_bal suicided nonce].
      rewrite Hsu. rewrite X2 by assumption. now rewrite Hc2.
    - intros a. cbn [add_balance set_bal suicided has_code]. rewrite X4, Hc2. cbn [set_bal suicided has_code].
      rewrite Hsu. rewrite X3. now rewrite Hc2.
  Qed.
  (** * Sequences of transactions: the hypotheses are required of each transaction in the state it
        is applied to. *)
  Inductive steps_ok (U : list addr) (e : env) : state -> list msg -> Prop :=
  | steps_nil s : steps_ok U e s []
  | steps_cons s m rest :
      wf_msg m -> In (m_from m) U -> H_gas e s m -> H_sum U e s m ->
      (forall r, fst (handle_eip155 clean run e s m) = OOk r ->
                 steps_ok U e (snd (handle_eip155 clean run e s m)) rest) ->
      steps_ok U e s (m :: rest).

  Theorem sequence_conserved U e (s : state) ms :
    NoDup U -> In (gas_receiver e) U ->
    chain_id e <> EIP155_CHAINID_MAINNET -> height e <> REFUND_HEIGHT ->
    steps_ok U e s ms -> total U (apply_all clean run e s ms) = total U s.
  Proof.
    intros Hnd Hr Hc Hh Hok. induction Hok as [s|s m rest Hwf Hf Hg Hs Hnext IH]; [reflexivity|].
    cbn [apply_all].
    pose proof (ong_conserved U e s m Hwf Hnd Hf Hr Hc Hh Hg Hs) as Hone.
    destruct (handle_eip155 clean run e s m) as [o s'] eqn:E. cbn [snd fst] in *.
    destruct o as [err| |r]; try exact Hone.
    rewrite (IH r eq_refl). exact Hone.
  Qed.
End Envelope.

(** * SELFDESTRUCT as the state calls of opSuicide (AddBalance to the beneficiary, then
      StateDB.Suicide = SetBalance(self, 0)) *)
Section Selfdestruct.
  Variable R : Type.
  Notation state := (state R).

  Lemma account_empty_add_balance (s : state) a v x : account_empty (add_balance s a v) x = account_empty s x.
  Proof. reflexivity. Qed.

  (** beneficiary <> self: the sum is conserved *)
  Theorem selfdestruct_other_conserves U (s : state) self ben :
    NoDup U -> In self U -> In ben U -> self <> ben -> account_empty s self = false ->
    total U (op_selfdestruct s self ben) = total U s.
  Proof.
    intros Hnd Hs Hb Hne Hem. unfold op_selfdestruct, suicide. rewrite account_empty_add_balance, Hem.
    pose proof (total_set_bal_in R U (mark_suicided (add_balance s ben (bal s self)) self) self 0 Hnd Hs) as H1.
    rewrite total_mark_suicided, total_add_balance in H1 by assumption.
    cbn [mark_suicided add_balance set_bal bal] in H1. rewrite upd_other in H1 by assumption. lia.
  Qed.

  (** beneficiary = self: the whole balance of the contract disappears *)
  Theorem selfdestruct_self_burns U (s : state) self :
    NoDup U -> In self U -> account_empty s self = false ->
    total U (op_selfdestruct s self self) + bal s self = total U s.
  Proof.
    intros Hnd Hs Hem. unfold op_selfdestruct, suicide. rewrite account_empty_add_balance, Hem.
    pose proof (total_set_bal_in R U (mark_suicided (add_balance s self (bal s self)) self) self 0 Hnd Hs) as H1.
    rewrite total_mark_suicided, total_add_balance in H1 by assumption.
    cbn [mark_suicided add_balance set_bal bal] in H1. rewrite upd_same in H1. lia.
  Qed.
End Selfdestruct.

(** * Concrete instances: non-vacuity, sharpness of the side conditions, and the two refutations *)
Section Concrete.
  Notation state := (state unit).
  Definition clean0 : (addr -> bool) -> unit -> unit := fun _ u => u.

  (** evm.Call to an account without code (plain value transfer) / evm.Create with empty init code
      reduced to what matters here: the nonce step. *)
  Definition run_plain (c : bool) (s : state) (m : msg) (g : N) : run_result unit :=
    match m_to m with
    | Some to => mkRun (transfer s (m_from m) to (m_value m)) g 0 None
    | None => mkRun (set_nonce s (m_from m) (next_nonce (nonce s (m_from m)))) g 0 None
    end.

  (** evm.Call into a contract whose code is ADDRESS SELFDESTRUCT: value transfer, then opSuicide
      with beneficiary = self.  5003 gas are consumed (ADDRESS 2 + SELFDESTRUCT 5000 + ...). *)
  Definition run_selfdestruct_self (c : bool) (s : state) (m : msg) (g : N) : run_result unit :=
    match m_to m with
    | Some to => mkRun (op_selfdestruct (transfer s (m_from m) to (m_value m)) to to) (g - 5003) 0 None
    | None => mkRun s g 0 None
    end.

  (* accounts: 1 = sender, 2 = fee receiver, 3 = callee *)
  Definition st0 (b1 b3 : N) (code3 : bool) : state :=
    mkState (fun a => if a =? 1 then b1 else if a =? 3 then b3 else 0)
            (fun a => if a =? 1 then 7 else if a =? 3 then (if code3 then 1 else 0) else 0)
            (fun a => (a =? 3) && code3) (fun _ => false) false tt.
  Definition msg0 (gas price value : N) : msg := mkMsg 1 (Some 3) 7 price gas value [] true.
  Definition U0 : list addr := [1; 2; 3].
  Definition polaris (h : N) : env := mkEnv 5851 h 2.
  Definition mainnet (h : N) : env := mkEnv EIP155_CHAINID_MAINNET h 2.
  (** [run_plain] satisfies every hypothesis, for every transaction. *)
  Lemma inv_inversion e (s : state) m c s0 g : invocation e s m = Some (c, s0, g) ->
    exists b, pre_check e s m = inl b /\ plan_of e b m = PRun c s0 g.
  Proof.
    unfold invocation. destruct (pre_check e s m) as [b|]; [|discriminate].
    destruct (plan_of e b m) eqn:E; [discriminate|]. intros H; inversion H; subst. now exists b.
  Qed.

  Lemma run_plain_gas e s m : H_gas unit run_plain e s m.
  Proof. intros c s0 g _. unfold run_plain. destruct (m_to m); cbn; lia. Qed.

  Lemma run_plain_sum U e s m : NoDup U -> In (m_from m) U -> (forall to, m_to m = Some to -> In to U) ->
    H_sum unit run_plain U e s m.
  Proof.
    intros Hnd Hf Ht c s0 g Hinv. destruct (inv_inversion _ _ _ _ _ _ Hinv) as (b & Hp & Epl).
    destruct (plan_state _ _ _ _ _ _ _ Epl) as (_ & Es0 & Hv). unfold run_plain.
    destruct (m_to m) as [to|] eqn:Eto; cbn [r_state].
    - apply total_transfer; auto. rewrite Es0. now destruct c.
    - apply total_set_nonce.
  Qed.

  Lemma run_plain_nonce e s m : H_nonce unit run_plain e s m.
  Proof.
    intros c s0 g Hinv. destruct (inv_inversion _ _ _ _ _ _ Hinv) as (b & Hp & Epl).
    destruct (plan_state _ _ _ _ _ _ _ Epl) as (Ec & _ & _). unfold run_plain, is_create in *.
    destruct (m_to m) as [to|]; subst c; cbn [r_state].
    - unfold transfer, sub_balance, handle_sub_balance. destruct (_ <? _); reflexivity.
    - cbn. now rewrite upd_same.
  Qed.

  Lemma run_plain_debit e s m : H_debit unit run_plain e s m.
  Proof.
    intros c s0 g Hinv. destruct (inv_inversion _ _ _ _ _ _ Hinv) as (b & Hp & Epl).
    destruct (plan_state _ _ _ _ _ _ _ Epl) as (_ & Es0 & Hv).
    assert (Hv' : m_value m <= bal s0 (m_from m)) by (rewrite Es0; now destruct c).
    unfold run_plain. destruct (m_to m) as [to|]; cbn [r_state]; [|cbn; lia].
    unfold transfer. rewrite sub_balance_ok by assumption. rewrite bal_add_balance.
    destruct (N.eqb_spec (m_from m) to) as [E|E]; [rewrite <- E|]; cbn [set_bal bal]; rewrite upd_same; lia.
  Qed.

  Lemma run_plain_fields (s : state) m c g :
    suicided (r_state (run_plain c s m g)) = suicided s /\ (m_value m <= bal s (m_from m) -> dberr (r_state (run_plain c s m g)) = dberr s).
  Proof.
    unfold run_plain. destruct (m_to m); cbn [r_state]; split; try reflexivity.
    - unfold transfer, sub_balance, handle_sub_balance. destruct (_ <? _); reflexivity.
    - intros H. unfold transfer. now rewrite sub_balance_ok.
  Qed.

  Lemma run_plain_alive e s m : wf_msg m -> suicided s (m_from m) = false -> H_alive unit run_plain e s m.
  Proof.
    intros Hwf Hs c s0 g Hinv. destruct (inv_inversion _ _ _ _ _ _ Hinv) as (b & Hp & Epl).
    destruct (plan_state _ _ _ _ _ _ _ Epl) as (_ & Es0 & _).
    rewrite (proj1 (run_plain_fields s0 m c g)). rewrite Es0.
    pose proof (pre_check_inl _ _ _ _ _ Hp) as ->.
    destruct (buy_gas_spec unit e s m Hwf) as (cost & _ & -> & _). now destruct c.
  Qed.

  Lemma run_plain_nodberr e s m : H_nodberr unit run_plain e s m.
  Proof.
    intros c s0 g Hinv. destruct (inv_inversion _ _ _ _ _ _ Hinv) as (b & Hp & Epl).
    destruct (plan_state _ _ _ _ _ _ _ Epl) as (_ & Es0 & Hv).
    apply (proj2 (run_plain_fields s0 m c g)). rewrite Es0. now destruct c.
  Qed.
End Concrete.
