(** The header index cache window (HeaderIndexCache.setHeaderIndex, loadHeaderIndexList) with the
    arithmetic of the current source (Gen/LedgerIndexFormulas.v, Gen/LedgerIndexConsts.v): while blocks
    are added one by one and across restarts, the cache holds exactly the heights
    firstIndex .. current height, never more than HEADER_INDEX_MAX_SIZE + 1 of them and never fewer
    than min(current height + 1, HEADER_INDEX_MAX_SIZE). *)
From Coq Require Import List NArith ZArith Bool Lia ZifyN ZifyNat ZifyBool.
Import ListNotations.
From Ont Require Import Gen.LedgerIndexConsts Gen.LedgerIndexFormulas Model.BlockStore Proofs.BlockStore.
Local Open Scope N_scope.
Ltac Zify.zify_post_hook ::= Z.to_euclidean_division_equations.

Definition MAXSZ : N := HEADER_INDEX_MAX_SIZE.

Lemma maxsz_bounds : 1 <= MAXSZ /\ MAXSZ < 2147483648.
Proof. vm_compute. split; [discriminate|reflexivity]. Qed.

Record window (c : hicache) (cur : N) : Prop := {
  w_last : hi_last c = cur;
  w_first_le : hi_first c <= cur;
  w_size : cur <= hi_first c + MAXSZ;                             (* at most MAXSZ + 1 entries *)
  w_tight : hi_first c = 0 \/ hi_first c + MAXSZ <= cur + 1;     (* at least min(cur + 1, MAXSZ) entries *)
  w_dom : forall h, lookup h (hi_map c) <> None <-> hi_first c <= h <= cur
}.

(** the eviction loop removes exactly the heights h .. h+n-1 and leaves firstIndex at h+n *)
Lemma evict_loop_exact n : forall m h,
  h + N.of_nat n < 4294967296 ->
  snd (evict_loop n m h h) = h + N.of_nat n /\
  (forall i, h <= i < h + N.of_nat n -> lookup i (fst (evict_loop n m h h)) = None) /\
  (forall i, ~ (h <= i < h + N.of_nat n) -> lookup i (fst (evict_loop n m h h)) = lookup i m).
Proof.
  induction n as [|n IH]; intros m h Hlt; cbn [evict_loop].
  - cbn [fst snd]. split; [lia|]. split; [intros i Hi; lia|reflexivity].
  - rewrite u32z_succ by lia.
    destruct (IH (del h m) (h + 1)) as (E1 & E2 & E3); [lia|].
    split; [|split].
    + rewrite E1. lia.
    + intros i Hi. destruct (N.eq_dec i h) as [->|Hne].
      * rewrite E3 by lia. apply lookup_del_eq.
      * apply E2. lia.
    + intros i Hi. rewrite E3 by lia. apply lookup_del_neq. lia.
Qed.

(** number of evictions of one setHeaderIndex call *)
Definition evictions (first cur : N) : N :=
  if first <? cur then (cur - first + 1) - MAXSZ else 0.

Lemma set_header_index_exact c cur hh k :
  hi_first c <= cur -> hi_last c < 4294967296 -> cur + 1 < 4294967296 -> hh < 4294967296 ->
  let c' := set_header_index c cur hh k in
  let n := evictions (hi_first c) cur in
  hi_first c' = hi_first c + n /\
  hi_last c' = N.max (hi_last c) hh /\
  (forall i, hi_first c <= i < hi_first c + n -> lookup i (hi_map c') = None) /\
  (forall i, ~ (hi_first c <= i < hi_first c + n) ->
             lookup i (hi_map c') = if i =? hh then Some k else lookup i (hi_map c)).
Proof.
  intros Hf Hl Hc Hh. cbv zeta.
  split; [|split; [now apply set_header_index_last|]].
  - unfold set_header_index, evictions; cbv zeta.
    unfold hic_first_guard_lhs, hic_first_guard_rhs, hic_cache_size, evict_count, hic_evict_lhs, hic_evict_rhs.
    rewrite !(u32z_id (hi_first c)) by lia. rewrite !(u32z_id cur) by lia.
    destruct (N.ltb_spec (hi_first c) cur) as [Hlt|Hge]; [|cbn [hi_first]; lia].
    assert (Es : u32z (Z.of_N cur - Z.of_N (hi_first c) + 1) = cur - hi_first c + 1) by (unfold u32z; lia).
    rewrite Es. rewrite (u32z_id (cur - hi_first c + 1)) by lia.
    pose proof maxsz_bounds as [Hm1 Hm2]. fold MAXSZ. rewrite (u32z_id MAXSZ) by lia.
    pose proof (evict_loop_exact (N.to_nat (cur - hi_first c + 1 - MAXSZ)) (put hh k (hi_map c)) (hi_first c)) as Hev.
    destruct (evict_loop _ _ _ _) as [m' f']. cbn [fst snd hi_first] in *.
    destruct Hev as (E1 & _ & _); lia.
  - unfold set_header_index, evictions; cbv zeta.
    unfold hic_first_guard_lhs, hic_first_guard_rhs, hic_cache_size, evict_count, hic_evict_lhs, hic_evict_rhs.
    rewrite !(u32z_id (hi_first c)) by lia. rewrite !(u32z_id cur) by lia.
    assert (Hput : forall i, lookup i (put hh k (hi_map c)) = if i =? hh then Some k else lookup i (hi_map c)).
    { intros i. destruct (N.eqb_spec i hh) as [->|Hne]; [apply lookup_put_eq|now apply lookup_put_neq]. }
    destruct (N.ltb_spec (hi_first c) cur) as [Hlt|Hge].
    + assert (Es : u32z (Z.of_N cur - Z.of_N (hi_first c) + 1) = cur - hi_first c + 1) by (unfold u32z; lia).
      rewrite Es. rewrite (u32z_id (cur - hi_first c + 1)) by lia.
      pose proof maxsz_bounds as [Hm1 Hm2]. fold MAXSZ. rewrite (u32z_id MAXSZ) by lia.
      pose proof (evict_loop_exact (N.to_nat (cur - hi_first c + 1 - MAXSZ)) (put hh k (hi_map c)) (hi_first c)) as Hev.
      destruct (evict_loop _ _ _ _) as [m' f']. cbn [fst snd hi_map] in *.
      destruct Hev as (_ & E2 & E3); [lia|].
      split; intros i Hi.
      * apply E2. lia.
      * rewrite E3 by lia. apply Hput.
    + cbn [hi_map]. split; intros i Hi; [lia|apply Hput].
Qed.

(** adding the next block moves the window *)
Lemma window_commit c cur k :
  window c cur -> cur + 2 < 4294967296 -> window (set_header_index c cur (cur + 1) k) (cur + 1).
Proof.
  intros [W1 W2 W3 W4 W5] Hlt. pose proof maxsz_bounds as [Hm1 Hm2].
  destruct (set_header_index_exact c cur (cur + 1) k) as (E1 & E2 & E3 & E4); try lia.
  cbv zeta in *. set (c' := set_header_index c cur (cur + 1) k) in *.
  assert (En : evictions (hi_first c) cur = if hi_first c <? cur then (cur - hi_first c + 1) - MAXSZ else 0) by reflexivity.
  set (n := evictions (hi_first c) cur) in *.
  assert (Hn : hi_first c + n <= cur + 1 /\ cur + 1 <= hi_first c + n + MAXSZ /\
               (n = 0 \/ hi_first c + n + MAXSZ = cur + 1)).
  { rewrite En. destruct (N.ltb_spec (hi_first c) cur); lia. }
  split.
  - rewrite E2. lia.
  - rewrite E1. lia.
  - rewrite E1. lia.
  - rewrite E1. lia.
  - intros h. rewrite E1.
    destruct (N.lt_ge_cases h (hi_first c + n)) as [Hlo|Hhi].
    + destruct (N.le_gt_cases (hi_first c) h) as [Hin|Hout].
      * rewrite E3 by lia. split; [congruence|lia].
      * rewrite E4 by lia. destruct (N.eqb_spec h (cur + 1)); [lia|]. rewrite W5. lia.
    + rewrite E4 by lia. destruct (N.eqb_spec h (cur + 1)) as [->|Hne].
      * split; [lia|congruence].
      * rewrite W5. lia.
Qed.

(** re-loading after a restart *)
Lemma load_loop_window d cur start :
  cur + 1 < 4294967296 -> start <= cur -> cur + 1 <= start + MAXSZ ->
  forall n i c c', i + N.of_nat n = cur + 1 -> start <= i ->
    hi_first c = start -> hi_last c = (if i =? start then start else i - 1) ->
    (forall h, lookup h (hi_map c) <> None <-> start <= h < i) ->
    load_loop n d cur i c = Some c' ->
    hi_first c' = start /\ hi_last c' = (if i + N.of_nat n =? start then start else i + N.of_nat n - 1) /\
    (forall h, lookup h (hi_map c') <> None <-> start <= h < i + N.of_nat n).
Proof.
  intros Hcur Hs Hsz. induction n as [|n IH]; intros i c c' Hi Hsi Hf Hl Hdom Hload.
  - cbn [load_loop] in Hload. inversion Hload; subst c'. cbn [N.of_nat]. rewrite N.add_0_r. split; [exact Hf|]. split; [exact Hl|exact Hdom].
  - cbn [load_loop] in Hload.
    destruct (lookup i (d_bhash d)) as [k|]; [|discriminate Hload].
    destruct (k =? EMPTY); [discriminate Hload|].
    rewrite u32z_succ in Hload by lia.
    destruct (set_header_index_exact c cur i k) as (E1 & E2 & E3 & E4); try lia.
    { rewrite Hl. destruct (i =? start); lia. }
    cbv zeta in *.
    assert (En : evictions (hi_first c) cur = 0).
    { unfold evictions. rewrite Hf. destruct (N.ltb_spec start cur); lia. }
    rewrite En, N.add_0_r in *.
    apply IH in Hload; try lia.
    + destruct Hload as (F1 & F2 & F3). replace (i + 1 + N.of_nat n) with (i + N.of_nat (S n)) in * by lia.
      split; [exact F1|]. split; [exact F2|exact F3].
    + rewrite E2, Hl. destruct (N.eqb_spec i start), (N.eqb_spec (i + 1) start); lia.
    + intros h. rewrite E4 by lia. destruct (N.eqb_spec h i) as [->|Hne].
      * split; [lia|congruence].
      * rewrite Hdom. lia.
Qed.

Lemma reload_first_exact cur : cur + 1 < 4294967296 ->
  reload_first cur = if MAXSZ <? cur + 1 then cur + 1 - MAXSZ else 0.
Proof.
  intros Hc. pose proof maxsz_bounds as [Hm1 Hm2]. unfold reload_first.
  unfold reload_guard_lhs, reload_guard_rhs, reload_start. fold MAXSZ.
  rewrite (u32z_id MAXSZ) by lia. rewrite u32z_succ by lia.
  destruct (N.ltb_spec MAXSZ (cur + 1)); [|reflexivity]. unfold u32z. lia.
Qed.

Lemma window_reload d cur c :
  cur + 1 < 4294967296 -> load_header_index_list d cur = Some c -> window c cur.
Proof.
  intros Hc Hload. pose proof maxsz_bounds as [Hm1 Hm2].
  unfold load_header_index_list in Hload; cbv zeta in Hload.
  unfold reload_loop_from, reload_loop_lhs, reload_loop_rhs in Hload.
  rewrite (reload_first_exact cur Hc) in Hload.
  set (start := if MAXSZ <? cur + 1 then cur + 1 - MAXSZ else 0) in *.
  assert (Hs : start <= cur /\ cur + 1 <= start + MAXSZ /\ (start = 0 \/ start + MAXSZ = cur + 1)).
  { unfold start. destruct (N.ltb_spec MAXSZ (cur + 1)); lia. }
  rewrite !(u32z_id start) in Hload by lia. rewrite (u32z_id cur) in Hload by lia.
  apply (load_loop_window d cur start Hc (proj1 Hs) (proj1 (proj2 Hs))) in Hload; cbn [hi_first hi_last hi_map]; try lia.
  - destruct Hload as (F1 & F2 & F3).
    replace (start + N.of_nat (N.to_nat (cur + 1 - start))) with (cur + 1) in * by lia.
    split; try lia.
    + rewrite F2. destruct (N.eqb_spec (cur + 1) start); lia.
    + intros h. rewrite F3, F1. lia.
  - now rewrite N.eqb_refl.
  - intros h. cbn [lookup]. split; [congruence|lia].
Qed.

(** * Along a history without AddHeader *)
Lemma add_block_result s b s' :
  add_block s b = (s', Added) ->
  s_hic s' = set_header_index (s_hic s) (s_cur_height s) (bheight b) (bhash b) /\ s_cur_height s' = bheight b.
Proof.
  unfold add_block; cbv zeta. destruct (_ <=? _); [discriminate|]. destruct (negb _); [discriminate|].
  intros H. inversion H; subst. cbn [s_hic s_cur_height].
  destruct (submit_fields s b) as (F1 & _ & _ & _ & _ & F6). now split.
Qed.

Lemma open_store_result d g s' v :
  d_ver d = Some v -> open_store d g = Some s' ->
  exists k cur, d_cur d = Some (k, cur) /\ s_cur_height s' = cur /\ load_header_index_list d cur = Some (s_hic s').
Proof.
  intros Hv. unfold open_store. rewrite Hv. destruct (v =? SYSTEM_VERSION); [|discriminate].
  destruct (lookup _ _); [|discriminate]. destruct (d_cur d) as [[k cur]|]; [|discriminate].
  destruct (load_header_index_list d cur) as [c|] eqn:E; [|discriminate].
  intros H. inversion H; subst. exists k, cur. cbn. now repeat split.
Qed.

Definition no_headers (ops : list op) : Prop := forall hd, ~ In (OAddHeader hd) ops.

Lemma run_window g : forall ops s chain s',
  inv g chain s -> window (s_hic s) (s_cur_height s) ->
  chain_wf (chain ++ committed (s_cur_height s) ops) -> no_headers ops ->
  run g s ops = Some s' -> window (s_hic s') (s_cur_height s').
Proof.
  induction ops as [|o r IH]; intros s chain s' Hinv Hw Hwf Hnh Hrun.
  - cbn [run] in Hrun. now inversion Hrun; subst.
  - assert (Hnh' : no_headers r) by (intros hd Hin; apply (Hnh hd); now right).
    destruct o as [b|hd|]; cbn [run step committed] in *.
    + destruct (N.eqb_spec (bheight b) (s_cur_height s + 1)) as [e|e].
      * change (b :: committed (s_cur_height s + 1) r) with ([b] ++ committed (s_cur_height s + 1) r) in *.
        rewrite app_assoc in *.
        pose proof (chain_wf_prefix _ _ Hwf) as Hwf1.
        destruct (add_block_accept g chain s b Hinv Hwf1) as (s1 & E & Hinv1).
        rewrite E in Hrun. cbn [fst] in Hrun.
        destruct (add_block_result s b s1 E) as [Eh Ec]. rewrite e in Ec.
        assert (Hlen : s_cur_height s + 2 < 4294967296).
        { pose proof (cd_len _ (proj1 Hwf1)) as L. pose proof (v_cur _ _ _ Hinv) as C.
          rewrite app_length in L. cbn in L. lia. }
        eapply (IH s1 (chain ++ [b])); [exact Hinv1| |rewrite Ec; exact Hwf|exact Hnh'|exact Hrun].
        rewrite Eh, Ec, e. now apply window_commit.
      * rewrite (add_block_skip g chain s b Hinv (proj1 (chain_wf_prefix _ _ Hwf)) e) in Hrun.
        eapply IH; eassumption.
    + exfalso. apply (Hnh hd). now left.
    + pose proof (chain_wf_prefix _ _ Hwf) as Hwf1.
      destruct (reopen_inv g chain s Hinv Hwf1) as (s1 & E & Hinv1).
      rewrite E in Hrun.
      destruct (open_store_result (s_db s) g s1 SYSTEM_VERSION (v_ver _ _ _ Hinv) E) as (k & cur & Ed & Ec & El).
      rewrite (v_dcur _ _ _ Hinv) in Ed. injection Ed as Ek Ecur. rewrite <- Ecur in Ec, El.
      assert (Hlen : s_cur_height s + 1 < 4294967296).
      { pose proof (cd_len _ (proj1 Hwf1)) as L. pose proof (v_cur _ _ _ Hinv) as C. lia. }
      eapply (IH s1 chain); [exact Hinv1| |rewrite Ec; exact Hwf|exact Hnh'|exact Hrun].
      rewrite Ec. now apply window_reload with (d := s_db s).
Qed.

Theorem window_holds g ops s :
  history_ok g ops -> no_headers ops -> run_ledger g ops = Some s ->
  window (s_hic s) (s_cur_height s).
Proof.
  intros [Hg Hd Hok] Hnh Hrun.
  pose proof (genesis_chain_heights g ops Hg) as Hh.
  assert (Hwf : chain_wf ([g] ++ committed 0 ops)) by (split; assumption).
  destruct (init_inv g Hg (chain_wf_prefix _ _ Hwf)) as (s0 & E0 & Hinv0).
  unfold run_ledger in Hrun. rewrite E0 in Hrun.
  assert (Ec : s_cur_height s0 = 0).
  { pose proof (v_cur _ _ _ Hinv0) as C. cbn in C. lia. }
  eapply (run_window g ops s0 [g]); [exact Hinv0| |rewrite Ec; exact Hwf|exact Hnh|exact Hrun].
  (* the window of a new ledger: {0 -> genesis hash}, first = last = 0 *)
  rewrite Ec.
  assert (Eh : s_hic s0 = s_hic (submit_block (fresh_store empty_db) g)).
  { unfold open_store in E0. cbn [d_ver empty_db] in E0. cbv zeta in E0. injection E0 as <-. reflexivity. }
  rewrite Eh.
  destruct (submit_fields (fresh_store empty_db) g) as (_ & _ & _ & _ & _ & F6). rewrite F6.
  cbn [fresh_store s_hic s_cur_height]. rewrite Hg.
  pose proof maxsz_bounds as [Hm1 Hm2].
  destruct (set_header_index_exact new_hicache 0 0 (bhash g)) as (E1 & E2 & E3 & E4); cbn [new_hicache hi_first hi_last]; try lia.
  cbv zeta in *. cbn [new_hicache hi_first hi_last hi_map] in *.
  assert (En : evictions 0 0 = 0) by reflexivity. rewrite En in *.
  split.
  - rewrite E2. reflexivity.
  - rewrite E1. lia.
  - rewrite E1. lia.
  - left. rewrite E1. reflexivity.
  - intros h. rewrite E1. rewrite E4 by lia. destruct (N.eqb_spec h 0) as [->|Hne].
    + split; [lia|congruence].
    + cbn [lookup]. split; [congruence|lia].
Qed.
