(** Proofs about Model/Unbind.v: the release loop computes a difference of the cumulative
    function [cum]; closed forms for CalcUnbindOng / CalcGovernanceUnbindOng; additivity,
    absence of uint32/uint64 wrap, whole-schedule totals. *)
From Coq Require Import List NArith ZArith Bool PeanoNat Lia ZifyN ZifyNat ZifyBool.
Import ListNotations.
From Ont Require Import Model.Unbind.
Ltac Zify.zify_post_hook ::= Z.to_euclidean_division_equations.
Local Open Scope N_scope.

(** * Generic part: any table, any positive interval below 2^32 *)
Section Table.
Variables (tbl : list N) (ti : N).
Hypothesis Hti : 0 < ti.

Definition rt (u : nat) : N := nth u tbl 0.
Definition cumU (u : nat) : N := ti * sumN (firstn u tbl).
Definition CC (u i : N) : N := cumU (N.to_nat u) + i * rt (N.to_nat u).

Lemma sumN_firstn_S : forall (l : list N) u, sumN (firstn (S u) l) = sumN (firstn u l) + nth u l 0.
Proof.
  intros l u; revert l; induction u; intros [|x r]; try reflexivity.
  - cbn [firstn sumN nth]. lia.
  - change (firstn (S (S u)) (x :: r)) with (x :: firstn (S u) r).
    change (firstn (S u) (x :: r)) with (x :: firstn u r).
    cbn [sumN nth]. rewrite IHu. lia.
Qed.

Lemma cumU_S u : cumU (S u) = cumU u + ti * rt u.
Proof. unfold cumU, rt. rewrite sumN_firstn_S. lia. Qed.

Lemma cumU_mono u v : (u <= v)%nat -> cumU u <= cumU v.
Proof. induction 1; [lia|]. rewrite cumU_S. lia. Qed.

Lemma cum_CC x : cum tbl ti x = CC (x / ti) (x mod ti).
Proof. reflexivity. Qed.

Lemma CC_succ_unit u i : i <= ti -> CC (u + 1) 0 = CC u i + (ti - i) * rt (N.to_nat u).
Proof.
  intro Hi. unfold CC. replace (N.to_nat (u + 1)) with (S (N.to_nat u)) by lia.
  rewrite cumU_S.
  assert (E : ti * rt (N.to_nat u) = i * rt (N.to_nat u) + (ti - i) * rt (N.to_nat u)).
  { rewrite <- N.mul_add_distr_r. f_equal. lia. }
  lia.
Qed.

Lemma CC_0_mono u v : u <= v -> CC u 0 <= CC v 0.
Proof. intro H. unfold CC. rewrite !N.mul_0_l, !N.add_0_r. apply cumU_mono. lia. Qed.

(** [cum] is the running sum of the per-second rate. *)
Lemma cum_succ x : cum tbl ti (x + 1) = cum tbl ti x + tbl_rate tbl ti x.
Proof.
  assert (Hnz : ti <> 0) by lia.
  pose proof (N.div_mod x ti Hnz) as Dx. pose proof (N.mod_lt x ti Hnz) as Mx.
  rewrite !cum_CC. unfold tbl_rate.
  remember (x / ti) as q. remember (x mod ti) as r.
  destruct (N.eq_dec (r + 1) ti) as [Heq | Hne].
  - assert (E1 : (x + 1) / ti = q + 1).
    { symmetry. apply (N.div_unique (x + 1) ti (q + 1) 0); [lia|].
      rewrite N.mul_add_distr_l. remember (ti * q) as T. lia. }
    assert (E2 : (x + 1) mod ti = 0).
    { symmetry. apply (N.mod_unique (x + 1) ti (q + 1) 0); [lia|].
      rewrite N.mul_add_distr_l. remember (ti * q) as T. lia. }
    rewrite E1, E2. rewrite (CC_succ_unit q r) by lia.
    replace (ti - r) with 1 by lia. fold (rt (N.to_nat q)). lia.
  - assert (E1 : (x + 1) / ti = q).
    { symmetry. apply (N.div_unique (x + 1) ti q (r + 1)); [lia|].
      remember (ti * q) as T. lia. }
    assert (E2 : (x + 1) mod ti = r + 1).
    { symmetry. apply (N.mod_unique (x + 1) ti q (r + 1)); [lia|].
      remember (ti * q) as T. lia. }
    rewrite E1, E2. unfold CC. fold (rt (N.to_nat q)). lia.
Qed.

Hypothesis Hti32 : ti < w32.

Lemma loop_unfold fuel uend u i a :
  unbind_loop fuel tbl ti uend u i a =
  if u <? uend then
    match fuel with
    | O => OutOfFuel
    | S f => match nth_error tbl (N.to_nat u) with
             | None => Panic
             | Some r => unbind_loop f tbl ti uend (add32 u 1) 0 (add64 a (mul64 (sub32 ti i) r))
             end
    end
  else Ok (u, i, a).
Proof. destruct fuel; reflexivity. Qed.

Lemma nth_error_rt u : (u < length tbl)%nat -> nth_error tbl u = Some (rt u).
Proof.
  intro H. destruct (nth_error tbl u) eqn:E.
  - f_equal. symmetry. apply nth_error_nth. exact E.
  - apply nth_error_None in E. lia.
Qed.

Lemma sub32_small a b : b <= a -> a < w32 -> sub32 a b = a - b.
Proof. unfold sub32, w32. intros. lia. Qed.
Lemma add64_small a b : a + b < w64 -> add64 a b = a + b.
Proof. unfold add64. intro. apply N.mod_small. assumption. Qed.
Lemma mul64_small a b : a * b < w64 -> mul64 a b = a * b.
Proof. unfold mul64. intro. apply N.mod_small. assumption. Qed.
Lemma add32_small a b : a + b < w32 -> add32 a b = a + b.
Proof. unfold add32. intro. apply N.mod_small. assumption. Qed.

(** The loop, started below [uend], ends at (uend, 0) having added CC uend 0 - CC u i, without
    any uint32/uint64 wrap, index panic or fuel exhaustion. *)
Lemma loop_spec uend :
  (N.to_nat uend < length tbl)%nat -> uend < w32 ->
  forall fuel u i a, u < uend -> (N.to_nat uend - N.to_nat u <= fuel)%nat -> i <= ti ->
    a + CC uend 0 < w64 + CC u i ->
    exists a', unbind_loop fuel tbl ti uend u i a = Ok (uend, 0, a') /\ a' + CC u i = a + CC uend 0.
Proof.
  intros Hlen Hu32. induction fuel; intros u i a Hlt Hf Hi Hb.
  - lia.
  - rewrite loop_unfold.
    replace (u <? uend) with true by (symmetry; apply N.ltb_lt; assumption).
    rewrite nth_error_rt by lia.
    pose proof (CC_succ_unit u i Hi) as HS.
    pose proof (CC_0_mono (u + 1) uend ltac:(lia)) as Hmono.
    remember ((ti - i) * rt (N.to_nat u)) as P eqn:EP.
    rewrite (sub32_small ti i Hi Hti32).
    assert (HP : a + P < w64) by lia.
    replace (mul64 (ti - i) (rt (N.to_nat u))) with P
      by (symmetry; rewrite mul64_small; rewrite <- EP; [reflexivity | lia]).
    rewrite (add64_small a P HP).
    rewrite (add32_small u 1) by lia.
    destruct (N.eq_dec (u + 1) uend) as [Heq | Hne].
    + rewrite loop_unfold.
      replace (u + 1 <? uend) with false by (symmetry; apply N.ltb_ge; lia).
      exists (a + P). split; [rewrite Heq; reflexivity | rewrite <- Heq; lia].
    + destruct (IHfuel (u + 1) 0 (a + P)) as [a' [E1 E2]]; try lia.
      exists a'. split; [exact E1 | lia].
Qed.

(** The shared block of both functions computes [cum e - cum s]. *)
Lemma segment_spec s e :
  s <= e -> e < w32 -> (N.to_nat (e / ti) < length tbl)%nat -> cum tbl ti e < w64 ->
  segment tbl ti s e = Ok (cum tbl ti e - cum tbl ti s) /\ cum tbl ti s <= cum tbl ti e.
Proof.
  intros Hse He Hlen Hc.
  unfold segment. replace (ti =? 0) with false by (symmetry; apply N.eqb_neq; lia).
  rewrite !cum_CC in *.
  assert (Hnz : ti <> 0) by lia.
  pose proof (N.div_mod s ti Hnz) as Ds. pose proof (N.mod_lt s ti Hnz) as Ms.
  pose proof (N.div_mod e ti Hnz) as De. pose proof (N.mod_lt e ti Hnz) as Me.
  pose proof (N.div_le_mono s e ti Hnz Hse) as Hq.
  assert (Hue : e / ti < w32).
  { apply N.le_lt_trans with e; [|assumption].
    rewrite <- (N.div_1_r e) at 2. apply N.div_le_compat_l. lia. }
  remember (s / ti) as us. remember (s mod ti) as is_.
  remember (e / ti) as ue. remember (e mod ti) as ie.
  clear Hequs Heqis_ Heque Heqie.
  remember (rt (N.to_nat ue)) as r eqn:Er.
  assert (HCe : CC ue ie = CC ue 0 + ie * r).
  { unfold CC. rewrite <- Er. lia. }
  destruct (N.eq_dec us ue) as [Heq | Hne].
  - subst ue. rewrite loop_unfold.
    replace (us <? us) with false by (symmetry; apply N.ltb_irrefl).
    rewrite nth_error_rt by lia. rewrite <- Er.
    assert (Hi : is_ <= ie).
    { remember (ti * us) as T. lia. }
    rewrite (sub32_small ie is_) by lia.
    assert (Hsplit : ie * r = is_ * r + (ie - is_) * r).
    { rewrite <- N.mul_add_distr_r. f_equal. lia. }
    assert (HCs : CC us is_ = CC us 0 + is_ * r).
    { unfold CC. rewrite <- Er. lia. }
    remember ((ie - is_) * r) as P.
    rewrite mul64_small by lia. rewrite add64_small by lia.
    split; [f_equal; lia | lia].
  - destruct (loop_spec ue Hlen Hue (S (length tbl)) us is_ 0) as [a' [E1 E2]]; try lia.
    rewrite E1. rewrite nth_error_rt by lia. rewrite <- Er.
    rewrite (sub32_small ie 0) by lia. rewrite N.sub_0_r.
    remember (ie * r) as P.
    rewrite mul64_small by lia. rewrite add64_small by lia.
    split; [f_equal; lia | lia].
Qed.

End Table.

Lemma rsum_0 f x : rsum f x 0 = 0.
Proof. reflexivity. Qed.
Lemma rsum_succ f x n : rsum f x (N.succ n) = rsum f x n + f (x + n).
Proof. unfold rsum. rewrite N.peano_rect_succ. reflexivity. Qed.

(** A function that grows by [f x] at every step is the running sum of [f]. *)
Lemma step_rsum (F f : N -> N) :
  (forall x, F (x + 1) = F x + f x) -> forall x n, F (x + n) = F x + rsum f x n.
Proof.
  intros HF x n. induction n using N.peano_ind.
  - rewrite N.add_0_r, rsum_0. lia.
  - rewrite rsum_succ. replace (x + N.succ n) with (x + n + 1) by lia. rewrite HF, IHn. lia.
Qed.

Lemma step_mono (F f : N -> N) :
  (forall x, F (x + 1) = F x + f x) -> forall x y, x <= y -> F x <= F y.
Proof.
  intros HF x y Hxy. replace y with (x + (y - x)) by lia. rewrite (step_rsum F f HF). lia.
Qed.

Lemma cum_mono tbl ti : 0 < ti -> forall x y, x <= y -> cum tbl ti x <= cum tbl ti y.
Proof. intros Hti. exact (step_mono (cum tbl ti) (tbl_rate tbl ti) (cum_succ tbl ti Hti)). Qed.

Lemma cum_0 tbl ti : 0 < ti -> cum tbl ti 0 = 0.
Proof.
  intro H. unfold cum. rewrite N.div_0_l, N.mod_0_l by lia. cbn [N.to_nat firstn sumN]. lia.
Qed.

(** * One configuration: holder deadline d, governance deadline and gap as the code derives them *)
Section Cfg.
Variables (d : N) (c : cfg).
Hypothesis Hc : cfg_at d = Some c.
Hypothesis Hok : cfg_ok c = true.

Notation cumO := (cum generation_amount time_interval).
Notation cumN := (cum new_generation_amount time_interval).

Lemma cfg_hd : c_hd c = d.
Proof.
  unfold cfg_at in Hc. destruct (gov_unbound_deadline_at d) as [[gd gap]| |]; try discriminate.
  inversion Hc. reflexivity.
Qed.

Lemma cfg_gov : gov_unbound_deadline_at d = Ok (c_gd c, c_gap c).
Proof.
  unfold cfg_at in Hc. destruct (gov_unbound_deadline_at d) as [[gd gap]| |]; try discriminate.
  inversion Hc. reflexivity.
Qed.

Lemma cfg_facts :
  0 < time_interval /\ time_interval < w32 /\ d <= c_gd c /\ c_gd c < w32 /\
  (N.to_nat (d / time_interval) < length generation_amount)%nat /\
  (N.to_nat (c_gd c / time_interval) < length new_generation_amount)%nat /\
  ont_total_supply * cumO d < w64 /\
  ont_total_supply * (cumN (c_gd c) + c_gap c) < w64.
Proof.
  pose proof cfg_hd as Hd. pose proof Hok as K. unfold cfg_ok in K. rewrite Hd in K.
  repeat (apply andb_prop in K; destruct K as [K ?]).
  repeat match goal with
         | H : (_ <? _) = true |- _ => apply N.ltb_lt in H
         | H : (_ <=? _) = true |- _ => apply N.leb_le in H
         | H : (_ <? _)%nat = true |- _ => apply Nat.ltb_lt in H
         end.
  repeat split; assumption.
Qed.

Lemma supply_pos : 0 < ont_total_supply -> forall x, ont_total_supply * x < w64 -> x < w64.
Proof. intros Hp x Hx. apply N.le_lt_trans with (ont_total_supply * x); [|assumption]. nia. Qed.

Lemma Hh_step x : Hh c (x + 1) = Hh c x + rate_h c x.
Proof.
  destruct cfg_facts as (Hti & _). unfold Hh, rate_h. rewrite cfg_hd.
  destruct (x <? d) eqn:E.
  - apply N.ltb_lt in E. rewrite !N.min_l by lia. apply cum_succ. exact Hti.
  - apply N.ltb_ge in E. rewrite !N.min_r by lia. lia.
Qed.

Lemma Hg_step x : Hg c (x + 1) = Hg c x + rate_g c x.
Proof.
  destruct cfg_facts as (Hti & _ & Hdg & _). unfold Hg, rate_g. rewrite cfg_hd.
  pose proof (cum_mono new_generation_amount time_interval Hti) as Hm.
  destruct (x <? d) eqn:E1.
  - apply N.ltb_lt in E1. rewrite !N.max_r by lia. rewrite !N.min_l by lia.
    replace (c_gd c <? x + 1) with false by (symmetry; apply N.ltb_ge; lia).
    replace (c_gd c <? x) with false by (symmetry; apply N.ltb_ge; lia). lia.
  - apply N.ltb_ge in E1. rewrite !N.max_l by lia.
    destruct (x <? c_gd c) eqn:E2.
    + apply N.ltb_lt in E2. rewrite !N.min_l by lia.
      replace (c_gd c <? x + 1) with false by (symmetry; apply N.ltb_ge; lia).
      replace (c_gd c <? x) with false by (symmetry; apply N.ltb_ge; lia).
      rewrite (cum_succ _ _ Hti). pose proof (Hm d x E1). lia.
    + apply N.ltb_ge in E2. rewrite !N.min_r by lia.
      replace (c_gd c <? x + 1) with true by (symmetry; apply N.ltb_lt; lia).
      destruct (x =? c_gd c) eqn:E3.
      * apply N.eqb_eq in E3. replace (c_gd c <? x) with false by (symmetry; apply N.ltb_ge; lia). lia.
      * apply N.eqb_neq in E3. replace (c_gd c <? x) with true by (symmetry; apply N.ltb_lt; lia). lia.
Qed.

Lemma Hh_mono x y : x <= y -> Hh c x <= Hh c y.
Proof. apply (step_mono _ (rate_h c)). exact Hh_step. Qed.
Lemma Hg_mono x y : x <= y -> Hg c x <= Hg c y.
Proof. apply (step_mono _ (rate_g c)). exact Hg_step. Qed.

Lemma Hh_le x : Hh c x <= cumO d.
Proof.
  destruct cfg_facts as (Hti & _). unfold Hh. rewrite cfg_hd. apply cum_mono; [exact Hti | lia].
Qed.

Lemma Hg_le x : Hg c x <= cumN (c_gd c) - cumN d + c_gap c.
Proof.
  destruct cfg_facts as (Hti & _ & Hdg & _). unfold Hg. rewrite cfg_hd.
  pose proof (cum_mono new_generation_amount time_interval Hti) as Hm.
  pose proof (Hm (N.min (N.max x d) (c_gd c)) (c_gd c) ltac:(lia)).
  destruct (c_gd c <? x); lia.
Qed.

(** Closed form of CalcUnbindOng. *)
Lemma holder_closed b s e : s < w32 -> e < w32 ->
  calc_unbind_ong_at d b s e = Ok ((b * (Hh c e - Hh c s)) mod w64).
Proof.
  intros Hs He.
  destruct cfg_facts as (Hti & Hti32 & Hdg & Hg32 & HlenO & _ & HwO & _).
  pose proof (cum_mono generation_amount time_interval Hti) as Hm.
  unfold calc_unbind_ong_at.
  destruct (e <=? s) eqn:E0.
  - apply N.leb_le in E0. pose proof (Hh_mono e s E0).
    replace (Hh c e - Hh c s) with 0 by lia. rewrite N.mul_0_r. reflexivity.
  - apply N.leb_gt in E0. unfold Hh. rewrite cfg_hd.
    destruct (s <? d) eqn:E1.
    + apply N.ltb_lt in E1.
      assert (Hsup : 0 < ont_total_supply -> cumO d < w64) by (intro; apply supply_pos; assumption).
      assert (Hcd : cumO d < w64).
      { destruct (N.eq_dec ont_total_supply 0) as [Z|NZ]; [|apply Hsup; lia].
        (* supply = 0 cannot make the bound vacuous for the loop: fall back on the table bound *)
        exfalso. clear -Z. vm_compute in Z. discriminate. }
      set (e' := if d <=? e then d else e).
      assert (He' : e' = N.min e d).
      { unfold e'. destruct (d <=? e) eqn:E2; [apply N.leb_le in E2 | apply N.leb_gt in E2]; lia. }
      destruct (segment_spec generation_amount time_interval Hti Hti32 s e') as [Eseg Hle].
      * lia.
      * lia.
      * assert (e' / time_interval <= d / time_interval) by (apply N.div_le_mono; lia). lia.
      * pose proof (Hm e' d ltac:(lia)). lia.
      * rewrite Eseg. rewrite (N.min_l s d) by lia. rewrite <- He'.
        unfold mul64. f_equal. f_equal. lia.
    + apply N.ltb_ge in E1. rewrite !N.min_r by lia.
      unfold mul64. rewrite N.sub_diag, N.mul_0_r, N.mul_0_l. reflexivity.
Qed.

(** No uint64 wrap for balances up to the ONT total supply. *)
Lemma holder_no_wrap b s e : b <= ont_total_supply ->
  b * (Hh c e - Hh c s) < w64.
Proof.
  intro Hb. destruct cfg_facts as (_ & _ & _ & _ & _ & _ & HwO & _).
  pose proof (Hh_le e). apply N.le_lt_trans with (ont_total_supply * cumO d); [|assumption].
  apply N.mul_le_mono; lia.
Qed.

(** Closed form of CalcGovernanceUnbindOng (never wraps). *)
Lemma gov_closed s e : s < w32 -> e < w32 ->
  calc_governance_unbind_ong_at d s e = Ok (ont_total_supply * (Hg c e - Hg c s)) /\
  ont_total_supply * (Hg c e - Hg c s) < w64.
Proof.
  intros Hs He.
  destruct cfg_facts as (Hti & Hti32 & Hdg & Hg32 & _ & HlenN & _ & HwN).
  pose proof (cum_mono new_generation_amount time_interval Hti) as Hm.
  assert (Hbound : ont_total_supply * (Hg c e - Hg c s) < w64).
  { apply N.le_lt_trans with (ont_total_supply * (cumN (c_gd c) + c_gap c)); [|assumption].
    apply N.mul_le_mono_l. pose proof (Hg_le e). lia. }
  split; [|exact Hbound].
  assert (Hcg : cumN (c_gd c) + c_gap c < w64).
  { destruct (N.eq_dec ont_total_supply 0) as [Z|NZ].
    - exfalso. clear -Z. vm_compute in Z. discriminate.
    - apply supply_pos; [lia | assumption]. }
  unfold calc_governance_unbind_ong_at.
  destruct (e <? d) eqn:E0.
  { apply N.ltb_lt in E0.
    assert (Hg c e = 0).
    { unfold Hg. rewrite cfg_hd. rewrite N.max_r by lia. rewrite N.min_l by lia.
      replace (c_gd c <? e) with false by (symmetry; apply N.ltb_ge; lia). lia. }
    replace (Hg c e - Hg c s) with 0 by lia. rewrite N.mul_0_r. reflexivity. }
  apply N.ltb_ge in E0.
  set (s1 := if s <? d then d else s).
  assert (Hs1 : s1 = N.max s d).
  { unfold s1. destruct (s <? d) eqn:E; [apply N.ltb_lt in E | apply N.ltb_ge in E]; lia. }
  assert (HgS : Hg c s = Hg c s1).
  { unfold Hg. rewrite cfg_hd. rewrite Hs1. rewrite N.max_id || idtac.
    replace (N.max (N.max s d) d) with (N.max s d) by lia.
    destruct (c_gd c <? s) eqn:A; destruct (c_gd c <? N.max s d) eqn:B; try reflexivity;
      [apply N.ltb_lt in A; apply N.ltb_ge in B | apply N.ltb_ge in A; apply N.ltb_lt in B]; lia. }
  destruct (e <=? s1) eqn:E1.
  { apply N.leb_le in E1. pose proof (Hg_mono e s1 E1).
    replace (Hg c e - Hg c s) with 0 by lia. rewrite N.mul_0_r. reflexivity. }
  apply N.leb_gt in E1.
  rewrite cfg_gov.
  destruct (s1 <=? c_gd c) eqn:E2.
  - apply N.leb_le in E2.
    set (e' := if c_gd c <? e then c_gd c else e).
    set (gap := if c_gd c <? e then c_gap c else 0).
    assert (He' : e' = N.min e (c_gd c)).
    { unfold e'. destruct (c_gd c <? e) eqn:E; [apply N.ltb_lt in E | apply N.ltb_ge in E]; lia. }
    destruct (segment_spec new_generation_amount time_interval Hti Hti32 s1 e') as [Eseg Hle].
    + lia.
    + lia.
    + assert (e' / time_interval <= c_gd c / time_interval) by (apply N.div_le_mono; lia). lia.
    + pose proof (Hm e' (c_gd c) ltac:(lia)). lia.
    + rewrite Eseg.
      assert (HgE : Hg c e = cumN e' - cumN d + gap).
      { unfold Hg, gap. rewrite cfg_hd. rewrite N.max_l by lia. rewrite <- He'. reflexivity. }
      assert (HgS1 : Hg c s1 = cumN s1 - cumN d).
      { unfold Hg. rewrite cfg_hd. rewrite N.max_l by lia. rewrite N.min_l by lia.
        replace (c_gd c <? s1) with false by (symmetry; apply N.ltb_ge; lia). lia. }
      pose proof (Hm d s1 ltac:(lia)). pose proof (Hm e' (c_gd c) ltac:(lia)).
      assert (gap <= c_gap c) by (unfold gap; destruct (c_gd c <? e); lia).
      assert (Hdiff : Hg c e - Hg c s = cumN e' - cumN s1 + gap) by lia.
      rewrite add64_small by lia.
      rewrite mul64_small by (rewrite N.mul_comm, <- Hdiff; exact Hbound).
      f_equal. rewrite Hdiff. lia.
  - apply N.leb_gt in E2.
    assert (Hg c e = Hg c s1).
    { unfold Hg. rewrite cfg_hd. rewrite !N.max_l by lia. rewrite !N.min_r by lia.
      replace (c_gd c <? e) with true by (symmetry; apply N.ltb_lt; lia).
      replace (c_gd c <? s1) with true by (symmetry; apply N.ltb_lt; lia). reflexivity. }
    replace (Hg c e - Hg c s) with 0 by lia.
    unfold mul64. rewrite N.mul_0_r, N.mul_0_l. reflexivity.
Qed.

Lemma Hh_0 : Hh c 0 = 0.
Proof. destruct cfg_facts as (Hti & _). unfold Hh. rewrite N.min_l by lia. apply cum_0. exact Hti. Qed.

Lemma Hg_0 : Hg c 0 = 0.
Proof.
  destruct cfg_facts as (Hti & _ & Hdg & _). unfold Hg. rewrite cfg_hd.
  rewrite N.max_r by lia. rewrite N.min_l by lia.
  replace (c_gd c <? 0) with false by (symmetry; apply N.ltb_ge; lia). lia.
Qed.

(** Whole schedule: everything is released once the interval reaches past the governance deadline. *)
Lemma whole_schedule e : c_gd c < e ->
  ont_total_supply * (Hh c e - Hh c 0) + ont_total_supply * (Hg c e - Hg c 0) = cfg_total c.
Proof.
  intro He. destruct cfg_facts as (Hti & _ & Hdg & _).
  rewrite Hh_0, Hg_0, !N.sub_0_r. unfold Hh, Hg, cfg_total. rewrite cfg_hd.
  rewrite N.min_r by lia. rewrite N.max_l by lia. rewrite N.min_r by lia.
  replace (c_gd c <? e) with true by (symmetry; apply N.ltb_lt; lia). reflexivity.
Qed.

End Cfg.

(** * Every network id *)

Lemma holder_deadline_in net : In (holder_deadline net) all_holder_deadlines.
Proof.
  unfold holder_deadline, all_holder_deadlines.
  destruct (find (fun p => fst p =? net) holder_deadline_cases) as [p|] eqn:E.
  - right. apply find_some in E. destruct E as [E _]. apply in_map. exact E.
  - left. reflexivity.
Qed.

(** Checked by computation on the generated tables: every configuration the code knows satisfies
    the side conditions and totals exactly the ONG supply. *)
Lemma all_configurations_ok : forallb hd_ok all_holder_deadlines = true.
Proof. vm_compute. reflexivity. Qed.

Lemma net_cfg net :
  exists c, cfg_of_net net = Some c /\ cfg_ok c = true /\ cfg_total c = ong_total_supply.
Proof.
  pose proof all_configurations_ok as H. rewrite forallb_forall in H.
  specialize (H _ (holder_deadline_in net)). unfold hd_ok in H. unfold cfg_of_net.
  destruct (cfg_at (holder_deadline net)) as [c|]; [|discriminate].
  apply andb_prop in H. destruct H as [H1 H2]. apply N.eqb_eq in H2.
  exists c. repeat split; assumption.
Qed.

(** The hand-written mirror of GetGovUnboundDeadline returns what the linked function returned
    (under every id named by the switch and every probed id of the default branch). *)
Lemma gov_deadline_model_matches_code : forallb gov_deadline_agrees gov_deadline_probe_ids = true.
Proof. vm_compute. reflexivity. Qed.

Lemma gov_deadline_never_panics net : exists gd gap, get_gov_unbound_deadline net = Ok (gd, gap).
Proof.
  destruct (net_cfg net) as [c [Hc _]]. unfold cfg_of_net, cfg_at in Hc. unfold get_gov_unbound_deadline.
  destruct (gov_unbound_deadline_at (holder_deadline net)) as [[gd gap]| |]; try discriminate.
  exists gd, gap. reflexivity.
Qed.

Section AllNets.
Variable net : N.

Lemma holder_closed_net b s e : s < w32 -> e < w32 ->
  exists c, cfg_of_net net = Some c /\
    calc_unbind_ong net b s e = Ok ((b * (Hh c e - Hh c s)) mod w64) /\
    (b <= ont_total_supply -> calc_unbind_ong net b s e = Ok (b * (Hh c e - Hh c s)) /\ b * (Hh c e - Hh c s) < w64).
Proof.
  intros Hs He. destruct (net_cfg net) as [c [Hc [Hok _]]]. exists c. split; [exact Hc|].
  unfold calc_unbind_ong. pose proof (holder_closed _ c Hc Hok b s e Hs He) as H. split; [exact H|].
  intro Hb. pose proof (holder_no_wrap _ c Hc Hok b s e Hb) as Hw.
  rewrite H. rewrite N.mod_small by exact Hw. split; [reflexivity | exact Hw].
Qed.

Lemma gov_closed_net s e : s < w32 -> e < w32 ->
  exists c, cfg_of_net net = Some c /\
    calc_governance_unbind_ong net s e = Ok (ont_total_supply * (Hg c e - Hg c s)) /\
    ont_total_supply * (Hg c e - Hg c s) < w64.
Proof.
  intros Hs He. destruct (net_cfg net) as [c [Hc [Hok _]]]. exists c. split; [exact Hc|].
  unfold calc_governance_unbind_ong. exact (gov_closed _ c Hc Hok s e Hs He).
Qed.

Lemma holder_additive b s m e : s <= m -> m <= e -> e < w32 ->
  exists x y z,
    calc_unbind_ong net b s m = Ok x /\ calc_unbind_ong net b m e = Ok y /\ calc_unbind_ong net b s e = Ok z /\
    (x + y) mod w64 = z /\
    (b <= ont_total_supply -> x + y = z /\ z < w64).
Proof.
  intros Hsm Hme He. destruct (net_cfg net) as [c [Hc [Hok _]]].
  unfold calc_unbind_ong.
  pose proof (holder_closed _ c Hc Hok b s m ltac:(lia) ltac:(lia)) as E1.
  pose proof (holder_closed _ c Hc Hok b m e ltac:(lia) ltac:(lia)) as E2.
  pose proof (holder_closed _ c Hc Hok b s e ltac:(lia) ltac:(lia)) as E3.
  pose proof (Hh_mono _ c Hc Hok s m Hsm) as M1. pose proof (Hh_mono _ c Hc Hok m e Hme) as M2.
  assert (Hsum : b * (Hh c m - Hh c s) + b * (Hh c e - Hh c m) = b * (Hh c e - Hh c s)).
  { rewrite <- N.mul_add_distr_l. f_equal. lia. }
  do 3 eexists. split; [exact E1|]. split; [exact E2|]. split; [exact E3|]. split.
  - rewrite <- N.add_mod by (unfold w64; lia). rewrite Hsum. reflexivity.
  - intro Hb.
    pose proof (holder_no_wrap _ c Hc Hok b s m Hb). pose proof (holder_no_wrap _ c Hc Hok b m e Hb).
    pose proof (holder_no_wrap _ c Hc Hok b s e Hb).
    rewrite !N.mod_small by assumption. split; assumption.
Qed.

Lemma gov_additive s m e : s <= m -> m <= e -> e < w32 ->
  exists x y z,
    calc_governance_unbind_ong net s m = Ok x /\ calc_governance_unbind_ong net m e = Ok y /\
    calc_governance_unbind_ong net s e = Ok z /\ x + y = z /\ z < w64.
Proof.
  intros Hsm Hme He. destruct (net_cfg net) as [c [Hc [Hok _]]].
  unfold calc_governance_unbind_ong.
  destruct (gov_closed _ c Hc Hok s m ltac:(lia) ltac:(lia)) as [E1 _].
  destruct (gov_closed _ c Hc Hok m e ltac:(lia) ltac:(lia)) as [E2 _].
  destruct (gov_closed _ c Hc Hok s e ltac:(lia) ltac:(lia)) as [E3 W3].
  pose proof (Hg_mono _ c Hc Hok s m Hsm) as M1. pose proof (Hg_mono _ c Hc Hok m e Hme) as M2.
  do 3 eexists. split; [exact E1|]. split; [exact E2|]. split; [exact E3|]. split; [|exact W3].
  rewrite <- N.mul_add_distr_l. f_equal. lia.
Qed.

Lemma totals e : e < w32 ->
  exists c, cfg_of_net net = Some c /\
    (c_gd c < e ->
     exists x y, calc_unbind_ong net ont_total_supply 0 e = Ok x /\
                 calc_governance_unbind_ong net 0 e = Ok y /\ x + y = ong_total_supply).
Proof.
  intro He. destruct (net_cfg net) as [c [Hc [Hok Htot]]]. exists c. split; [exact Hc|]. intro Hge.
  unfold calc_unbind_ong, calc_governance_unbind_ong.
  assert (H0 : 0 < w32) by (unfold w32; lia).
  pose proof (holder_closed _ c Hc Hok ont_total_supply 0 e H0 He) as E1.
  pose proof (holder_no_wrap _ c Hc Hok ont_total_supply 0 e (N.le_refl _)) as W1.
  rewrite N.mod_small in E1 by exact W1.
  destruct (gov_closed _ c Hc Hok 0 e H0 He) as [E2 _].
  do 2 eexists. split; [exact E1|]. split; [exact E2|].
  rewrite <- Htot. apply (whole_schedule _ c Hc Hok). exact Hge.
Qed.

(** Per-second form: the release over [s,e) is the sum of the per-second rates. *)
Lemma holder_rate_form b s e : s <= e -> e < w32 ->
  exists c, cfg_of_net net = Some c /\
    calc_unbind_ong net b s e = Ok ((b * rsum (rate_h c) s (e - s)) mod w64).
Proof.
  intros Hse He. destruct (net_cfg net) as [c [Hc [Hok _]]]. exists c. split; [exact Hc|].
  unfold calc_unbind_ong. rewrite (holder_closed _ c Hc Hok b s e ltac:(lia) He).
  pose proof (step_rsum _ _ (Hh_step _ c Hc Hok) s (e - s)) as H.
  replace (s + (e - s)) with e in H by lia. rewrite H. do 3 f_equal. lia.
Qed.

Lemma gov_rate_form s e : s <= e -> e < w32 ->
  exists c, cfg_of_net net = Some c /\
    calc_governance_unbind_ong net s e = Ok (ont_total_supply * rsum (rate_g c) s (e - s)).
Proof.
  intros Hse He. destruct (net_cfg net) as [c [Hc [Hok _]]]. exists c. split; [exact Hc|].
  unfold calc_governance_unbind_ong. destruct (gov_closed _ c Hc Hok s e ltac:(lia) He) as [E _]. rewrite E.
  pose proof (step_rsum _ _ (Hg_step _ c Hc Hok) s (e - s)) as H.
  replace (s + (e - s)) with e in H by lia. rewrite H. do 2 f_equal. lia.
Qed.

End AllNets.

(** * Any number of consecutive claims

    [sum_claims f s cuts e]: the amounts of the consecutive calls f s m1, f m1 m2, ..., f mk e added
    up as integers ([None] if a call panics). [chain_ok s cuts e]: s <= m1 <= ... <= mk <= e. *)
Fixpoint sum_claims (f : N -> N -> res N) (s : N) (cuts : list N) (e : N) : option N :=
  match cuts with
  | [] => match f s e with Ok x => Some x | _ => None end
  | m :: r => match f s m, sum_claims f m r e with
              | Ok x, Some y => Some (x + y)
              | _, _ => None
              end
  end.

Fixpoint chain_ok (s : N) (cuts : list N) (e : N) : Prop :=
  match cuts with
  | [] => s <= e
  | m :: r => s <= m /\ chain_ok m r e
  end.

Lemma chain_ok_le cuts : forall s e, chain_ok s cuts e -> s <= e.
Proof.
  induction cuts as [|m r IH]; simpl; intros s e H; [exact H|].
  destruct H as [H1 H2]. apply IH in H2. lia.
Qed.

Lemma holder_chain_additive net b cuts : forall s e,
  b <= ont_total_supply -> chain_ok s cuts e -> e < w32 ->
  exists z, calc_unbind_ong net b s e = Ok z /\
            sum_claims (calc_unbind_ong net b) s cuts e = Some z /\ z < w64.
Proof.
  induction cuts as [|m r IH]; simpl; intros s e Hb Hc He.
  - destruct (holder_additive net b s s e (N.le_refl s) Hc He) as (x & y & z & _ & _ & E3 & _ & Hw).
    exists z. rewrite E3. destruct (Hw Hb) as [_ W]. auto.
  - destruct Hc as [Hsm Hc]. pose proof (chain_ok_le _ _ _ Hc) as Hme.
    destruct (holder_additive net b s m e Hsm Hme He) as (x & y & z & E1 & E2 & E3 & _ & Hw).
    destruct (Hw Hb) as [Hsum W].
    destruct (IH m e Hb Hc He) as (z' & E2' & S' & _).
    rewrite E2 in E2'. injection E2' as <-.
    exists z. rewrite E1, S'. split; [exact E3|]. split; [f_equal; exact Hsum|exact W].
Qed.

Lemma gov_chain_additive net cuts : forall s e,
  chain_ok s cuts e -> e < w32 ->
  exists z, calc_governance_unbind_ong net s e = Ok z /\
            sum_claims (calc_governance_unbind_ong net) s cuts e = Some z /\ z < w64.
Proof.
  induction cuts as [|m r IH]; simpl; intros s e Hc He.
  - destruct (gov_additive net s s e (N.le_refl s) Hc He) as (x & y & z & _ & _ & E3 & _ & W).
    exists z. rewrite E3. auto.
  - destruct Hc as [Hsm Hc]. pose proof (chain_ok_le _ _ _ Hc) as Hme.
    destruct (gov_additive net s m e Hsm Hme He) as (x & y & z & E1 & E2 & E3 & Hsum & W).
    destruct (IH m e Hc He) as (z' & E2' & S' & _).
    rewrite E2 in E2'. injection E2' as <-.
    exists z. rewrite E1, S'. split; [exact E3|]. split; [f_equal; exact Hsum|exact W].
Qed.
