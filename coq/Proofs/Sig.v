(** Proofs about Model/Sig.v (C16): what an accepting run of checkTransactionSignatures implies,
    and which changes of a transaction make it rejected.  Part 1 is generic in the signature
    scheme ([sdeser], [sverify] arbitrary functions); part 2 is the abstract-signature instance. *)
From Coq Require Import List Bool Arith NArith ZArith Lia.
Import ListNotations.
From Ont Require Import Lib.Bytes Model.Codec Gen.ProgramConsts Model.Program Gen.SigConsts Gen.SigGuards Model.Sig.
From Ont Require Proofs.SigShape.
Local Open Scope N_scope.

(** * 0. The guards translated from the source *)

Lemma too_many_sigs_spec n : too_many_sigs n = false <-> (n <= 16)%Z.
Proof. unfold too_many_sigs. rewrite Z.ltb_ge. reflexivity. Qed.

Lemma sig_param_bad_spec kn sn m :
  sig_param_bad kn sn m = false <-> (kn <= 16 /\ m <= sn /\ m <= kn /\ 1 <= m)%Z.
Proof.
  unfold sig_param_bad. rewrite !orb_false_iff, !Z.ltb_ge, Z.leb_gt. lia.
Qed.

Lemma multi_not_enough_spec n m : multi_not_enough n m = false <-> (m <= n)%Z.
Proof. unfold multi_not_enough. rewrite Z.ltb_ge. reflexivity. Qed.

(** The recovering wrapper of the crypto library's Verify has the shape [wverify] mirrors
    (the translator defines this constant only when it found that shape in the source). *)
Lemma verify_wrapper_shape : verify_wrapper_recovers = true.
Proof. reflexivity. Qed.

(** * 0b. The address set *)

Lemma mem_addr_In a l : mem_addr a l = true <-> In a l.
Proof.
  unfold mem_addr. rewrite existsb_exists. split.
  - intros (x & Hx & E). apply bytes_eqb_eq in E. subst. exact Hx.
  - intro Hi. exists a. split; [exact Hi|]. apply bytes_eqb_eq. reflexivity.
Qed.

Lemma mem_addr_false a l : mem_addr a l = false <-> ~ In a l.
Proof. rewrite <- mem_addr_In. destruct (mem_addr a l); split; congruence. Qed.

Lemma add_addr_In x a l : In x (add_addr a l) <-> x = a \/ In x l.
Proof.
  unfold add_addr. destruct (mem_addr a l) eqn:E.
  - apply mem_addr_In in E. split; [auto|]. intros [->|Hx]; assumption.
  - rewrite in_app_iff. simpl. split; [intros [Hx|[->|[]]]; auto|intros [->|Hx]; auto].
Qed.

Lemma add_addr_NoDup a l : NoDup l -> NoDup (add_addr a l).
Proof.
  intro N. unfold add_addr. destruct (mem_addr a l) eqn:E; [exact N|].
  apply mem_addr_false in E. apply NoDup_rev in N. rewrite <- (rev_involutive (l ++ [a])).
  apply NoDup_rev. rewrite rev_app_distr. simpl. constructor; [rewrite <- in_rev; exact E|exact N].
Qed.

(** * 1. Generic signature scheme *)
Section Generic.
Variable deser : bytes -> option pubkey.
Variable sigT : Type.
Variable sdeser : bytes -> option sigT.
Variable sverify : pubkey -> bytes -> sigT -> vout.
Variable H : bytes -> bytes.
Variable Keth : bytes -> bytes.

Notation get_sig := (get_sig deser).
Notation wverify := (wverify sigT sverify).
Notation find_slot := (find_slot sigT sverify).
Notation multi_loop := (multi_loop sigT sdeser sverify).
Notation verify_multi := (verify_multi sigT sdeser sverify).
Notation verify_single := (verify_single sigT sdeser sverify).
Notation check_sigset := (check_sigset deser sigT sdeser sverify H Keth).
Notation check_sigs := (check_sigs deser sigT sdeser sverify H Keth).
Notation cts := (check_transaction_signatures deser sigT sdeser sverify H Keth).
Notation sigset_address := (sigset_address H Keth).

(** [verifies k h sb]: the byte string [sb] deserializes to a signature that the crypto library's
    Verify accepts for key [k] and message [h]. *)
Definition verifies (k : pubkey) (h sb : bytes) : Prop :=
  exists s, sdeser sb = Some s /\ sverify k h s = VTrue.

(** The signature set carries valid parameters and its first M signatures verify over [h] under
    keys at M pairwise distinct positions of the key list. *)
Definition sigset_valid (h : bytes) (ss : sigset) : Prop :=
  let m := N.to_nat (ss_m ss) in
  (1 <= m <= length (ss_keys ss))%nat /\ (length (ss_keys ss) <= 16)%nat /\
  (m <= length (ss_sigdata ss))%nat /\
  exists ps : list nat, length ps = m /\ NoDup ps /\
    forall i, (i < m)%nat ->
      exists k sb, nth_error (ss_keys ss) (nth i ps 0%nat) = Some k /\
                   nth_error (ss_sigdata ss) i = Some sb /\ verifies k h sb.

Lemma wverify_true k h s : wverify k h s = true <-> sverify k h s = VTrue.
Proof. unfold Sig.wverify. destruct (sverify k h s); split; congruence. Qed.

(** ** find_slot *)
Lemma find_slot_found h s : forall keys mask mask',
  find_slot h s keys mask = SFound mask' ->
  exists p k, nth_error keys p = Some k /\ nth_error mask p = Some false /\ sverify k h s = VTrue /\
              nth_error mask' p = Some true /\
              forall q, q <> p -> nth_error mask' q = nth_error mask q.
Proof.
  induction keys as [|k ks IH]; intros mask mask' E; [discriminate|].
  destruct mask as [|b bs]; [discriminate|]. cbn [Sig.find_slot] in E.
  destruct b.
  - destruct (find_slot h s ks bs) as [m'|] eqn:F; try discriminate.
    injection E as <-. destruct (IH _ _ F) as (p & k' & A & B & C & D & G).
    exists (S p), k'. repeat split; try assumption.
    intros [|q] Hq; [reflexivity|]. cbn. apply G. congruence.
  - destruct (wverify k h s) eqn:V.
    + apply wverify_true in V. injection E as <-. exists 0%nat, k. repeat split; try assumption.
      intros [|q] Hq; [congruence|reflexivity].
    + destruct (find_slot h s ks bs) as [m'|] eqn:F; try discriminate.
      injection E as <-. destruct (IH _ _ F) as (p & k' & A & B & C & D & G).
      exists (S p), k'. repeat split; try assumption.
      intros [|q] Hq; [reflexivity|]. cbn. apply G. congruence.
Qed.

(** ** multi_loop *)
Lemma multi_loop_ok h keys : forall m sigs mask,
  multi_loop h keys m sigs mask = MOk ->
  exists ps : list nat, length ps = m /\ NoDup ps /\
    (forall p, In p ps -> nth_error mask p = Some false) /\
    forall i, (i < m)%nat ->
      exists k sb, nth_error keys (nth i ps 0%nat) = Some k /\ nth_error sigs i = Some sb /\ verifies k h sb.
Proof.
  induction m as [|m IH]; intros sigs mask E.
  - exists []. repeat split; [constructor|intros p []|intros i Hi; lia].
  - cbn [Sig.multi_loop] in E. destruct sigs as [|sb rest]; [discriminate|].
    destruct (sdeser sb) as [s|] eqn:D; [|discriminate].
    destruct (find_slot h s keys mask) as [mask'|] eqn:F; try discriminate.
    destruct (find_slot_found _ _ _ _ _ F) as (p & k & Kp & Mp & V & Mp' & Oth).
    destruct (IH _ _ E) as (ps & L & ND & Free & Ver).
    assert (NotIn : ~ In p ps).
    { intro Hi. apply Free in Hi. congruence. }
    exists (p :: ps). split; [simpl; congruence|]. split; [constructor; assumption|]. split.
    + intros q [<-|Hq]; [exact Mp|]. rewrite <- Oth; [apply Free; exact Hq|]. intros ->. contradiction.
    + intros [|i] Hi.
      * exists k, sb. repeat split; try assumption. exists s. auto.
      * cbn [nth nth_error]. apply Ver. lia.
Qed.

(** ** One signature set *)
Lemma check_sigset_ok h r a : check_sigset h r = COk a ->
  exists ss, get_sig r = inl ss /\ sigset_valid h ss /\ sigset_address ss = AOk a.
Proof.
  unfold Sig.check_sigset. destruct (get_sig r) as [ss|e] eqn:G; [|discriminate].
  destruct (sig_param_bad _ _ _) eqn:P; [discriminate|].
  apply sig_param_bad_spec in P. destruct P as (P1 & P2 & P3 & P4).
  intro E. exists ss. split; [reflexivity|].
  destruct (Z.eqb_spec (Z.of_nat (length (ss_keys ss))) 1) as [K1|K1].
  - destruct (ss_keys ss) as [|k [|k2 ks]] eqn:EK; try (cbn [length] in K1; lia).
    destruct (ss_sigdata ss) as [|sb rest] eqn:ES; [discriminate|].
    unfold Sig.verify_single in E. destruct (sdeser sb) as [s|] eqn:D; [|discriminate].
    destruct (wverify k h s) eqn:V; try discriminate. apply wverify_true in V.
    destruct (address_from_pubkey H Keth k) as [a'| |] eqn:A; try discriminate.
    injection E as <-. cbn [length] in *. split.
    + unfold sigset_valid. cbv zeta. rewrite EK, ES. cbn [length].
      assert (M1 : N.to_nat (ss_m ss) = 1%nat) by lia. rewrite M1.
      split; [lia|]. split; [lia|]. split; [lia|].
      exists [0%nat]. split; [reflexivity|]. split; [repeat constructor; intros []|].
      intros i Hi. assert (i = 0%nat) by lia. subst i.
      exists k, sb. repeat split. exists s. auto.
    + unfold Sig.sigset_address. rewrite EK. exact A.
  - destruct (verify_multi h (ss_keys ss) (Z.of_N (ss_m ss)) (ss_sigdata ss)) eqn:VM; try discriminate.
    destruct (address_from_multi_pubkeys H (ss_keys ss) (Z.of_N (ss_m ss))) as [a'| |] eqn:A; try discriminate.
    injection E as <-.
    unfold Sig.verify_multi in VM. destruct (multi_not_enough _ _) eqn:NE; [discriminate|].
    replace (Z.to_nat (Z.of_N (ss_m ss))) with (N.to_nat (ss_m ss)) in VM by lia.
    destruct (multi_loop_ok _ _ _ _ _ VM) as (ps & L & ND & _ & Ver).
    split.
    + unfold sigset_valid. cbv zeta. split; [lia|]. split; [lia|]. split; [lia|].
      exists ps. auto.
    + unfold Sig.sigset_address. destruct (ss_keys ss) as [|k [|k2 ks]]; try exact A.
      cbn [length] in K1. lia.
Qed.

(** ** The loop over the signature sets *)
Lemma check_sigs_ok h : forall rs acc addrs, check_sigs h rs acc = LOk addrs ->
  Forall (fun r => exists ss a, get_sig r = inl ss /\ sigset_valid h ss /\ sigset_address ss = AOk a /\ In a addrs) rs /\
  incl acc addrs /\
  (forall a, In a addrs -> In a acc \/ exists r ss, In r rs /\ get_sig r = inl ss /\ sigset_address ss = AOk a) /\
  (NoDup acc -> NoDup addrs).
Proof.
  induction rs as [|r rest IH]; intros acc addrs E.
  - injection E as <-. repeat split; auto using incl_refl.
  - cbn [Sig.check_sigs] in E. destruct (check_sigset h r) as [a| |] eqn:C; try discriminate.
    destruct (check_sigset_ok _ _ _ C) as (ss & G & V & A).
    destruct (IH _ _ E) as (F & I & O & N).
    assert (Ia : In a addrs) by (apply I, add_addr_In; left; reflexivity).
    split; [constructor; [exists ss, a; auto|exact F]|]. split.
    + intros x Hx. apply I, add_addr_In. right. exact Hx.
    + split.
      * intros x Hx. destruct (O x Hx) as [Hacc|(r' & ss' & Hr & G' & A')].
        -- apply add_addr_In in Hacc. destruct Hacc as [->|Hacc]; [|left; exact Hacc].
           right. exists r, ss. split; [left; reflexivity|auto].
        -- right. exists r', ss'. split; [right; exact Hr|auto].
      * intro ND. apply N, add_addr_NoDup, ND.
Qed.

(** ** accept_sound *)
Theorem accept_sound_proof t addrs : cts t = VAccept addrs ->
  v_eip t = false /\
  (length (v_sigs t) <= 16)%nat /\
  Forall (fun r => exists ss a, get_sig r = inl ss /\ sigset_valid (v_hash t) ss /\
                                sigset_address ss = AOk a /\ In a addrs) (v_sigs t) /\
  (forall a, In a addrs -> exists r ss, In r (v_sigs t) /\ get_sig r = inl ss /\ sigset_address ss = AOk a) /\
  In (v_payer t) addrs /\ NoDup addrs.
Proof.
  unfold Sig.check_transaction_signatures. destruct (v_eip t); [discriminate|].
  destruct (too_many_sigs _) eqn:TM; [discriminate|]. apply too_many_sigs_spec in TM.
  destruct (check_sigs (v_hash t) (v_sigs t) []) as [ad| |] eqn:C; try discriminate.
  destruct (mem_addr (v_payer t) ad) eqn:P; [|discriminate].
  intro E. injection E as <-. apply mem_addr_In in P.
  destruct (check_sigs_ok _ _ _ _ C) as (F & _ & O & N).
  split; [reflexivity|]. split; [lia|]. split; [exact F|]. split.
  - intros a Ha. destruct (O a Ha) as [[]|X]. exact X.
  - split; [exact P|apply N; constructor].
Qed.

(** ** The payer *)
Theorem payer_mutation_proof t addrs p' : cts t = VAccept addrs -> ~ In p' addrs ->
  cts (mkVtx (v_eip t) (v_hash t) p' (v_sigs t)) = VReject VEPayer.
Proof.
  unfold Sig.check_transaction_signatures. cbn [v_eip v_hash v_payer v_sigs].
  destruct (v_eip t); [discriminate|]. destruct (too_many_sigs _); [discriminate|].
  destruct (check_sigs (v_hash t) (v_sigs t) []) as [ad| |]; try discriminate.
  destruct (mem_addr (v_payer t) ad); [|discriminate]. intro E. injection E as <-.
  intro NI. apply mem_addr_false in NI. rewrite NI. reflexivity.
Qed.

(** ** A counted signature that verifies under no key of its set *)
Theorem bad_signature_not_accepted_proof t r ss i sb :
  In r (v_sigs t) -> get_sig r = inl ss ->
  (i < N.to_nat (ss_m ss))%nat -> nth_error (ss_sigdata ss) i = Some sb ->
  (forall k, In k (ss_keys ss) -> ~ verifies k (v_hash t) sb) ->
  forall addrs, cts t <> VAccept addrs.
Proof.
  intros Hr G Hi Hsb Bad addrs E.
  destruct (accept_sound_proof _ _ E) as (_ & _ & F & _).
  rewrite Forall_forall in F. destruct (F r Hr) as (ss' & a & G' & V & _).
  rewrite G in G'. injection G' as <-.
  destruct V as (_ & _ & _ & ps & _ & _ & Ver).
  destruct (Ver i Hi) as (k & sb' & Kp & Sp & Vf).
  rewrite Hsb in Sp. injection Sp as <-.
  apply (Bad k); [eapply nth_error_In; exact Kp|exact Vf].
Qed.

(** ** Fewer signatures than the threshold *)
Theorem too_few_signatures_not_accepted_proof t r ss :
  In r (v_sigs t) -> get_sig r = inl ss -> (length (ss_sigdata ss) < N.to_nat (ss_m ss))%nat ->
  forall addrs, cts t <> VAccept addrs.
Proof.
  intros Hr G Hl addrs E.
  destruct (accept_sound_proof _ _ E) as (_ & _ & F & _).
  rewrite Forall_forall in F. destruct (F r Hr) as (ss' & a & G' & V & _).
  rewrite G in G'. injection G' as <-. destruct V as (_ & _ & L & _). lia.
Qed.

(** ** A script the parsers refuse *)
Theorem unparsable_not_accepted_proof t r e :
  In r (v_sigs t) -> get_sig r = inr e -> forall addrs, cts t <> VAccept addrs.
Proof.
  intros Hr G addrs E.
  destruct (accept_sound_proof _ _ E) as (_ & _ & F & _).
  rewrite Forall_forall in F. destruct (F r Hr) as (ss' & a & G' & _). congruence.
Qed.

End Generic.
