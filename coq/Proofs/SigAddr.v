(** Proofs for C17: the signer accounts contract code sees (Transaction.GetSignatureAddresses)
    on a node that validated the transaction (tx.SignedAddr, filled by
    checkTransactionSignatures) and on a node that only decoded it (fallback: the hash of every
    raw verification script). *)
From Coq Require Import List Bool Arith NArith ZArith Lia Permutation.
Import ListNotations.
From Ont Require Import Lib.Bytes Model.Codec Gen.ProgramConsts Model.Program Model.Sig.
From Ont Require Import Proofs.Codec Proofs.Program Proofs.Sig.
Local Open Scope N_scope.

Section SigAddr.
Variable deser : bytes -> option pubkey.
Variable sigT : Type.
Variable sdeser : bytes -> option sigT.
Variable sverify : pubkey -> bytes -> sigT -> vout.
Variable H : bytes -> bytes.
Variable Keth : bytes -> bytes.
Hypothesis deser_short : forall b, (length b <= 3)%nat -> deser b = None.

Notation cts := (check_transaction_signatures deser sigT sdeser sverify H Keth).

(** A verification script is canonical when it is what the builders write: ProgramFromPubKey of
    a key that is not Ethereum-style, or ProgramFromMultiPubKey (which sorts) of a key set.  The
    keys satisfy C23's hypotheses (deserialize . serialize = id; known key type; the sort order
    separates distinct keys of the set). *)
Definition canonical_script (v : bytes) : Prop :=
  (exists k, key_ok deser k /\ pk_type k <> PK_ETHECDSA /\ program_from_pubkey k = Some v) \/
  (exists keys m, Forall (key_ok deser) keys /\ Forall key_known keys /\ keys_canon keys /\
     multi_params_ok m (Z.of_nat (length keys)) = true /\ program_from_multi_pubkey keys m = BOk v).

(** For a canonical script the validator's address is the hash of the script itself. *)
Lemma canonical_address r ss :
  canonical_script (rs_verify r) -> get_sig deser r = inl ss ->
  sigset_address H Keth ss = AOk (H (rs_verify r)).
Proof.
  intros C G. unfold get_sig in G. destruct (get_param_info (rs_invoke r)) as [sigs|e]; [|discriminate].
  destruct C as [(k & Kok & NE & P)|(keys & m & Kok & Kn & Kc & Pok & P)].
  - destruct (parse_build_single_proof deser k Kok) as (prog & P' & I).
    rewrite P in P'. injection P' as <-. rewrite I in G. injection G as <-.
    unfold sigset_address. cbn [ss_keys]. unfold address_from_pubkey.
    destruct (N.eqb_spec (pk_type k) PK_ETHECDSA) as [E|_]; [contradiction|]. rewrite P. reflexivity.
  - destruct (parse_build_multi_proof deser deser_short keys m Kok Pok) as (prog & P' & I).
    rewrite P in P'. injection P' as <-. rewrite I in G. injection G as <-.
    pose proof (multi_params_bounds _ _ Pok) as (Bm & Bn).
    unfold sigset_address. cbn [ss_keys ss_m].
    pose proof (sort_keys_length keys) as L.
    destruct (sort_keys keys) as [|a [|b l]] eqn:S; [simpl in L; lia|simpl in L; lia|].
    rewrite <- S. rewrite Z2N.id by lia.
    rewrite <- (addr_perm_invariant_proof H keys (sort_keys keys) m Kn Kc (Permutation_sym (sort_keys_perm keys))).
    unfold address_from_multi_pubkeys. rewrite Pok, P. reflexivity.
Qed.

(** signers_agree for canonical scripts. *)
Theorem signers_agree_partial_proof t addrs :
  cts t = VAccept addrs ->
  (forall r, In r (v_sigs t) -> canonical_script (rs_verify r)) ->
  forall a, In a (get_signature_addresses H [] t) <-> In a addrs.
Proof.
  intros E C a. destruct (accept_sound_proof _ _ _ _ _ _ _ _ E) as (_ & _ & F & O & _).
  rewrite Forall_forall in F. cbn [get_signature_addresses]. unfold fallback_addresses.
  rewrite in_map_iff. split.
  - intros (r & <- & Hr). destruct (F r Hr) as (ss & a' & G & _ & A & I).
    rewrite (canonical_address r ss (C r Hr) G) in A. injection A as <-. exact I.
  - intro Ia. destruct (O a Ia) as (r & ss & Hr & G & A).
    rewrite (canonical_address r ss (C r Hr) G) in A. injection A as <-. exists r. auto.
Qed.

End SigAddr.
