(** C44, part 2: what MigrateContractStorage / CleanContractStorage leave in the store, read back
    through CacheDB.get on the whole key. Uses the loop theorem of Proofs/C44Loop.v. *)
From Coq Require Import List Bool Arith NArith Lia.
Import ListNotations.
From Ont Require Import Lib.Bytes Model.KV Proofs.KV Proofs.KVLive Gen.ContractConsts Model.ContractStore Proofs.C44Loop.
Local Open Scope N_scope.
Open Scope bool_scope.

Global Arguments ST_STORAGE : simpl never.
Global Arguments ST_CONTRACT : simpl never.
Global Arguments ST_DESTROYED : simpl never.
Global Arguments ADDR_LEN : simpl never.

Definition bytes_dec : forall a b : bytes, {a = b} + {a <> b} := list_eq_dec N.eq_dec.

(** full keys *)
Definition SK (a sfx : bytes) : bytes := pkey ST_STORAGE (a ++ sfx).     (* storage entry *)
Definition SP (a : bytes) : bytes := pkey ST_STORAGE a.                  (* storage prefix of a contract *)
Definition CK (a : bytes) : bytes := pkey ST_CONTRACT a.                 (* contract record *)
Definition DK (a : bytes) : bytes := pkey ST_DESTROYED a.                (* destroyed marker *)

Global Arguments SK : simpl never.
Global Arguments SP : simpl never.
Global Arguments CK : simpl never.
Global Arguments DK : simpl never.

Lemma is_addr_spec a : is_addr a = true <-> wf_bytes a = true /\ length a = ADDR_LEN.
Proof. unfold is_addr. rewrite andb_true_iff, Nat.eqb_eq. tauto. Qed.

Lemma st_bytes_ok : byte_ok ST_STORAGE = true /\ byte_ok ST_CONTRACT = true /\ byte_ok ST_DESTROYED = true.
Proof. repeat split; reflexivity. Qed.

(** the three name spaces are distinct (constants read from the source) *)
Lemma st_distinct : ST_STORAGE <> ST_CONTRACT /\ ST_STORAGE <> ST_DESTROYED /\ ST_CONTRACT <> ST_DESTROYED.
Proof. repeat split; discriminate. Qed.

Lemma key_eqb_pkey p q a b : key_eqb (pkey p a) (pkey q b) = true <-> p = q /\ a = b.
Proof. rewrite key_eqb_eq. unfold pkey. split; [intro H; inversion H; auto|intros [-> ->]; reflexivity]. Qed.

Lemma SP_prefix_SK a sfx : has_prefix (SP a) (SK a sfx) = true.
Proof. unfold SP, SK, pkey. cbn [has_prefix app]. rewrite N.eqb_refl. apply has_prefix_app'. Qed.

Lemma SP_prefix_inv a x : has_prefix (SP a) x = true -> x = SK a (skipn (length a) (tl x)).
Proof.
  unfold SP, SK, pkey. destruct x as [|c x]; cbn [has_prefix tl]; [discriminate|].
  intro H. apply andb_prop in H. destruct H as [E H]. apply N.eqb_eq in E. subst c.
  f_equal. apply has_prefix_split; exact H.
Qed.

Lemma SP_disjoint a b sfx : length a = length b -> a <> b -> has_prefix (SP a) (SK b sfx) = false.
Proof.
  intros HL Hne. destruct (has_prefix (SP a) (SK b sfx)) eqn:E; [|reflexivity]. exfalso. apply Hne.
  unfold SP, SK, pkey in E. cbn [has_prefix app] in E. apply andb_prop in E. destruct E as [_ E].
  apply (has_prefix_same_length a b sfx HL E).
Qed.

Lemma SK_inj a b s1 s2 : length a = length b -> SK a s1 = SK b s2 -> a = b /\ s1 = s2.
Proof. intros HL H. unfold SK, pkey in H. inversion H. apply app_inv_same_length; assumption. Qed.

(** * goodness is preserved by writes of byte-string keys *)
Lemma good_put pfx k v s : good s -> byte_ok pfx = true -> wf_bytes k = true -> good (cache_put pfx k v s).
Proof.
  intros G Hp Hk. apply (impl_step_good pfx s (HPut k v) G). simpl. rewrite Hp, Hk. reflexivity.
Qed.
Lemma good_delete pfx k s : good s -> byte_ok pfx = true -> wf_bytes k = true -> good (cache_delete pfx k s).
Proof. intros G Hp Hk. exact (good_put pfx k [] s G Hp Hk). Qed.
Lemma good_commit s : good s -> good (cache_commit s).
Proof. intro G. exact (impl_step_good ST_STORAGE s HCommit G eq_refl). Qed.
Lemma good_reset s : good s -> good (cache_reset s).
Proof. intro G. exact (impl_step_good ST_STORAGE s HReset G eq_refl). Qed.
Lemma good_overlay_commit s : good s -> good (overlay_commit s).
Proof. intro G. exact (impl_step_good ST_STORAGE s HOvCommit G eq_refl). Qed.

Lemma good_sorted s : good s -> sorted_state s.
Proof. intro G; apply G. Qed.
#[export] Hint Resolve good_sorted : c44.

(** * effect of a loop body sequence on one key *)

(** the new key of an entry under [SP old] (full keys) *)
Definition newk (new : bytes) (e : kv) : bytes := pkey ST_STORAGE (migrate_key new (tl (fst e))).

Fixpoint mig_effect (new : bytes) (L : list kv) (x : bytes) (base : option bytes) : option bytes :=
  match L with
  | [] => base
  | e :: L' => mig_effect new L' x
                 (if key_eqb x (fst e) then None
                  else if key_eqb x (newk new e) then nz (Some (snd e)) else base)
  end.

Definition headed (L : list kv) : Prop := forall e, In e L -> exists k, fst e = pkey ST_STORAGE k.

Lemma fold_body_cons pfx body e L s :
  fold_body pfx body (e :: L) s = fold_body pfx body L (apply_wrs pfx s (body (tl (fst e)) (snd e))).
Proof. reflexivity. Qed.

Lemma glk_fold_migrate new : forall L s x, sorted_state s -> headed L ->
  glk (fold_body ST_STORAGE (migrate_body new) L s) x = mig_effect new L x (glk s x) /\
  sorted_state (fold_body ST_STORAGE (migrate_body new) L s).
Proof.
  induction L as [|e L IH]; intros s x Hs Hh; [split; [reflexivity|exact Hs]|].
  destruct (Hh e (or_introl eq_refl)) as [k Ek].
  rewrite fold_body_cons.
  change (apply_wrs ST_STORAGE s (migrate_body new (tl (fst e)) (snd e)))
    with (cache_delete ST_STORAGE (tl (fst e)) (cache_put ST_STORAGE (migrate_key new (tl (fst e))) (snd e) s)).
  set (s1 := cache_delete ST_STORAGE (tl (fst e)) (cache_put ST_STORAGE (migrate_key new (tl (fst e))) (snd e) s)).
  assert (S1 : sorted_state s1) by (apply cache_delete_sorted, cache_put_sorted, Hs).
  destruct (IH s1 x S1 (fun e' H' => Hh e' (or_intror H'))) as [E S2]. split; [|exact S2].
  rewrite E. cbn [mig_effect]. f_equal. unfold s1.
  rewrite glk_delete by (apply cache_put_sorted, Hs). rewrite glk_put by exact Hs.
  unfold newk. rewrite Ek. cbn [tl pkey]. reflexivity.
Qed.

Fixpoint del_effect (L : list kv) (x : bytes) (base : option bytes) : option bytes :=
  match L with
  | [] => base
  | e :: L' => del_effect L' x (if key_eqb x (fst e) then None else base)
  end.

Lemma glk_fold_clean : forall L s x, sorted_state s -> headed L ->
  glk (fold_body ST_STORAGE clean_body L s) x = del_effect L x (glk s x) /\
  sorted_state (fold_body ST_STORAGE clean_body L s).
Proof.
  induction L as [|e L IH]; intros s x Hs Hh; [split; [reflexivity|exact Hs]|].
  destruct (Hh e (or_introl eq_refl)) as [k Ek].
  rewrite fold_body_cons.
  change (apply_wrs ST_STORAGE s (clean_body (tl (fst e)) (snd e))) with (cache_delete ST_STORAGE (tl (fst e)) s).
  set (s1 := cache_delete ST_STORAGE (tl (fst e)) s).
  assert (S1 : sorted_state s1) by (apply cache_delete_sorted, Hs).
  destruct (IH s1 x S1 (fun e' H' => Hh e' (or_intror H'))) as [E S2]. split; [|exact S2].
  rewrite E. cbn [del_effect]. f_equal. unfold s1. rewrite glk_delete by exact Hs.
  rewrite Ek. cbn [tl pkey]. reflexivity.
Qed.

Definition inkeys (x : bytes) (L : list kv) : bool := existsb (fun e => key_eqb x (fst e)) L.
Definition innew (new x : bytes) (L : list kv) : bool := existsb (fun e => key_eqb x (newk new e)) L.

Lemma del_effect_none L x : del_effect L x None = None.
Proof. induction L as [|e L IH]; simpl; [reflexivity|]. destruct (key_eqb x (fst e)); exact IH. Qed.

Lemma del_effect_spec : forall L x b, del_effect L x b = if inkeys x L then None else b.
Proof.
  induction L as [|e L IH]; intros x b; simpl; [reflexivity|].
  destruct (key_eqb x (fst e)); simpl.
  - apply del_effect_none.
  - apply IH.
Qed.

Lemma mig_effect_frame new : forall L x b, inkeys x L = false -> innew new x L = false -> mig_effect new L x b = b.
Proof.
  induction L as [|e L IH]; intros x b H1 H2; simpl in *; [reflexivity|].
  apply orb_false_iff in H1. destruct H1 as [A1 B1]. apply orb_false_iff in H2. destruct H2 as [A2 B2].
  rewrite A1, A2. apply IH; assumption.
Qed.

(** a key that is deleted and never re-created *)
Lemma mig_effect_deleted new : forall L x b, inkeys x L = true -> innew new x L = false -> mig_effect new L x b = None.
Proof.
  induction L as [|e L IH]; intros x b H1 H2; simpl in *; [discriminate|].
  apply orb_false_iff in H2. destruct H2 as [A2 B2]. rewrite A2.
  destruct (key_eqb x (fst e)) eqn:A1; simpl in H1.
  - destruct (inkeys x L) eqn:I; [apply IH; assumption|apply mig_effect_frame; assumption].
  - apply IH; assumption.
Qed.

Lemma inkeys_false_all_gt x L : all_gt x L -> inkeys x L = false.
Proof.
  induction L as [|e L IH]; intro H; simpl; [reflexivity|]. apply all_gt_cons in H. destruct H as [H1 H2].
  rewrite (cmp_lt_neq _ _ H1). apply IH; exact H2.
Qed.

Lemma inkeys_In x L : inkeys x L = true <-> exists v, In (x, v) L.
Proof.
  unfold inkeys. rewrite existsb_exists. split.
  - intros [[k v] [HI HE]]. simpl in HE. apply key_eqb_eq in HE. subst. exists v; exact HI.
  - intros [v HI]. exists (x, v). split; [exact HI|apply key_eqb_refl].
Qed.

(** entries under [SP old] map injectively to new keys *)
Lemma newk_of_SK old new sfx v : length old = ADDR_LEN -> newk new (SK old sfx, v) = SK new sfx.
Proof.
  intro HL. unfold newk, SK, migrate_key. cbn [fst tl pkey]. f_equal. f_equal.
  change C44_MIGRATE_KEY_SKIP with ADDR_LEN. rewrite <- HL.
  rewrite skipn_app, skipn_all, Nat.sub_diag. reflexivity.
Qed.

Definition under (old : bytes) (L : list kv) : Prop := forall e, In e L -> has_prefix (SP old) (fst e) = true.

Lemma under_headed old L : under old L -> headed L.
Proof.
  intros H e He. specialize (H e He). apply SP_prefix_inv in H. eexists. rewrite H. reflexivity.
Qed.

Lemma innew_false_diff old new L x : length old = ADDR_LEN -> length new = ADDR_LEN -> under old L ->
  has_prefix (SP new) x = false -> innew new x L = false.
Proof.
  intros Ho Hn HU Hx. destruct (innew new x L) eqn:E; [|reflexivity]. exfalso.
  apply existsb_exists in E. destruct E as [[k v] [HI HE]]. apply key_eqb_eq in HE. subst x.
  pose proof (HU _ HI) as P. cbn [fst] in P. apply SP_prefix_inv in P. rewrite P in Hx.
  rewrite (newk_of_SK old new _ v Ho) in Hx. rewrite SP_prefix_SK in Hx. discriminate.
Qed.

Lemma mig_effect_moved old new : forall L sfx v b,
  length old = ADDR_LEN -> length new = ADDR_LEN -> old <> new ->
  ssorted L -> under old L -> In (SK old sfx, v) L -> mig_effect new L (SK new sfx) b = nz (Some v).
Proof.
  intros L sfx v b Ho Hn Hne. revert b.
  induction L as [|e L IH]; intros b Hs HU HI; [destruct HI|].
  assert (NK : forall L', under old L' -> inkeys (SK new sfx) L' = false).
  { intros L' HU'. destruct (inkeys (SK new sfx) L') eqn:E; [|reflexivity]. exfalso.
    apply existsb_exists in E. destruct E as [[k w] [HI' HE]]. simpl in HE. apply key_eqb_eq in HE. subst k.
    pose proof (HU' _ HI') as P. cbn [fst] in P. rewrite (SP_disjoint old new sfx) in P; congruence. }
  simpl. pose proof (NK (e :: L) HU) as NK1. simpl in NK1. apply orb_false_iff in NK1. destruct NK1 as [A1 B1]. rewrite A1.
  destruct HI as [HI|HI].
  - subst e. rewrite (newk_of_SK old new sfx v Ho), key_eqb_refl.
    apply mig_effect_frame; [exact B1|].
    (* no later entry maps to the same new key: keys of a sorted list are distinct *)
    destruct (innew new (SK new sfx) L) eqn:E; [|reflexivity]. exfalso.
    apply existsb_exists in E. destruct E as [[k w] [HI' HE]]. apply key_eqb_eq in HE.
    pose proof (HU _ (or_intror HI')) as P. cbn [fst] in P. apply SP_prefix_inv in P.
    rewrite P in HE. rewrite (newk_of_SK old new _ w Ho) in HE.
    apply SK_inj in HE; [|reflexivity]. destruct HE as [_ HE].
    simpl in Hs. destruct Hs as [Hgt _]. specialize (Hgt _ HI'). cbn [fst] in Hgt.
    rewrite P, <- HE, cmp_refl in Hgt. discriminate.
  - apply IH; [eapply ssorted_tail; exact Hs|intros e' H'; apply HU; right; exact H'|exact HI].
Qed.
