(** Proofs about Model/Sig.v (C16), part 2: the abstract-signature instance
    ([sigT] := [asig], [sverify] := [abs_verify]): a signature IS the pair (signer, message).
    - what "verifies" means there (accept_sound_abstract),
    - a changed hash makes an accepted transaction rejected,
    - a changed hash / a changed counted signature makes the transaction REJECTED (an error
      value: the validator never panics, Proofs/SigTotal.v). *)
From Coq Require Import List Bool Arith NArith ZArith Lia Permutation.
Import ListNotations.
From Ont Require Import Lib.Bytes Model.Codec Gen.ProgramConsts Model.Program Gen.SigConsts Gen.SigGuards Model.Sig.
From Ont Require Import Proofs.Codec Proofs.Program Proofs.Sig Proofs.SigTotal.
Local Open Scope N_scope.

(** * The abstract verification function *)
Lemma abs_verify_true_inv weak k h s :
  abs_verify weak k h s = VTrue -> exists k' pc, s = SigOf k' h pc /\ same_signer k k' = true.
Proof.
  unfold abs_verify. destruct (weak k && _); [discriminate|].
  destruct s as [k' m' pc|pc|]; [|discriminate|destruct (pk_type k =? PK_ETHECDSA); discriminate].
  destruct (same_signer k k') eqn:S; cbn [andb]; [|discriminate].
  destruct (bytes_eqb h m') eqn:B; [|discriminate]. apply bytes_eqb_eq in B. subst. eauto.
Qed.

Section Abstract.
Variable weak : pubkey -> bool.
Variable deser : bytes -> option pubkey.
Variable sdeser : bytes -> option asig.
Variable H : bytes -> bytes.
Variable Keth : bytes -> bytes.

Notation abs_verify := (abs_verify weak).
Notation get_sig := (get_sig deser).
Notation find_slot := (find_slot asig abs_verify).
Notation multi_loop := (multi_loop asig sdeser abs_verify).
Notation verify_multi := (verify_multi asig sdeser abs_verify).
Notation verify_single := (verify_single asig sdeser abs_verify).
Notation check_sigset := (check_sigset deser asig sdeser abs_verify H Keth).
Notation check_sigs := (check_sigs deser asig sdeser abs_verify H Keth).
Notation cts := (check_transaction_signatures deser asig sdeser abs_verify H Keth).
Notation verifies := (verifies asig sdeser abs_verify).
Notation sigset_valid := (sigset_valid asig sdeser abs_verify).

(** [signed_by k h sb]: the byte string [sb] is a signature over the message [h] made by the
    holder of key [k]. *)
Definition signed_by (k : pubkey) (h sb : bytes) : Prop :=
  exists k' pc, sdeser sb = Some (SigOf k' h pc) /\ same_signer k k' = true.

Lemma verifies_signed_by k h sb : verifies k h sb -> signed_by k h sb.
Proof.
  intros (s & D & V). apply abs_verify_true_inv in V. destruct V as (k' & pc & -> & S).
  exists k', pc. auto.
Qed.

(** ** accept_sound, abstract reading *)
Definition sigset_signed (h : bytes) (ss : sigset) : Prop :=
  let m := N.to_nat (ss_m ss) in
  (1 <= m <= length (ss_keys ss))%nat /\ (length (ss_keys ss) <= 16)%nat /\
  (m <= length (ss_sigdata ss))%nat /\
  exists ps : list nat, length ps = m /\ NoDup ps /\
    forall i, (i < m)%nat ->
      exists k sb, nth_error (ss_keys ss) (nth i ps 0%nat) = Some k /\
                   nth_error (ss_sigdata ss) i = Some sb /\ signed_by k h sb.

Lemma sigset_valid_signed h ss : sigset_valid h ss -> sigset_signed h ss.
Proof.
  unfold Sig.sigset_valid, sigset_signed. cbv zeta.
  intros (A & B & C & ps & L & ND & V). split; [exact A|]. split; [exact B|]. split; [exact C|].
  exists ps. split; [exact L|]. split; [exact ND|]. intros i Hi.
  destruct (V i Hi) as (k & sb & K & S & X). exists k, sb. split; [exact K|]. split; [exact S|].
  apply verifies_signed_by. exact X.
Qed.

(** ** A different hash: the signatures of an accepted transaction under any other hash are
    never accepted. *)
Theorem hash_mutation_not_accepted_proof t addrs h' p' :
  cts t = VAccept addrs -> h' <> v_hash t ->
  forall addrs', cts (mkVtx false h' p' (v_sigs t)) <> VAccept addrs'.
Proof.
  intros E N addrs' E'.
  destruct (accept_sound_proof _ _ _ _ _ _ _ _ E) as (_ & _ & F & O & P & _).
  destruct (accept_sound_proof _ _ _ _ _ _ _ _ E') as (_ & _ & F' & _).
  cbn [v_sigs v_hash] in F'.
  destruct (O _ P) as (r & ss & Hr & G & _).
  rewrite Forall_forall in F, F'.
  destruct (F r Hr) as (ss1 & a1 & G1 & V1 & _). destruct (F' r Hr) as (ss2 & a2 & G2 & V2 & _).
  rewrite G in G1, G2. injection G1 as <-. injection G2 as <-.
  apply sigset_valid_signed in V1, V2.
  destruct V1 as (M1 & _ & _ & ps1 & _ & _ & S1). destruct V2 as (_ & _ & _ & ps2 & _ & _ & S2).
  assert (Z0 : (0 < N.to_nat (ss_m ss))%nat) by lia.
  destruct (S1 _ Z0) as (k1 & sb1 & _ & B1 & (k1' & pc1 & D1 & _)).
  destruct (S2 _ Z0) as (k2 & sb2 & _ & B2 & (k2' & pc2 & D2 & _)).
  rewrite B1 in B2. injection B2 as <-. rewrite D1 in D2. injection D2 as _ Eh _. congruence.
Qed.

(** ** "Rejected": an error value, for every transaction (the validator never panics, Proofs/SigTotal.v) *)
Hypothesis Sane : deser_sane deser.

Theorem signature_mutation_rejected_proof t r ss i sb :
  v_eip t = false -> In r (v_sigs t) -> get_sig r = inl ss ->
  (i < N.to_nat (ss_m ss))%nat -> nth_error (ss_sigdata ss) i = Some sb ->
  (forall k, In k (ss_keys ss) -> ~ signed_by k (v_hash t) sb) ->
  exists e, cts t = VReject e.
Proof.
  intros Eip Hr G Hi Hsb Bad.
  eapply (bad_signature_rejected_proof deser asig sdeser abs_verify H Keth Sane); try eassumption.
  intros k Hk V. apply (Bad k Hk). apply verifies_signed_by. exact V.
Qed.

Theorem hash_mutation_rejected_proof t addrs h' p' :
  cts t = VAccept addrs -> h' <> v_hash t ->
  exists e, cts (mkVtx false h' p' (v_sigs t)) = VReject e.
Proof.
  intros E N.
  apply (not_accept_reject deser asig sdeser abs_verify H Keth Sane); [reflexivity|].
  eapply hash_mutation_not_accepted_proof; eassumption.
Qed.

End Abstract.

(** * The signer relation is an equivalence on keys *)
Lemma pubkey_eqb_eq a b : pubkey_eqb a b = true <-> a = b.
Proof.
  unfold pubkey_eqb. rewrite !andb_true_iff, !N.eqb_eq, bytes_eqb_eq. destruct a, b; cbn. split.
  - intros ((((-> & ->) & ->) & ->) & ->). reflexivity.
  - intro E. injection E as -> -> -> -> ->. auto.
Qed.

Lemma same_signer_refl a : same_signer a a = true.
Proof.
  unfold same_signer. destruct (is_ec a); cbn [andb].
  - rewrite !N.eqb_refl. reflexivity.
  - apply pubkey_eqb_eq. reflexivity.
Qed.

Lemma same_signer_sym a b : same_signer a b = same_signer b a.
Proof.
  unfold same_signer. rewrite (andb_comm (is_ec a)). destruct (is_ec b && is_ec a).
  - rewrite (N.eqb_sym (pk_curve a)), (N.eqb_sym (pk_x a)), (N.eqb_sym (pk_y a)). reflexivity.
  - destruct (pubkey_eqb a b) eqn:E.
    + apply pubkey_eqb_eq in E. subst. symmetry. apply pubkey_eqb_eq. reflexivity.
    + destruct (pubkey_eqb b a) eqn:E'; [|reflexivity]. apply pubkey_eqb_eq in E'. subst.
      assert (pubkey_eqb a a = true) by (apply pubkey_eqb_eq; reflexivity). congruence.
Qed.

Lemma same_signer_trans a b c : same_signer a b = true -> same_signer b c = true -> same_signer a c = true.
Proof.
  unfold same_signer. destruct (is_ec a) eqn:Ea, (is_ec b) eqn:Eb, (is_ec c) eqn:Ec; cbn [andb];
    rewrite ?andb_true_iff, ?N.eqb_eq, ?pubkey_eqb_eq; try (intros; subst; congruence).
  intros ((-> & ->) & ->) ((-> & ->) & ->). auto.
Qed.

(** * The counted signatures come from pairwise different signers
    (when the key list itself does not name one signer at two positions). *)
Theorem counted_signers_distinct_proof sdeser h ss :
  sigset_signed sdeser h ss ->
  (forall p q kp kq, p <> q -> nth_error (ss_keys ss) p = Some kp -> nth_error (ss_keys ss) q = Some kq ->
     same_signer kp kq = false) ->
  forall i j sbi sbj a b, (i < N.to_nat (ss_m ss))%nat -> (j < N.to_nat (ss_m ss))%nat -> i <> j ->
    nth_error (ss_sigdata ss) i = Some sbi -> nth_error (ss_sigdata ss) j = Some sbj ->
    forall pa pb, sdeser sbi = Some (SigOf a h pa) -> sdeser sbj = Some (SigOf b h pb) ->
    same_signer a b = false.
Proof.
  intros (_ & _ & _ & ps & L & ND & V) Distinct i j sbi sbj a b Hi Hj Nij Si Sj pa pb Di Dj.
  destruct (V i Hi) as (ki & sbi' & Ki & Si' & (ai & pci & Di' & SSi)).
  destruct (V j Hj) as (kj & sbj' & Kj & Sj' & (aj & pcj & Dj' & SSj)).
  rewrite Si in Si'. injection Si' as <-. rewrite Sj in Sj'. injection Sj' as <-.
  rewrite Di in Di'. injection Di' as <- _. rewrite Dj in Dj'. injection Dj' as <- _.
  assert (Np : nth i ps 0%nat <> nth j ps 0%nat).
  { intro E. apply Nij. apply (proj1 (NoDup_nth ps 0%nat) ND); [lia|lia|exact E]. }
  pose proof (Distinct _ _ _ _ Np Ki Kj) as D.
  destruct (same_signer a b) eqn:SAB; [|reflexivity].
  rewrite <- D. symmetry. apply (same_signer_trans ki a kj); [exact SSi|].
  apply (same_signer_trans a b kj); [exact SAB|]. rewrite same_signer_sym. exact SSj.
Qed.
