(** Proofs about Model/Sig.v (C16), part 2: the abstract-signature instance
    ([sigT] := [asig], [sverify] := [abs_verify]): a signature IS the pair (signer, message).
    - what "verifies" means there (accept_sound_abstract),
    - a changed hash makes an accepted transaction rejected,
    - when the validator panics (only the Ethereum-key / short-KECCAK-signature class),
    - a changed counted signature makes the transaction rejected outside that class, and the
      concrete witness inside it. *)
From Coq Require Import List Bool Arith NArith ZArith Lia Permutation.
Import ListNotations.
From Ont Require Import Lib.Bytes Model.Codec Gen.ProgramConsts Model.Program Gen.SigConsts Gen.SigGuards Model.Sig.
From Ont Require Import Proofs.Codec Proofs.Program Proofs.Sig.
Local Open Scope N_scope.

(** * The abstract verification function *)
Lemma abs_verify_true_inv weak k h s :
  abs_verify weak k h s = VTrue -> exists k' pc, s = SigOf k' h pc /\ same_signer k k' = true.
Proof.
  unfold abs_verify. destruct (weak k && _); [discriminate|].
  destruct s as [k' m' pc|pc|]; [|discriminate|destruct (pk_type k =? PK_ETHECDSA); discriminate].
  destruct (same_signer k k') eqn:S; cbn [andb]; [|discriminate].
  destruct (bytes_eqb h m') eqn:B; [|discriminate]. apply bytes_eqb_eq in B. subst. eauto.
Qed.

Lemma abs_verify_panic weak k h s :
  abs_verify weak k h s = VPanic ->
  (weak k = true /\ In (pk_curve k) (sig_panic_curves s)) \/ (s = SigEthShort /\ pk_type k = PK_ETHECDSA).
Proof.
  unfold abs_verify. destruct (weak k) eqn:W; cbn [andb].
  - destruct (existsb _ _) eqn:X.
    + intros _. left. split; [reflexivity|]. apply existsb_exists in X. destruct X as (c & Hc & E).
      apply N.eqb_eq in E. subst. exact Hc.
    + destruct s as [k' m' pc|pc|]; [destruct (same_signer k k' && bytes_eqb h m'); discriminate|discriminate|].
      destruct (N.eqb_spec (pk_type k) PK_ETHECDSA); [auto|discriminate].
  - destruct s as [k' m' pc|pc|]; [destruct (same_signer k k' && bytes_eqb h m'); discriminate|discriminate|].
    destruct (N.eqb_spec (pk_type k) PK_ETHECDSA); [auto|discriminate].
Qed.

Section Abstract.
Variable weak : pubkey -> bool.
Variable deser : bytes -> option pubkey.
Variable sdeser : bytes -> option asig.
Variable H : bytes -> bytes.
Variable Keth : bytes -> bytes.

Notation abs_verify := (abs_verify weak).
Notation get_sig := (get_sig deser).
Notation find_slot := (find_slot asig abs_verify).
Notation multi_loop := (multi_loop asig sdeser abs_verify).
Notation verify_multi := (verify_multi asig sdeser abs_verify).
Notation verify_single := (verify_single asig sdeser abs_verify).
Notation check_sigset := (check_sigset deser asig sdeser abs_verify H Keth).
Notation check_sigs := (check_sigs deser asig sdeser abs_verify H Keth).
Notation cts := (check_transaction_signatures deser asig sdeser abs_verify H Keth).
Notation verifies := (verifies asig sdeser abs_verify).
Notation sigset_valid := (sigset_valid asig sdeser abs_verify).

(** [signed_by k h sb]: the byte string [sb] is a signature over the message [h] made by the
    holder of key [k]. *)
Definition signed_by (k : pubkey) (h sb : bytes) : Prop :=
  exists k' pc, sdeser sb = Some (SigOf k' h pc) /\ same_signer k k' = true.

Lemma verifies_signed_by k h sb : verifies k h sb -> signed_by k h sb.
Proof.
  intros (s & D & V). apply abs_verify_true_inv in V. destruct V as (k' & pc & -> & S).
  exists k', pc. auto.
Qed.

(** ** accept_sound, abstract reading *)
Definition sigset_signed (h : bytes) (ss : sigset) : Prop :=
  let m := N.to_nat (ss_m ss) in
  (1 <= m <= length (ss_keys ss))%nat /\ (length (ss_keys ss) <= 16)%nat /\
  (m <= length (ss_sigdata ss))%nat /\
  exists ps : list nat, length ps = m /\ NoDup ps /\
    forall i, (i < m)%nat ->
      exists k sb, nth_error (ss_keys ss) (nth i ps 0%nat) = Some k /\
                   nth_error (ss_sigdata ss) i = Some sb /\ signed_by k h sb.

Lemma sigset_valid_signed h ss : sigset_valid h ss -> sigset_signed h ss.
Proof.
  unfold Sig.sigset_valid, sigset_signed. cbv zeta.
  intros (A & B & C & ps & L & ND & V). split; [exact A|]. split; [exact B|]. split; [exact C|].
  exists ps. split; [exact L|]. split; [exact ND|]. intros i Hi.
  destruct (V i Hi) as (k & sb & K & S & X). exists k, sb. split; [exact K|]. split; [exact S|].
  apply verifies_signed_by. exact X.
Qed.

(** ** A different hash: the signatures of an accepted transaction under any other hash are
    never accepted. *)
Theorem hash_mutation_not_accepted_proof t addrs h' p' :
  cts t = VAccept addrs -> h' <> v_hash t ->
  forall addrs', cts (mkVtx false h' p' (v_sigs t)) <> VAccept addrs'.
Proof.
  intros E N addrs' E'.
  destruct (accept_sound_proof _ _ _ _ _ _ _ _ E) as (_ & _ & F & O & P & _).
  destruct (accept_sound_proof _ _ _ _ _ _ _ _ E') as (_ & _ & F' & _).
  cbn [v_sigs v_hash] in F'.
  destruct (O _ P) as (r & ss & Hr & G & _).
  rewrite Forall_forall in F, F'.
  destruct (F r Hr) as (ss1 & a1 & G1 & V1 & _). destruct (F' r Hr) as (ss2 & a2 & G2 & V2 & _).
  rewrite G in G1, G2. injection G1 as <-. injection G2 as <-.
  apply sigset_valid_signed in V1, V2.
  destruct V1 as (M1 & _ & _ & ps1 & _ & _ & S1). destruct V2 as (_ & _ & _ & ps2 & _ & _ & S2).
  assert (Z0 : (0 < N.to_nat (ss_m ss))%nat) by lia.
  destruct (S1 _ Z0) as (k1 & sb1 & _ & B1 & (k1' & pc1 & D1 & _)).
  destruct (S2 _ Z0) as (k2 & sb2 & _ & B2 & (k2' & pc2 & D2 & _)).
  rewrite B1 in B2. injection B2 as <-. rewrite D1 in D2. injection D2 as _ Eh _. congruence.
Qed.

(** ** When the validator panics *)
Definition ser_sane (k : pubkey) : Prop := pk_ser k <> [] /\ N.of_nat (length (pk_ser k)) < two32.

(** Every key of every parsed signature set has a non-empty serialization shorter than 2^32
    bytes (true of every key keypair.DeserializePublicKey returns: 33..133 bytes). *)
Definition keys_sane (t : vtx) : Prop :=
  forall r ss k, In r (v_sigs t) -> get_sig r = inl ss -> In k (ss_keys ss) -> ser_sane k.

(** No signature set with an Ethereum-style key carries a short KECCAK-scheme signature. *)
Definition no_eth_short (t : vtx) : Prop :=
  forall r ss sb k, In r (v_sigs t) -> get_sig r = inl ss -> In sb (ss_sigdata ss) -> In k (ss_keys ss) ->
    sdeser sb = Some SigEthShort -> pk_type k <> PK_ETHECDSA.

(** No parsed key is an off-curve EC point. *)
Definition no_weak_key (t : vtx) : Prop :=
  forall r ss k, In r (v_sigs t) -> get_sig r = inl ss -> In k (ss_keys ss) -> weak k = false.

Lemma push_all_sane ds : Forall (fun d => d <> [] /\ N.of_nat (length d) < two32) ds ->
  exists e, push_all ds = Some e.
Proof.
  induction 1 as [|d ds (Hne & Hl) _ (e & IH)]; simpl; [eauto|].
  destruct (push_bytes_some _ Hne Hl) as (hdr & -> & _). simpl. rewrite IH. simpl. eauto.
Qed.

Lemma address_single_sane k : ser_sane k -> exists a, address_from_pubkey H Keth k = AOk a.
Proof.
  intros (Hne & Hl). unfold address_from_pubkey. destruct (pk_type k =? PK_ETHECDSA); [eauto|].
  unfold program_from_pubkey. destruct (push_bytes_some _ Hne Hl) as (hdr & -> & _). simpl. eauto.
Qed.

Lemma address_multi_sane ks m : Forall ser_sane ks -> address_from_multi_pubkeys H ks m <> APanic.
Proof.
  intro F. unfold address_from_multi_pubkeys. destruct (multi_params_ok m _); cbn [negb]; [|discriminate].
  unfold program_from_multi_pubkey. destruct (multi_params_ok m _); cbn [negb]; [|discriminate].
  unfold multi_script.
  assert (B : forall v, v mod 65536 <= 65535) by (intro v; pose proof (N.mod_lt v 65536); lia).
  destruct (push_num_some _ (B (Z.to_N m))) as (e1 & -> & _). cbn [obind].
  assert (F' : Forall (fun d => d <> [] /\ N.of_nat (length d) < two32) (map pk_ser (sort_keys ks))).
  { apply Forall_map. eapply Permutation_Forall; [apply Permutation_sym, sort_keys_perm|exact F]. }
  destruct (push_all_sane _ F') as (e2 & ->). cbn [obind].
  destruct (push_num_some _ (B (N.of_nat (length (sort_keys ks))))) as (e3 & -> & _). cbn [obind].
  discriminate.
Qed.

Lemma find_slot_no_crash h s : forall keys mask,
  (forall k, In k keys -> abs_verify k h s <> VPanic) -> find_slot h s keys mask <> SCrash.
Proof.
  induction keys as [|k ks IH]; intros mask A; [discriminate|].
  destruct mask as [|b bs]; [discriminate|]. cbn [Sig.find_slot].
  assert (IH' := IH bs (fun k0 Hk => A k0 (or_intror Hk))).
  destruct b.
  - destruct (find_slot h s ks bs); try discriminate. contradiction.
  - pose proof (A k (or_introl eq_refl)) as Ak. destruct (abs_verify k h s); try discriminate; [|contradiction].
    destruct (find_slot h s ks bs); try discriminate. contradiction.
Qed.

(** The per-set form of the two hypotheses. *)
Definition set_calm (keys : list pubkey) (sigs : list bytes) : Prop :=
  (forall k, In k keys -> weak k = false) /\
  (forall sb k, In sb sigs -> In k keys -> sdeser sb = Some SigEthShort -> pk_type k <> PK_ETHECDSA).

Lemma calm_no_panic keys sigs h sb s k :
  set_calm keys sigs -> In sb sigs -> In k keys -> sdeser sb = Some s -> abs_verify k h s <> VPanic.
Proof.
  intros (W & A) Hs Hk D V. apply abs_verify_panic in V. destruct V as [(Wk & _)|(-> & T)].
  - rewrite (W k Hk) in Wk. discriminate.
  - exact (A sb k Hs Hk D T).
Qed.

Lemma multi_loop_no_crash h keys : forall m sigs mask,
  (m <= length sigs)%nat -> set_calm keys sigs -> multi_loop h keys m sigs mask <> MCrash.
Proof.
  induction m as [|m IH]; intros sigs mask L A; [discriminate|].
  cbn [Sig.multi_loop]. destruct sigs as [|sb rest]; [simpl in L; lia|].
  destruct (sdeser sb) as [s|] eqn:D; [|discriminate].
  destruct (find_slot h s keys mask) as [mask'| |] eqn:F; [|discriminate|].
  - apply IH; [simpl in L; lia|]. destruct A as (W & A). split; [exact W|].
    intros sb' k Hs Hk. apply A; [right; exact Hs|exact Hk].
  - exfalso. revert F. apply find_slot_no_crash. intros k Hk.
    eapply calm_no_panic; [exact A|left; reflexivity|exact Hk|exact D].
Qed.

Lemma check_sigset_no_crash h r :
  (forall ss k, get_sig r = inl ss -> In k (ss_keys ss) -> ser_sane k) ->
  (forall ss, get_sig r = inl ss -> set_calm (ss_keys ss) (ss_sigdata ss)) ->
  check_sigset h r <> CCrash.
Proof.
  intros Sane Calm. unfold Sig.check_sigset. destruct (get_sig r) as [ss|e]; [|discriminate].
  specialize (Sane ss). specialize (Calm ss eq_refl).
  destruct (sig_param_bad _ _ _) eqn:P; [discriminate|].
  apply sig_param_bad_spec in P. destruct P as (P1 & P2 & P3 & P4).
  destruct (Z.eqb_spec (Z.of_nat (length (ss_keys ss))) 1) as [K1|K1].
  - destruct (ss_keys ss) as [|k ks]; [simpl in K1; lia|].
    destruct (ss_sigdata ss) as [|sb rest]; [simpl in P2; lia|].
    unfold Sig.verify_single. destruct (sdeser sb) as [s|] eqn:D; [|discriminate].
    destruct (abs_verify k h s) eqn:V; [|discriminate|].
    + destruct (address_single_sane k) as (a & ->); [apply Sane; [reflexivity|left; reflexivity]|discriminate].
    + exfalso. revert V. eapply calm_no_panic; [exact Calm|left; reflexivity|left; reflexivity|exact D].
  - destruct (verify_multi h (ss_keys ss) (Z.of_N (ss_m ss)) (ss_sigdata ss)) eqn:VM; [|discriminate|].
    + pose proof (address_multi_sane (ss_keys ss) (Z.of_N (ss_m ss))) as AM.
      destruct (address_from_multi_pubkeys H (ss_keys ss) (Z.of_N (ss_m ss))); try discriminate.
      exfalso. apply AM; [|reflexivity]. apply Forall_forall. intros k Hk. apply Sane; [reflexivity|exact Hk].
    + exfalso. revert VM. unfold Sig.verify_multi. destruct (multi_not_enough _ _) eqn:NE; [discriminate|].
      apply multi_not_enough_spec in NE. apply multi_loop_no_crash; [lia|exact Calm].
Qed.

Lemma check_sigs_no_crash h : forall rs acc,
  (forall r ss k, In r rs -> get_sig r = inl ss -> In k (ss_keys ss) -> ser_sane k) ->
  (forall r ss, In r rs -> get_sig r = inl ss -> set_calm (ss_keys ss) (ss_sigdata ss)) ->
  check_sigs h rs acc <> LCrash.
Proof.
  induction rs as [|r rest IH]; intros acc Sane Calm; [discriminate|].
  cbn [Sig.check_sigs].
  pose proof (check_sigset_no_crash h r (fun ss k => Sane r ss k (or_introl eq_refl))
                (fun ss => Calm r ss (or_introl eq_refl))) as NC.
  destruct (check_sigset h r); [|discriminate|contradiction].
  apply IH.
  - intros r' ss k Hr. apply Sane. right. exact Hr.
  - intros r' ss Hr. apply Calm. right. exact Hr.
Qed.

Theorem no_crash_proof t : keys_sane t -> no_eth_short t -> no_weak_key t -> cts t <> VCrash.
Proof.
  intros Sane NoShort NoWeak. unfold Sig.check_transaction_signatures.
  destruct (v_eip t); [discriminate|]. destruct (too_many_sigs _); [discriminate|].
  assert (Calm : forall r ss, In r (v_sigs t) -> get_sig r = inl ss -> set_calm (ss_keys ss) (ss_sigdata ss)).
  { intros r ss Hr G. split.
    - intros k Hk. exact (NoWeak r ss k Hr G Hk).
    - intros sb k Hs Hk. exact (NoShort r ss sb k Hr G Hs Hk). }
  pose proof (check_sigs_no_crash (v_hash t) (v_sigs t) [] Sane Calm) as NC.
  destruct (check_sigs (v_hash t) (v_sigs t) []) as [ad| |]; [|discriminate|contradiction].
  destruct (mem_addr (v_payer t) ad); discriminate.
Qed.

(** An Ontology-format run that neither accepts nor panics rejects. *)
Lemma not_accept_not_crash_reject t :
  v_eip t = false -> (forall addrs, cts t <> VAccept addrs) -> cts t <> VCrash -> exists e, cts t = VReject e.
Proof.
  intros Eip NA NC. destruct (cts t) as [ad| |e|] eqn:E; [exfalso; exact (NA ad eq_refl)| |eauto|contradiction].
  exfalso. revert E. unfold Sig.check_transaction_signatures. rewrite Eip.
  destruct (too_many_sigs _); [discriminate|].
  destruct (check_sigs _ _ _) as [ad| |]; try discriminate. destruct (mem_addr _ _); discriminate.
Qed.

(** ** A changed counted signature, outside the crash classes *)
Theorem signature_mutation_rejected_partial_proof t r ss i sb :
  v_eip t = false -> keys_sane t -> no_eth_short t -> no_weak_key t ->
  In r (v_sigs t) -> get_sig r = inl ss ->
  (i < N.to_nat (ss_m ss))%nat -> nth_error (ss_sigdata ss) i = Some sb ->
  (forall k, In k (ss_keys ss) -> ~ signed_by k (v_hash t) sb) ->
  exists e, cts t = VReject e.
Proof.
  intros Eip Sane NoShort NoWeak Hr G Hi Hsb Bad.
  apply not_accept_not_crash_reject; [exact Eip| |apply no_crash_proof; assumption].
  eapply bad_signature_not_accepted_proof; try eassumption.
  intros k Hk V. apply (Bad k Hk). apply verifies_signed_by. exact V.
Qed.

(** ** A changed hash, outside the crash classes *)
Theorem hash_mutation_rejected_partial_proof t addrs h' p' :
  cts t = VAccept addrs -> h' <> v_hash t ->
  keys_sane t -> no_eth_short t -> no_weak_key t ->
  exists e, cts (mkVtx false h' p' (v_sigs t)) = VReject e.
Proof.
  intros E N Sane NoShort NoWeak.
  apply not_accept_not_crash_reject; [reflexivity|eapply hash_mutation_not_accepted_proof; eassumption|].
  apply no_crash_proof; assumption.
Qed.

End Abstract.

(** * The signer relation is an equivalence on keys *)
Lemma pubkey_eqb_eq a b : pubkey_eqb a b = true <-> a = b.
Proof.
  unfold pubkey_eqb. rewrite !andb_true_iff, !N.eqb_eq, bytes_eqb_eq. destruct a, b; cbn. split.
  - intros ((((-> & ->) & ->) & ->) & ->). reflexivity.
  - intro E. injection E as -> -> -> -> ->. auto.
Qed.

Lemma same_signer_refl a : same_signer a a = true.
Proof.
  unfold same_signer. destruct (is_ec a); cbn [andb].
  - rewrite !N.eqb_refl. reflexivity.
  - apply pubkey_eqb_eq. reflexivity.
Qed.

Lemma same_signer_sym a b : same_signer a b = same_signer b a.
Proof.
  unfold same_signer. rewrite (andb_comm (is_ec a)). destruct (is_ec b && is_ec a).
  - rewrite (N.eqb_sym (pk_curve a)), (N.eqb_sym (pk_x a)), (N.eqb_sym (pk_y a)). reflexivity.
  - destruct (pubkey_eqb a b) eqn:E.
    + apply pubkey_eqb_eq in E. subst. symmetry. apply pubkey_eqb_eq. reflexivity.
    + destruct (pubkey_eqb b a) eqn:E'; [|reflexivity]. apply pubkey_eqb_eq in E'. subst.
      assert (pubkey_eqb a a = true) by (apply pubkey_eqb_eq; reflexivity). congruence.
Qed.

Lemma same_signer_trans a b c : same_signer a b = true -> same_signer b c = true -> same_signer a c = true.
Proof.
  unfold same_signer. destruct (is_ec a) eqn:Ea, (is_ec b) eqn:Eb, (is_ec c) eqn:Ec; cbn [andb];
    rewrite ?andb_true_iff, ?N.eqb_eq, ?pubkey_eqb_eq; try (intros; subst; congruence).
  intros ((-> & ->) & ->) ((-> & ->) & ->). auto.
Qed.

(** * The counted signatures come from pairwise different signers
    (when the key list itself does not name one signer at two positions). *)
Theorem counted_signers_distinct_proof sdeser h ss :
  sigset_signed sdeser h ss ->
  (forall p q kp kq, p <> q -> nth_error (ss_keys ss) p = Some kp -> nth_error (ss_keys ss) q = Some kq ->
     same_signer kp kq = false) ->
  forall i j sbi sbj a b, (i < N.to_nat (ss_m ss))%nat -> (j < N.to_nat (ss_m ss))%nat -> i <> j ->
    nth_error (ss_sigdata ss) i = Some sbi -> nth_error (ss_sigdata ss) j = Some sbj ->
    forall pa pb, sdeser sbi = Some (SigOf a h pa) -> sdeser sbj = Some (SigOf b h pb) ->
    same_signer a b = false.
Proof.
  intros (_ & _ & _ & ps & L & ND & V) Distinct i j sbi sbj a b Hi Hj Nij Si Sj pa pb Di Dj.
  destruct (V i Hi) as (ki & sbi' & Ki & Si' & (ai & pci & Di' & SSi)).
  destruct (V j Hj) as (kj & sbj' & Kj & Sj' & (aj & pcj & Dj' & SSj)).
  rewrite Si in Si'. injection Si' as <-. rewrite Sj in Sj'. injection Sj' as <-.
  rewrite Di in Di'. injection Di' as <- _. rewrite Dj in Dj'. injection Dj' as <- _.
  assert (Np : nth i ps 0%nat <> nth j ps 0%nat).
  { intro E. apply Nij. apply (proj1 (NoDup_nth ps 0%nat) ND); [lia|lia|exact E]. }
  pose proof (Distinct _ _ _ _ Np Ki Kj) as D.
  destruct (same_signer a b) eqn:SAB; [|reflexivity].
  rewrite <- D. symmetry. apply (same_signer_trans ki a kj); [exact SSi|].
  apply (same_signer_trans a b kj); [exact SAB|]. rewrite same_signer_sym. exact SSj.
Qed.
