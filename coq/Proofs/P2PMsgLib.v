(** Proof library for the P2P message model: the relation [reads s s' e] ("going from [s] to [s']
    consumed exactly the bytes [e]"), its composition, one lemma per ZeroCopySource primitive, and
    the loop lemma. *)
From Coq Require Import List Bool Arith NArith ZArith Lia ZifyN ZifyNat ZifyBool.
Import ListNotations.
From Ont Require Import Lib.Bytes Gen.CodecConsts Gen.P2PConsts Model.Codec Proofs.Codec Model.P2PMsg.
Local Open Scope N_scope.
Open Scope bool_scope.
Ltac Zify.zify_post_hook ::= Z.to_euclidean_division_equations.

Definition reads (s s' : source) (e : bytes) : Prop :=
  buf s' = buf s /\ (off s <= off s' <= length (buf s))%nat /\
  e = slice (buf s) (off s) (off s' - off s).

Lemma reads_refl s : src_ok s -> reads s s [].
Proof.
  intros [H _]. unfold reads. split; [reflexivity|]. split; [lia|].
  rewrite Nat.sub_diag. unfold slice. reflexivity.
Qed.

Lemma reads_trans s1 s2 s3 e1 e2 : reads s1 s2 e1 -> reads s2 s3 e2 -> reads s1 s3 (e1 ++ e2).
Proof.
  intros [B1 [O1 E1]] [B2 [O2 E2]]. unfold reads. rewrite B2, B1 in *.
  split; [reflexivity|]. split; [lia|].
  replace (off s3 - off s1)%nat with ((off s2 - off s1) + (off s3 - off s2))%nat by lia.
  rewrite slice_split, E1, E2. do 2 f_equal. lia.
Qed.

Lemma reads_safe s s' e : reads s s' e -> step_safe s s'.
Proof. intros [B [O _]]. split; assumption. Qed.

Lemma reads_ok s s' e : src_ok s -> reads s s' e -> src_ok s'.
Proof. intros H R. eapply step_safe_ok; [exact H|eapply reads_safe; exact R]. Qed.

Lemma reads_wf s s' e : wf_bytes (buf s) = true -> reads s s' e -> wf_bytes (buf s') = true.
Proof. intros H [B _]. rewrite B. exact H. Qed.

Lemma reads_length s s' e : reads s s' e -> length e = (off s' - off s)%nat.
Proof. intros [B [O E]]. subst e. apply slice_length. lia. Qed.

Lemma reads_wf_data s s' e : wf_bytes (buf s) = true -> reads s s' e -> wf_bytes e = true.
Proof. intros H [_ [_ E]]. subst e. apply wf_slice. exact H. Qed.

Lemma reads_eq s s' e e' : reads s s' e -> e = e' -> reads s s' e'.
Proof. intros R <-. exact R. Qed.

Lemma safe_reads s s' : step_safe s s' -> reads s s' (slice (buf s) (off s) (off s' - off s)).
Proof. intros [B O]. split; [exact B|]. split; [exact O|reflexivity]. Qed.

(** Every step that stays in bounds extends an accumulated read by *some* bytes. *)
Lemma reads_extend s0 s s' e : reads s0 s e -> step_safe s s' -> exists x, reads s0 s' (e ++ x).
Proof. intros R S. eexists. eapply reads_trans; [exact R|apply safe_reads; exact S]. Qed.

(** ** Primitives *)
Lemma next_uint_reads w s v s' :
  src_ok s -> wf_bytes (buf s) = true -> next_uint w s = (v, false, s') ->
  reads s s' (le_encode w v) /\ v < 256 ^ N.of_nat w /\ off s' = (off s + w)%nat.
Proof.
  intros Hok Hwf E. destruct (next_uint_spec w s v s' Hok Hwf E) as [Ho [Eb [Bd [Hv Henc]]]].
  split; [|split; assumption]. split; [exact Eb|]. split; [lia|].
  rewrite Henc. f_equal. lia.
Qed.

Lemma next_byte_reads s v s' :
  src_ok s -> wf_bytes (buf s) = true -> next_byte s = (v, false, s') ->
  reads s s' [v] /\ v < 256 /\ off s' = S (off s).
Proof.
  intros Hok Hwf E. pose proof (next_byte_spec s Hok) as P. rewrite E in P.
  destruct P as [Eb [Bd [_ P]]]. destruct (P eq_refl) as [Ho Hs].
  assert (W : wf_bytes [v] = true) by (rewrite <- Hs; apply wf_slice; exact Hwf).
  simpl in W. rewrite andb_true_r in W. apply N.ltb_lt in W.
  split; [|split; assumption]. split; [exact Eb|]. split; [lia|].
  rewrite Ho. replace (S (off s) - off s)%nat with 1%nat by lia. symmetry; exact Hs.
Qed.

Lemma next_bool_reads s b irr s' :
  src_ok s -> wf_bytes (buf s) = true -> next_bool s = (b, irr, false, s') ->
  off s' = S (off s) /\ step_safe s s' /\ (irr = false -> reads s s' (write_bool b)).
Proof.
  intros Hok Hwf E. unfold next_bool in E.
  destruct (next_byte s) as [[v e] s1] eqn:EB.
  assert (e = false) by (destruct (v =? 0); [|destruct (v =? 1)]; inversion E; reflexivity). subst e.
  destruct (next_byte_reads s v s1 Hok Hwf EB) as [R [Hv Ho]].
  destruct (v =? 0) eqn:V0; [|destruct (v =? 1) eqn:V1]; inversion E; subst; clear E.
  - split; [exact Ho|]. split; [eapply reads_safe; exact R|]. intros _. apply N.eqb_eq in V0. subst v. exact R.
  - split; [exact Ho|]. split; [eapply reads_safe; exact R|]. intros _. apply N.eqb_eq in V1. subst v. exact R.
  - split; [exact Ho|]. split; [eapply reads_safe; exact R|]. discriminate.
Qed.

Lemma next_bytes_reads s n d s' :
  src_ok s -> next_bytes s n = (d, false, s') ->
  reads s s' d /\ N.of_nat (length d) = n /\ N.of_nat (off s') = N.of_nat (off s) + n.
Proof.
  intros Hok E. pose proof (next_bytes_spec s n Hok) as P. rewrite E in P.
  destruct P as [Eb [Bd [Ed [Hn _]]]]. specialize (Hn eq_refl).
  split; [split; [exact Eb|split; [lia|exact Ed]]|]. split; [|exact Hn].
  rewrite Ed, slice_length; lia.
Qed.

Lemma next_bytes_eof_end s n d s' :
  src_ok s -> next_bytes s n = (d, true, s') -> off s' = length (buf s') /\ buf s' = buf s.
Proof.
  intros Hok E. pose proof (next_bytes_spec s n Hok) as P. rewrite E in P.
  destruct P as [Eb [Bd [Ed [_ He]]]]. destruct (He eq_refl) as [_ H]. rewrite Eb. split; [exact H|reflexivity].
Qed.

Lemma next_fixed_reads w s d s' :
  src_ok s -> next_fixed w s = (d, false, s') ->
  reads s s' d /\ length d = w /\ off s' = (off s + w)%nat.
Proof.
  intros Hok E. unfold next_fixed in E. destruct (next_bytes s (N.of_nat w)) as [[b e] s1] eqn:EB.
  destruct e; [discriminate|]. inversion E; subst; clear E.
  destruct (next_bytes_reads _ _ _ _ Hok EB) as [R [L O]]. split; [exact R|]. split; lia.
Qed.

Lemma next_uint_at_end w s : (0 < w)%nat -> off s = length (buf s) -> snd (fst (next_uint w s)) = true.
Proof.
  intros Hw He. unfold next_uint, next_bytes.
  destruct ((two64 <=? N.of_nat (off s) + N.of_nat w) || (N.of_nat (length (buf s)) <? N.of_nat (off s) + N.of_nat w)) eqn:T.
  - reflexivity.
  - apply orb_false_iff in T; destruct T as [_ T]. apply N.ltb_ge in T. lia.
Qed.

Lemma next_varbytes_reads s d sz irr s' :
  src_ok s -> wf_bytes (buf s) = true -> next_varbytes s = (d, sz, irr, false, s') ->
  step_safe s s' /\ (off s < off s')%nat /\ (irr = false -> reads s s' (write_varbytes d)).
Proof.
  intros Hok Hwf E.
  pose proof (next_varbytes_safe s Hok) as Safe. rewrite E in Safe. cbn [snd] in Safe.
  unfold next_varbytes in E.
  destruct (next_varuint s) as [[[[c size] irr0] e0] s1] eqn:EV.
  assert (Hc0 : e0 = true -> c = 0).
  { intro He. subst e0. unfold next_varuint in EV.
    destruct (next_byte s) as [[fb e] sa]. destruct e; [inversion EV; reflexivity|].
    assert (F : forall (r : N * bool * source) z, (let '(v, e, s2) := r in
        if e then (0, 0, false, true, s2) else (v, z, negb (z =? getVarUintSize v), false, s2)) = (c, size, irr0, true, s1) -> c = 0).
    { intros [[v e] s2] z. destruct e; intro Q; inversion Q; reflexivity. }
    destruct (fb =? 253); [eapply F; exact EV|].
    destruct (fb =? 254); [eapply F; exact EV|].
    destruct (fb =? 255); [eapply F; exact EV|]. inversion EV. }
  destruct (0 <? c) eqn:Cpos.
  - apply N.ltb_lt in Cpos.
    destruct e0; [specialize (Hc0 eq_refl); lia|].
    destruct (next_bytes s1 c) as [[d1 e1] s2] eqn:EB. inversion E; subst d1 sz irr0 e1 s2; clear E.
    destruct (varuint_canonical s c size irr s1 Hok Hwf EV) as [Hlen [Hc Hcan]].
    pose proof (next_varuint_safe s Hok) as S1. rewrite EV in S1. cbn [snd] in S1.
    assert (Hok1 : src_ok s1) by (eapply step_safe_ok; eassumption).
    destruct (next_bytes_reads _ _ _ _ Hok1 EB) as [R2 [L2 O2]].
    split; [exact Safe|]. split; [destruct S1 as [_ S1]; lia|].
    intro Hirr. apply Hcan in Hirr.
    pose proof (safe_reads s s1 S1) as R1. rewrite Hirr in R1.
    unfold write_varbytes. rewrite L2. eapply reads_trans; eassumption.
  - apply N.ltb_ge in Cpos. assert (c = 0) by lia. subst c.
    inversion E; subst d sz irr0 e0 s1; clear E.
    destruct (varuint_canonical s 0 size irr s' Hok Hwf EV) as [Hlen [Hc Hcan]].
    split; [exact Safe|]. split.
    + pose proof (safe_reads s s' Safe) as R1. apply reads_length in R1.
      assert (size <> 0).
      { unfold next_varuint in EV. destruct (next_byte s) as [[fb e] sa]. destruct e; [discriminate|].
        assert (F : forall (r : N * bool * source) z, z <> 0 -> (let '(v, e, s2) := r in
          if e then (0, 0, false, true, s2) else (v, z, negb (z =? getVarUintSize v), false, s2)) = (0, size, irr, false, s') -> size <> 0).
        { intros [[v e] s2] z Hz. destruct e; intro Q; inversion Q; subst; exact Hz. }
        destruct (fb =? 253); [eapply F; [|exact EV]; lia|].
        destruct (fb =? 254); [eapply F; [|exact EV]; lia|].
        destruct (fb =? 255); [eapply F; [|exact EV]; lia|]. inversion EV. lia. }
      lia.
    + intro Hirr. apply Hcan in Hirr. pose proof (safe_reads s s' Safe) as R1. rewrite Hirr in R1.
      unfold write_varbytes. simpl length. rewrite app_nil_r. exact R1.
Qed.

Lemma read_varbytes_reads s d s' :
  src_ok s -> wf_bytes (buf s) = true -> read_varbytes s = (inl d, s') ->
  reads s s' (write_varbytes d) /\ (off s < off s')%nat.
Proof.
  intros Hok Hwf E. unfold read_varbytes in E.
  destruct (next_varbytes s) as [[[[d0 sz] irr] eof] s1] eqn:EV.
  destruct irr; [discriminate|]. destruct eof; [discriminate|]. inversion E; subst; clear E.
  destruct (next_varbytes_reads _ _ _ _ _ Hok Hwf EV) as [_ [P R]]. split; [apply R; reflexivity|exact P].
Qed.

Lemma read_varbytes_safe s : src_ok s -> step_safe s (snd (read_varbytes s)).
Proof.
  intro Hok. unfold read_varbytes. pose proof (next_varbytes_safe s Hok) as P.
  destruct (next_varbytes s) as [[[[d0 sz] irr] eof] s1]. cbn [snd] in P.
  destruct irr; [exact P|]. destruct eof; exact P.
Qed.

(** ** Signed / padded fields *)
Lemma of_to_signed w v : v < 256 ^ N.of_nat w -> of_signed w (to_signed w v) = v.
Proof.
  intro Hv. unfold of_signed, to_signed.
  set (m := 256 ^ N.of_nat w) in *.
  assert (Hm : 0 < m) by (apply N.neq_0_lt_0; apply N.pow_nonzero; discriminate).
  destruct (v <? m / 2) eqn:T.
  - rewrite Z.mod_small by lia. lia.
  - apply N.ltb_ge in T.
    replace (Z.of_N v - Z.of_N m)%Z with (Z.of_N v + (-1) * Z.of_N m)%Z by lia.
    rewrite Z.mod_add by lia. rewrite Z.mod_small by lia. lia.
Qed.

Lemma copy_into_exact n d : length d = n -> copy_into n d = d.
Proof.
  intro L. unfold copy_into. rewrite firstn_app, L, Nat.sub_diag. simpl.
  rewrite <- L, firstn_all. apply app_nil_r.
Qed.

Lemma forallb_repeat0 n : forallb (N.eqb 0) (repeat 0 n) = true.
Proof. induction n; simpl; auto. Qed.

Lemma skipn_app_exact {A : Type} (a b : list A) n : length a = n -> skipn n (a ++ b) = b.
Proof. intros <-. rewrite skipn_app, skipn_all, Nat.sub_diag. reflexivity. Qed.

Lemma firstn_app_exact {A : Type} (a b : list A) n : length a = n -> firstn n (a ++ b) = a.
Proof. intros <-. rewrite firstn_app, firstn_all, Nat.sub_diag. simpl. apply app_nil_r. Qed.

Lemma pseudo_id_roundtrip v : v < two64 -> peer_id_to_uint64 (pseudo_peer_id v) = v.
Proof.
  intro Hv. unfold peer_id_to_uint64, pseudo_peer_id, is_pseudo_peer_id.
  rewrite skipn_app_exact by apply le_encode_length.
  rewrite forallb_repeat0.
  rewrite firstn_app_exact by apply le_encode_length.
  apply le_decode_encode_small. exact Hv.
Qed.

(** ** Loops *)
Definition no_panic (e : derr) : Prop := e <> ErrOutOfRange /\ e <> ErrFuel.

(** An element decoder: stays in bounds, makes progress, and reproduces what it consumed for the
    elements satisfying [good]. *)
Definition elem_ok {A : Type} (good : A -> Prop) (enc : A -> bytes) (rd : source -> dres (A * source)) : Prop :=
  forall s, src_ok s -> wf_bytes (buf s) = true ->
    match rd s with
    | DOk (a, s') => step_safe s s' /\ (off s < off s')%nat /\ (good a -> reads s s' (enc a))
    | DErr e => no_panic e
    end.

Lemma read_loop_ok {A : Type} (good : A -> Prop) enc rd : elem_ok good enc rd ->
  forall fuel n s acc, src_ok s -> wf_bytes (buf s) = true -> (length (buf s) - off s < fuel)%nat ->
  match read_loop fuel rd n s acc with
  | DOk (l, s') => exists l', l = rev acc ++ l' /\ step_safe s s' /\
                   Z.of_nat (length l') = Z.max 0 n /\ (length l' <= off s' - off s)%nat /\
                   (Forall good l' -> reads s s' (flat_map enc l'))
  | DErr e => no_panic e
  end.
Proof.
  intro Hrd. induction fuel as [|f IH]; intros n s acc Hok Hwf Hf; [lia|].
  cbn [read_loop]. destruct (n <=? 0)%Z eqn:Hn.
  - apply Z.leb_le in Hn. exists []. rewrite app_nil_r. split; [reflexivity|].
    split; [apply step_safe_refl; exact Hok|]. split; [simpl; lia|]. split; [simpl; lia|].
    intros _. apply reads_refl; exact Hok.
  - apply Z.leb_gt in Hn. specialize (Hrd s Hok Hwf).
    destruct (rd s) as [[a s1]|e]; [|exact Hrd].
    destruct Hrd as [S1 [P1 G1]].
    assert (Hok1 : src_ok s1) by (eapply step_safe_ok; eassumption).
    assert (Hwf1 : wf_bytes (buf s1) = true) by (destruct S1 as [B _]; rewrite B; exact Hwf).
    assert (Hf1 : (length (buf s1) - off s1 < f)%nat) by (destruct S1 as [B O]; rewrite B; lia).
    specialize (IH (n - 1)%Z s1 (a :: acc) Hok1 Hwf1 Hf1).
    destruct (read_loop f rd (n - 1) s1 (a :: acc)) as [[l s2]|e]; [|exact IH].
    destruct IH as [l' [El [S2 [Ln [Lb G2]]]]].
    exists (a :: l'). split; [rewrite El; simpl; rewrite <- app_assoc; reflexivity|].
    split; [eapply step_safe_trans; eassumption|].
    split; [cbn [length]; lia|].
    split; [cbn [length]; destruct S1 as [_ O1]; destruct S2 as [B2 O2]; lia|].
    intro F. inversion F; subst. cbn [flat_map]. eapply reads_trans; [apply G1; assumption|apply G2; assumption].
Qed.

Lemma loop_fuel_enough s : (length (buf s) - off s < loop_fuel s)%nat.
Proof. unfold loop_fuel. lia. Qed.

Lemma slice_to_full {A : Type} (l : list A) n : n = N.of_nat (length l) -> slice_to l n = DOk l.
Proof.
  intro E. unfold slice_to. subst n. rewrite N.leb_refl, Nat2N.id, firstn_all. reflexivity.
Qed.

Lemma slice_to_le {A : Type} (l : list A) n : n <= N.of_nat (length l) -> slice_to l n = DOk (firstn (N.to_nat n) l).
Proof. intro H. unfold slice_to. apply N.leb_le in H. rewrite H. reflexivity. Qed.
