(** C10/C11: the hypothesis of the fee split as an invariant of the governance operations.
    For every peer that was Candidate/Consensus in the pool stored under view-1, the positions
    executeAddressSplit counts for its authorizers (owner excluded) fit into the TotalPos frozen in
    that pool.  Part 1: definitions, the generic preservation lemma, all operations but commitDpos. *)
From Coq Require Import List NArith Bool Lia.
Import ListNotations.
From Ont Require Import Lib.AList Gen.GovConsts Model.Gov Model.GovSpec Proofs.GovInv Proofs.GovAcct
  Proofs.GovAcct2 Proofs.GovAcct3 Proofs.GovAcct4 Proofs.GovAcct5.
Local Open Scope N_scope.

Definition psum (sel : N * N -> bool) (proj : infov -> N) (infos : list ((N * N) * infov)) : N :=
  asum (fun key i => bsel (sel key) (proj i)) infos.
Definition selP (k o : N) (key : N * N) : bool := (fst key =? k) && negb (snd key =? o).
Definition selK (k : N) (key : N * N) : bool := fst key =? k.
Definition cw (i : infov) : N := i_cons i + i_wcons i.
Definition dw (i : infov) : N := i_cand i + i_wcand i.

Definition SC k o infos := psum (selP k o) cw infos.
Definition SD k o infos := psum (selP k o) dw infos.
Definition SWC k o infos := psum (selP k o) i_wcons infos.
Definition WC k infos := psum (selK k) i_wcons infos.

Definition Jk (prev : list (N * peerv)) infos : Prop :=
  forall k pp, pget k prev = Some pp -> is_active (p_status pp) = true ->
  SC k (p_owner pp) infos <= p_total pp /\
  (p_status pp = CandidateStatus -> SD k (p_owner pp) infos <= p_total pp).
Definition Pk (prev pool : list (N * peerv)) : Prop :=
  forall k pp, pget k prev = Some pp -> is_active (p_status pp) = true ->
  exists pc, pget k pool = Some pc /\ p_owner pc = p_owner pp /\ p_status pc <> RegisterCandidateStatus.
Definition Bk1 (pool : list (N * peerv)) infos : Prop :=
  forall k pc, pget k pool = Some pc -> p_status pc = CandidateStatus -> SWC k (p_owner pc) infos = 0.
Definition prem0 (pool : list (N * peerv)) (k : N) : Prop :=
  pget k pool = None \/ exists pc, pget k pool = Some pc /\ p_status pc = RegisterCandidateStatus.
Definition Bk0 (pool : list (N * peerv)) infos : Prop := forall k, prem0 pool k -> WC k infos = 0.

Record inv4 (s : state) : Prop := mkInv4 {
  i4_J : Jk (s_prev s) (s_infos s);
  i4_P : Pk (s_prev s) (s_pool s);
  i4_B1 : Bk1 (s_pool s) (s_infos s);
  i4_B0 : Bk0 (s_pool s) (s_infos s);
  i4_nodup : NoDup (keys (s_prev s))
}.

(** ** psum *)
Lemma psum_iset : forall sel proj p a i' infos, proj zero_info = 0 ->
  psum sel proj (iset p a i' infos) + bsel (sel (p, a)) (proj (iget p a infos)) =
  psum sel proj infos + bsel (sel (p, a)) (proj i').
Proof.
  intros. unfold psum, iset.
  pose proof (asum_aset pair_eqb pair_eqb_spec (fun key i => bsel (sel key) (proj i)) (p, a) i' infos) as E.
  rewrite iget_oval_g in E; [exact E|]. rewrite H. unfold bsel. destruct (sel (p, a)); reflexivity.
Qed.

Lemma psum_iset_same : forall sel proj p a i' infos, proj zero_info = 0 ->
  proj i' = proj (iget p a infos) -> psum sel proj (iset p a i' infos) = psum sel proj infos.
Proof. intros sel proj p a i' infos Hz E. pose proof (psum_iset sel proj p a i' infos Hz). rewrite E in H. lia. Qed.

Lemma psum_iset_unsel : forall sel proj p a i' infos, proj zero_info = 0 ->
  sel (p, a) = false -> psum sel proj (iset p a i' infos) = psum sel proj infos.
Proof. intros sel proj p a i' infos Hz E. pose proof (psum_iset sel proj p a i' infos Hz). rewrite E in H. cbn in H. lia. Qed.

Lemma psum_amap_eq : forall sel proj g infos,
  (forall key i, In (key, i) infos -> sel key = true -> proj (g key i) = proj i) ->
  psum sel proj (amap g infos) = psum sel proj infos.
Proof.
  intros sel proj g infos H. unfold psum. apply asum_amap_eq. intros key i Hin.
  destruct (sel key) eqn:E; cbn; [now rewrite H | reflexivity].
Qed.

Lemma psum_amap_zero : forall sel proj g infos,
  (forall key i, sel key = true -> proj (g key i) = 0) -> psum sel proj (amap g infos) = 0.
Proof.
  intros sel proj g infos H. unfold psum, amap. apply asum_zero. intros key i Hin.
  apply in_map_iff in Hin. destruct Hin as (kv & E & _). inversion E; subst.
  destruct (sel (fst kv)) eqn:Es; cbn; [now apply H | reflexivity].
Qed.

Lemma psum_le : forall sel proj sel' proj' infos,
  (forall key i, In (key, i) infos -> bsel (sel key) (proj i) <= bsel (sel' key) (proj' i)) ->
  psum sel proj infos <= psum sel' proj' infos.
Proof.
  intros sel proj sel' proj' infos. unfold psum. induction infos as [|[key i] r IH]; cbn [asum]; intros H; [lia|].
  pose proof (H key i (or_introl eq_refl)). specialize (IH (fun k i h => H k i (or_intror h))). lia.
Qed.

Lemma selP_selK : forall k o key, selP k o key = true -> selK k key = true.
Proof. intros k o key H. unfold selP, selK in *. apply andb_true_iff in H. tauto. Qed.

Lemma SWC_le_WC : forall k o infos, SWC k o infos <= WC k infos.
Proof.
  intros. apply psum_le. intros key i _. unfold bsel. destruct (selP k o key) eqn:E; [|lia].
  now rewrite (selP_selK _ _ _ E).
Qed.

(** ** the generic preservation lemma for everything but commitDpos *)
Definition PR (pool pool' : list (N * peerv)) : Prop :=
  (forall k pc, pget k pool = Some pc -> p_status pc <> RegisterCandidateStatus ->
     exists pc', pget k pool' = Some pc' /\ p_owner pc' = p_owner pc /\ p_status pc' <> RegisterCandidateStatus) /\
  (forall k pc', pget k pool' = Some pc' -> p_status pc' = CandidateStatus ->
     (exists pc, pget k pool = Some pc /\ p_status pc = CandidateStatus /\ p_owner pc = p_owner pc') \/ prem0 pool k) /\
  (forall k, prem0 pool' k -> prem0 pool k).

Definition IR (prev : list (N * peerv)) infos infos' : Prop :=
  forall k pp, pget k prev = Some pp -> is_active (p_status pp) = true ->
  SC k (p_owner pp) infos' = SC k (p_owner pp) infos /\ SD k (p_owner pp) infos' = SD k (p_owner pp) infos.

Definition IRw (pool : list (N * peerv)) infos infos' : Prop :=
  forall k, (forall pc, pget k pool = Some pc -> p_status pc <> ConsensusStatus) ->
  WC k infos' = WC k infos /\ forall o, SWC k o infos' = SWC k o infos.

Lemma inv4_upd : forall s s', inv4 s -> s_prev s' = s_prev s ->
  PR (s_pool s) (s_pool s') -> IR (s_prev s) (s_infos s) (s_infos s') -> IRw (s_pool s) (s_infos s) (s_infos s') ->
  inv4 s'.
Proof.
  intros s s' [HJ HP H1 H0 Hn] Ep (PRa & PRb & PRc) HIR HIRw.
  destruct status_consts as (C1 & C2 & C3 & C4 & C5).
  constructor; rewrite ?Ep; auto.
  - intros k pp Hg Ha. destruct (HIR k pp Hg Ha) as [E1 E2]. rewrite E1, E2. now apply HJ.
  - intros k pp Hg Ha. destruct (HP k pp Hg Ha) as (pc & G1 & G2 & G3).
    destruct (PRa k pc G1 G3) as (pc' & F1 & F2 & F3). exists pc'. repeat split; auto. congruence.
  - intros k pc' Hg Hs. destruct (PRb k pc' Hg Hs) as [(pc & G1 & G2 & G3)|Hp0].
    + destruct (HIRw k) as [_ Ew]. { intros pc0 Hg0. rewrite G1 in Hg0. inversion Hg0; subst. rewrite G2. intros Hc; vm_compute in Hc; discriminate. }
      rewrite Ew, <- G3. now apply H1.
    + pose proof (SWC_le_WC k (p_owner pc') (s_infos s')) as Hle.
      destruct (HIRw k) as [Ew _].
      { intros pc0 Hg0. destruct Hp0 as [Hn0|(pc1 & Hg1 & Hs1)]; [congruence|]. rewrite Hg1 in Hg0. inversion Hg0; subst. rewrite Hs1. congruence. }
      rewrite Ew, (H0 k Hp0) in Hle. lia.
  - intros k Hp0'. pose proof (PRc k Hp0') as Hp0. destruct (HIRw k) as [Ew _].
    { intros pc0 Hg0. destruct Hp0 as [Hn0|(pc1 & Hg1 & Hs1)]; [congruence|]. rewrite Hg1 in Hg0. inversion Hg0; subst. rewrite Hs1. congruence. }
    rewrite Ew. now apply H0.
Qed.

Lemma PR_refl : forall pool, PR pool pool.
Proof.
  intros pool. repeat split.
  - intros k pc Hg Hs. exists pc. auto.
  - intros k pc' Hg Hs. left. exists pc'. auto.
  - auto.
Qed.

Lemma IR_refl : forall prev infos, IR prev infos infos.
Proof. intros prev infos k pp _ _. split; reflexivity. Qed.
Lemma IRw_refl : forall pool infos, IRw pool infos infos.
Proof. intros pool infos k _. split; reflexivity. Qed.

(** replacing the entry of [k] by one with the same owner and a status of the same kind *)
Lemma PR_pset : forall pool k p p', pget k pool = Some p -> p_owner p' = p_owner p ->
  (p_status p <> RegisterCandidateStatus -> p_status p' <> RegisterCandidateStatus) ->
  (p_status p' = CandidateStatus -> p_status p = CandidateStatus \/ p_status p = RegisterCandidateStatus) ->
  (p_status p' = RegisterCandidateStatus -> p_status p = RegisterCandidateStatus) ->
  PR pool (pset k p' pool).
Proof.
  intros pool k p p' Hg Eo H1 H2 H3. repeat split.
  - intros k0 pc Hg0 Hs. destruct (N.eq_dec k0 k) as [->|Hne].
    + rewrite Hg in Hg0. inversion Hg0; subst pc. exists p'. rewrite pget_pset_same. auto.
    + exists pc. rewrite pget_pset_other by auto. auto.
  - intros k0 pc' Hg0 Hs. destruct (N.eq_dec k0 k) as [->|Hne].
    + rewrite pget_pset_same in Hg0. inversion Hg0; subst pc'.
      destruct (H2 Hs) as [E|E]; [left; exists p; auto | right; right; exists p; auto].
    + rewrite pget_pset_other in Hg0 by auto. left. exists pc'. auto.
  - intros k0 [Hn|(pc & Hg0 & Hs)]; destruct (N.eq_dec k0 k) as [->|Hne].
    + rewrite pget_pset_same in Hn. discriminate.
    + rewrite pget_pset_other in Hn by auto. now left.
    + rewrite pget_pset_same in Hg0. inversion Hg0; subst pc. right. exists p. auto.
    + rewrite pget_pset_other in Hg0 by auto. right. exists pc. auto.
Qed.

(** a new entry for a key that is not in the pool *)
Lemma PR_pset_new : forall pool k p', pget k pool = None -> PR pool (pset k p' pool).
Proof.
  intros pool k p' Hn. repeat split.
  - intros k0 pc Hg0 Hs. destruct (N.eq_dec k0 k) as [->|Hne]; [congruence|].
    exists pc. rewrite pget_pset_other by auto. auto.
  - intros k0 pc' Hg0 Hs. destruct (N.eq_dec k0 k) as [->|Hne].
    + right. now left.
    + rewrite pget_pset_other in Hg0 by auto. left. exists pc'. auto.
  - intros k0 Hp. destruct (N.eq_dec k0 k) as [->|Hne]; [now left|].
    destruct Hp as [H|(pc & Hg0 & Hs)]; rewrite pget_pset_other in * by auto; [now left | right; exists pc; auto].
Qed.

(** removing a peer that is in RegisterCandidateStatus *)
Lemma PR_adel : forall (pool : list (N * peerv)) k p, NoDup (keys pool) -> pget k pool = Some p ->
  p_status p = RegisterCandidateStatus -> PR pool (adel N.eqb k pool).
Proof.
  intros pool k p Hnd Hg Hs. repeat split.
  - intros k0 pc Hg0 Hs0. destruct (N.eq_dec k0 k) as [->|Hne]; [congruence|].
    exists pc. rewrite pget_adel_other by auto. auto.
  - intros k0 pc' Hg0 Hs0. destruct (N.eq_dec k0 k) as [->|Hne].
    + rewrite pget_adel_same in Hg0 by auto. discriminate.
    + rewrite pget_adel_other in Hg0 by auto. left. exists pc'. auto.
  - intros k0 Hp. destruct (N.eq_dec k0 k) as [->|Hne]; [right; exists p; auto|].
    destruct Hp as [H|(pc & Hg0 & Hs0)]; rewrite pget_adel_other in * by auto; [now left | right; exists pc; auto].
Qed.

(** ** updates of one authorize info *)
Lemma cw_zero : cw zero_info = 0. Proof. reflexivity. Qed.
Lemma dw_zero : dw zero_info = 0. Proof. reflexivity. Qed.
Lemma wc_zero : i_wcons zero_info = 0. Proof. reflexivity. Qed.

Lemma IR_iset_same : forall prev p a i' infos,
  cw i' = cw (iget p a infos) -> dw i' = dw (iget p a infos) -> IR prev infos (iset p a i' infos).
Proof.
  intros prev p a i' infos E1 E2 k pp _ _. unfold SC, SD.
  rewrite (psum_iset_same _ cw) by (auto using cw_zero). rewrite (psum_iset_same _ dw) by (auto using dw_zero). auto.
Qed.

Lemma IRw_iset_same : forall pool p a i' infos,
  i_wcons i' = i_wcons (iget p a infos) -> IRw pool infos (iset p a i' infos).
Proof.
  intros pool p a i' infos E k _. unfold WC, SWC. split; [|intros o]; apply psum_iset_same; auto.
Qed.

Lemma IRw_iset_cons : forall pool p a i' infos pc, pget p pool = Some pc -> p_status pc = ConsensusStatus ->
  IRw pool infos (iset p a i' infos).
Proof.
  intros pool p a i' infos pc Hg Hs k Hk. destruct (N.eq_dec k p) as [->|Hne].
  - exfalso. eapply Hk; eauto.
  - unfold WC, SWC. split; [|intros o]; apply psum_iset_unsel; auto; unfold selK, selP; cbn [fst];
      assert (E : p =? k = false) by (apply N.eqb_neq; auto); rewrite E; reflexivity.
Qed.

Lemma IR_iset_unsel : forall prev p a i' infos,
  (forall pp, pget p prev = Some pp -> is_active (p_status pp) = true -> p_owner pp = a) ->
  IR prev infos (iset p a i' infos).
Proof.
  intros prev p a i' infos H k pp Hg Ha. unfold SC, SD.
  assert (E : selP k (p_owner pp) (p, a) = false).
  { unfold selP. cbn [fst snd]. destruct (N.eqb_spec p k) as [->|Hne]; [|reflexivity].
    rewrite (H pp Hg Ha). rewrite N.eqb_refl. reflexivity. }
  rewrite !psum_iset_unsel by auto using cw_zero, dw_zero. auto.
Qed.

Ltac inv4_start s := apply (inv4_upd s); [assumption | reflexivity | simp_state | simp_state | simp_state].

(** ** operations *)
Lemma exec_register_inv4 : forall h s sg k a ip pk tk s', inv4 s -> exec_register h s sg k a ip pk tk = Ok s' -> inv4 s'.
Proof.
  intros h s sg k a ip pk tk s' Hi H. unfold exec_register in H. msteps H.
  match goal with H : match pget k (s_pool s) with _ => _ end = false |- _ =>
    destruct (pget k (s_pool s)) eqn:Hg; [discriminate|] end.
  apply (inv4_upd s); auto; destruct (g_selfgov (s_par s) <=? h); simp_state;
    try reflexivity; try apply PR_pset_new; auto using IR_refl, IRw_refl.
Qed.

Lemma release_init_inv4 : forall s k p, inv2 s -> inv4 s -> pget k (s_pool s) = Some p ->
  p_status p = RegisterCandidateStatus -> inv4 (release_init s k p).
Proof.
  intros s k p H2 Hi Hg Hs. unfold release_init. inv4_start s.
  - eapply PR_adel; eauto. apply H2.
  - apply IR_iset_same; reflexivity.
  - apply IRw_iset_same; reflexivity.
Qed.

Lemma consts_ne : CandidateStatus <> ConsensusStatus /\ CandidateStatus <> QuitConsensusStatus /\
  CandidateStatus <> QuitingStatus /\ CandidateStatus <> BlackStatus.
Proof. vm_compute. repeat split; discriminate. Qed.

Lemma exec_approve_inv4 : forall h s sg k s', inv4 s -> exec_approve h s sg k = Ok s' -> inv4 s'.
Proof.
  intros h s sg k s' Hi H. unfold exec_approve in H. msteps H. bnorm.
  destruct status_consts as (C1 & _).
  apply (inv4_upd s); auto; destruct (NEW_VERSION_BLOCK <=? h); simp_state; try reflexivity;
    auto using IR_refl, IRw_refl; (eapply PR_pset; eauto; cbn [p_status p_owner]; auto; congruence).
Qed.

Lemma with_total_PR : forall pool k p t, pget k pool = Some p -> PR pool (pset k (with_total p t) pool).
Proof. intros. eapply PR_pset; eauto; cbn; auto. Qed.
Lemma with_init_PR : forall pool k p t, pget k pool = Some p -> PR pool (pset k (with_init p t) pool).
Proof. intros. eapply PR_pset; eauto; cbn; auto. Qed.

Lemma with_status_PR : forall pool k p st, pget k pool = Some p ->
  st <> RegisterCandidateStatus -> st <> CandidateStatus -> PR pool (pset k (with_status p st) pool).
Proof. intros. eapply PR_pset; eauto; cbn [with_status p_status p_owner]; auto; intros; congruence. Qed.

Lemma auth_item_inv4 : forall s a kp t s' t', inv4 s -> auth_item s a kp t = Ok (s', t') -> inv4 s'.
Proof.
  intros s a [k pos] t s' t' Hi H. unfold auth_item in H. msteps H. inv4_start s.
  - now apply with_total_PR.
  - apply IR_iset_same; reflexivity.
  - apply IRw_iset_same; reflexivity.
Qed.

Lemma auth_loop_inv4 : forall l s a t s' t', inv4 s -> auth_loop s a l t = Ok (s', t') -> inv4 s'.
Proof.
  induction l as [|kp r IH]; cbn [auth_loop]; intros s a t s' t' Hi H.
  - inversion H; subst; auto.
  - mstep H. destruct x as [s1 t1]. cbn [fst snd] in H. eapply IH; [|exact H]. eapply auth_item_inv4; eauto.
Qed.

Lemma inv4_frame : forall s s', inv4 s -> s_prev s' = s_prev s -> s_pool s' = s_pool s -> s_infos s' = s_infos s -> inv4 s'.
Proof.
  intros s s' Hi E1 E2 E3. apply (inv4_upd s); auto; rewrite ?E2, ?E3; auto using PR_refl, IR_refl, IRw_refl.
Qed.

Lemma exec_authorize_inv4 : forall s sg a l wf s', inv4 s -> exec_authorize s sg a l wf = Ok s' -> inv4 s'.
Proof.
  intros s sg a l wf s' Hi H. unfold exec_authorize in H. msteps H.
  match goal with H : auth_loop _ _ _ _ = Ok _ |- _ => apply auth_loop_inv4 in H; [|exact Hi] end.
  eapply inv4_frame; eauto.
Qed.

Lemma withdraw_item_inv4 : forall h s a kp t s' t', inv4 s -> withdraw_item h s a kp t = Ok (s', t') -> inv4 s'.
Proof.
  intros h s a [k pos] t s' t' Hi H. unfold withdraw_item in H. msteps H. inv4_start s.
  - apply PR_refl.
  - apply IR_iset_same; reflexivity.
  - apply IRw_iset_same; reflexivity.
Qed.

Lemma withdraw_loop_inv4 : forall l h s a t s' t', inv4 s -> withdraw_loop h s a l t = Ok (s', t') -> inv4 s'.
Proof.
  induction l as [|kp r IH]; cbn [withdraw_loop]; intros h s a t s' t' Hi H.
  - inversion H; subst; auto.
  - mstep H. destruct x as [s1 t1]. cbn [fst snd] in H. eapply IH; [|exact H]. eapply withdraw_item_inv4; eauto.
Qed.

Lemma exec_withdraw_inv4 : forall h s sg a l wf s', inv4 s -> exec_withdraw h s sg a l wf = Ok s' -> inv4 s'.
Proof.
  intros h s sg a l wf s' Hi H. unfold exec_withdraw in H. msteps H.
  match goal with H : withdraw_loop _ _ _ _ _ = Ok _ |- _ => apply withdraw_loop_inv4 in H; [|exact Hi] end.
  eapply inv4_frame; eauto.
Qed.

Lemma exec_quit_inv4 : forall s sg k a s', inv4 s -> exec_quit s sg k a = Ok s' -> inv4 s'.
Proof.
  intros s sg k a s' Hi H. unfold exec_quit in H. msteps H.
  destruct status_consts as (C1 & C2 & C3 & C4 & C5). destruct consts_ne as (D1 & D2 & D3 & D4).
  inv4_start s; auto using IR_refl, IRw_refl.
  apply with_status_PR; auto; destruct (p_status p =? ConsensusStatus); congruence.
Qed.

Lemma black_loop_inv4 : forall l s c s' c', inv4 s -> black_loop s l c = Ok (s', c') -> inv4 s'.
Proof.
  induction l as [|k r IH]; cbn [black_loop]; intros s c s' c' Hi H.
  - inversion H; subst; auto.
  - mstep H. eapply IH; [|exact H].
    destruct status_consts as (C1 & C2 & C3 & C4 & C5). destruct consts_ne as (D1 & D2 & D3 & D4).
    inv4_start s; auto using IR_refl, IRw_refl. apply with_status_PR; auto; congruence.
Qed.

Lemma exec_addinit_inv4 : forall h s sg k a pos s', inv4 s -> exec_addinit h s sg k a pos = Ok s' -> inv4 s'.
Proof.
  intros h s sg k a pos s' Hi H. unfold exec_addinit in H. msteps H.
  inv4_start s; auto using IR_refl, IRw_refl. now apply with_init_PR.
Qed.
