(** Proofs about the signature-script model (Model/Program.v). *)
From Coq Require Import List Bool Arith NArith ZArith Lia ZifyN ZifyNat ZifyBool Permutation.
Import ListNotations.
From Ont Require Import Lib.Bytes Gen.CodecConsts Model.Codec Proofs.Codec Gen.ProgramConsts Gen.ProgramFormulas Model.Program.
Local Open Scope N_scope.
Open Scope bool_scope.
Ltac Zify.zify_post_hook ::= Z.to_euclidean_division_equations.

(** * 1. The key order and keypair.SortPublicKeys *)

Definition key_known (k : pubkey) : Prop :=
  pk_type k = PK_ECDSA \/ pk_type k = PK_SM2 \/ pk_type k = PK_EDDSA \/ pk_type k = PK_ETHECDSA.

(** What Less looks at, as a tuple compared lexicographically. *)
Definition key_rank (k : pubkey) : N * N * N * N :=
  (pk_type k,
   if (pk_type k =? PK_ECDSA) || (pk_type k =? PK_SM2) then pk_curve k else 0,
   pk_x k,
   if pk_type k =? PK_EDDSA then 0 else pk_y k).

Definition lex4 (p q : N * N * N * N) : Prop :=
  let '(t1, c1, x1, y1) := p in
  let '(t2, c2, x2, y2) := q in
  t1 < t2 \/ (t1 = t2 /\ (c1 < c2 \/ (c1 = c2 /\ (x1 < x2 \/ (x1 = x2 /\ y1 < y2))))).

Lemma lex4_irrefl p : ~ lex4 p p.
Proof. destruct p as [[[t c] x] y]; unfold lex4; lia. Qed.

Lemma lex4_trans p q r : lex4 p q -> lex4 q r -> lex4 p r.
Proof. destruct p as [[[t1 c1] x1] y1], q as [[[t2 c2] x2] y2], r as [[[t3 c3] x3] y3]; unfold lex4; lia. Qed.

Lemma lex4_total p q : ~ lex4 p q -> ~ lex4 q p -> p = q.
Proof.
  destruct p as [[[t1 c1] x1] y1], q as [[[t2 c2] x2] y2]; unfold lex4; intros H1 H2.
  assert (t1 = t2 /\ c1 = c2 /\ x1 = x2 /\ y1 = y2) as (-> & -> & -> & ->) by lia. reflexivity.
Qed.

Lemma key_less_spec a b : key_known a -> key_known b ->
  (key_less a b = true <-> lex4 (key_rank a) (key_rank b)).
Proof.
  unfold key_known, key_less, xy_less, key_rank, lex4, PK_ECDSA, PK_SM2, PK_EDDSA, PK_ETHECDSA.
  intros Ha Hb.
  destruct (N.eqb_spec (pk_type a) (pk_type b)) as [E|E]; cbn [negb].
  - rewrite <- E.
    destruct Ha as [Ha|[Ha|[Ha|Ha]]]; rewrite Ha; cbn [N.eqb Pos.eqb orb];
    repeat match goal with |- context [N.eqb ?x ?y] => destruct (N.eqb_spec x y); cbn [negb] end;
    rewrite ?N.ltb_lt; try lia.
  - destruct Ha as [Ha|[Ha|[Ha|Ha]]], Hb as [Hb|[Hb|[Hb|Hb]]]; rewrite Ha, Hb in *;
    cbn [N.eqb Pos.eqb orb]; rewrite N.ltb_lt; lia.
Qed.

Lemma key_less_irrefl a : key_known a -> key_less a a = false.
Proof.
  intro H. destruct (key_less a a) eqn:E; [|reflexivity].
  apply key_less_spec in E; auto. exfalso; eapply lex4_irrefl; eauto.
Qed.

Lemma key_less_asym a b : key_known a -> key_known b -> key_less a b = true -> key_less b a = false.
Proof.
  intros Ha Hb H. destruct (key_less b a) eqn:E; [|reflexivity].
  apply key_less_spec in H; auto. apply key_less_spec in E; auto.
  exfalso; eapply lex4_irrefl; eapply lex4_trans; eauto.
Qed.

Lemma key_less_trans a b c : key_known a -> key_known b -> key_known c ->
  key_less a b = true -> key_less b c = true -> key_less a c = true.
Proof.
  intros Ha Hb Hc H1 H2. apply key_less_spec in H1; auto. apply key_less_spec in H2; auto.
  apply key_less_spec; auto. eapply lex4_trans; eauto.
Qed.

(** [b <= c] and [a <= b] give [a <= c] where [x <= y] is "not y < x". *)
Lemma key_le_trans a b c : key_known a -> key_known b -> key_known c ->
  key_less b a = false -> key_less c b = false -> key_less c a = false.
Proof.
  intros Ha Hb Hc H1 H2. destruct (key_less c a) eqn:E; [|reflexivity].
  (* c < a; not b < a so a <= b; then c < b or rank c = ... : use totality *)
  destruct (key_less a b) eqn:E2.
  - assert (key_less c b = true) by (apply (key_less_trans c a b); assumption). congruence.
  - assert (key_rank a = key_rank b).
    { apply lex4_total; intro L; apply key_less_spec in L; auto; congruence. }
    apply key_less_spec in E; auto. rewrite H in E. apply key_less_spec in E; auto. congruence.
Qed.

Lemma key_incomparable_rank a b : key_known a -> key_known b ->
  key_less a b = false -> key_less b a = false -> key_rank a = key_rank b.
Proof. intros Ha Hb H1 H2. apply lex4_total; intro L; apply key_less_spec in L; auto; congruence. Qed.

(** The keys of a set are canonical when the order separates distinct keys (same algorithm, curve
    and point means same key, hence same serialization). *)
Definition keys_canon (l : list pubkey) : Prop :=
  forall a b, In a l -> In b l -> key_rank a = key_rank b -> a = b.

Fixpoint sorted_le (l : list pubkey) : Prop :=
  match l with
  | [] => True
  | x :: r => Forall (fun y => key_less y x = false) r /\ sorted_le r
  end.

Lemma insert_key_perm x l : Permutation (insert_key x l) (x :: l).
Proof.
  induction l as [|y r IH]; simpl; [reflexivity|].
  destruct (key_less x y); [reflexivity|].
  rewrite IH. apply perm_swap.
Qed.

Lemma sort_keys_perm l : Permutation (sort_keys l) l.
Proof.
  induction l as [|x r IH]; simpl; [reflexivity|].
  rewrite insert_key_perm. constructor; exact IH.
Qed.

Lemma sort_keys_length l : length (sort_keys l) = length l.
Proof. apply Permutation_length, sort_keys_perm. Qed.

Lemma insert_key_sorted x l : key_known x -> Forall key_known l -> sorted_le l -> sorted_le (insert_key x l).
Proof.
  intros Hx. induction l as [|y r IH]; intros Hk Hs; simpl.
  - split; [constructor|exact I].
  - inversion Hk as [|? ? Hy Hr]; subst. destruct Hs as [Hy1 Hs].
    destruct (key_less x y) eqn:E.
    + split; [|split; assumption].
      constructor; [apply key_less_asym; assumption|].
      rewrite Forall_forall in *. intros z Hz.
      apply (key_le_trans x y z); auto. apply key_less_asym; auto.
    + split; [|apply IH; assumption].
      rewrite Forall_forall. intros z Hz.
      apply (Permutation_in _ (insert_key_perm x r)) in Hz. destruct Hz as [<-|Hz]; [exact E|].
      rewrite Forall_forall in Hy1; auto.
Qed.

Lemma sort_keys_sorted l : Forall key_known l -> sorted_le (sort_keys l).
Proof.
  induction l as [|x r IH]; intro Hk; simpl; [exact I|].
  inversion Hk; subst. apply insert_key_sorted; auto.
  rewrite Forall_forall in *. intros z Hz. apply (Permutation_in _ (sort_keys_perm r)) in Hz. auto.
Qed.

Lemma sorted_perm_unique l1 : forall l2,
  Forall key_known l1 -> keys_canon l1 -> sorted_le l1 -> sorted_le l2 -> Permutation l1 l2 -> l1 = l2.
Proof.
  induction l1 as [|a r1 IH]; intros l2 Hk Hc H1 H2 P.
  - apply Permutation_nil in P; subst; reflexivity.
  - destruct l2 as [|b r2]; [apply Permutation_sym, Permutation_nil in P; discriminate|].
    assert (Hk2 : Forall key_known (b :: r2)).
    { rewrite Forall_forall in *. intros z Hz. apply Hk. eapply Permutation_in; [symmetry; exact P|exact Hz]. }
    assert (Eab : a = b).
    { destruct H1 as [Ha _], H2 as [Hb _]. rewrite Forall_forall in Ha, Hb.
      assert (Ia : In a (b :: r2)) by (eapply Permutation_in; [exact P|left; reflexivity]).
      assert (Ib : In b (a :: r1)) by (eapply Permutation_in; [symmetry; exact P|left; reflexivity]).
      destruct Ia as [->|Ia]; [reflexivity|]. destruct Ib as [->|Ib]; [reflexivity|].
      apply Hc; [left; reflexivity|right; exact Ib|].
      inversion Hk; inversion Hk2; subst.
      apply key_incomparable_rank; auto. }
    subst b. f_equal. apply Permutation_cons_inv in P.
    inversion Hk; subst. destruct H1 as [_ H1], H2 as [_ H2].
    apply IH; auto. intros x y Hx Hy. apply Hc; right; assumption.
Qed.

Theorem sort_keys_perm_invariant l l' :
  Forall key_known l -> keys_canon l -> Permutation l l' -> sort_keys l = sort_keys l'.
Proof.
  intros Hk Hc P.
  assert (Hk' : Forall key_known l').
  { rewrite Forall_forall in *. intros z Hz. apply Hk. eapply Permutation_in; [symmetry; exact P|exact Hz]. }
  apply sorted_perm_unique.
  - rewrite Forall_forall in *. intros z Hz. apply Hk. eapply Permutation_in; [apply sort_keys_perm|exact Hz].
  - intros a b Ha Hb. apply Hc; eapply Permutation_in; try apply sort_keys_perm; assumption.
  - apply sort_keys_sorted; exact Hk.
  - apply sort_keys_sorted; exact Hk'.
  - rewrite (sort_keys_perm l), (sort_keys_perm l'). exact P.
Qed.

(** * 2. Reading from a source positioned in front of known bytes *)

(** [src_at s r]: the unread part of [s] is exactly [r] (and the buffer is addressable). *)
Definition src_at (s : source) (r : bytes) : Prop :=
  exists pre, buf s = pre ++ r /\ off s = length pre /\ N.of_nat (length (buf s)) < two64.

Lemma src_at_new b : N.of_nat (length b) < two64 -> src_at (src_new b) b.
Proof. intro H. exists []. simpl. auto. Qed.

Lemma src_at_len s r : src_at s r -> src_len s = N.of_nat (length r).
Proof.
  intros (pre & Hb & Ho & _). unfold src_len. rewrite Hb, Ho, app_length. f_equal. lia.
Qed.

Lemma next_byte_at s x r : src_at s (x :: r) ->
  exists s', next_byte s = (x, false, s') /\ src_at s' r.
Proof.
  intros (pre & Hb & Ho & Hl). destruct s as [b o]; simpl in *. subst b o.
  exists (mkSrc (pre ++ x :: r) (S (length pre))). split.
  - unfold next_byte; cbn [buf off].
    replace (length (pre ++ x :: r) <=? length pre)%nat with false
      by (symmetry; apply Nat.leb_gt; rewrite app_length; simpl; lia).
    rewrite nth_middle. reflexivity.
  - exists (pre ++ [x]). cbn [buf off]. rewrite <- app_assoc, app_length. simpl.
    split; [reflexivity|]. split; [lia|exact Hl].
Qed.

Lemma next_byte_eof s : src_at s [] -> next_byte s = (0, true, s).
Proof.
  intros (pre & Hb & Ho & Hl). unfold next_byte.
  replace (length (buf s) <=? off s)%nat with true; [reflexivity|].
  symmetry; apply Nat.leb_le. rewrite Hb, Ho, app_nil_r. lia.
Qed.

Lemma next_bytes_at' s d r : src_at s (d ++ r) ->
  exists s', next_bytes s (N.of_nat (length d)) = (d, false, s') /\ src_at s' r.
Proof.
  intros (pre & Hb & Ho & Hl). destruct s as [b o]; simpl in *. subst b o.
  exists (mkSrc (pre ++ d ++ r) (length pre + length d)). split.
  - apply next_bytes_exact. exact Hl.
  - exists (pre ++ d). cbn [buf off]. rewrite <- app_assoc, app_length. auto.
Qed.

Lemma next_bytes_short s r n : src_at s r -> N.of_nat (length r) < n ->
  exists d s', next_bytes s n = (d, true, s').
Proof.
  intros (pre & Hb & Ho & Hl) Hn. unfold next_bytes.
  replace ((two64 <=? N.of_nat (off s) + n) || (N.of_nat (length (buf s)) <? N.of_nat (off s) + n)) with true.
  - eauto.
  - symmetry. apply orb_true_iff. right. apply N.ltb_lt. rewrite Hb, Ho, app_length. lia.
Qed.

Lemma next_uint_at' w v s r : v < 256 ^ N.of_nat w -> src_at s (le_encode w v ++ r) ->
  exists s', next_uint w s = (v, false, s') /\ src_at s' r.
Proof.
  intros Hv Hs. destruct (next_bytes_at' s _ r Hs) as (s' & E & Hs').
  rewrite le_encode_length in E. exists s'. split; [|exact Hs'].
  unfold next_uint. rewrite E. rewrite le_decode_encode_small by exact Hv. reflexivity.
Qed.

Lemma back_up_one b o : N.of_nat (S o) < two64 -> back_up (mkSrc b (S o)) 1 = mkSrc b o.
Proof.
  intro H. unfold back_up; cbn [buf off]. f_equal.
  replace (1 mod two64) with 1 by reflexivity.
  replace ((N.of_nat (S o) + two64 - 1) mod two64) with (N.of_nat o).
  - apply Nat2N.id.
  - symmetry. replace (N.of_nat (S o) + two64 - 1) with (N.of_nat o + 1 * two64) by lia.
    rewrite N.mod_add by discriminate. apply N.mod_small. lia.
Qed.

Lemma read_opcode_at s x r : src_at s (x :: r) -> exists s', read_opcode s = inl (x, s') /\ src_at s' r.
Proof.
  intro H. destruct (next_byte_at s x r H) as (s' & E & H'). exists s'. split; [|exact H'].
  unfold read_opcode. rewrite E. reflexivity.
Qed.

Lemma peek_opcode_at s x r : src_at s (x :: r) -> peek_opcode s = inl (x, s).
Proof.
  intros (pre & Hb & Ho & Hl). destruct s as [b o]; simpl in *. subst b o.
  unfold peek_opcode, read_opcode, next_byte; cbn [buf off].
  replace (length (pre ++ x :: r) <=? length pre)%nat with false
    by (symmetry; apply Nat.leb_gt; rewrite app_length; simpl; lia).
  rewrite nth_middle. rewrite back_up_one; [reflexivity|].
  rewrite app_length in Hl. simpl in Hl. lia.
Qed.

Lemma peek_opcode_eof s : src_at s [] -> peek_opcode s = inr EUnexpectedEOF.
Proof. intro H. unfold peek_opcode, read_opcode. rewrite (next_byte_eof s H). reflexivity. Qed.

Lemma skip_opcode_at s x r : src_at s (x :: r) -> src_at (skip_opcode s) r.
Proof.
  intro H. destruct (next_byte_at s x r H) as (s' & E & H'). unfold skip_opcode. rewrite E. exact H'.
Qed.

(** * 3. PushBytes / ReadBytes *)

Lemma two32_lt_two64 : two32 < two64. Proof. reflexivity. Qed.

Ltac op_consts := unfold OP_PUSH0, OP_PUSHBYTES1, OP_PUSHBYTES75, OP_PUSHDATA1, OP_PUSHDATA2, OP_PUSHDATA4,
  OP_PUSH1, OP_PUSH16, OP_CHECKSIG, OP_CHECKMULTISIG in *.

Ltac decide_eqb x y :=
  let E := fresh "E" in
  destruct (N.eqb_spec x y) as [E|E]; [try (exfalso; op_consts; lia)|try (exfalso; op_consts; lia)].

Lemma push_bytes_some d : d <> [] -> N.of_nat (length d) < two32 ->
  exists hdr, push_bytes d = Some (hdr ++ d) /\
    exists c rest, hdr = c :: rest /\ 1 <= c <= OP_PUSHDATA4 /\ (length rest <= 4)%nat.
Proof.
  intros Hne Hl. unfold push_bytes.
  assert (Hn : N.of_nat (length d) <> 0) by (destruct d; [congruence|simpl; lia]).
  destruct (N.eqb_spec (N.of_nat (length d)) 0) as [E|_]; [congruence|].
  set (n := N.of_nat (length d)) in *.
  destruct (Z.leb_spec (Z.of_N n) (Z.of_N OP_PUSHBYTES75 + 1 - Z.of_N OP_PUSHBYTES1)) as [A|A].
  - eexists [_]. split; [reflexivity|]. eexists _, []. split; [reflexivity|].
    unfold uint8 in *. op_consts. simpl length. lia.
  - destruct (N.ltb_spec n 256).
    { exists (OP_PUSHDATA1 :: write_uint8 n). split; [rewrite <- app_comm_cons; reflexivity|].
      eexists _, _. split; [reflexivity|]. op_consts. simpl length. lia. }
    destruct (N.ltb_spec n 65536).
    { exists (OP_PUSHDATA2 :: write_uint16 n). split; [rewrite <- app_comm_cons; reflexivity|].
      eexists _, _. split; [reflexivity|]. unfold write_uint16. rewrite le_encode_length. op_consts.
      replace UINT16_SIZE with 2%nat by reflexivity. lia. }
    exists (OP_PUSHDATA4 :: write_uint32 n). split; [rewrite <- app_comm_cons; reflexivity|].
    eexists _, _. split; [reflexivity|]. unfold write_uint32. rewrite le_encode_length. op_consts.
    replace UINT32_SIZE with 4%nat by reflexivity. lia.
Qed.

Lemma read_bytes_at s d enc r :
  push_bytes d = Some enc -> N.of_nat (length d) < two32 -> src_at s (enc ++ r) ->
  exists s', read_bytes s = inl (d, s') /\ src_at s' r.
Proof.
  intros Hp Hl Hs. unfold push_bytes in Hp.
  set (n := N.of_nat (length d)) in *.
  destruct (N.eqb_spec n 0) as [E|Hn]; [discriminate|].
  destruct (Z.leb_spec (Z.of_N n) (Z.of_N OP_PUSHBYTES75 + 1 - Z.of_N OP_PUSHBYTES1)) as [A|A].
  - (* PUSHBYTESn *)
    inversion Hp; subst enc; clear Hp.
    assert (Ec : uint8 (uint8 n + uint8 OP_PUSHBYTES1 + 255) = n) by (unfold uint8; op_consts; lia).
    rewrite Ec in Hs. rewrite <- app_comm_cons in Hs.
    destruct (read_opcode_at s _ _ Hs) as (s1 & Q1 & Hs1).
    unfold read_bytes. rewrite Q1.
    decide_eqb n OP_PUSHDATA4. decide_eqb n OP_PUSHDATA2. decide_eqb n OP_PUSHDATA1.
    replace ((n <=? OP_PUSHBYTES75) && (OP_PUSHBYTES1 <=? n)) with true
      by (symmetry; apply andb_true_iff; split; apply N.leb_le; op_consts; lia).
    replace ((n + two64 - OP_PUSHBYTES1 + 1) mod two64) with n.
    2:{ replace (n + two64 - OP_PUSHBYTES1 + 1) with (n + 1 * two64) by (op_consts; lia).
        rewrite N.mod_add by discriminate. symmetry; apply N.mod_small. pose proof two32_lt_two64. lia. }
    cbv beta iota zeta.
    destruct (next_bytes_at' s1 d r Hs1) as (s3 & Q3 & Hs3). fold n in Q3. rewrite Q3.
    exists s3. split; [reflexivity|exact Hs3].
  - destruct (N.ltb_spec n 256) as [B|B].
    { (* PUSHDATA1 *)
      inversion Hp; subst enc; clear Hp. unfold write_uint8 in Hs.
      rewrite N.mod_small in Hs by exact B.
      rewrite <- !app_comm_cons in Hs. simpl app in Hs.
      destruct (read_opcode_at s _ _ Hs) as (s1 & Q1 & Hs1).
      unfold read_bytes. rewrite Q1.
      decide_eqb OP_PUSHDATA1 OP_PUSHDATA4. decide_eqb OP_PUSHDATA1 OP_PUSHDATA2.
      decide_eqb OP_PUSHDATA1 OP_PUSHDATA1.
      destruct (next_byte_at s1 _ _ Hs1) as (s2 & Q2 & Hs2). rewrite Q2.
      cbv beta iota zeta.
      destruct (next_bytes_at' s2 d r Hs2) as (s3 & Q3 & Hs3). fold n in Q3. rewrite Q3.
      exists s3. split; [reflexivity|exact Hs3]. }
    destruct (N.ltb_spec n 65536) as [C|C].
    { (* PUSHDATA2 *)
      inversion Hp; subst enc; clear Hp.
      assert (Hs' : src_at s (OP_PUSHDATA2 :: le_encode 2 n ++ d ++ r)) by exact Hs. clear Hs; rename Hs' into Hs.
      destruct (read_opcode_at s _ _ Hs) as (s1 & Q1 & Hs1).
      unfold read_bytes. rewrite Q1.
      decide_eqb OP_PUSHDATA2 OP_PUSHDATA4. decide_eqb OP_PUSHDATA2 OP_PUSHDATA2.
      destruct (next_uint_at' 2 n s1 (d ++ r)) as (s2 & Q2 & Hs2); [exact C|exact Hs1|].
      unfold next_uint16. replace UINT16_SIZE with 2%nat by reflexivity. rewrite Q2.
      cbv beta iota zeta.
      destruct (next_bytes_at' s2 d r Hs2) as (s3 & Q3 & Hs3). fold n in Q3. rewrite Q3.
      exists s3. split; [reflexivity|exact Hs3]. }
    (* PUSHDATA4 *)
    inversion Hp; subst enc; clear Hp.
    assert (Hs' : src_at s (OP_PUSHDATA4 :: le_encode 4 n ++ d ++ r)) by exact Hs. clear Hs; rename Hs' into Hs.
    destruct (read_opcode_at s _ _ Hs) as (s1 & Q1 & Hs1).
    unfold read_bytes. rewrite Q1.
    decide_eqb OP_PUSHDATA4 OP_PUSHDATA4.
    destruct (next_uint_at' 4 n s1 (d ++ r)) as (s2 & Q2 & Hs2); [exact Hl|exact Hs1|].
    unfold next_uint32. replace UINT32_SIZE with 4%nat by reflexivity. rewrite Q2.
    cbv beta iota zeta.
    destruct (next_bytes_at' s2 d r Hs2) as (s3 & Q3 & Hs3). fold n in Q3. rewrite Q3.
    exists s3. split; [reflexivity|exact Hs3].
Qed.

(** * 4. Numbers pushed by PushNum (a uint16) and read by ReadNum *)

Fixpoint nrange (f : nat) (i : N) : list N :=
  match f with O => [] | S f' => i :: nrange f' (N.succ i) end.

Lemma nrange_in f : forall i v, i <= v < i + N.of_nat f -> In v (nrange f i).
Proof.
  induction f as [|f IH]; intros i v H; [lia|]. simpl.
  destruct (N.eq_dec i v) as [->|Hne]; [left; reflexivity|right]. apply IH. lia.
Qed.

(** What the builder and parser need to know about BigIntToNeoBytes / BigIntFromNeoBytes /
    Int64 on the uint16 range: a complete sweep of 0..65535. *)
Definition num_fact (v : N) : bool :=
  let b := neo_of_N v in
  (length b <=? 3)%nat &&
  (if v =? 0 then bytes_eqb b [] else (1 <=? length b)%nat) &&
  (int64_of_Z (neo_to_Z b) =? Z.of_N v)%Z &&
  (if (1 <=? v) && (v <=? 16) then bytes_eqb b [v] else true) &&
  wf_bytes b.

Lemma num_sweep : forallb num_fact (nrange (N.to_nat 65536) 0) = true.
Proof. Time vm_compute. reflexivity. Qed.

Lemma num_fact_all v : v <= 65535 -> num_fact v = true.
Proof.
  intro H. pose proof num_sweep as S. rewrite forallb_forall in S. apply S.
  apply nrange_in. rewrite N2Nat.id. lia.
Qed.

Lemma neo_small v : 1 <= v <= 16 -> neo_of_N v = [v].
Proof.
  intro H. pose proof (num_fact_all v ltac:(lia)) as F. unfold num_fact in F.
  replace ((1 <=? v) && (v <=? 16)) with true in F
    by (symmetry; apply andb_true_iff; split; apply N.leb_le; lia).
  repeat (apply andb_prop in F; destruct F as [F ?]).
  apply bytes_eqb_eq; assumption.
Qed.

Lemma neo_zero : neo_of_N 0 = []. Proof. reflexivity. Qed.

Lemma neo_big v : 16 < v <= 65535 ->
  neo_of_N v <> [] /\ (length (neo_of_N v) <= 3)%nat /\ int64_of_Z (neo_to_Z (neo_of_N v)) = Z.of_N v.
Proof.
  intro H. pose proof (num_fact_all v ltac:(lia)) as F. unfold num_fact in F.
  replace (v =? 0) with false in F by (symmetry; apply N.eqb_neq; lia).
  repeat (apply andb_prop in F; destruct F as [F ?]).
  repeat split.
  - intro E. rewrite E in *. discriminate.
  - apply Nat.leb_le; assumption.
  - apply Z.eqb_eq; assumption.
Qed.

Lemma push_num_small v : 1 <= v <= 16 -> push_num v = Some [OP_PUSH1 + v - 1].
Proof.
  intro H. unfold push_num.
  replace (v =? 0) with false by (symmetry; apply N.eqb_neq; lia).
  replace (v <=? 16) with true by (symmetry; apply N.leb_le; lia).
  do 2 f_equal. unfold uint8. op_consts. lia.
Qed.

Lemma push_num_big v : 16 < v -> push_num v = push_bytes (neo_of_N v).
Proof.
  intro H. unfold push_num.
  replace (v =? 0) with false by (symmetry; apply N.eqb_neq; lia).
  replace (v <=? 16) with false by (symmetry; apply N.leb_gt; lia). reflexivity.
Qed.

Lemma small_num_push v : 1 <= v <= 16 -> small_num (OP_PUSH1 + v - 1) = Some v.
Proof.
  intro H. unfold small_num.
  replace (Z.of_N (OP_PUSH1 + v - 1) - Z.of_N OP_PUSH1 + 1)%Z with (Z.of_N v) by (op_consts; lia).
  replace ((1 <=? Z.of_N v)%Z && (Z.of_N v <=? 16)%Z) with true
    by (symmetry; apply andb_true_iff; split; apply Z.leb_le; lia).
  rewrite N2Z.id. reflexivity.
Qed.

Lemma small_num_none c : c < OP_PUSH1 \/ OP_PUSH1 + 15 < c -> small_num c = None.
Proof.
  intro H. unfold small_num.
  destruct ((1 <=? Z.of_N c - Z.of_N OP_PUSH1 + 1)%Z && (Z.of_N c - Z.of_N OP_PUSH1 + 1 <=? 16)%Z) eqn:E; [|reflexivity].
  apply andb_prop in E. destruct E as [E1 E2]. apply Z.leb_le in E1, E2. op_consts. lia.
Qed.

Lemma small_num_some c v : small_num c = Some v -> 1 <= v <= 16 /\ c = OP_PUSH1 + v - 1.
Proof.
  unfold small_num.
  destruct ((1 <=? Z.of_N c - Z.of_N OP_PUSH1 + 1)%Z && (Z.of_N c - Z.of_N OP_PUSH1 + 1 <=? 16)%Z) eqn:E; [|discriminate].
  intro H. inversion H; subst; clear H. apply andb_prop in E. destruct E as [E1 E2]. apply Z.leb_le in E1, E2. op_consts. lia.
Qed.

(** ReadNum reads back what PushNum wrote, for every uint16. *)
Lemma read_num_at s v enc r : v <= 65535 -> push_num v = Some enc -> src_at s (enc ++ r) ->
  exists s', read_num s = inl (v, s') /\ src_at s' r.
Proof.
  intros Hv Hp Hs. unfold read_num.
  destruct (N.eq_dec v 0) as [->|Hnz].
  - injection Hp as <-. cbn [app] in Hs.
    rewrite (peek_opcode_at _ _ _ Hs). rewrite N.eqb_refl.
    eexists. split; [reflexivity|]. eapply skip_opcode_at; exact Hs.
  - destruct (N.le_gt_cases v 16) as [Hs16|Hb].
    + rewrite push_num_small in Hp by lia.
      assert (Eenc : enc = [OP_PUSH1 + v - 1]) by congruence. subst enc. clear Hp. cbn [app] in Hs.
      rewrite (peek_opcode_at _ _ _ Hs).
      replace (OP_PUSH1 + v - 1 =? OP_PUSH0) with false by (symmetry; apply N.eqb_neq; op_consts; lia).
      rewrite small_num_push by lia.
      eexists. split; [reflexivity|]. eapply skip_opcode_at; exact Hs.
    + rewrite push_num_big in Hp by lia.
      destruct (neo_big v ltac:(lia)) as (Hne & Hlen & Hval).
      destruct (push_bytes_some (neo_of_N v) Hne) as (hdr & Hpb & c & rest & -> & Hc & _).
      { unfold two32. lia. }
      rewrite Hpb in Hp. injection Hp as <-.
      assert (Hs0 := Hs). rewrite <- !app_comm_cons in Hs0.
      rewrite (peek_opcode_at _ _ _ Hs0).
      replace (c =? OP_PUSH0) with false by (symmetry; apply N.eqb_neq; op_consts; lia).
      rewrite small_num_none by (op_consts; lia).
      destruct (read_bytes_at s (neo_of_N v) _ r Hpb) as (s' & Er & Hs'); [unfold two32; lia|exact Hs|].
      rewrite Er, Hval.
      replace ((65535 <? Z.of_N v)%Z || (Z.of_N v <=? 16)%Z) with false.
      2:{ symmetry. apply orb_false_iff. split; [apply Z.ltb_ge|apply Z.leb_gt]; lia. }
      rewrite N2Z.id. exists s'. split; [reflexivity|exact Hs'].
Qed.

(** * 5. Parsing what the builder wrote *)

Lemma push_all_app a b ea eb :
  push_all a = Some ea -> push_all b = Some eb -> push_all (a ++ b) = Some (ea ++ eb).
Proof.
  revert ea. induction a as [|d a IH]; intros ea Ha Hb; simpl in *.
  - injection Ha as <-. exact Hb.
  - destruct (push_bytes d) as [x|]; [|discriminate]. simpl in *.
    destruct (push_all a) as [y|]; [|discriminate]. simpl in *.
    injection Ha as <-. rewrite (IH y eq_refl Hb). simpl. rewrite app_assoc. reflexivity.
Qed.

Lemma push_all_app_inv a b e :
  push_all (a ++ b) = Some e -> exists ea eb, push_all a = Some ea /\ push_all b = Some eb /\ e = ea ++ eb.
Proof.
  revert e. induction a as [|d a IH]; intros e H; simpl in *.
  - exists [], e. auto.
  - destruct (push_bytes d) as [x|]; [|discriminate]. simpl in *.
    destruct (push_all (a ++ b)) as [y|] eqn:E; [|discriminate]. simpl in *.
    injection H as <-. destruct (IH y eq_refl) as (ea & eb & -> & Hb & ->).
    exists (x ++ ea), eb. simpl. rewrite app_assoc. auto.
Qed.

Lemma read_buffers_S f s :
  read_buffers (S f) s =
  match peek_opcode s with
  | inr e => inr e
  | inl (code, s0) =>
    if code =? OP_CHECKMULTISIG then inl ([], skip_opcode s0)
    else if code =? OP_PUSH0 then
      match read_buffers f (skip_opcode s0) with inr e => inr e | inl (bs, s2) => inl (neo_of_N 0 :: bs, s2) end
    else match small_num code with
    | Some num =>
      match read_buffers f (skip_opcode s0) with inr e => inr e | inl (bs, s2) => inl (neo_of_N num :: bs, s2) end
    | None =>
      match read_bytes s0 with
      | inr e => inr e
      | inl (b, s1) =>
        match read_buffers f s1 with inr e => inr e | inl (bs, s2) => inl (b :: bs, s2) end
      end
    end
  end.
Proof. reflexivity. Qed.

Section WithDeser.
Variable deser : bytes -> option pubkey.

(** A key the script functions can handle: DeserializePublicKey inverts SerializePublicKey on it,
    and its serialization is non-empty and shorter than 2^32 bytes. *)
Definition key_ok (k : pubkey) : Prop :=
  deser (pk_ser k) = Some k /\ pk_ser k <> [] /\ N.of_nat (length (pk_ser k)) < two32.

Lemma push_all_ok ks : Forall key_ok ks -> exists enc, push_all (map pk_ser ks) = Some enc.
Proof.
  induction 1 as [|k ks (Hd & Hne & Hl) _ (enc & IH)]; simpl; [eauto|].
  destruct (push_bytes_some _ Hne Hl) as (hdr & -> & _). simpl. rewrite IH. simpl. eauto.
Qed.

Lemma read_pubkey_at s k enc r : key_ok k -> push_bytes (pk_ser k) = Some enc -> src_at s (enc ++ r) ->
  exists s', read_pubkey deser s = inl (k, s') /\ src_at s' r.
Proof.
  intros (Hd & Hne & Hl) Hp Hs.
  destruct (read_bytes_at s _ _ r Hp Hl Hs) as (s' & E & Hs').
  exists s'. split; [|exact Hs']. unfold read_pubkey. rewrite E, Hd. reflexivity.
Qed.

Lemma read_pubkeys_at ks : forall fuel s enc r,
  Forall key_ok ks -> push_all (map pk_ser ks) = Some enc -> src_at s (enc ++ r) ->
  (length ks < fuel)%nat ->
  exists s', read_pubkeys deser fuel s (N.of_nat (length ks)) = inl (ks, s') /\ src_at s' r.
Proof.
  induction ks as [|k ks IH]; intros fuel s enc r Hk Hp Hs Hf;
    (destruct fuel as [|f]; [simpl in Hf; lia|]).
  - simpl in Hp. injection Hp as <-. exists s. split; [reflexivity|exact Hs].
  - inversion Hk as [|? ? Hk1 Hk2]; subst. simpl in Hp.
    destruct (push_bytes (pk_ser k)) as [a|] eqn:Ea; [|discriminate]. simpl in Hp.
    destruct (push_all (map pk_ser ks)) as [b|] eqn:Eb; [|discriminate]. simpl in Hp.
    injection Hp as <-. rewrite <- app_assoc in Hs.
    destruct (read_pubkey_at s k a (b ++ r) Hk1 Ea Hs) as (s1 & E1 & Hs1).
    destruct (IH f s1 b r Hk2 eq_refl Hs1) as (s2 & E2 & Hs2); [simpl in Hf; lia|].
    exists s2. split; [|exact Hs2].
    cbn [read_pubkeys length].
    replace (N.of_nat (S (length ks)) =? 0) with false by (symmetry; apply N.eqb_neq; lia).
    rewrite E1. replace (N.of_nat (S (length ks)) - 1) with (N.of_nat (length ks)) by lia.
    rewrite E2. reflexivity.
Qed.

Lemma read_buffers_end f s r : src_at s (OP_CHECKMULTISIG :: r) ->
  exists s', read_buffers (S f) s = inl ([], s') /\ src_at s' r.
Proof.
  intro Hs. rewrite read_buffers_S, (peek_opcode_at _ _ _ Hs), N.eqb_refl.
  eexists. split; [reflexivity|]. eapply skip_opcode_at; exact Hs.
Qed.

Lemma read_buffers_count f s n cn r : n <= 65535 -> push_num n = Some cn ->
  src_at s (cn ++ OP_CHECKMULTISIG :: r) ->
  exists s', read_buffers (S (S f)) s = inl ([neo_of_N n], s') /\ src_at s' r.
Proof.
  intros Hn Hp Hs. rewrite read_buffers_S.
  destruct (N.eq_dec n 0) as [->|Hnz].
  - assert (cn = [OP_PUSH0]) by (unfold push_num in Hp; simpl in Hp; congruence). subst cn. cbn [app] in Hs.
    rewrite (peek_opcode_at _ _ _ Hs).
    replace (OP_PUSH0 =? OP_CHECKMULTISIG) with false by reflexivity. rewrite N.eqb_refl.
    destruct (read_buffers_end f (skip_opcode s) r) as (s' & E & Hs'); [eapply skip_opcode_at; exact Hs|].
    rewrite E. exists s'. split; [reflexivity|exact Hs'].
  - destruct (N.le_gt_cases n 16) as [Hs16|Hb].
    + rewrite push_num_small in Hp by lia.
      assert (cn = [OP_PUSH1 + n - 1]) by congruence. subst cn. clear Hp. cbn [app] in Hs.
      rewrite (peek_opcode_at _ _ _ Hs).
      replace (OP_PUSH1 + n - 1 =? OP_CHECKMULTISIG) with false by (symmetry; apply N.eqb_neq; op_consts; lia).
      replace (OP_PUSH1 + n - 1 =? OP_PUSH0) with false by (symmetry; apply N.eqb_neq; op_consts; lia).
      rewrite small_num_push by lia.
      destruct (read_buffers_end f (skip_opcode s) r) as (s' & E & Hs'); [eapply skip_opcode_at; exact Hs|].
      rewrite E. exists s'. split; [reflexivity|exact Hs'].
    + rewrite push_num_big in Hp by lia.
      destruct (neo_big n ltac:(lia)) as (Hne & Hlen & _).
      destruct (push_bytes_some (neo_of_N n) Hne) as (hdr & Hpb & c & rest & -> & Hc & _); [unfold two32; lia|].
      assert (cn = (c :: rest) ++ neo_of_N n) by congruence. subst cn. clear Hp.
      assert (Hs0 := Hs). rewrite <- !app_comm_cons in Hs0.
      rewrite (peek_opcode_at _ _ _ Hs0).
      replace (c =? OP_CHECKMULTISIG) with false by (symmetry; apply N.eqb_neq; op_consts; lia).
      replace (c =? OP_PUSH0) with false by (symmetry; apply N.eqb_neq; op_consts; lia).
      rewrite small_num_none by (op_consts; lia).
      destruct (read_bytes_at s (neo_of_N n) _ (OP_CHECKMULTISIG :: r) Hpb) as (s1 & Er & Hs1); [unfold two32; lia|exact Hs|].
      rewrite Er.
      destruct (read_buffers_end f s1 r Hs1) as (s' & E & Hs').
      rewrite E. exists s'. split; [reflexivity|exact Hs'].
Qed.

Lemma read_buffers_at ks : forall fuel s enc n cn r,
  Forall key_ok ks -> push_all (map pk_ser ks) = Some enc ->
  n <= 65535 -> push_num n = Some cn ->
  src_at s (enc ++ cn ++ OP_CHECKMULTISIG :: r) -> (length ks + 1 < fuel)%nat ->
  exists s', read_buffers fuel s = inl (map pk_ser ks ++ [neo_of_N n], s') /\ src_at s' r.
Proof.
  induction ks as [|k ks IH]; intros fuel s enc n cn r Hk Hp Hn Hc Hs Hf.
  - simpl in Hp. injection Hp as <-. cbn [app] in Hs.
    destruct fuel as [|[|f]]; try (simpl in Hf; lia).
    apply (read_buffers_count f s n cn r Hn Hc Hs).
  - destruct fuel as [|f]; [lia|].
    inversion Hk as [|? ? Hk1 Hk2]; subst. simpl in Hp.
    destruct (push_bytes (pk_ser k)) as [a|] eqn:Ea; [|discriminate]. simpl in Hp.
    destruct (push_all (map pk_ser ks)) as [b|] eqn:Eb; [|discriminate]. simpl in Hp.
    injection Hp as <-. rewrite <- app_assoc in Hs.
    destruct Hk1 as (Hd & Hne & Hl).
    destruct (push_bytes_some _ Hne Hl) as (hdr & Hpb & c & rest & -> & Hcc & _).
    assert (a = (c :: rest) ++ pk_ser k) by congruence. subst a.
    assert (Hs0 := Hs). rewrite <- !app_comm_cons in Hs0.
    rewrite read_buffers_S, (peek_opcode_at _ _ _ Hs0).
    replace (c =? OP_CHECKMULTISIG) with false by (symmetry; apply N.eqb_neq; op_consts; lia).
    replace (c =? OP_PUSH0) with false by (symmetry; apply N.eqb_neq; op_consts; lia).
    rewrite small_num_none by (op_consts; lia).
    destruct (read_bytes_at s (pk_ser k) _ _ Hpb Hl Hs) as (s1 & Er & Hs1). rewrite Er.
    destruct (IH f s1 b n cn r Hk2 eq_refl Hn Hc Hs1) as (s2 & E2 & Hs2); [simpl in Hf; lia|].
    rewrite E2. exists s2. split; [reflexivity|exact Hs2].
Qed.

Lemma deser_all_sers ks : Forall key_ok ks -> deser_all deser (map pk_ser ks) = Some ks.
Proof.
  induction 1 as [|k ks (Hd & _) _ IH]; simpl; [reflexivity|]. rewrite Hd. simpl. rewrite IH. reflexivity.
Qed.

End WithDeser.

(** * 6. GetProgramInfo on built scripts *)

Lemma int64_small z : (0 <= z < 9223372036854775808)%Z -> int64_of_Z z = z.
Proof.
  intro H. unfold int64_of_Z.
  replace (z <? 0)%Z with false by (symmetry; apply Z.ltb_ge; lia).
  change (Z.of_N two64) with 18446744073709551616%Z.
  rewrite Z.abs_eq by lia. rewrite Z.mod_small by lia.
  replace (z <? 18446744073709551616 / 2)%Z with true; [reflexivity|].
  symmetry. apply Z.ltb_lt. change (18446744073709551616 / 2)%Z with 9223372036854775808%Z. lia.
Qed.

Lemma be_decode_single v : be_decode [v] = v.
Proof. unfold be_decode. cbn [rev app le_decode]. lia. Qed.

Lemma push_bytes_len d e : push_bytes d = Some e -> N.of_nat (length d) < two32 ->
  (length d < length e <= length d + 5)%nat.
Proof.
  intros H Hl. assert (Hne : d <> []) by (intros ->; discriminate).
  destruct (push_bytes_some d Hne Hl) as (hdr & Hp & c & rest & -> & _ & Hr).
  rewrite Hp in H. assert (e = (c :: rest) ++ d) by congruence. subst e. rewrite app_length. cbn [length]. lia.
Qed.

Lemma push_num_some v : v <= 65535 -> exists e, push_num v = Some e /\ (1 <= length e <= 8)%nat.
Proof.
  intro Hv. destruct (N.eq_dec v 0) as [->|Hnz]; [exists [OP_PUSH0]; split; [reflexivity|simpl; lia]|].
  destruct (N.le_gt_cases v 16).
  - rewrite push_num_small by lia. eexists. split; [reflexivity|simpl; lia].
  - rewrite push_num_big by lia. destruct (neo_big v ltac:(lia)) as (Hne & Hlen & _).
    destruct (push_bytes_some _ Hne) as (hdr & Hp & c & rest & -> & _ & Hr); [unfold two32; lia|].
    rewrite Hp. eexists. split; [reflexivity|]. rewrite app_length. simpl. lia.
Qed.

Lemma push_all_len ds : forall e, push_all ds = Some e ->
  Forall (fun d => N.of_nat (length d) < two32) ds ->
  (length ds <= length e)%nat /\ N.of_nat (length e) <= N.of_nat (length ds) * (two32 + 5).
Proof.
  induction ds as [|d ds IH]; intros e H Hf; simpl in H.
  - injection H as <-. simpl. lia.
  - inversion Hf; subst.
    destruct (push_bytes d) as [a|] eqn:Ea; [|discriminate]. simpl in H.
    destruct (push_all ds) as [b|] eqn:Eb; [|discriminate]. simpl in H. injection H as <-.
    destruct (IH b eq_refl) as [I1 I2]; [assumption|].
    pose proof (push_bytes_len d a Ea ltac:(assumption)).
    rewrite app_length. cbn [length]. split; [lia|]. unfold two32 in *. lia.
Qed.

Lemma read_bytes_bad s c r : src_at s (c :: r) -> c = 0 \/ OP_PUSHDATA4 < c ->
  read_bytes s = inr EUnexpectedOpcode.
Proof.
  intros Hs Hc. destruct (read_opcode_at s c r Hs) as (s1 & E & _). unfold read_bytes. rewrite E.
  decide_eqb c OP_PUSHDATA4. decide_eqb c OP_PUSHDATA2. decide_eqb c OP_PUSHDATA1.
  replace ((c <=? OP_PUSHBYTES75) && (OP_PUSHBYTES1 <=? c)) with false; [reflexivity|].
  symmetry. apply andb_false_iff. rewrite N.leb_gt, N.leb_gt. op_consts. lia.
Qed.

Section Build.
Variable deser : bytes -> option pubkey.
(** DeserializePublicKey rejects every string of at most 3 bytes ("too short pubkey"). *)
Hypothesis deser_short : forall b, (length b <= 3)%nat -> deser b = None.

Lemma read_pubkeys_fail ks : forall fuel s enc m n cn r,
  Forall (key_ok deser) ks -> push_all (map pk_ser ks) = Some enc ->
  n <= 65535 -> push_num n = Some cn -> src_at s (enc ++ cn ++ r) ->
  N.of_nat (length ks) < m -> exists e, read_pubkeys deser fuel s m = inr e.
Proof.
  induction ks as [|k ks IH]; intros fuel s enc m n cn r Hk Hp Hn Hc Hs Hm;
    (destruct fuel as [|f]; [eexists; reflexivity|]); cbn [read_pubkeys];
    replace (m =? 0) with false by (symmetry; apply N.eqb_neq; simpl in Hm; lia).
  - simpl in Hp. injection Hp as <-. cbn [app] in Hs. unfold read_pubkey.
    destruct (N.eq_dec n 0) as [->|Hnz].
    + assert (cn = [OP_PUSH0]) by (unfold push_num in Hc; simpl in Hc; congruence). subst cn. cbn [app] in Hs.
      rewrite (read_bytes_bad s _ _ Hs) by (left; reflexivity). eauto.
    + destruct (N.le_gt_cases n 16).
      * rewrite push_num_small in Hc by lia.
        assert (cn = [OP_PUSH1 + n - 1]) by congruence. subst cn. cbn [app] in Hs.
        rewrite (read_bytes_bad s _ _ Hs) by (right; op_consts; lia). eauto.
      * rewrite push_num_big in Hc by lia. destruct (neo_big n ltac:(lia)) as (Hne & Hlen & _).
        destruct (read_bytes_at s (neo_of_N n) cn r Hc) as (s1 & Er & _); [unfold two32; lia|exact Hs|].
        rewrite Er, (deser_short _ Hlen). eauto.
  - inversion Hk as [|? ? Hk1 Hk2]; subst. simpl in Hp.
    destruct (push_bytes (pk_ser k)) as [a|] eqn:Ea; [|discriminate]. simpl in Hp.
    destruct (push_all (map pk_ser ks)) as [b|] eqn:Eb; [|discriminate]. simpl in Hp.
    injection Hp as <-. rewrite <- app_assoc in Hs.
    destruct (read_pubkey_at deser s k a _ Hk1 Ea Hs) as (s1 & E1 & Hs1). rewrite E1.
    destruct (IH f s1 b (m - 1) n cn r Hk2 eq_refl Hn Hc Hs1) as (e & Ee); [simpl in Hm; lia|].
    rewrite Ee. eauto.
Qed.

(** The script PushNum(m) keys... PushNum(n) CHECKMULTISIG, n = number of keys pushed, in any key
    order: parsed to exactly (keys, m) when (m, n) is valid, rejected otherwise. *)
Theorem multi_script_parse m ks prog :
  Forall (key_ok deser) ks -> m <= 65535 -> N.of_nat (length ks) <= 65535 ->
  multi_script m ks (N.of_nat (length ks)) = Some prog ->
  N.of_nat (length prog) < two64 ->
  (multi_params_ok (Z.of_N m) (Z.of_nat (length ks)) = true -> get_program_info deser prog = inl (ks, m)) /\
  (multi_params_ok (Z.of_N m) (Z.of_nat (length ks)) = false -> exists e, get_program_info deser prog = inr e).
Proof.
  intros Hk Hm Hn Hp Hlen. set (n := N.of_nat (length ks)) in *.
  unfold multi_script in Hp.
  destruct (push_num_some m Hm) as (cm & Ecm & Lcm). rewrite Ecm in Hp. simpl in Hp.
  destruct (push_all (map pk_ser ks)) as [enc|] eqn:Eenc; [|discriminate]. simpl in Hp.
  destruct (push_num_some n Hn) as (cn & Ecn & Lcn). rewrite Ecn in Hp. simpl in Hp.
  injection Hp as <-.
  assert (Hsers : Forall (fun d => N.of_nat (length d) < two32) (map pk_ser ks)).
  { rewrite Forall_forall in *. intros d Hd. apply in_map_iff in Hd. destruct Hd as (k & <- & Hin).
    destruct (Hk k Hin) as (_ & _ & H). exact H. }
  destruct (push_all_len _ _ Eenc Hsers) as [Lenc _]. rewrite map_length in Lenc.
  set (prog := cm ++ enc ++ cn ++ [OP_CHECKMULTISIG]) in *.
  assert (Lprog : (length prog = length cm + length enc + length cn + 1)%nat)
    by (unfold prog; rewrite !app_length; simpl; lia).
  assert (Elast : last prog 0 = OP_CHECKMULTISIG).
  { unfold prog. rewrite !app_assoc. apply last_last. }
  assert (Hstart : src_at (src_new prog) (cm ++ enc ++ cn ++ [OP_CHECKMULTISIG])) by (apply src_at_new; exact Hlen).
  destruct (read_num_at _ m cm _ Hm Ecm Hstart) as (s1 & E1 & Hs1).
  unfold get_program_info.
  replace (length prog <=? 2)%nat with false by (symmetry; apply Nat.leb_gt; lia).
  rewrite Elast.
  replace (OP_CHECKMULTISIG =? OP_CHECKSIG) with false by reflexivity. rewrite N.eqb_refl.
  rewrite E1.
  destruct (N.le_gt_cases m n) as [Hmn|Hmn].
  - (* m <= n: the first m keys, then the remaining keys and the count as buffers *)
    set (ks1 := firstn (N.to_nat m) ks). set (ks2 := skipn (N.to_nat m) ks).
    assert (Eks : ks = ks1 ++ ks2) by (symmetry; apply firstn_skipn).
    assert (L1 : length ks1 = N.to_nat m) by (unfold ks1; rewrite firstn_length; lia).
    assert (Hk1 : Forall (key_ok deser) ks1) by (rewrite Eks in Hk; apply Forall_app in Hk; tauto).
    assert (Hk2 : Forall (key_ok deser) ks2) by (rewrite Eks in Hk; apply Forall_app in Hk; tauto).
    rewrite Eks, map_app in Eenc. destruct (push_all_app_inv _ _ _ Eenc) as (e1 & e2 & Ee1 & Ee2 & ->).
    rewrite <- app_assoc in Hs1.
    destruct (read_pubkeys_at deser ks1 (S (length prog)) s1 e1 _ Hk1 Ee1 Hs1) as (s2 & E2 & Hs2).
    { rewrite Eks, app_length in Lenc. lia. }
    rewrite L1, N2Nat.id in E2. rewrite E2.
    assert (Hs2' : src_at s2 (e2 ++ cn ++ OP_CHECKMULTISIG :: [])) by exact Hs2.
    destruct (read_buffers_at deser ks2 (S (length prog)) s2 e2 n cn [] Hk2 Ee2 Hn Ecn Hs2') as (s3 & E3 & Hs3).
    { rewrite Eks, app_length in Lenc. lia. }
    rewrite E3. rewrite (src_at_len _ _ Hs3). cbn [length N.of_nat N.eqb negb].
    destruct (map pk_ser ks2 ++ [neo_of_N n]) as [|b0 bs] eqn:Eb; [destruct (map pk_ser ks2); discriminate|].
    rewrite <- Eb. rewrite last_last, removelast_last, (deser_all_sers deser ks2 Hk2), <- Eks.
    split; intro Hok.
    + (* valid parameters: n <= 16, so the count buffer is the single byte n *)
      assert (Hn16 : 1 <= n <= 16).
      { unfold multi_params_ok, MULTI_SIG_MAX_PUBKEY_SIZE in Hok.
        repeat (apply andb_prop in Hok; destruct Hok as [Hok ?]).
        repeat match goal with H : (_ <=? _)%Z = true |- _ => apply Z.leb_le in H
                             | H : (_ <? _)%Z = true |- _ => apply Z.ltb_lt in H end. lia. }
      rewrite neo_small by exact Hn16. rewrite be_decode_single, int64_small by lia.
      replace (Z.of_nat (length ks) =? Z.of_N n)%Z with true by (symmetry; apply Z.eqb_eq; lia).
      cbn [negb]. replace (Z.of_N n) with (Z.of_nat (length ks)) by lia. rewrite Hok. reflexivity.
    + destruct (Z.of_nat (length ks) =? int64_of_Z (Z.of_N (be_decode (neo_of_N n))))%Z eqn:Eq; cbn [negb].
      * apply Z.eqb_eq in Eq. rewrite <- Eq, Hok. cbn [negb]. eauto.
      * eauto.
  - (* m > n: reading the (n+1)-th key runs into the count *)
    intros. assert (Hs1' : src_at s1 (enc ++ cn ++ [OP_CHECKMULTISIG])) by exact Hs1.
    destruct (read_pubkeys_fail ks (S (length prog)) s1 enc m n cn _ Hk Eenc Hn Ecn Hs1' Hmn) as (e & Ee).
    rewrite Ee. split; intro Hok; [|eauto].
    exfalso. unfold multi_params_ok in Hok.
    repeat (apply andb_prop in Hok; destruct Hok as [Hok ?]).
    repeat match goal with H : (_ <=? _)%Z = true |- _ => apply Z.leb_le in H end. lia.
Qed.

End Build.

(** * 7. The property-level statements about built scripts *)

Section Roundtrip.
Variable deser : bytes -> option pubkey.

Theorem parse_build_single_proof k : key_ok deser k ->
  exists prog, program_from_pubkey k = Some prog /\ get_program_info deser prog = inl ([k], 1).
Proof.
  intros Hk. assert (Hk' := Hk). destruct Hk' as (Hd & Hne & Hl).
  destruct (push_bytes_some _ Hne Hl) as (hdr & Hp & c & rest & -> & Hc & Hr).
  unfold program_from_pubkey. rewrite Hp. cbn [obind].
  eexists. split; [reflexivity|].
  set (enc := (c :: rest) ++ pk_ser k) in *.
  assert (Lser : (1 <= length (pk_ser k))%nat) by (destruct (pk_ser k); [congruence|simpl; lia]).
  assert (Lenc : (length enc = S (length rest) + length (pk_ser k))%nat) by (unfold enc; rewrite app_length; reflexivity).
  unfold get_program_info.
  replace (length (enc ++ [OP_CHECKSIG]) <=? 2)%nat with false
    by (symmetry; apply Nat.leb_gt; rewrite app_length; cbn [length]; lia).
  rewrite last_last, N.eqb_refl, removelast_last.
  assert (Hs : src_at (src_new enc) (enc ++ [])).
  { rewrite app_nil_r. apply src_at_new. unfold two32, two64 in *. lia. }
  destruct (read_pubkey_at deser _ k enc [] Hk Hp Hs) as (s1 & E & Hs1).
  rewrite E, (src_at_len _ _ Hs1). reflexivity.
Qed.

Lemma key_ok_perm l l' : Permutation l l' -> Forall (key_ok deser) l -> Forall (key_ok deser) l'.
Proof.
  intros P H. rewrite Forall_forall in *. intros z Hz. apply H. eapply Permutation_in; [symmetry; exact P|exact Hz].
Qed.

Lemma multi_params_bounds m n : multi_params_ok m n = true -> (1 <= m <= n /\ 2 <= n <= 16)%Z.
Proof.
  unfold multi_params_ok, MULTI_SIG_MAX_PUBKEY_SIZE. intro H.
  repeat (apply andb_prop in H; destruct H as [H ?]).
  repeat match goal with H : (_ <=? _)%Z = true |- _ => apply Z.leb_le in H
                       | H : (_ <? _)%Z = true |- _ => apply Z.ltb_lt in H end. lia.
Qed.

Hypothesis deser_short : forall b, (length b <= 3)%nat -> deser b = None.

Theorem parse_build_multi_proof keys m :
  Forall (key_ok deser) keys -> multi_params_ok m (Z.of_nat (length keys)) = true ->
  exists prog, program_from_multi_pubkey keys m = BOk prog /\
               get_program_info deser prog = inl (sort_keys keys, Z.to_N m).
Proof.
  intros Hk Hok. pose proof (multi_params_bounds _ _ Hok) as B.
  assert (Hks : Forall (key_ok deser) (sort_keys keys)) by (eapply key_ok_perm; [symmetry; apply sort_keys_perm|exact Hk]).
  unfold program_from_multi_pubkey. rewrite Hok. cbn [negb].
  rewrite sort_keys_length.
  rewrite (N.mod_small (Z.to_N m)) by lia. rewrite (N.mod_small (N.of_nat (length keys))) by lia.
  destruct (push_num_some (Z.to_N m) ltac:(lia)) as (cm & Ecm & Lcm).
  destruct (push_all_ok deser _ Hks) as (enc & Eenc).
  destruct (push_num_some (N.of_nat (length keys)) ltac:(lia)) as (cn & Ecn & Lcn).
  assert (Ems : multi_script (Z.to_N m) (sort_keys keys) (N.of_nat (length keys)) = Some (cm ++ enc ++ cn ++ [OP_CHECKMULTISIG])).
  { unfold multi_script. rewrite Ecm. cbn [obind]. rewrite Eenc. cbn [obind]. rewrite Ecn. reflexivity. }
  rewrite Ems. eexists. split; [reflexivity|].
  assert (Hsers : Forall (fun d => N.of_nat (length d) < two32) (map pk_ser (sort_keys keys))).
  { rewrite Forall_forall in *. intros d Hd. apply in_map_iff in Hd. destruct Hd as (k & <- & Hin).
    destruct (Hks k Hin) as (_ & _ & H). exact H. }
  destruct (push_all_len _ _ Eenc Hsers) as [_ Lenc]. rewrite map_length, sort_keys_length in Lenc.
  rewrite <- (sort_keys_length keys) in Ems.
  destruct (multi_script_parse deser deser_short (Z.to_N m) (sort_keys keys) (cm ++ enc ++ cn ++ [OP_CHECKMULTISIG]) Hks) as [P _]; try exact Ems.
  - lia.
  - rewrite sort_keys_length. lia.
  - rewrite !app_length. cbn [length]. unfold two32, two64 in *. lia.
  - apply P. rewrite sort_keys_length, Z2N.id by lia. exact Hok.
Qed.

(** A hand-assembled script that declares an invalid threshold or key count is rejected. *)
Theorem bad_params_script_rejected_proof m ks prog :
  Forall (key_ok deser) ks -> m <= 65535 -> N.of_nat (length ks) <= 65535 ->
  multi_script m ks (N.of_nat (length ks)) = Some prog -> N.of_nat (length prog) < two64 ->
  multi_params_ok (Z.of_N m) (Z.of_nat (length ks)) = false ->
  exists e, get_program_info deser prog = inr e.
Proof.
  intros Hk Hm Hn Hp Hl Hbad.
  destruct (multi_script_parse deser deser_short m ks prog Hk Hm Hn Hp Hl) as [_ P]. exact (P Hbad).
Qed.

End Roundtrip.

(** The builder and the address function reject exactly the invalid (m, n). *)
Theorem builder_rejects_iff keys m :
  program_from_multi_pubkey keys m = BErrParam <-> multi_params_ok m (Z.of_nat (length keys)) = false.
Proof.
  unfold program_from_multi_pubkey. destruct (multi_params_ok m (Z.of_nat (length keys))); cbn [negb].
  - split; [|discriminate]. destruct (multi_script _ _ _); discriminate.
  - tauto.
Qed.

Section AddressProofs.
Variable H : bytes -> bytes.
Variable Keth : bytes -> bytes.

Theorem address_rejects_iff keys m :
  address_from_multi_pubkeys H keys m = AErrParam <-> multi_params_ok m (Z.of_nat (length keys)) = false.
Proof.
  unfold address_from_multi_pubkeys, program_from_multi_pubkey.
  destruct (multi_params_ok m (Z.of_nat (length keys))); cbn [negb].
  - split; [|discriminate]. destruct (multi_script _ _ _); discriminate.
  - tauto.
Qed.

Theorem program_perm_invariant keys keys' m :
  Forall key_known keys -> keys_canon keys -> Permutation keys keys' ->
  program_from_multi_pubkey keys m = program_from_multi_pubkey keys' m.
Proof.
  intros Hk Hc P. unfold program_from_multi_pubkey.
  rewrite (sort_keys_perm_invariant keys keys' Hk Hc P), (Permutation_length P). reflexivity.
Qed.

Theorem addr_perm_invariant_proof keys keys' m :
  Forall key_known keys -> keys_canon keys -> Permutation keys keys' ->
  address_from_multi_pubkeys H keys m = address_from_multi_pubkeys H keys' m.
Proof.
  intros Hk Hc P. unfold address_from_multi_pubkeys.
  rewrite (program_perm_invariant keys keys' m Hk Hc P), (Permutation_length P). reflexivity.
Qed.

Theorem bookkeepers_perm_invariant keys keys' :
  Forall key_known keys -> keys_canon keys -> Permutation keys keys' ->
  address_from_bookkeepers H Keth keys = address_from_bookkeepers H Keth keys'.
Proof.
  intros Hk Hc P. unfold address_from_bookkeepers.
  destruct keys as [|a [|b r]].
  - apply Permutation_nil in P. subst. reflexivity.
  - apply Permutation_length_1_inv in P. subst. reflexivity.
  - assert (L := Permutation_length P).
    destruct keys' as [|a' [|b' r']]; try discriminate.
    rewrite (addr_perm_invariant_proof _ _ _ Hk Hc P), L. reflexivity.
Qed.

End AddressProofs.

(** * 8. Every accepted script has valid parameters *)

Theorem accepted_params_valid_proof deser prog ks m :
  get_program_info deser prog = inl (ks, m) ->
  (last prog 0 = OP_CHECKSIG /\ length ks = 1%nat /\ m = 1) \/
  (last prog 0 = OP_CHECKMULTISIG /\ multi_params_ok (Z.of_N m) (Z.of_nat (length ks)) = true).
Proof.
  unfold get_program_info. cbv zeta.
  destruct (length prog <=? 2)%nat; [discriminate|].
  destruct (N.eqb_spec (last prog 0) OP_CHECKSIG) as [E1|E1].
  - destruct (read_pubkey deser _) as [[k s1]|e]; [|discriminate].
    destruct (src_len s1 =? 0); [|discriminate].
    intro H. injection H as <- <-. left. auto.
  - destruct (N.eqb_spec (last prog 0) OP_CHECKMULTISIG) as [E2|E2]; [|discriminate].
    destruct (read_num _) as [[m0 s1]|e]; [|discriminate].
    destruct (read_pubkeys deser _ s1 m0) as [[keys1 s2]|e]; [|discriminate].
    destruct (read_buffers _ s2) as [[buffers s3]|e]; [|discriminate].
    destruct (negb (src_len s3 =? 0)); [discriminate|].
    destruct buffers as [|b0 bs]; [discriminate|].
    destruct (deser_all deser _) as [keys2|]; [|discriminate].
    destruct (Z.eqb_spec (Z.of_nat (length (keys1 ++ keys2))) (int64_of_Z (Z.of_N (be_decode (last (b0 :: bs) []))))) as [En|En];
      cbn [negb]; [|discriminate].
    destruct (multi_params_ok (Z.of_N m0) _) eqn:Eok; cbn [negb]; [|discriminate].
    intro H. injection H as <- <-. right. split; [exact E2|]. rewrite En. exact Eok.
Qed.

(** * 9. The parser is total and stays inside its buffer *)

Lemma read_opcode_ok s c s' : src_ok s -> read_opcode s = inl (c, s') ->
  buf s' = buf s /\ off s' = S (off s) /\ (off s < length (buf s))%nat /\ src_ok s'.
Proof.
  intros Hok. unfold read_opcode. pose proof (next_byte_spec s Hok) as P.
  destruct (next_byte s) as [[v e] s1]. destruct e; [discriminate|].
  intro H. injection H as <- <-. destruct P as (Eb & B & _ & Hne). destruct (Hne eq_refl) as [Eo _].
  assert (Lt : (off s < length (buf s))%nat) by lia.
  split; [exact Eb|]. split; [exact Eo|]. split; [exact Lt|].
  destruct Hok as [H1 H2]. split; rewrite Eb; [lia|exact H2].
Qed.

Lemma src_eta (s : source) : s = mkSrc (buf s) (off s).
Proof. destruct s; reflexivity. Qed.

(** PeekOpCode leaves the source where it was: its BackUp(1) never wraps. *)
Lemma peek_opcode_same s c s' : src_ok s -> peek_opcode s = inl (c, s') ->
  s' = s /\ (off s < length (buf s))%nat.
Proof.
  intros Hok. unfold peek_opcode. destruct (read_opcode s) as [[c1 s1]|e] eqn:E; [|discriminate].
  destruct (read_opcode_ok s c1 s1 Hok E) as (Eb & Eo & Lt & Hok1).
  intro H. injection H as <- <-. split; [|exact Lt].
  rewrite (src_eta s1), Eb, Eo, back_up_one; [symmetry; apply src_eta|].
  destruct Hok as [_ H2]. lia.
Qed.

Lemma skip_opcode_ok s : src_ok s -> (off s < length (buf s))%nat ->
  buf (skip_opcode s) = buf s /\ off (skip_opcode s) = S (off s) /\ src_ok (skip_opcode s).
Proof.
  intros Hok Lt. unfold skip_opcode. pose proof (next_byte_spec s Hok) as P.
  destruct (next_byte s) as [[v e] s1]. destruct P as (Eb & B & He & Hne).
  destruct e; [destruct (He eq_refl) as (_ & _ & X); lia|].
  destruct (Hne eq_refl) as [Eo _]. split; [exact Eb|]. split; [exact Eo|].
  destruct Hok as [H1 H2]. split; rewrite Eb; [lia|exact H2].
Qed.

(** ReadBytes: on success the data returned is a slice of the buffer that ends at the new offset,
    and the offset has moved forward by at least the opcode byte. *)
Lemma read_bytes_ok s d s' : src_ok s -> read_bytes s = inl (d, s') ->
  buf s' = buf s /\ (off s < off s' <= length (buf s))%nat /\ src_ok s' /\
  (length d <= off s')%nat /\ d = slice (buf s) (off s' - length d) (length d).
Proof.
  intros Hok. unfold read_bytes.
  destruct (read_opcode s) as [[code s1]|e] eqn:E; [|discriminate].
  destruct (read_opcode_ok s code s1 Hok E) as (Eb1 & Eo1 & Lt & Hok1).
  assert (Hmid : forall keylen eof bad s2,
     buf s2 = buf s -> (off s < off s2 <= length (buf s))%nat -> src_ok s2 ->
     (if eof : bool then inr EUnexpectedEOF
      else if bad : bool then inr EUnexpectedOpcode
      else let '(d, eof2, s3) := next_bytes s2 keylen in
           if eof2 : bool then inr EUnexpectedEOF else inl (d, s3)) = inl (d, s') ->
     buf s' = buf s /\ (off s < off s' <= length (buf s))%nat /\ src_ok s' /\
     (length d <= off s')%nat /\ d = slice (buf s) (off s' - length d) (length d)).
  { intros keylen eof bad s2 Eb2 Bo2 Hok2. destruct eof; [discriminate|]. destruct bad; [discriminate|].
    pose proof (next_bytes_spec s2 keylen Hok2) as P.
    destruct (next_bytes s2 keylen) as [[d3 e3] s3]. destruct e3; [discriminate|].
    intro H. injection H as <- <-. destruct P as (Eb3 & B3 & Ed & _).
    assert (Ld : length d3 = (off s3 - off s2)%nat).
    { rewrite Ed. apply slice_length. lia. }
    assert (B3' : (off s2 <= off s3 <= length (buf s))%nat) by (rewrite <- Eb2; exact B3).
    split; [congruence|]. split; [lia|]. split.
    { destruct Hok as [_ H2]. split; rewrite Eb3, Eb2; [lia|exact H2]. }
    split; [lia|].
    rewrite Ld. replace (off s3 - (off s3 - off s2))%nat with (off s2) by lia. rewrite <- Eb2. exact Ed. }
  assert (Huint : forall w, let '(v, e, s2) := next_uint w s1 in
     buf s2 = buf s /\ (off s < off s2 <= length (buf s))%nat /\ src_ok s2).
  { intro w. pose proof (next_uint_safe w s1 Hok1) as P. destruct (next_uint w s1) as [[v e] s2].
    destruct P as [Eb2 B2]. cbn [snd] in *. rewrite Eb1 in *.
    split; [exact Eb2|]. split; [lia|]. destruct Hok as [_ H2]. split; rewrite Eb2; [lia|exact H2]. }
  destruct (code =? OP_PUSHDATA4).
  { pose proof (Huint UINT32_SIZE) as P. unfold next_uint32. destruct (next_uint UINT32_SIZE s1) as [[v e] s2].
    destruct P as (A & B & C). apply (Hmid v e false s2 A B C). }
  destruct (code =? OP_PUSHDATA2).
  { pose proof (Huint UINT16_SIZE) as P. unfold next_uint16. destruct (next_uint UINT16_SIZE s1) as [[v e] s2].
    destruct P as (A & B & C). apply (Hmid v e false s2 A B C). }
  destruct (code =? OP_PUSHDATA1).
  { pose proof (next_byte_safe s1 Hok1) as P. destruct (next_byte s1) as [[v e] s2].
    destruct P as [Eb2 B2]. cbn [snd] in *. rewrite Eb1 in *.
    apply (Hmid v e false s2); try lia; try congruence.
    destruct Hok as [_ H2]. split; rewrite Eb2; [lia|exact H2]. }
  destruct ((code <=? OP_PUSHBYTES75) && (OP_PUSHBYTES1 <=? code)).
  { apply (Hmid _ false false s1); try lia; try congruence. }
  apply (Hmid 0 false true s1); try lia; try congruence.
Qed.

Lemma read_num_ok s m s' : src_ok s -> read_num s = inl (m, s') ->
  buf s' = buf s /\ (off s < off s' <= length (buf s))%nat /\ src_ok s'.
Proof.
  intros Hok. unfold read_num.
  destruct (peek_opcode s) as [[code s0]|e] eqn:E; [|discriminate].
  destruct (peek_opcode_same s code s0 Hok E) as [-> Lt].
  destruct (skip_opcode_ok s Hok Lt) as (Eb & Eo & Hok').
  destruct (code =? OP_PUSH0).
  { intro H. injection H as <- <-. split; [exact Eb|]. split; [lia|exact Hok']. }
  destruct (small_num code).
  { intro H. injection H as <- <-. split; [exact Eb|]. split; [lia|exact Hok']. }
  destruct (read_bytes s) as [[buff s1]|e] eqn:Er; [|discriminate].
  destruct (read_bytes_ok s buff s1 Hok Er) as (A & B & C & _).
  destruct (_ || _); [discriminate|]. intro H. injection H as <- <-. auto.
Qed.

Section Total.
Variable deser : bytes -> option pubkey.

Lemma read_pubkeys_total fuel : forall s m, src_ok s -> (length (buf s) - off s < fuel)%nat ->
  match read_pubkeys deser fuel s m with
  | inr e => e <> EFuel
  | inl (ks, s') => buf s' = buf s /\ (off s <= off s' <= length (buf s))%nat /\ src_ok s'
  end.
Proof.
  induction fuel as [|f IH]; intros s m Hok Hf; [lia|]. cbn [read_pubkeys].
  destruct (m =? 0). { split; [reflexivity|]. split; [destruct Hok; lia|exact Hok]. }
  unfold read_pubkey.
  destruct (read_bytes s) as [[b s1]|e] eqn:Er.
  2:{ unfold read_bytes in Er. destruct (read_opcode s) as [[c s1]|e1] eqn:Eo.
      - destruct (if c =? OP_PUSHDATA4 then _ else _) as [[[kl eof] bad] s2].
        destruct eof; [congruence|]. destruct bad; [congruence|].
        destruct (next_bytes s2 kl) as [[d3 e3] s3]. destruct e3; congruence.
      - unfold read_opcode in Eo. destruct (next_byte s) as [[v e0] s1]. destruct e0; congruence. }
  destruct (read_bytes_ok s b s1 Hok Er) as (A & B & C & _).
  destruct (deser b) as [k|]; [|discriminate].
  specialize (IH s1 (m - 1) C). rewrite A in IH. specialize (IH ltac:(lia)).
  destruct (read_pubkeys deser f s1 (m - 1)) as [[ks s2]|e]; [|exact IH].
  destruct IH as (A2 & B2 & C2). split; [congruence|]. split; [lia|exact C2].
Qed.

End Total.

Lemma read_bytes_err s e : read_bytes s = inr e -> e <> EFuel.
Proof.
  unfold read_bytes. destruct (read_opcode s) as [[c s1]|e1] eqn:Eo.
  - destruct (if c =? OP_PUSHDATA4 then _ else _) as [[[kl eof] bad] s2].
    destruct eof; [congruence|]. destruct bad; [congruence|].
    destruct (next_bytes s2 kl) as [[d3 e3] s3]. destruct e3; congruence.
  - unfold read_opcode in Eo. destruct (next_byte s) as [[v e0] s1]. destruct e0; congruence.
Qed.

Lemma peek_opcode_err s e : peek_opcode s = inr e -> e <> EFuel.
Proof.
  unfold peek_opcode, read_opcode. destruct (next_byte s) as [[v e0] s1]. destruct e0; congruence.
Qed.

Lemma read_num_err s e : read_num s = inr e -> e <> EFuel.
Proof.
  unfold read_num. destruct (peek_opcode s) as [[c s0]|e1] eqn:Ep.
  - destruct (c =? OP_PUSH0); [discriminate|]. destruct (small_num c); [discriminate|].
    destruct (read_bytes s0) as [[b s1]|e2] eqn:Er.
    + destruct (_ || _); congruence.
    + intro H. injection H as <-. eapply read_bytes_err; exact Er.
  - intro H. injection H as <-. eapply peek_opcode_err; exact Ep.
Qed.

Lemma read_buffers_total fuel : forall s, src_ok s -> (length (buf s) - off s < fuel)%nat ->
  match read_buffers fuel s with
  | inr e => e <> EFuel
  | inl (bs, s') => buf s' = buf s /\ (off s <= off s' <= length (buf s))%nat /\ src_ok s'
  end.
Proof.
  induction fuel as [|f IH]; intros s Hok Hf; [lia|]. rewrite read_buffers_S.
  destruct (peek_opcode s) as [[code s0]|e] eqn:Ep; [|eapply peek_opcode_err; exact Ep].
  destruct (peek_opcode_same s code s0 Hok Ep) as [-> Lt].
  destruct (skip_opcode_ok s Hok Lt) as (Eb & Eo & Hok').
  assert (Hskip : match read_buffers f (skip_opcode s) with
                  | inr e => e <> EFuel
                  | inl (bs, s') => buf s' = buf s /\ (off s <= off s' <= length (buf s))%nat /\ src_ok s'
                  end).
  { specialize (IH (skip_opcode s) Hok'). rewrite Eb, Eo in IH. specialize (IH ltac:(lia)).
    destruct (read_buffers f (skip_opcode s)) as [[bs s2]|e]; [|exact IH].
    destruct IH as (A & B & C). split; [exact A|]. split; [lia|exact C]. }
  destruct (code =? OP_CHECKMULTISIG). { split; [exact Eb|]. split; [lia|exact Hok']. }
  destruct (code =? OP_PUSH0). { destruct (read_buffers f (skip_opcode s)) as [[bs s2]|e]; exact Hskip. }
  destruct (small_num code). { destruct (read_buffers f (skip_opcode s)) as [[bs s2]|e]; exact Hskip. }
  destruct (read_bytes s) as [[b s1]|e] eqn:Er; [|eapply read_bytes_err; exact Er].
  destruct (read_bytes_ok s b s1 Hok Er) as (A & B & C & _).
  specialize (IH s1 C). rewrite A in IH. specialize (IH ltac:(lia)).
  destruct (read_buffers f s1) as [[bs s2]|e]; [|exact IH].
  destruct IH as (A2 & B2 & C2). split; [congruence|]. split; [lia|exact C2].
Qed.

Lemma read_pubkeys_err deser fuel s m e : src_ok s -> (length (buf s) - off s < fuel)%nat ->
  read_pubkeys deser fuel s m = inr e -> e <> EFuel.
Proof.
  intros Hok Hf E. pose proof (read_pubkeys_total deser fuel s m Hok Hf) as P. rewrite E in P. exact P.
Qed.

(** GetProgramInfo never runs out of loop fuel: on every byte string it returns keys and a
    threshold, or one of the implementation's errors. *)
Theorem get_program_info_total deser prog : N.of_nat (length prog) < two64 ->
  get_program_info deser prog <> inr EFuel.
Proof.
  intro Hl. unfold get_program_info. cbv zeta.
  destruct (length prog <=? 2)%nat; [discriminate|].
  destruct (last prog 0 =? OP_CHECKSIG).
  - unfold read_pubkey. destruct (read_bytes _) as [[b s1]|e] eqn:Er.
    + destruct (deser b); [|discriminate]. destruct (src_len s1 =? 0); discriminate.
    + intro H. injection H as ->. eapply read_bytes_err; [exact Er|reflexivity].
  - destruct (last prog 0 =? OP_CHECKMULTISIG); [|discriminate].
    assert (Hok : src_ok (src_new prog)) by (apply src_new_ok; exact Hl).
    destruct (read_num (src_new prog)) as [[m s1]|e] eqn:En.
    2:{ intro H. injection H as ->. eapply read_num_err; [exact En|reflexivity]. }
    destruct (read_num_ok _ _ _ Hok En) as (A & B & C). cbn [src_new buf off] in A, B.
    pose proof (read_pubkeys_total deser (S (length prog)) s1 m C) as P1. rewrite A in P1.
    specialize (P1 ltac:(lia)).
    destruct (read_pubkeys deser (S (length prog)) s1 m) as [[keys1 s2]|e].
    2:{ intro H. injection H as ->. apply P1; reflexivity. }
    destruct P1 as (A2 & B2 & C2).
    pose proof (read_buffers_total (S (length prog)) s2 C2) as P2. rewrite A2 in P2.
    specialize (P2 ltac:(lia)).
    destruct (read_buffers (S (length prog)) s2) as [[buffers s3]|e].
    2:{ intro H. injection H as ->. apply P2; reflexivity. }
    destruct (negb (src_len s3 =? 0)); [discriminate|].
    destruct buffers; [discriminate|].
    destruct (deser_all deser _); [|discriminate].
    destruct (negb _); [discriminate|]. destruct (negb _); discriminate.
Qed.

Lemma read_params_total fuel : forall s, src_ok s -> (length (buf s) - off s < fuel)%nat ->
  read_params fuel s <> inr EFuel.
Proof.
  induction fuel as [|f IH]; intros s Hok Hf; [lia|]. cbn [read_params].
  destruct (src_len s =? 0); [discriminate|].
  destruct (read_bytes s) as [[sig s1]|e] eqn:Er.
  - destruct (read_bytes_ok s sig s1 Hok Er) as (A & B & C & _).
    specialize (IH s1 C). rewrite A in IH. specialize (IH ltac:(lia)).
    destruct (read_params f s1); [discriminate|]. congruence.
  - intro H. injection H as ->. eapply read_bytes_err; [exact Er|reflexivity].
Qed.

Theorem get_param_info_total prog : N.of_nat (length prog) < two64 -> get_param_info prog <> inr EFuel.
Proof.
  intro Hl. unfold get_param_info. apply read_params_total; [apply src_new_ok; exact Hl|]. simpl. lia.
Qed.

(** Every string GetParamInfo returns lies inside the script. *)
Lemma read_params_in_bounds fuel : forall s sigs, src_ok s -> read_params fuel s = inl sigs ->
  Forall (fun d => exists o, (o + length d <= length (buf s))%nat /\ d = slice (buf s) o (length d)) sigs.
Proof.
  induction fuel as [|f IH]; intros s sigs Hok; [discriminate|]. cbn [read_params].
  destruct (src_len s =? 0). { intro H. injection H as <-. constructor. }
  destruct (read_bytes s) as [[sig s1]|e] eqn:Er; [|discriminate].
  destruct (read_bytes_ok s sig s1 Hok Er) as (A & B & C & D & E).
  destruct (read_params f s1) as [rest|] eqn:Ep; [|discriminate].
  intro H. injection H as <-. constructor.
  - exists (off s1 - length sig)%nat. split; [lia|exact E].
  - specialize (IH s1 rest C Ep). rewrite A in IH. exact IH.
Qed.

(** The multi-signature script determines the (sorted) key list and the threshold: two accepted
    parameter sets that build the same script have the same sorted keys and the same m. *)
Lemma multi_script_determines_keys deser :
  (forall b, (length b <= 3)%nat -> deser b = None) ->
  forall keys keys' m m' prog,
  Forall (key_ok deser) keys -> Forall (key_ok deser) keys' ->
  multi_params_ok m (Z.of_nat (length keys)) = true ->
  multi_params_ok m' (Z.of_nat (length keys')) = true ->
  program_from_multi_pubkey keys m = BOk prog -> program_from_multi_pubkey keys' m' = BOk prog ->
  sort_keys keys = sort_keys keys' /\ m = m'.
Proof.
  intros Hd keys keys' m m' prog K K' P P' B B'.
  destruct (parse_build_multi_proof deser Hd keys m K P) as [p1 [E1 G1]].
  destruct (parse_build_multi_proof deser Hd keys' m' K' P') as [p2 [E2 G2]].
  rewrite B in E1. injection E1 as <-. rewrite B' in E2. injection E2 as <-.
  rewrite G1 in G2. injection G2 as Hs Hm.
  apply multi_params_bounds in P. apply multi_params_bounds in P'.
  split; [exact Hs|]. lia.
Qed.
