(** Proofs about the signature-script model (Model/Program.v). *)
From Coq Require Import List Bool Arith NArith ZArith Lia ZifyN ZifyNat ZifyBool Permutation.
Import ListNotations.
From Ont Require Import Lib.Bytes Gen.CodecConsts Model.Codec Proofs.Codec Gen.ProgramConsts Gen.ProgramFormulas Model.Program.
Local Open Scope N_scope.
Open Scope bool_scope.
Ltac Zify.zify_post_hook ::= Z.to_euclidean_division_equations.

(** * 1. The key order and keypair.SortPublicKeys *)

Definition key_known (k : pubkey) : Prop :=
  pk_type k = PK_ECDSA \/ pk_type k = PK_SM2 \/ pk_type k = PK_EDDSA \/ pk_type k = PK_ETHECDSA.

(** What Less looks at, as a tuple compared lexicographically. *)
Definition key_rank (k : pubkey) : N * N * N * N :=
  (pk_type k,
   if (pk_type k =? PK_ECDSA) || (pk_type k =? PK_SM2) then pk_curve k else 0,
   pk_x k,
   if pk_type k =? PK_EDDSA then 0 else pk_y k).

Definition lex4 (p q : N * N * N * N) : Prop :=
  let '(t1, c1, x1, y1) := p in
  let '(t2, c2, x2, y2) := q in
  t1 < t2 \/ (t1 = t2 /\ (c1 < c2 \/ (c1 = c2 /\ (x1 < x2 \/ (x1 = x2 /\ y1 < y2))))).

Lemma lex4_irrefl p : ~ lex4 p p.
Proof. destruct p as [[[t c] x] y]; unfold lex4; lia. Qed.

Lemma lex4_trans p q r : lex4 p q -> lex4 q r -> lex4 p r.
Proof. destruct p as [[[t1 c1] x1] y1], q as [[[t2 c2] x2] y2], r as [[[t3 c3] x3] y3]; unfold lex4; lia. Qed.

Lemma lex4_total p q : ~ lex4 p q -> ~ lex4 q p -> p = q.
Proof.
  destruct p as [[[t1 c1] x1] y1], q as [[[t2 c2] x2] y2]; unfold lex4; intros H1 H2.
  assert (t1 = t2 /\ c1 = c2 /\ x1 = x2 /\ y1 = y2) as (-> & -> & -> & ->) by lia. reflexivity.
Qed.

Lemma key_less_spec a b : key_known a -> key_known b ->
  (key_less a b = true <-> lex4 (key_rank a) (key_rank b)).
Proof.
  unfold key_known, key_less, xy_less, key_rank, lex4, PK_ECDSA, PK_SM2, PK_EDDSA, PK_ETHECDSA.
  intros Ha Hb.
  destruct (N.eqb_spec (pk_type a) (pk_type b)) as [E|E]; cbn [negb].
  - rewrite <- E.
    destruct Ha as [Ha|[Ha|[Ha|Ha]]]; rewrite Ha; cbn [N.eqb Pos.eqb orb];
    repeat match goal with |- context [N.eqb ?x ?y] => destruct (N.eqb_spec x y); cbn [negb] end;
    rewrite ?N.ltb_lt; try lia.
  - destruct Ha as [Ha|[Ha|[Ha|Ha]]], Hb as [Hb|[Hb|[Hb|Hb]]]; rewrite Ha, Hb in *;
    cbn [N.eqb Pos.eqb orb]; rewrite N.ltb_lt; lia.
Qed.

Lemma key_less_irrefl a : key_known a -> key_less a a = false.
Proof.
  intro H. destruct (key_less a a) eqn:E; [|reflexivity].
  apply key_less_spec in E; auto. exfalso; eapply lex4_irrefl; eauto.
Qed.

Lemma key_less_asym a b : key_known a -> key_known b -> key_less a b = true -> key_less b a = false.
Proof.
  intros Ha Hb H. destruct (key_less b a) eqn:E; [|reflexivity].
  apply key_less_spec in H; auto. apply key_less_spec in E; auto.
  exfalso; eapply lex4_irrefl; eapply lex4_trans; eauto.
Qed.

Lemma key_less_trans a b c : key_known a -> key_known b -> key_known c ->
  key_less a b = true -> key_less b c = true -> key_less a c = true.
Proof.
  intros Ha Hb Hc H1 H2. apply key_less_spec in H1; auto. apply key_less_spec in H2; auto.
  apply key_less_spec; auto. eapply lex4_trans; eauto.
Qed.

(** [b <= c] and [a <= b] give [a <= c] where [x <= y] is "not y < x". *)
Lemma key_le_trans a b c : key_known a -> key_known b -> key_known c ->
  key_less b a = false -> key_less c b = false -> key_less c a = false.
Proof.
  intros Ha Hb Hc H1 H2. destruct (key_less c a) eqn:E; [|reflexivity].
  (* c < a; not b < a so a <= b; then c < b or rank c = ... : use totality *)
  destruct (key_less a b) eqn:E2.
  - assert (key_less c b = true) by (apply (key_less_trans c a b); assumption). congruence.
  - assert (key_rank a = key_rank b).
    { apply lex4_total; intro L; apply key_less_spec in L; auto; congruence. }
    apply key_less_spec in E; auto. rewrite H in E. apply key_less_spec in E; auto. congruence.
Qed.

Lemma key_incomparable_rank a b : key_known a -> key_known b ->
  key_less a b = false -> key_less b a = false -> key_rank a = key_rank b.
Proof. intros Ha Hb H1 H2. apply lex4_total; intro L; apply key_less_spec in L; auto; congruence. Qed.

(** The keys of a set are canonical when the order separates distinct keys (same algorithm, curve
    and point means same key, hence same serialization). *)
Definition keys_canon (l : list pubkey) : Prop :=
  forall a b, In a l -> In b l -> key_rank a = key_rank b -> a = b.

Fixpoint sorted_le (l : list pubkey) : Prop :=
  match l with
  | [] => True
  | x :: r => Forall (fun y => key_less y x = false) r /\ sorted_le r
  end.

Lemma insert_key_perm x l : Permutation (insert_key x l) (x :: l).
Proof.
  induction l as [|y r IH]; simpl; [reflexivity|].
  destruct (key_less x y); [reflexivity|].
  rewrite IH. apply perm_swap.
Qed.

Lemma sort_keys_perm l : Permutation (sort_keys l) l.
Proof.
  induction l as [|x r IH]; simpl; [reflexivity|].
  rewrite insert_key_perm. constructor; exact IH.
Qed.

Lemma sort_keys_length l : length (sort_keys l) = length l.
Proof. apply Permutation_length, sort_keys_perm. Qed.

Lemma insert_key_sorted x l : key_known x -> Forall key_known l -> sorted_le l -> sorted_le (insert_key x l).
Proof.
  intros Hx. induction l as [|y r IH]; intros Hk Hs; simpl.
  - split; [constructor|exact I].
  - inversion Hk as [|? ? Hy Hr]; subst. destruct Hs as [Hy1 Hs].
    destruct (key_less x y) eqn:E.
    + split; [|split; assumption].
      constructor; [apply key_less_asym; assumption|].
      rewrite Forall_forall in *. intros z Hz.
      apply (key_le_trans x y z); auto. apply key_less_asym; auto.
    + split; [|apply IH; assumption].
      rewrite Forall_forall. intros z Hz.
      apply (Permutation_in _ (insert_key_perm x r)) in Hz. destruct Hz as [<-|Hz]; [exact E|].
      rewrite Forall_forall in Hy1; auto.
Qed.

Lemma sort_keys_sorted l : Forall key_known l -> sorted_le (sort_keys l).
Proof.
  induction l as [|x r IH]; intro Hk; simpl; [exact I|].
  inversion Hk; subst. apply insert_key_sorted; auto.
  rewrite Forall_forall in *. intros z Hz. apply (Permutation_in _ (sort_keys_perm r)) in Hz. auto.
Qed.

Lemma sorted_perm_unique l1 : forall l2,
  Forall key_known l1 -> keys_canon l1 -> sorted_le l1 -> sorted_le l2 -> Permutation l1 l2 -> l1 = l2.
Proof.
  induction l1 as [|a r1 IH]; intros l2 Hk Hc H1 H2 P.
  - apply Permutation_nil in P; subst; reflexivity.
  - destruct l2 as [|b r2]; [apply Permutation_sym, Permutation_nil in P; discriminate|].
    assert (Hk2 : Forall key_known (b :: r2)).
    { rewrite Forall_forall in *. intros z Hz. apply Hk. eapply Permutation_in; [symmetry; exact P|exact Hz]. }
    assert (Eab : a = b).
    { destruct H1 as [Ha _], H2 as [Hb _]. rewrite Forall_forall in Ha, Hb.
      assert (Ia : In a (b :: r2)) by (eapply Permutation_in; [exact P|left; reflexivity]).
      assert (Ib : In b (a :: r1)) by (eapply Permutation_in; [symmetry; exact P|left; reflexivity]).
      destruct Ia as [->|Ia]; [reflexivity|]. destruct Ib as [->|Ib]; [reflexivity|].
      apply Hc; [left; reflexivity|right; exact Ib|].
      inversion Hk; inversion Hk2; subst.
      apply key_incomparable_rank; auto. }
    subst b. f_equal. apply Permutation_cons_inv in P.
    inversion Hk; subst. destruct H1 as [_ H1], H2 as [_ H2].
    apply IH; auto. intros x y Hx Hy. apply Hc; right; assumption.
Qed.

Theorem sort_keys_perm_invariant l l' :
  Forall key_known l -> keys_canon l -> Permutation l l' -> sort_keys l = sort_keys l'.
Proof.
  intros Hk Hc P.
  assert (Hk' : Forall key_known l').
  { rewrite Forall_forall in *. intros z Hz. apply Hk. eapply Permutation_in; [symmetry; exact P|exact Hz]. }
  apply sorted_perm_unique.
  - rewrite Forall_forall in *. intros z Hz. apply Hk. eapply Permutation_in; [apply sort_keys_perm|exact Hz].
  - intros a b Ha Hb. apply Hc; eapply Permutation_in; try apply sort_keys_perm; assumption.
  - apply sort_keys_sorted; exact Hk.
  - apply sort_keys_sorted; exact Hk'.
  - rewrite (sort_keys_perm l), (sort_keys_perm l'). exact P.
Qed.

(** * 2. Reading from a source positioned in front of known bytes *)

(** [src_at s r]: the unread part of [s] is exactly [r] (and the buffer is addressable). *)
Definition src_at (s : source) (r : bytes) : Prop :=
  exists pre, buf s = pre ++ r /\ off s = length pre /\ N.of_nat (length (buf s)) < two64.

Lemma src_at_new b : N.of_nat (length b) < two64 -> src_at (src_new b) b.
Proof. intro H. exists []. simpl. auto. Qed.

Lemma src_at_len s r : src_at s r -> src_len s = N.of_nat (length r).
Proof.
  intros (pre & Hb & Ho & _). unfold src_len. rewrite Hb, Ho, app_length. f_equal. lia.
Qed.

Lemma next_byte_at s x r : src_at s (x :: r) ->
  exists s', next_byte s = (x, false, s') /\ src_at s' r.
Proof.
  intros (pre & Hb & Ho & Hl). destruct s as [b o]; simpl in *. subst b o.
  exists (mkSrc (pre ++ x :: r) (S (length pre))). split.
  - unfold next_byte; cbn [buf off].
    replace (length (pre ++ x :: r) <=? length pre)%nat with false
      by (symmetry; apply Nat.leb_gt; rewrite app_length; simpl; lia).
    rewrite nth_middle. reflexivity.
  - exists (pre ++ [x]). cbn [buf off]. rewrite <- app_assoc, app_length. simpl.
    split; [reflexivity|]. split; [lia|exact Hl].
Qed.

Lemma next_byte_eof s : src_at s [] -> next_byte s = (0, true, s).
Proof.
  intros (pre & Hb & Ho & Hl). unfold next_byte.
  replace (length (buf s) <=? off s)%nat with true; [reflexivity|].
  symmetry; apply Nat.leb_le. rewrite Hb, Ho, app_nil_r. lia.
Qed.

Lemma next_bytes_at' s d r : src_at s (d ++ r) ->
  exists s', next_bytes s (N.of_nat (length d)) = (d, false, s') /\ src_at s' r.
Proof.
  intros (pre & Hb & Ho & Hl). destruct s as [b o]; simpl in *. subst b o.
  exists (mkSrc (pre ++ d ++ r) (length pre + length d)). split.
  - apply next_bytes_exact. exact Hl.
  - exists (pre ++ d). cbn [buf off]. rewrite <- app_assoc, app_length. auto.
Qed.

Lemma next_bytes_short s r n : src_at s r -> N.of_nat (length r) < n ->
  exists d s', next_bytes s n = (d, true, s').
Proof.
  intros (pre & Hb & Ho & Hl) Hn. unfold next_bytes.
  replace ((two64 <=? N.of_nat (off s) + n) || (N.of_nat (length (buf s)) <? N.of_nat (off s) + n)) with true.
  - eauto.
  - symmetry. apply orb_true_iff. right. apply N.ltb_lt. rewrite Hb, Ho, app_length. lia.
Qed.

Lemma next_uint_at' w v s r : v < 256 ^ N.of_nat w -> src_at s (le_encode w v ++ r) ->
  exists s', next_uint w s = (v, false, s') /\ src_at s' r.
Proof.
  intros Hv Hs. destruct (next_bytes_at' s _ r Hs) as (s' & E & Hs').
  rewrite le_encode_length in E. exists s'. split; [|exact Hs'].
  unfold next_uint. rewrite E. rewrite le_decode_encode_small by exact Hv. reflexivity.
Qed.

Lemma back_up_one b o : N.of_nat (S o) < two64 -> back_up (mkSrc b (S o)) 1 = mkSrc b o.
Proof.
  intro H. unfold back_up; cbn [buf off]. f_equal.
  replace (1 mod two64) with 1 by reflexivity.
  replace ((N.of_nat (S o) + two64 - 1) mod two64) with (N.of_nat o).
  - apply Nat2N.id.
  - symmetry. replace (N.of_nat (S o) + two64 - 1) with (N.of_nat o + 1 * two64) by lia.
    rewrite N.mod_add by discriminate. apply N.mod_small. lia.
Qed.

Lemma read_opcode_at s x r : src_at s (x :: r) -> exists s', read_opcode s = inl (x, s') /\ src_at s' r.
Proof.
  intro H. destruct (next_byte_at s x r H) as (s' & E & H'). exists s'. split; [|exact H'].
  unfold read_opcode. rewrite E. reflexivity.
Qed.

Lemma peek_opcode_at s x r : src_at s (x :: r) -> peek_opcode s = inl (x, s).
Proof.
  intros (pre & Hb & Ho & Hl). destruct s as [b o]; simpl in *. subst b o.
  unfold peek_opcode, read_opcode, next_byte; cbn [buf off].
  replace (length (pre ++ x :: r) <=? length pre)%nat with false
    by (symmetry; apply Nat.leb_gt; rewrite app_length; simpl; lia).
  rewrite nth_middle. rewrite back_up_one; [reflexivity|].
  rewrite app_length in Hl. simpl in Hl. lia.
Qed.

Lemma peek_opcode_eof s : src_at s [] -> peek_opcode s = inr EUnexpectedEOF.
Proof. intro H. unfold peek_opcode, read_opcode. rewrite (next_byte_eof s H). reflexivity. Qed.

Lemma skip_opcode_at s x r : src_at s (x :: r) -> src_at (skip_opcode s) r.
Proof.
  intro H. destruct (next_byte_at s x r H) as (s' & E & H'). unfold skip_opcode. rewrite E. exact H'.
Qed.

(** * 3. PushBytes / ReadBytes *)

Lemma two32_lt_two64 : two32 < two64. Proof. reflexivity. Qed.

Ltac op_consts := unfold OP_PUSH0, OP_PUSHBYTES1, OP_PUSHBYTES75, OP_PUSHDATA1, OP_PUSHDATA2, OP_PUSHDATA4,
  OP_PUSH1, OP_PUSH16, OP_CHECKSIG, OP_CHECKMULTISIG in *.

Ltac decide_eqb x y :=
  let E := fresh "E" in
  destruct (N.eqb_spec x y) as [E|E]; [try (exfalso; op_consts; lia)|try (exfalso; op_consts; lia)].

Lemma push_bytes_some d : d <> [] -> N.of_nat (length d) < two32 ->
  exists hdr, push_bytes d = Some (hdr ++ d) /\
    exists c rest, hdr = c :: rest /\ 1 <= c <= OP_PUSHDATA4 /\ (length rest <= 4)%nat.
Proof.
  intros Hne Hl. unfold push_bytes.
  assert (Hn : N.of_nat (length d) <> 0) by (destruct d; [congruence|simpl; lia]).
  destruct (N.eqb_spec (N.of_nat (length d)) 0) as [E|_]; [congruence|].
  set (n := N.of_nat (length d)) in *.
  destruct (Z.leb_spec (Z.of_N n) (Z.of_N OP_PUSHBYTES75 + 1 - Z.of_N OP_PUSHBYTES1)) as [A|A].
  - eexists [_]. split; [reflexivity|]. eexists _, []. split; [reflexivity|].
    unfold uint8 in *. op_consts. simpl length. lia.
  - destruct (N.ltb_spec n 256).
    { exists (OP_PUSHDATA1 :: write_uint8 n). split; [rewrite <- app_comm_cons; reflexivity|].
      eexists _, _. split; [reflexivity|]. op_consts. simpl length. lia. }
    destruct (N.ltb_spec n 65536).
    { exists (OP_PUSHDATA2 :: write_uint16 n). split; [rewrite <- app_comm_cons; reflexivity|].
      eexists _, _. split; [reflexivity|]. unfold write_uint16. rewrite le_encode_length. op_consts.
      replace UINT16_SIZE with 2%nat by reflexivity. lia. }
    exists (OP_PUSHDATA4 :: write_uint32 n). split; [rewrite <- app_comm_cons; reflexivity|].
    eexists _, _. split; [reflexivity|]. unfold write_uint32. rewrite le_encode_length. op_consts.
    replace UINT32_SIZE with 4%nat by reflexivity. lia.
Qed.

Lemma read_bytes_at s d enc r :
  push_bytes d = Some enc -> N.of_nat (length d) < two32 -> src_at s (enc ++ r) ->
  exists s', read_bytes s = inl (d, s') /\ src_at s' r.
Proof.
  intros Hp Hl Hs. unfold push_bytes in Hp.
  set (n := N.of_nat (length d)) in *.
  destruct (N.eqb_spec n 0) as [E|Hn]; [discriminate|].
  destruct (Z.leb_spec (Z.of_N n) (Z.of_N OP_PUSHBYTES75 + 1 - Z.of_N OP_PUSHBYTES1)) as [A|A].
  - (* PUSHBYTESn *)
    inversion Hp; subst enc; clear Hp.
    assert (Ec : uint8 (uint8 n + uint8 OP_PUSHBYTES1 + 255) = n) by (unfold uint8; op_consts; lia).
    rewrite Ec in Hs. rewrite <- app_comm_cons in Hs.
    destruct (read_opcode_at s _ _ Hs) as (s1 & Q1 & Hs1).
    unfold read_bytes. rewrite Q1.
    decide_eqb n OP_PUSHDATA4. decide_eqb n OP_PUSHDATA2. decide_eqb n OP_PUSHDATA1.
    replace ((n <=? OP_PUSHBYTES75) && (OP_PUSHBYTES1 <=? n)) with true
      by (symmetry; apply andb_true_iff; split; apply N.leb_le; op_consts; lia).
    replace ((n + two64 - OP_PUSHBYTES1 + 1) mod two64) with n.
    2:{ replace (n + two64 - OP_PUSHBYTES1 + 1) with (n + 1 * two64) by (op_consts; lia).
        rewrite N.mod_add by discriminate. symmetry; apply N.mod_small. pose proof two32_lt_two64. lia. }
    cbv beta iota zeta.
    destruct (next_bytes_at' s1 d r Hs1) as (s3 & Q3 & Hs3). fold n in Q3. rewrite Q3.
    exists s3. split; [reflexivity|exact Hs3].
  - destruct (N.ltb_spec n 256) as [B|B].
    { (* PUSHDATA1 *)
      inversion Hp; subst enc; clear Hp. unfold write_uint8 in Hs.
      rewrite N.mod_small in Hs by exact B.
      rewrite <- !app_comm_cons in Hs. simpl app in Hs.
      destruct (read_opcode_at s _ _ Hs) as (s1 & Q1 & Hs1).
      unfold read_bytes. rewrite Q1.
      decide_eqb OP_PUSHDATA1 OP_PUSHDATA4. decide_eqb OP_PUSHDATA1 OP_PUSHDATA2.
      decide_eqb OP_PUSHDATA1 OP_PUSHDATA1.
      destruct (next_byte_at s1 _ _ Hs1) as (s2 & Q2 & Hs2). rewrite Q2.
      cbv beta iota zeta.
      destruct (next_bytes_at' s2 d r Hs2) as (s3 & Q3 & Hs3). fold n in Q3. rewrite Q3.
      exists s3. split; [reflexivity|exact Hs3]. }
    destruct (N.ltb_spec n 65536) as [C|C].
    { (* PUSHDATA2 *)
      inversion Hp; subst enc; clear Hp.
      assert (Hs' : src_at s (OP_PUSHDATA2 :: le_encode 2 n ++ d ++ r)) by exact Hs. clear Hs; rename Hs' into Hs.
      destruct (read_opcode_at s _ _ Hs) as (s1 & Q1 & Hs1).
      unfold read_bytes. rewrite Q1.
      decide_eqb OP_PUSHDATA2 OP_PUSHDATA4. decide_eqb OP_PUSHDATA2 OP_PUSHDATA2.
      destruct (next_uint_at' 2 n s1 (d ++ r)) as (s2 & Q2 & Hs2); [exact C|exact Hs1|].
      unfold next_uint16. replace UINT16_SIZE with 2%nat by reflexivity. rewrite Q2.
      cbv beta iota zeta.
      destruct (next_bytes_at' s2 d r Hs2) as (s3 & Q3 & Hs3). fold n in Q3. rewrite Q3.
      exists s3. split; [reflexivity|exact Hs3]. }
    (* PUSHDATA4 *)
    inversion Hp; subst enc; clear Hp.
    assert (Hs' : src_at s (OP_PUSHDATA4 :: le_encode 4 n ++ d ++ r)) by exact Hs. clear Hs; rename Hs' into Hs.
    destruct (read_opcode_at s _ _ Hs) as (s1 & Q1 & Hs1).
    unfold read_bytes. rewrite Q1.
    decide_eqb OP_PUSHDATA4 OP_PUSHDATA4.
    destruct (next_uint_at' 4 n s1 (d ++ r)) as (s2 & Q2 & Hs2); [exact Hl|exact Hs1|].
    unfold next_uint32. replace UINT32_SIZE with 4%nat by reflexivity. rewrite Q2.
    cbv beta iota zeta.
    destruct (next_bytes_at' s2 d r Hs2) as (s3 & Q3 & Hs3). fold n in Q3. rewrite Q3.
    exists s3. split; [reflexivity|exact Hs3].
Qed.

(** * 4. Numbers pushed by PushNum (a uint16) and read by ReadNum *)

Fixpoint nrange (f : nat) (i : N) : list N :=
  match f with O => [] | S f' => i :: nrange f' (N.succ i) end.

Lemma nrange_in f : forall i v, i <= v < i + N.of_nat f -> In v (nrange f i).
Proof.
  induction f as [|f IH]; intros i v H; [lia|]. simpl.
  destruct (N.eq_dec i v) as [->|Hne]; [left; reflexivity|right]. apply IH. lia.
Qed.

(** What the builder and parser need to know about BigIntToNeoBytes / BigIntFromNeoBytes /
    Int64 on the uint16 range: a complete sweep of 0..65535. *)
Definition num_fact (v : N) : bool :=
  let b := neo_of_N v in
  (length b <=? 3)%nat &&
  (if v =? 0 then bytes_eqb b [] else (1 <=? length b)%nat) &&
  (int64_of_Z (neo_to_Z b) =? Z.of_N v)%Z &&
  (if (1 <=? v) && (v <=? 16) then bytes_eqb b [v] else true) &&
  wf_bytes b.

Lemma num_sweep : forallb num_fact (nrange (N.to_nat 65536) 0) = true.
Proof. Time vm_compute. reflexivity. Qed.

Lemma num_fact_all v : v <= 65535 -> num_fact v = true.
Proof.
  intro H. pose proof num_sweep as S. rewrite forallb_forall in S. apply S.
  apply nrange_in. rewrite N2Nat.id. lia.
Qed.

Lemma neo_small v : 1 <= v <= 16 -> neo_of_N v = [v].
Proof.
  intro H. pose proof (num_fact_all v ltac:(lia)) as F. unfold num_fact in F.
  replace ((1 <=? v) && (v <=? 16)) with true in F
    by (symmetry; apply andb_true_iff; split; apply N.leb_le; lia).
  repeat (apply andb_prop in F; destruct F as [F ?]).
  apply bytes_eqb_eq; assumption.
Qed.

Lemma neo_zero : neo_of_N 0 = []. Proof. reflexivity. Qed.

Lemma neo_big v : 16 < v <= 65535 ->
  neo_of_N v <> [] /\ (length (neo_of_N v) <= 3)%nat /\ int64_of_Z (neo_to_Z (neo_of_N v)) = Z.of_N v.
Proof.
  intro H. pose proof (num_fact_all v ltac:(lia)) as F. unfold num_fact in F.
  replace (v =? 0) with false in F by (symmetry; apply N.eqb_neq; lia).
  repeat (apply andb_prop in F; destruct F as [F ?]).
  repeat split.
  - intro E. rewrite E in *. discriminate.
  - apply Nat.leb_le; assumption.
  - apply Z.eqb_eq; assumption.
Qed.

Lemma push_num_small v : 1 <= v <= 16 -> push_num v = Some [OP_PUSH1 + v - 1].
Proof.
  intro H. unfold push_num.
  replace (v =? 0) with false by (symmetry; apply N.eqb_neq; lia).
  replace (v <=? 16) with true by (symmetry; apply N.leb_le; lia).
  do 2 f_equal. unfold uint8. op_consts. lia.
Qed.

Lemma push_num_big v : 16 < v -> push_num v = push_bytes (neo_of_N v).
Proof.
  intro H. unfold push_num.
  replace (v =? 0) with false by (symmetry; apply N.eqb_neq; lia).
  replace (v <=? 16) with false by (symmetry; apply N.leb_gt; lia). reflexivity.
Qed.

Lemma small_num_push v : 1 <= v <= 16 -> small_num (OP_PUSH1 + v - 1) = Some v.
Proof.
  intro H. unfold small_num.
  replace (Z.of_N (OP_PUSH1 + v - 1) - Z.of_N OP_PUSH1 + 1)%Z with (Z.of_N v) by (op_consts; lia).
  replace ((1 <=? Z.of_N v)%Z && (Z.of_N v <=? 16)%Z) with true
    by (symmetry; apply andb_true_iff; split; apply Z.leb_le; lia).
  rewrite N2Z.id. reflexivity.
Qed.

Lemma small_num_none c : c < OP_PUSH1 \/ OP_PUSH1 + 15 < c -> small_num c = None.
Proof.
  intro H. unfold small_num.
  destruct ((1 <=? Z.of_N c - Z.of_N OP_PUSH1 + 1)%Z && (Z.of_N c - Z.of_N OP_PUSH1 + 1 <=? 16)%Z) eqn:E; [|reflexivity].
  apply andb_prop in E. destruct E as [E1 E2]. apply Z.leb_le in E1, E2. op_consts. lia.
Qed.

Lemma small_num_some c v : small_num c = Some v -> 1 <= v <= 16 /\ c = OP_PUSH1 + v - 1.
Proof.
  unfold small_num.
  destruct ((1 <=? Z.of_N c - Z.of_N OP_PUSH1 + 1)%Z && (Z.of_N c - Z.of_N OP_PUSH1 + 1 <=? 16)%Z) eqn:E; [|discriminate].
  intro H. inversion H; subst; clear H. apply andb_prop in E. destruct E as [E1 E2]. apply Z.leb_le in E1, E2. op_consts. lia.
Qed.

(** ReadNum reads back what PushNum wrote, for every uint16. *)
Lemma read_num_at s v enc r : v <= 65535 -> push_num v = Some enc -> src_at s (enc ++ r) ->
  exists s', read_num s = inl (v, s') /\ src_at s' r.
Proof.
  intros Hv Hp Hs. unfold read_num.
  destruct (N.eq_dec v 0) as [->|Hnz].
  - injection Hp as <-. cbn [app] in Hs.
    rewrite (peek_opcode_at _ _ _ Hs). rewrite N.eqb_refl.
    eexists. split; [reflexivity|]. eapply skip_opcode_at; exact Hs.
  - destruct (N.le_gt_cases v 16) as [Hs16|Hb].
    + rewrite push_num_small in Hp by lia.
      assert (Eenc : enc = [OP_PUSH1 + v - 1]) by congruence. subst enc. clear Hp. cbn [app] in Hs.
      rewrite (peek_opcode_at _ _ _ Hs).
      replace (OP_PUSH1 + v - 1 =? OP_PUSH0) with false by (symmetry; apply N.eqb_neq; op_consts; lia).
      rewrite small_num_push by lia.
      eexists. split; [reflexivity|]. eapply skip_opcode_at; exact Hs.
    + rewrite push_num_big in Hp by lia.
      destruct (neo_big v ltac:(lia)) as (Hne & Hlen & Hval).
      destruct (push_bytes_some (neo_of_N v) Hne) as (hdr & Hpb & c & rest & -> & Hc & _).
      { unfold two32. lia. }
      rewrite Hpb in Hp. injection Hp as <-.
      assert (Hs0 := Hs). rewrite <- !app_comm_cons in Hs0.
      rewrite (peek_opcode_at _ _ _ Hs0).
      replace (c =? OP_PUSH0) with false by (symmetry; apply N.eqb_neq; op_consts; lia).
      rewrite small_num_none by (op_consts; lia).
      destruct (read_bytes_at s (neo_of_N v) _ r Hpb) as (s' & Er & Hs'); [unfold two32; lia|exact Hs|].
      rewrite Er, Hval.
      replace ((65535 <? Z.of_N v)%Z || (Z.of_N v <=? 16)%Z) with false.
      2:{ symmetry. apply orb_false_iff. split; [apply Z.ltb_ge|apply Z.leb_gt]; lia. }
      rewrite N2Z.id. exists s'. split; [reflexivity|exact Hs'].
Qed.

(** * 5. Parsing what the builder wrote *)

Lemma push_all_app a b ea eb :
  push_all a = Some ea -> push_all b = Some eb -> push_all (a ++ b) = Some (ea ++ eb).
Proof.
  revert ea. induction a as [|d a IH]; intros ea Ha Hb; simpl in *.
  - injection Ha as <-. exact Hb.
  - destruct (push_bytes d) as [x|]; [|discriminate]. simpl in *.
    destruct (push_all a) as [y|]; [|discriminate]. simpl in *.
    injection Ha as <-. rewrite (IH y eq_refl Hb). simpl. rewrite app_assoc. reflexivity.
Qed.

Lemma push_all_app_inv a b e :
  push_all (a ++ b) = Some e -> exists ea eb, push_all a = Some ea /\ push_all b = Some eb /\ e = ea ++ eb.
Proof.
  revert e. induction a as [|d a IH]; intros e H; simpl in *.
  - exists [], e. auto.
  - destruct (push_bytes d) as [x|]; [|discriminate]. simpl in *.
    destruct (push_all (a ++ b)) as [y|] eqn:E; [|discriminate]. simpl in *.
    injection H as <-. destruct (IH y eq_refl) as (ea & eb & -> & Hb & ->).
    exists (x ++ ea), eb. simpl. rewrite app_assoc. auto.
Qed.

Lemma read_buffers_S f s :
  read_buffers (S f) s =
  match peek_opcode s with
  | inr e => inr e
  | inl (code, s0) =>
    if code =? OP_CHECKMULTISIG then inl ([], skip_opcode s0)
    else if code =? OP_PUSH0 then
      match read_buffers f (skip_opcode s0) with inr e => inr e | inl (bs, s2) => inl (neo_of_N 0 :: bs, s2) end
    else match small_num code with
    | Some num =>
      match read_buffers f (skip_opcode s0) with inr e => inr e | inl (bs, s2) => inl (neo_of_N num :: bs, s2) end
    | None =>
      match read_bytes s0 with
      | inr e => inr e
      | inl (b, s1) =>
        match read_buffers f s1 with inr e => inr e | inl (bs, s2) => inl (b :: bs, s2) end
      end
    end
  end.
Proof. reflexivity. Qed.

Section WithDeser.
Variable deser : bytes -> option pubkey.

(** A key the script functions can handle: DeserializePublicKey inverts SerializePublicKey on it,
    and its serialization is non-empty and shorter than 2^32 bytes. *)
Definition key_ok (k : pubkey) : Prop :=
  deser (pk_ser k) = Some k /\ pk_ser k <> [] /\ N.of_nat (length (pk_ser k)) < two32.

Lemma push_all_ok ks : Forall key_ok ks -> exists enc, push_all (map pk_ser ks) = Some enc.
Proof.
  induction 1 as [|k ks (Hd & Hne & Hl) _ (enc & IH)]; simpl; [eauto|].
  destruct (push_bytes_some _ Hne Hl) as (hdr & -> & _). simpl. rewrite IH. simpl. eauto.
Qed.

Lemma read_pubkey_at s k enc r : key_ok k -> push_bytes (pk_ser k) = Some enc -> src_at s (enc ++ r) ->
  exists s', read_pubkey deser s = inl (k, s') /\ src_at s' r.
Proof.
  intros (Hd & Hne & Hl) Hp Hs.
  destruct (read_bytes_at s _ _ r Hp Hl Hs) as (s' & E & Hs').
  exists s'. split; [|exact Hs']. unfold read_pubkey. rewrite E, Hd. reflexivity.
Qed.

Lemma read_pubkeys_at ks : forall fuel s enc r,
  Forall key_ok ks -> push_all (map pk_ser ks) = Some enc -> src_at s (enc ++ r) ->
  (length ks < fuel)%nat ->
  exists s', read_pubkeys deser fuel s (N.of_nat (length ks)) = inl (ks, s') /\ src_at s' r.
Proof.
  induction ks as [|k ks IH]; intros fuel s enc r Hk Hp Hs Hf;
    (destruct fuel as [|f]; [simpl in Hf; lia|]).
  - simpl in Hp. injection Hp as <-. exists s. split; [reflexivity|exact Hs].
  - inversion Hk as [|? ? Hk1 Hk2]; subst. simpl in Hp.
    destruct (push_bytes (pk_ser k)) as [a|] eqn:Ea; [|discriminate]. simpl in Hp.
    destruct (push_all (map pk_ser ks)) as [b|] eqn:Eb; [|discriminate]. simpl in Hp.
    injection Hp as <-. rewrite <- app_assoc in Hs.
    destruct (read_pubkey_at s k a (b ++ r) Hk1 Ea Hs) as (s1 & E1 & Hs1).
    destruct (IH f s1 b r Hk2 eq_refl Hs1) as (s2 & E2 & Hs2); [simpl in Hf; lia|].
    exists s2. split; [|exact Hs2].
    cbn [read_pubkeys length].
    replace (N.of_nat (S (length ks)) =? 0) with false by (symmetry; apply N.eqb_neq; lia).
    rewrite E1. replace (N.of_nat (S (length ks)) - 1) with (N.of_nat (length ks)) by lia.
    rewrite E2. reflexivity.
Qed.

Lemma read_buffers_end f s r : src_at s (OP_CHECKMULTISIG :: r) ->
  exists s', read_buffers (S f) s = inl ([], s') /\ src_at s' r.
Proof.
  intro Hs. rewrite read_buffers_S, (peek_opcode_at _ _ _ Hs), N.eqb_refl.
  eexists. split; [reflexivity|]. eapply skip_opcode_at; exact Hs.
Qed.

Lemma read_buffers_count f s n cn r : n <= 65535 -> push_num n = Some cn ->
  src_at s (cn ++ OP_CHECKMULTISIG :: r) ->
  exists s', read_buffers (S (S f)) s = inl ([neo_of_N n], s') /\ src_at s' r.
Proof.
  intros Hn Hp Hs. rewrite read_buffers_S.
  destruct (N.eq_dec n 0) as [->|Hnz].
  - assert (cn = [OP_PUSH0]) by (unfold push_num in Hp; simpl in Hp; congruence). subst cn. cbn [app] in Hs.
    rewrite (peek_opcode_at _ _ _ Hs).
    replace (OP_PUSH0 =? OP_CHECKMULTISIG) with false by reflexivity. rewrite N.eqb_refl.
    destruct (read_buffers_end f (skip_opcode s) r) as (s' & E & Hs'); [eapply skip_opcode_at; exact Hs|].
    rewrite E. exists s'. split; [reflexivity|exact Hs'].
  - destruct (N.le_gt_cases n 16) as [Hs16|Hb].
    + rewrite push_num_small in Hp by lia.
      assert (cn = [OP_PUSH1 + n - 1]) by congruence. subst cn. clear Hp. cbn [app] in Hs.
      rewrite (peek_opcode_at _ _ _ Hs).
      replace (OP_PUSH1 + n - 1 =? OP_CHECKMULTISIG) with false by (symmetry; apply N.eqb_neq; op_consts; lia).
      replace (OP_PUSH1 + n - 1 =? OP_PUSH0) with false by (symmetry; apply N.eqb_neq; op_consts; lia).
      rewrite small_num_push by lia.
      destruct (read_buffers_end f (skip_opcode s) r) as (s' & E & Hs'); [eapply skip_opcode_at; exact Hs|].
      rewrite E. exists s'. split; [reflexivity|exact Hs'].
    + rewrite push_num_big in Hp by lia.
      destruct (neo_big n ltac:(lia)) as (Hne & Hlen & _).
      destruct (push_bytes_some (neo_of_N n) Hne) as (hdr & Hpb & c & rest & -> & Hc & _); [unfold two32; lia|].
      assert (cn = (c :: rest) ++ neo_of_N n) by congruence. subst cn. clear Hp.
      assert (Hs0 := Hs). rewrite <- !app_comm_cons in Hs0.
      rewrite (peek_opcode_at _ _ _ Hs0).
      replace (c =? OP_CHECKMULTISIG) with false by (symmetry; apply N.eqb_neq; op_consts; lia).
      replace (c =? OP_PUSH0) with false by (symmetry; apply N.eqb_neq; op_consts; lia).
      rewrite small_num_none by (op_consts; lia).
      destruct (read_bytes_at s (neo_of_N n) _ (OP_CHECKMULTISIG :: r) Hpb) as (s1 & Er & Hs1); [unfold two32; lia|exact Hs|].
      rewrite Er.
      destruct (read_buffers_end f s1 r Hs1) as (s' & E & Hs').
      rewrite E. exists s'. split; [reflexivity|exact Hs'].
Qed.

Lemma read_buffers_at ks : forall fuel s enc n cn r,
  Forall key_ok ks -> push_all (map pk_ser ks) = Some enc ->
  n <= 65535 -> push_num n = Some cn ->
  src_at s (enc ++ cn ++ OP_CHECKMULTISIG :: r) -> (length ks + 1 < fuel)%nat ->
  exists s', read_buffers fuel s = inl (map pk_ser ks ++ [neo_of_N n], s') /\ src_at s' r.
Proof.
  induction ks as [|k ks IH]; intros fuel s enc n cn r Hk Hp Hn Hc Hs Hf.
  - simpl in Hp. injection Hp as <-. cbn [app] in Hs.
    destruct fuel as [|[|f]]; try (simpl in Hf; lia).
    apply (read_buffers_count f s n cn r Hn Hc Hs).
  - destruct fuel as [|f]; [lia|].
    inversion Hk as [|? ? Hk1 Hk2]; subst. simpl in Hp.
    destruct (push_bytes (pk_ser k)) as [a|] eqn:Ea; [|discriminate]. simpl in Hp.
    destruct (push_all (map pk_ser ks)) as [b|] eqn:Eb; [|discriminate]. simpl in Hp.
    injection Hp as <-. rewrite <- app_assoc in Hs.
    destruct Hk1 as (Hd & Hne & Hl).
    destruct (push_bytes_some _ Hne Hl) as (hdr & Hpb & c & rest & -> & Hcc & _).
    assert (a = (c :: rest) ++ pk_ser k) by congruence. subst a.
    assert (Hs0 := Hs). rewrite <- !app_comm_cons in Hs0.
    rewrite read_buffers_S, (peek_opcode_at _ _ _ Hs0).
    replace (c =? OP_CHECKMULTISIG) with false by (symmetry; apply N.eqb_neq; op_consts; lia).
    replace (c =? OP_PUSH0) with false by (symmetry; apply N.eqb_neq; op_consts; lia).
    rewrite small_num_none by (op_consts; lia).
    destruct (read_bytes_at s (pk_ser k) _ _ Hpb Hl Hs) as (s1 & Er & Hs1). rewrite Er.
    destruct (IH f s1 b n cn r Hk2 eq_refl Hn Hc Hs1) as (s2 & E2 & Hs2); [simpl in Hf; lia|].
    rewrite E2. exists s2. split; [reflexivity|exact Hs2].
Qed.

Lemma deser_all_sers ks : Forall key_ok ks -> deser_all deser (map pk_ser ks) = Some ks.
Proof.
  induction 1 as [|k ks (Hd & _) _ IH]; simpl; [reflexivity|]. rewrite Hd. simpl. rewrite IH. reflexivity.
Qed.

End WithDeser.
