(** Proofs/Determinism.v -- order-independence lemmas for the loops over Go maps mirrored in
    Model/Determinism.v Part A, for ALL visiting orders (permutations), and the two refutations. *)
From Coq Require Import List Bool NArith Permutation Sorted Lia.
Import ListNotations.
From Ont Require Import Lib.Bytes Model.WriteSet Proofs.WriteSet Model.Determinism.
Local Open Scope N_scope.

(** * Generic: folds whose body commutes *)

Lemma range_fold_perm {E S : Type} (body : S -> E -> S) :
  (forall s a b, body (body s a) b = body (body s b) a) ->
  forall l1 l2, Permutation l1 l2 -> forall s, range_fold body l1 s = range_fold body l2 s.
Proof.
  intros Hc l1 l2 HP. unfold range_fold.
  induction HP; intro s; simpl.
  - reflexivity.
  - apply IHHP.
  - rewrite Hc. reflexivity.
  - rewrite IHHP1. apply IHHP2.
Qed.

(** Bodies that commute only on entries with DIFFERENT keys (Go map keys are unique). *)
Lemma range_fold_perm_distinct {E S K : Type} (key : E -> K) (body : S -> E -> S) :
  (forall s a b, key a <> key b -> body (body s a) b = body (body s b) a) ->
  forall l1 l2, Permutation l1 l2 -> NoDup (map key l1) ->
  forall s, range_fold body l1 s = range_fold body l2 s.
Proof.
  intros Hc l1 l2 HP. unfold range_fold.
  induction HP; intros Hnd s; simpl.
  - reflexivity.
  - apply IHHP. inversion Hnd; assumption.
  - rewrite Hc; [reflexivity|].
    simpl in Hnd. inversion Hnd as [|? ? Hni _]; subst. intro Heq. apply Hni. left. symmetry. exact Heq.
  - rewrite IHHP1 by assumption. apply IHHP2.
    eapply Permutation_NoDup; [apply Permutation_map; exact HP1| exact Hnd].
Qed.

(** The same up to an equivalence on states that the body respects (maps compared extensionally). *)
Lemma range_fold_perm_equiv {E S : Type} (R : S -> S -> Prop) (body : S -> E -> S) :
  (forall s, R s s) -> (forall a b c, R a b -> R b c -> R a c) ->
  (forall s s' a, R s s' -> R (body s a) (body s' a)) ->
  (forall s a b, R (body (body s a) b) (body (body s b) a)) ->
  forall l1 l2, Permutation l1 l2 -> forall s s', R s s' -> R (range_fold body l1 s) (range_fold body l2 s').
Proof.
  intros Hr Ht Hb Hc l1 l2 HP. unfold range_fold.
  assert (Hcong : forall l s s', R s s' -> R (fold_left body l s) (fold_left body l s')).
  { induction l; intros; simpl; auto. }
  induction HP; intros s s' Hs; simpl.
  - exact Hs.
  - apply IHHP. apply Hb. exact Hs.
  - apply Hcong. eapply Ht; [apply Hc|]. apply Hb. apply Hb. exact Hs.
  - eapply Ht; [apply IHHP1; apply Hr|]. apply IHHP2. exact Hs.
Qed.

(** * A1: collected keys, witness membership *)

Lemma collect_append {A B : Type} (f : A -> list B) (l : list A) (acc : list B) :
  fold_left (fun acc a => acc ++ f a) l acc = acc ++ flat_map f l.
Proof.
  revert acc; induction l; intro acc; simpl.
  - rewrite app_nil_r. reflexivity.
  - rewrite IHl. rewrite app_assoc. reflexivity.
Qed.

Lemma collect_keys_spec {K V : Type} (order : list (K * V)) : collect_keys order = map fst order.
Proof.
  unfold collect_keys, range_fold.
  rewrite (collect_append (fun kv => [fst kv])). simpl.
  induction order; simpl; congruence.
Qed.

Lemma check_witness_in signers a : check_witness signers a = true <-> In a signers.
Proof.
  unfold check_witness. rewrite existsb_exists. split.
  - intros [v [Hin Hv]]. apply bytes_eqb_eq in Hv. subst. exact Hin.
  - intro Hin. exists a. split; [exact Hin|]. apply bytes_eqb_eq. reflexivity.
Qed.

Lemma bool_eq_iff (a b : bool) : (a = true <-> b = true) -> a = b.
Proof. destruct a, b; intuition congruence. Qed.

(** the witness test sees the signer list only as a set *)
Lemma check_witness_set_eq l1 l2 :
  (forall a, In a l1 <-> In a l2) -> forall a, check_witness l1 a = check_witness l2 a.
Proof. intros H a. apply bool_eq_iff. rewrite !check_witness_in. apply H. Qed.

Lemma check_witness_perm l1 l2 : Permutation l1 l2 -> forall a, check_witness l1 a = check_witness l2 a.
Proof.
  intros HP. apply check_witness_set_eq. intro a. split; apply Permutation_in; [|symmetry]; exact HP.
Qed.

(** the validator's loop followed by checkAccountAddress: any two visiting orders of the `address`
    map authorize exactly the same accounts *)
Lemma witness_membership_order_free {V : Type} (o1 o2 : list (bytes * V)) :
  Permutation o1 o2 -> forall a, check_witness (collect_keys o1) a = check_witness (collect_keys o2) a.
Proof.
  intros HP. rewrite !collect_keys_spec. apply check_witness_perm. apply Permutation_map. exact HP.
Qed.

(** * A2: map copy and per-key update *)
Section AMapProofs.
  Variable K V : Type.
  Variable keqb : K -> K -> bool.
  Hypothesis keqb_spec : forall a b, keqb a b = true <-> a = b.

  Lemma keqb_refl a : keqb a a = true. Proof. apply keqb_spec. reflexivity. Qed.
  Lemma keqb_false a b : a <> b -> keqb a b = false.
  Proof. intro H. destruct (keqb a b) eqn:E; [apply keqb_spec in E; contradiction|reflexivity]. Qed.

  Lemma am_get_set k0 v0 (m : list (K * V)) k :
    am_get keqb k (am_set keqb k0 v0 m) = if keqb k0 k then Some v0 else am_get keqb k m.
  Proof.
    induction m as [|[k' v'] r IH]; simpl.
    - reflexivity.
    - destruct (keqb k' k0) eqn:E0; simpl.
      + apply keqb_spec in E0. subst k'. destruct (keqb k0 k); reflexivity.
      + destruct (keqb k' k) eqn:E1.
        * apply keqb_spec in E1. subst k'.
          destruct (keqb k0 k) eqn:E2; [|reflexivity].
          apply keqb_spec in E2. subst. rewrite keqb_refl in E0. discriminate.
        * exact IH.
  Qed.

  Lemma am_get_none k (l : list (K * V)) : ~ In k (map fst l) -> am_get keqb k l = None.
  Proof.
    induction l as [|[k' v'] r IH]; simpl; intro H; [reflexivity|].
    rewrite keqb_false by (intro; subst; apply H; left; reflexivity). apply IH. tauto.
  Qed.

  Lemma fold_set_get (order : list (K * V)) : NoDup (map fst order) -> forall m k,
    am_get keqb k (fold_left (fun m kv => am_set keqb (fst kv) (snd kv) m) order m) =
    match am_get keqb k order with Some v => Some v | None => am_get keqb k m end.
  Proof.
    induction order as [|[k0 v0] r IH]; intros Hnd m k; simpl.
    - reflexivity.
    - inversion Hnd as [|? ? Hni Hnd']; subst.
      rewrite IH by assumption. rewrite am_get_set.
      destruct (keqb k0 k) eqn:E.
      + apply keqb_spec in E. subst k. rewrite (am_get_none k0 r Hni). reflexivity.
      + reflexivity.
  Qed.

  (** the copy holds exactly the source entries *)
  Lemma map_copy_get (order : list (K * V)) : NoDup (map fst order) -> forall k,
    am_get keqb k (map_copy keqb order) = am_get keqb k order.
  Proof.
    intros Hnd k. unfold map_copy, range_fold. rewrite fold_set_get by assumption.
    destruct (am_get keqb k order); reflexivity.
  Qed.

  Lemma am_get_in k v (l : list (K * V)) : NoDup (map fst l) -> (am_get keqb k l = Some v <-> In (k, v) l).
  Proof.
    induction l as [|[k' v'] r IH]; simpl; intro Hnd.
    - split; [discriminate|tauto].
    - inversion Hnd as [|? ? Hni Hnd']; subst. destruct (keqb k' k) eqn:E.
      + apply keqb_spec in E. subst k'. split.
        * intro H. injection H as ->. left. reflexivity.
        * intros [H|H]; [injection H as ->; reflexivity|].
          exfalso. apply Hni. change k with (fst (k, v)). apply in_map. exact H.
      + rewrite IH by assumption. split; [tauto|].
        intros [H|H]; [|exact H]. injection H as -> ->. rewrite keqb_refl in E. discriminate.
  Qed.

  Lemma am_get_perm (l1 l2 : list (K * V)) : Permutation l1 l2 -> NoDup (map fst l1) ->
    forall k, am_get keqb k l1 = am_get keqb k l2.
  Proof.
    intros HP Hnd k.
    assert (Hnd2 : NoDup (map fst l2)) by (eapply Permutation_NoDup; [apply Permutation_map; exact HP|exact Hnd]).
    destruct (am_get keqb k l1) as [v|] eqn:E1.
    - apply am_get_in in E1; [|assumption]. symmetry. apply am_get_in; [assumption|].
      eapply Permutation_in; eassumption.
    - destruct (am_get keqb k l2) as [v|] eqn:E2; [|reflexivity].
      apply am_get_in in E2; [|assumption].
      assert (In (k, v) l1) by (eapply Permutation_in; [symmetry; exact HP|exact E2]).
      apply am_get_in in H; [|assumption]. congruence.
  Qed.

  (** L_map_copy: whatever order the runtime visits the source in, the copy is the same map *)
  Lemma map_copy_order_free (o1 o2 : list (K * V)) : Permutation o1 o2 -> NoDup (map fst o1) ->
    forall k, am_get keqb k (map_copy keqb o1) = am_get keqb k (map_copy keqb o2).
  Proof.
    intros HP Hnd k.
    assert (Hnd2 : NoDup (map fst o2)) by (eapply Permutation_NoDup; [apply Permutation_map; exact HP|exact Hnd]).
    rewrite !map_copy_get by assumption. apply am_get_perm; assumption.
  Qed.

  Lemma per_key_update_get (upd : K -> option V) (order : list (K * V)) :
    forall m k,
    am_get keqb k (per_key_update keqb upd order m) =
    if existsb (fun kv => keqb (fst kv) k) order
    then match upd k with Some v => Some v | None => am_get keqb k m end
    else am_get keqb k m.
  Proof.
    unfold per_key_update, range_fold.
    induction order as [|[k0 v0] r IH]; intros m k; simpl.
    - reflexivity.
    - rewrite IH. destruct (upd k0) as [u|] eqn:Eu.
      + rewrite am_get_set. destruct (keqb k0 k) eqn:E; simpl.
        * apply keqb_spec in E. subst k0. rewrite Eu.
          destruct (existsb (fun kv => keqb (fst kv) k) r); reflexivity.
        * reflexivity.
      + destruct (keqb k0 k) eqn:E; simpl; [|reflexivity].
        apply keqb_spec in E. subst k0. rewrite Eu.
        destruct (existsb (fun kv => keqb (fst kv) k) r); reflexivity.
  Qed.

  Lemma existsb_perm {A : Type} (p : A -> bool) l1 l2 : Permutation l1 l2 -> existsb p l1 = existsb p l2.
  Proof.
    intro HP. apply bool_eq_iff. rewrite !existsb_exists.
    split; intros [x [Hin Hp]]; exists x; (split; [|exact Hp]).
    - eapply Permutation_in; [exact HP|exact Hin].
    - eapply Permutation_in; [symmetry; exact HP|exact Hin].
  Qed.

  (** L_per_key_update *)
  Lemma per_key_update_order_free upd (o1 o2 : list (K * V)) m : Permutation o1 o2 ->
    forall k, am_get keqb k (per_key_update keqb upd o1 m) = am_get keqb k (per_key_update keqb upd o2 m).
  Proof.
    intros HP k. rewrite !per_key_update_get. rewrite (existsb_perm _ o1 o2 HP). reflexivity.
  Qed.
End AMapProofs.

(** * A3: counting *)
Lemma count_if_order_free {E : Type} (p : E -> bool) o1 o2 :
  Permutation o1 o2 -> count_if p o1 = count_if p o2.
Proof.
  intro HP. unfold count_if. apply range_fold_perm; [|exact HP].
  intros s a b. destruct (p a), (p b); lia.
Qed.

(** * A4: collect then sort *)
Section SortProofs.
  Variable E : Type.
  Variable leb : E -> E -> bool.
  Hypothesis leb_total : forall a b, leb a b = true \/ leb b a = true.
  Hypothesis leb_trans : forall a b c, leb a b = true -> leb b c = true -> leb a c = true.
  Hypothesis leb_antisym : forall a b, leb a b = true -> leb b a = true -> a = b.

  Let le a b := leb a b = true.

  Lemma insert_perm x l : Permutation (insert_sorted leb x l) (x :: l).
  Proof.
    induction l as [|y r IH]; simpl; [reflexivity|].
    destruct (leb x y); [reflexivity|].
    rewrite perm_swap. apply perm_skip. exact IH.
  Qed.

  Lemma isort_perm l : Permutation (isort leb l) l.
  Proof.
    induction l; simpl; [reflexivity|]. rewrite insert_perm. apply perm_skip. exact IHl.
  Qed.

  Lemma insert_sorted_ok x l : StronglySorted le l -> StronglySorted le (insert_sorted leb x l).
  Proof.
    induction l as [|y r IH]; simpl; intro Hs.
    - constructor; constructor.
    - inversion Hs as [|? ? Hr Hall]; subst. destruct (leb x y) eqn:Exy.
      + constructor; [exact Hs|]. constructor; [exact Exy|].
        eapply Forall_impl; [|exact Hall]. intros z Hz. eapply leb_trans; eassumption.
      + constructor; [apply IH; exact Hr|].
        assert (Hyx : le y x) by (destruct (leb_total x y) as [H|H]; [congruence|exact H]).
        eapply Permutation_Forall; [symmetry; apply insert_perm|]. constructor; assumption.
  Qed.

  Lemma isort_sorted l : StronglySorted le (isort leb l).
  Proof. induction l; simpl; [constructor|apply insert_sorted_ok; exact IHl]. Qed.

  (** a list has at most one sorted arrangement *)
  Lemma sorted_perm_unique l1 : forall l2,
    StronglySorted le l1 -> StronglySorted le l2 -> Permutation l1 l2 -> l1 = l2.
  Proof.
    induction l1 as [|x r1 IH]; intros l2 H1 H2 HP.
    - apply Permutation_nil in HP. subst. reflexivity.
    - destruct l2 as [|y r2]; [symmetry in HP; apply Permutation_nil in HP; discriminate|].
      inversion H1 as [|? ? Hr1 Hall1]; subst. inversion H2 as [|? ? Hr2 Hall2]; subst.
      assert (Hxy : x = y).
      { assert (Hx : In x (y :: r2)) by (eapply Permutation_in; [exact HP|left; reflexivity]).
        assert (Hy : In y (x :: r1)) by (eapply Permutation_in; [symmetry; exact HP|left; reflexivity]).
        destruct Hx as [Hx|Hx]; [congruence|]. destruct Hy as [Hy|Hy]; [congruence|].
        rewrite Forall_forall in Hall1, Hall2. apply leb_antisym; [apply Hall1; exact Hy|apply Hall2; exact Hx]. }
      subst y. f_equal. apply IH; try assumption. eapply Permutation_cons_inv. exact HP.
  Qed.

  Lemma isort_order_free l1 l2 : Permutation l1 l2 -> isort leb l1 = isort leb l2.
  Proof.
    intro HP. apply sorted_perm_unique; try apply isort_sorted.
    rewrite !isort_perm. exact HP.
  Qed.

  (** ... and ANY sorting function agrees with it, so the choice of insertion sort is immaterial *)
  Lemma any_sort_is_isort (sort : list E -> list E) :
    (forall l, StronglySorted le (sort l)) -> (forall l, Permutation (sort l) l) ->
    forall l, sort l = isort leb l.
  Proof.
    intros Hs Hp l. apply sorted_perm_unique; [apply Hs|apply isort_sorted|].
    rewrite Hp, isort_perm. reflexivity.
  Qed.

  Definition osel {A : Type} (sel : A -> option E) (a : A) : list E :=
    match sel a with Some e => [e] | None => [] end.

  Lemma collected_spec {A : Type} (sel : A -> option E) (order : list A) : forall acc,
    fold_left (fun acc a => match sel a with Some e => acc ++ [e] | None => acc end) order acc =
    acc ++ flat_map (osel sel) order.
  Proof.
    induction order as [|a r IH]; intro acc; simpl.
    - rewrite app_nil_r. reflexivity.
    - rewrite IH. unfold osel at 2. destruct (sel a); simpl.
      + rewrite <- app_assoc. reflexivity.
      + reflexivity.
  Qed.

  Lemma flat_map_perm {A B : Type} (f : A -> list B) l1 l2 :
    Permutation l1 l2 -> Permutation (flat_map f l1) (flat_map f l2).
  Proof.
    induction 1; simpl.
    - reflexivity.
    - apply Permutation_app_head. assumption.
    - rewrite !app_assoc. apply Permutation_app_tail. apply Permutation_app_comm.
    - etransitivity; eassumption.
  Qed.

  (** L_collect_sort: collect (a selection of) the entries in visiting order, sort: order-free *)
  Lemma collect_sort_order_free {A : Type} (sel : A -> option E) (o1 o2 : list A) :
    Permutation o1 o2 -> collect_sort leb sel o1 = collect_sort leb sel o2.
  Proof.
    intro HP. unfold collect_sort, range_fold. rewrite !collected_spec. simpl.
    apply isort_order_free. apply flat_map_perm. exact HP.
  Qed.
End SortProofs.

(** sort.Strings: byte-wise order on Go strings *)
Lemma bytes_leb_total a b : bytes_leb a b = true \/ bytes_leb b a = true.
Proof.
  unfold bytes_leb. rewrite (ws_cmp_antisym a b). destruct (ws_cmp a b); simpl; auto.
Qed.
Lemma bytes_leb_antisym a b : bytes_leb a b = true -> bytes_leb b a = true -> a = b.
Proof.
  unfold bytes_leb. rewrite (ws_cmp_antisym a b). destruct (ws_cmp a b) eqn:E; simpl; try discriminate.
  intros _ _. apply ws_cmp_eq. exact E.
Qed.
Lemma bytes_leb_trans a b c : bytes_leb a b = true -> bytes_leb b c = true -> bytes_leb a c = true.
Proof.
  unfold bytes_leb. intros Hab Hbc.
  destruct (ws_cmp a b) eqn:E1; try discriminate; destruct (ws_cmp b c) eqn:E2; try discriminate.
  - apply ws_cmp_eq in E1. subst. rewrite E2. reflexivity.
  - apply ws_cmp_eq in E1. subst. rewrite E2. reflexivity.
  - apply ws_cmp_eq in E2. subst. rewrite E1. reflexivity.
  - assert (H : klt a c) by (eapply klt_trans; [exact E1|exact E2]). unfold klt in H. rewrite H. reflexivity.
Qed.

(** getMapSortedKey / dump / StringsDedupAndSort: the sorted key list does not depend on the visiting order *)
Lemma sorted_keys_order_free {V : Type} (o1 o2 : list (bytes * V)) :
  Permutation o1 o2 ->
  collect_sort bytes_leb (fun kv => Some (fst kv)) o1 = collect_sort bytes_leb (fun kv => Some (fst kv)) o2.
Proof.
  apply collect_sort_order_free; [exact bytes_leb_total|exact bytes_leb_trans|exact bytes_leb_antisym].
Qed.

(** * A5: deleting everything owned by each suicided address *)
Lemma suicide_clean_order_free {A KV : Type} (owned : A -> KV -> bool) o1 o2 st :
  Permutation o1 o2 -> suicide_clean owned o1 st = suicide_clean owned o2 st.
Proof.
  intro HP. unfold suicide_clean. apply range_fold_perm; [|exact HP].
  intros s a b. induction s as [|x r IH]; simpl; [reflexivity|].
  destruct (owned a x) eqn:Ea, (owned b x) eqn:Eb; simpl; rewrite ?Ea, ?Eb; simpl; rewrite IH; reflexivity.
Qed.

(** * A6: at most one entry *)
Lemma perm_singleton {A : Type} (l1 l2 : list A) : Permutation l1 l2 -> (length l1 <= 1)%nat -> l1 = l2.
Proof.
  intros HP Hl. destruct l1 as [|x [|y r]]; simpl in Hl; [| |lia].
  - apply Permutation_nil in HP. subst. reflexivity.
  - apply Permutation_length_1_inv in HP. subst. reflexivity.
Qed.

Lemma ont_init_notifications_spec {K V : Type} (order : list (K * V)) : ont_init_notifications order = order.
Proof.
  unfold ont_init_notifications, range_fold. rewrite (collect_append (fun kv => [kv])). simpl.
  induction order; simpl; congruence.
Qed.

Lemma ont_init_singleton_order_free {K V : Type} (o1 o2 : list (K * V)) :
  Permutation o1 o2 -> (length o1 <= 1)%nat -> ont_init_notifications o1 = ont_init_notifications o2.
Proof. intros. rewrite !ont_init_notifications_spec. apply perm_singleton; assumption. Qed.

(** ... and with two entries the notification order does follow the map order (why the class is
    "singleton" and not "commutative") *)
Lemma ont_init_two_entries_order_dependent :
  exists o1 o2 : list (N * N), Permutation o1 o2 /\ ont_init_notifications o1 <> ont_init_notifications o2.
Proof. exists [(1, 10); (2, 20)], [(2, 20); (1, 10)]. split; [apply perm_swap|vm_compute; discriminate]. Qed.

(** * A7: the ontfs error event payload (sorted writer, 859ea035) is order-free for every map *)
Lemma fold_left_ext_in {A B : Type} (f g : A -> B -> A) (l : list B) :
  (forall a b, In b l -> f a b = g a b) -> forall a, fold_left f l a = fold_left g l a.
Proof.
  induction l as [|x r IH]; intros H a; simpl; [reflexivity|].
  rewrite (H a x (or_introl eq_refl)). apply IH. intros a' b Hb. apply H. right. exact Hb.
Qed.

Lemma ontfs_errors_to_string_order_free (o1 o2 : list (bytes * bytes)) :
  Permutation o1 o2 -> NoDup (map fst o1) -> ontfs_errors_to_string o1 = ontfs_errors_to_string o2.
Proof.
  intros HP Hnd. unfold ontfs_errors_to_string.
  rewrite <- (sorted_keys_order_free o1 o2 HP). rewrite <- (Permutation_length HP).
  apply fold_left_ext_in. intros buf k _. unfold ontfs_lookup.
  rewrite (am_get_perm bytes bytes bytes_eqb bytes_eqb_eq o1 o2 HP Hnd k). reflexivity.
Qed.

(** the writer before the repair followed the map order (why the sort is there) *)
Lemma ontfs_errors_to_string_unsorted_order_dependent :
  exists o1 o2 : list (bytes * bytes), NoDup (map fst o1) /\ Permutation o1 o2 /\
    ontfs_errors_to_string_unsorted o1 <> ontfs_errors_to_string_unsorted o2.
Proof.
  exists [([1], [101]); ([2], [102])], [([2], [102]); ([1], [101])]. split; [|split].
  - repeat constructor; simpl; intuition discriminate.
  - apply perm_swap.
  - vm_compute. discriminate.
Qed.

(** * A8 (finding F4): the detector's map branch inspects the first visited entry only *)
Lemma detect_map_first_order_dependent :
  exists (deep : N -> bool) (o1 o2 : list (N * N)), NoDup (map fst o1) /\ Permutation o1 o2 /\
    detect_map_first deep o1 <> detect_map_first deep o2.
Proof.
  exists (fun v => N.eqb v 1), [(1, 1); (2, 0)], [(2, 0); (1, 1)]. split; [|split].
  - repeat constructor; simpl; intuition discriminate.
  - apply perm_swap.
  - vm_compute. discriminate.
Qed.

(** visiting every entry (the repair) is order-free *)
Lemma detect_map_all_order_free {K V : Type} (deep : V -> bool) (o1 o2 : list (K * V)) :
  Permutation o1 o2 -> detect_map_all deep o1 = detect_map_all deep o2.
Proof.
  intro HP. unfold detect_map_all. apply bool_eq_iff. rewrite !existsb_exists.
  split; intros [x [Hin Hp]]; exists x; (split; [|exact Hp]).
  - eapply Permutation_in; [exact HP|exact Hin].
  - eapply Permutation_in; [symmetry; exact HP|exact Hin].
Qed.

(** * A9 (finding, latent): transfer notifications of blackQuit follow the map order *)
Lemma commit_dpos_black_events_spec {K : Type} (black : K * N -> bool) (order : list (K * N)) :
  commit_dpos_black_events black order = map snd (filter black order).
Proof.
  unfold commit_dpos_black_events, range_fold.
  assert (G : forall acc, fold_left (fun acc kv => if black kv then acc ++ [snd kv] else acc) order acc =
                          acc ++ map snd (filter black order)).
  { induction order as [|kv r IH]; intro acc; simpl.
    - rewrite app_nil_r. reflexivity.
    - rewrite IH. destruct (black kv); simpl; [rewrite <- app_assoc|]; reflexivity. }
  apply (G []).
Qed.

Lemma commit_dpos_black_events_order_dependent :
  exists (black : N * N -> bool) (o1 o2 : list (N * N)), NoDup (map fst o1) /\ Permutation o1 o2 /\
    commit_dpos_black_events black o1 <> commit_dpos_black_events black o2.
Proof.
  exists (fun _ => true), [(1, 10); (2, 20)], [(2, 20); (1, 10)]. split; [|split].
  - repeat constructor; simpl; intuition discriminate.
  - apply perm_swap.
  - vm_compute. discriminate.
Qed.

Lemma all_equal_repeat {A : Type} (v : A) (l : list A) : (forall x, In x l -> x = v) -> l = repeat v (length l).
Proof.
  induction l as [|a r IH]; simpl; intro H; [reflexivity|].
  rewrite (H a (or_introl eq_refl)). f_equal. apply IH. intros x Hx. apply H. right. exact Hx.
Qed.

Lemma filter_perm {A : Type} (p : A -> bool) l1 l2 : Permutation l1 l2 -> Permutation (filter p l1) (filter p l2).
Proof.
  induction 1; simpl.
  - reflexivity.
  - destruct (p x); [apply perm_skip|]; assumption.
  - destruct (p x), (p y); try reflexivity. apply perm_swap.
  - etransitivity; eassumption.
Qed.

(** outside the finding class: at most one black-listed peer, or all of them with the same InitPos *)
Lemma commit_dpos_black_events_same_pos {K : Type} (black : K * N -> bool) (v : N) o1 o2 :
  Permutation o1 o2 -> (forall kv, In kv o1 -> black kv = true -> snd kv = v) ->
  commit_dpos_black_events black o1 = commit_dpos_black_events black o2.
Proof.
  intros HP Hv. rewrite !commit_dpos_black_events_spec.
  assert (HPf : Permutation (map snd (filter black o1)) (map snd (filter black o2)))
    by (apply Permutation_map, filter_perm; exact HP).
  assert (H1 : forall x, In x (map snd (filter black o1)) -> x = v).
  { intros x Hx. apply in_map_iff in Hx. destruct Hx as [kv [Hs Hin]]. apply filter_In in Hin.
    destruct Hin as [Hin Hb]. subst x. apply Hv; assumption. }
  assert (H2 : forall x, In x (map snd (filter black o2)) -> x = v).
  { intros x Hx. apply H1. eapply Permutation_in; [symmetry; exact HPf|exact Hx]. }
  rewrite (all_equal_repeat v _ H1), (all_equal_repeat v _ H2). rewrite (Permutation_length HPf). reflexivity.
Qed.

Lemma commit_dpos_black_events_one_black {K : Type} (black : K * N -> bool) o1 o2 :
  Permutation o1 o2 -> (length (filter black o1) <= 1)%nat ->
  commit_dpos_black_events black o1 = commit_dpos_black_events black o2.
Proof.
  intros HP Hl. rewrite !commit_dpos_black_events_spec. f_equal.
  apply perm_singleton; [apply filter_perm; exact HP|exact Hl].
Qed.

(** * A10 (finding): the gas table entry depends on what the process has seen *)
(** a node that ran through [Some 30000; None] and a node started for the last block only *)
Lemma gas_table_process_dependent :
  exists (d : N) (history : list (option N)) (last : option N),
    table_after d (history ++ [last]) <> table_after d [last].
Proof. exists 10, [Some 30000], None. vm_compute. discriminate. Qed.

(** outside the finding class: while the current on-chain value parses, every process agrees *)
Lemma gas_table_parsable_agrees d history v : table_after d (history ++ [Some v]) = table_after d [Some v].
Proof. unfold table_after. rewrite fold_left_app. reflexivity. Qed.

(** the repaired refresh depends on the current on-chain value only *)
Lemma gas_table_repaired_agrees d history last :
  table_after_repaired d (history ++ [last]) = table_after_repaired d [last].
Proof. unfold table_after_repaired. rewrite fold_left_app. destruct last; reflexivity. Qed.

(** * The statement each lemma id stands for, and the proof that all of them hold *)
Definition lemma_statement (l : lemma_id) : Prop :=
  match l with
  | L_witness_membership =>
      forall (o1 o2 : list (bytes * bool)), Permutation o1 o2 ->
      forall a, check_witness (collect_keys o1) a = check_witness (collect_keys o2) a
  | L_map_copy =>
      forall (K V : Type) (keqb : K -> K -> bool), (forall a b, keqb a b = true <-> a = b) ->
      forall o1 o2 : list (K * V), Permutation o1 o2 -> NoDup (map fst o1) ->
      forall k, am_get keqb k (map_copy keqb o1) = am_get keqb k (map_copy keqb o2)
  | L_per_key_update =>
      forall (K V : Type) (keqb : K -> K -> bool), (forall a b, keqb a b = true <-> a = b) ->
      forall upd (o1 o2 m : list (K * V)), Permutation o1 o2 ->
      forall k, am_get keqb k (per_key_update keqb upd o1 m) = am_get keqb k (per_key_update keqb upd o2 m)
  | L_count =>
      forall (E : Type) (p : E -> bool) o1 o2, Permutation o1 o2 -> count_if p o1 = count_if p o2
  | L_collect_sort =>
      forall (E : Type) (leb : E -> E -> bool),
      (forall a b, leb a b = true \/ leb b a = true) ->
      (forall a b c, leb a b = true -> leb b c = true -> leb a c = true) ->
      (forall a b, leb a b = true -> leb b a = true -> a = b) ->
      forall (A : Type) (sel : A -> option E) o1 o2, Permutation o1 o2 ->
      collect_sort leb sel o1 = collect_sort leb sel o2
  | L_prefix_delete =>
      forall (A KV : Type) (owned : A -> KV -> bool) o1 o2 st, Permutation o1 o2 ->
      suicide_clean owned o1 st = suicide_clean owned o2 st
  | L_singleton =>
      forall (A : Type) (l1 l2 : list A), Permutation l1 l2 -> (length l1 <= 1)%nat -> l1 = l2
  | L_commute_disjoint =>
      forall (E S K : Type) (key : E -> K) (body : S -> E -> S),
      (forall s a b, key a <> key b -> body (body s a) b = body (body s b) a) ->
      forall l1 l2, Permutation l1 l2 -> NoDup (map key l1) ->
      forall s, range_fold body l1 s = range_fold body l2 s
  end.

Theorem all_lemmas_hold : forall l, lemma_statement l.
Proof.
  destruct l; simpl.
  - intros; apply witness_membership_order_free; assumption.
  - intros; apply map_copy_order_free; assumption.
  - intros; apply per_key_update_order_free; assumption.
  - intros; apply count_if_order_free; assumption.
  - intros; apply collect_sort_order_free; assumption.
  - intros; apply suicide_clean_order_free; assumption.
  - intros; apply perm_singleton; assumption.
  - intros; eapply range_fold_perm_distinct; eassumption.
Qed.
