(** Proofs/MerkleSpec.v — facts about the RFC-6962 specification functions of Model/Merkle.v:
    unfolding equations for [mth], [rfc_path], [rfc_proof]; the level-by-level (bottom-up) view of
    the same tree ([up], [ups]) that the iterative verifiers follow; and the bridge between the two
    (the top of the levels is [mth]; the RFC audit path is the list of siblings bottom-up). *)
From Coq Require Import List Bool Arith ZArith Lia.
Local Open Scope nat_scope.
Import ListNotations.
From Ont Require Import Model.Merkle.

Ltac Zify.zify_post_hook ::= Z.to_euclidean_division_equations.

(** * Arithmetic *)

Lemma pow2_pos j : 0 < 2 ^ j.
Proof. induction j; simpl; lia. Qed.

Lemma split_spec n : 2 <= n -> split n < n /\ n <= 2 * split n /\ 1 <= split n.
Proof.
  intro H. unfold split.
  destruct (Nat.log2_spec (n - 1)) as [H1 H2]; [lia|].
  rewrite Nat.pow_succ_r' in H2. pose proof (pow2_pos (Nat.log2 (n - 1))). lia.
Qed.

Lemma split_pow j n : 2 ^ j < n -> n <= 2 ^ S j -> split n = 2 ^ j.
Proof.
  intros H1 H2. unfold split. f_equal.
  apply Nat.log2_unique; [lia|]. split; lia.
Qed.

Lemma split_double j : split (2 ^ S j) = 2 ^ j.
Proof. apply split_pow; [|lia]. rewrite Nat.pow_succ_r'. pose proof (pow2_pos j). lia. Qed.

Lemma odd_mod i : Nat.odd i = true -> i mod 2 = 1.
Proof. intro H. pose proof (Nat.div2_odd i) as E. rewrite H in E. simpl in E. rewrite Nat.div2_div in E. lia. Qed.
Lemma even_mod i : Nat.odd i = false -> i mod 2 = 0.
Proof. intro H. pose proof (Nat.div2_odd i) as E. rewrite H in E. simpl in E. rewrite Nat.div2_div in E. lia. Qed.

Ltac odd_cases i :=
  let H := fresh "Hodd" in
  destruct (Nat.odd i) eqn:H; [apply odd_mod in H | apply even_mod in H].

(** number of trailing one bits of i *)
Fixpoint tones (f i : nat) : nat :=
  match f with
  | O => 0
  | S f' => if Nat.odd i then S (tones f' (i / 2)) else 0
  end.

Lemma tones_decomp : forall f i, i = (i / 2 ^ tones f i) * 2 ^ tones f i + (2 ^ tones f i - 1).
Proof.
  induction f as [|f IH]; intro i; cbn [tones].
  - change (2 ^ 0) with 1. rewrite Nat.div_1_r. lia.
  - odd_cases i.
    + rewrite Nat.pow_succ_r'. pose proof (IH (i / 2)) as E.
      pose proof (pow2_pos (tones f (i / 2))) as Hp.
      rewrite <- Nat.div_div by lia.
      set (q := i / 2 / 2 ^ tones f (i / 2)) in *. nia.
    + change (2 ^ 0) with 1. rewrite Nat.div_1_r. lia.
Qed.

Lemma tones_even : forall f i, i < 2 ^ f -> Nat.odd (i / 2 ^ tones f i) = false.
Proof.
  induction f as [|f IH]; intros i H; cbn [tones].
  - simpl in H. assert (i = 0) by lia. subst. reflexivity.
  - destruct (Nat.odd i) eqn:Ho.
    + rewrite Nat.pow_succ_r'. rewrite <- Nat.div_div by (try pose proof (pow2_pos (tones f (i / 2))); lia).
      apply IH. rewrite Nat.pow_succ_r' in H. lia.
    + change (2 ^ 0) with 1. rewrite Nat.div_1_r. exact Ho.
Qed.


Lemma arith_lt_div it P X m' lenB : 0 < P -> m' = it * P + (P - 1) -> m' + 1 < lenB -> lenB <= X * P -> it < X.
Proof.
  intros HP Hm Hl Hx.
  assert (H : (it + 1) * P < X * P) by (rewrite Nat.mul_add_distr_r; lia).
  apply Nat.mul_lt_mono_pos_r in H; lia.
Qed.

Lemma arith_le_div P X Q lenB : 0 < P -> X * P <= lenB + P - 1 -> lenB <= Q * P -> X <= Q.
Proof.
  intros HP H1 H2.
  assert (H : X * P < (Q + 1) * P) by (rewrite Nat.mul_add_distr_r; lia).
  apply Nat.mul_lt_mono_pos_r in H; lia.
Qed.

Lemma tones_unique : forall t f i q, i = q * 2 ^ t + (2 ^ t - 1) -> q mod 2 = 0 -> i < 2 ^ f ->
  tones f i = t.
Proof.
  induction t as [|t IH]; intros f i q Hi Hq Hf.
  - change (2 ^ 0) with 1 in Hi. destruct f as [|f]; [reflexivity|]. cbn [tones].
    odd_cases i; [lia|reflexivity].
  - rewrite Nat.pow_succ_r' in Hi. pose proof (pow2_pos t) as Hp.
    destruct f as [|f]; [simpl in Hf; lia|]. cbn [tones].
    odd_cases i; [|lia]. f_equal. apply (IH f (i / 2) q); try assumption.
    + nia.
    + rewrite Nat.pow_succ_r' in Hf. lia.
Qed.

Lemma tones_spec i : let t := tones i i in
  i = (i / 2 ^ t) * 2 ^ t + (2 ^ t - 1) /\ (i / 2 ^ t) mod 2 = 0.
Proof.
  cbv zeta. split; [apply tones_decomp|].
  apply even_mod. apply tones_even. apply Nat.pow_gt_lin_r. lia.
Qed.

Lemma tones_fuel f i : i < 2 ^ f -> tones f i = tones i i.
Proof.
  intro H. destruct (tones_spec i) as [H1 H2].
  apply (tones_unique _ f i (i / 2 ^ tones i i)); assumption.
Qed.

Section Spec.
  Variable T : Type.
  Variable hc : T -> T -> T.
  Variable hempty : T.

  Notation mth := (mth T hc hempty).
  Notation mth_f := (mth_f T hc hempty).
  Notation rfc_path := (rfc_path T hc hempty).
  Notation path_f := (path_f T hc hempty).
  Notation rfc_proof := (rfc_proof T hc hempty).
  Notation subproof_f := (subproof_f T hc hempty).

  (** * Unfolding [mth] *)
  Lemma mth_f_indep : forall f1 f2 D, length D <= f1 -> length D <= f2 -> mth_f f1 D = mth_f f2 D.
  Proof.
    induction f1 as [|f1 IH]; intros f2 D H1 H2.
    - destruct D as [|x [|y r]]; simpl in H1; try lia; destruct f2; reflexivity.
    - destruct D as [|x [|y r]]; [destruct f2; reflexivity | destruct f2; reflexivity |].
      destruct f2 as [|f2]; [simpl in H2; lia|].
      cbn [Merkle.mth_f].
      set (D := x :: y :: r) in *.
      assert (Hn : 2 <= length D) by (subst D; simpl; lia).
      destruct (split_spec (length D) Hn) as (Ha & Hb & Hc).
      f_equal; apply IH; rewrite ?firstn_length, ?skipn_length; lia.
  Qed.

  Lemma mth_nil : mth [] = hempty. Proof. reflexivity. Qed.
  Lemma mth_one x : mth [x] = x. Proof. reflexivity. Qed.

  Lemma mth_unfold D : 2 <= length D ->
    mth D = hc (mth (firstn (split (length D)) D)) (mth (skipn (split (length D)) D)).
  Proof.
    intro Hn. unfold Merkle.mth at 1.
    destruct D as [|x [|y r]]; try (simpl in Hn; lia).
    set (D := x :: y :: r) in *.
    destruct (split_spec (length D) Hn) as (Ha & Hb & Hc).
    assert (E : length D = S (length D - 1)) by lia.
    rewrite E at 1. subst D. cbn [Merkle.mth_f]. set (D := x :: y :: r) in *.
    unfold Merkle.mth.
    f_equal; apply mth_f_indep; rewrite ?firstn_length, ?skipn_length; lia.
  Qed.

  (** the same equation for an explicit decomposition *)
  Lemma mth_app j A B : length A = 2 ^ j -> B <> [] -> length B <= 2 ^ j ->
    mth (A ++ B) = hc (mth A) (mth B).
  Proof.
    intros HA HB HB2.
    assert (0 < length B) by (destruct B; simpl; [congruence|lia]).
    pose proof (pow2_pos j).
    rewrite mth_unfold by (rewrite app_length; lia).
    rewrite app_length, (split_pow j) by (rewrite ?Nat.pow_succ_r'; lia).
    rewrite <- HA, firstn_app, skipn_app, Nat.sub_diag, firstn_all, skipn_all.
    simpl. rewrite app_nil_r. reflexivity.
  Qed.

  (** * Levels *)
  Fixpoint up (L : list T) : list T :=
    match L with a :: b :: r => hc a b :: up r | _ => L end.
  Fixpoint ups (j : nat) (L : list T) : list T :=
    match j with O => L | S j' => ups j' (up L) end.

  Lemma list_pair_ind (P : list T -> Prop) :
    P [] -> (forall a, P [a]) -> (forall a b r, P r -> P (a :: b :: r)) -> forall L, P L.
  Proof.
    intros H0 H1 H2.
    assert (forall L, P L /\ forall a, P (a :: L)) as H.
    { induction L as [|x L [IH1 IH2]]; split; auto. }
    intro L; apply H.
  Qed.

  Lemma up_length L : length (up L) = (length L + 1) / 2.
  Proof.
    induction L as [| a | a b r IH] using list_pair_ind; try reflexivity.
    cbn [up length]. rewrite IH. lia.
  Qed.

  Lemma up_nil_iff L : up L = [] <-> L = [].
  Proof. destruct L as [|a [|b r]]; simpl; split; congruence. Qed.

  Lemma up_app A B : (length A) mod 2 = 0 -> up (A ++ B) = up A ++ up B.
  Proof.
    induction A as [| a | a b r IH] using list_pair_ind; intro H.
    - reflexivity.
    - simpl in H. discriminate.
    - cbn [app up]. rewrite IH; [reflexivity|]. cbn [length] in H. lia.
  Qed.

  Lemma up_nth_pair d : forall L i, 2 * i + 1 < length L ->
    nth i (up L) d = hc (nth (2 * i) L d) (nth (2 * i + 1) L d).
  Proof.
    induction L as [| a | a b r IH] using list_pair_ind; intros i H; cbn [length] in H; try lia.
    destruct i as [|i]; [reflexivity|].
    cbn [up nth]. rewrite IH by lia.
    replace (2 * S i) with (S (S (2 * i))) by lia.
    replace (S (S (2 * i)) + 1) with (S (S (2 * i + 1))) by lia. reflexivity.
  Qed.

  Lemma up_nth_last d : forall L i, 2 * i + 1 = length L -> nth i (up L) d = nth (2 * i) L d.
  Proof.
    induction L as [| a | a b r IH] using list_pair_ind; intros i H; cbn [length] in H; try lia.
    - destruct i; [reflexivity | lia].
    - destruct i as [|i]; [lia|].
      cbn [up nth]. rewrite IH by lia.
      replace (2 * S i) with (S (S (2 * i))) by lia. reflexivity.
  Qed.

  Lemma ups_S_out j : forall L, ups (S j) L = up (ups j L).
  Proof. induction j as [|j IH]; intro L; [reflexivity|]. cbn [ups] in *. rewrite IH. reflexivity. Qed.

  Lemma ups_add a b L : ups (a + b) L = ups b (ups a L).
  Proof. revert L; induction a as [|a IH]; intro L; [reflexivity|]. cbn [ups Nat.add]. apply IH. Qed.

  Lemma ups_single j x : ups j [x] = [x].
  Proof. induction j; simpl; auto. Qed.

  Lemma ups_nil j : ups j [] = [].
  Proof. induction j; simpl; auto. Qed.

  Lemma ups_length_pos j : forall L, L <> [] -> ups j L <> [].
  Proof.
    induction j as [|j IH]; intros L H; [exact H|]. cbn [ups]. apply IH.
    rewrite up_nil_iff. exact H.
  Qed.

  Lemma ups_app j : forall A B c, length A = c * 2 ^ j -> ups j (A ++ B) = ups j A ++ ups j B.
  Proof.
    induction j as [|j IH]; intros A B c H; [reflexivity|].
    cbn [ups]. rewrite Nat.pow_succ_r' in H.
    rewrite up_app by (rewrite H; lia).
    apply (IH _ _ c). rewrite up_length, H.
    pose proof (pow2_pos j). nia.
  Qed.

  Lemma ups_length_mult j : forall A c, length A = c * 2 ^ j -> length (ups j A) = c.
  Proof.
    induction j as [|j IH]; intros A c H; [simpl in *; lia|].
    cbn [ups]. apply IH. rewrite Nat.pow_succ_r' in H. rewrite up_length, H.
    pose proof (pow2_pos j). nia.
  Qed.

  (** the top of the levels is the RFC tree hash *)
  Lemma ups_mth : forall j L, L <> [] -> length L <= 2 ^ j -> ups j L = [mth L].
  Proof.
    induction j as [|j IH]; intros L Hne Hlen.
    - destruct L as [|x [|y r]]; simpl in *; try congruence; try lia. reflexivity.
    - destruct (le_lt_dec (length L) (2 ^ j)) as [Hs|Hb].
      + rewrite ups_S_out, IH by assumption. reflexivity.
      + rewrite <- (firstn_skipn (2 ^ j) L).
        set (A := firstn (2 ^ j) L). set (B := skipn (2 ^ j) L).
        assert (HA : length A = 2 ^ j) by (subst A; rewrite firstn_length; lia).
        assert (HB : length B = length L - 2 ^ j) by (subst B; rewrite skipn_length; lia).
        rewrite Nat.pow_succ_r' in Hlen.
        assert (HBne : B <> []) by (intro E; rewrite E in HB; simpl in HB; lia).
        rewrite ups_S_out, (ups_app j A B 1) by lia.
        rewrite (IH A), (IH B); try assumption; try lia.
        * cbn [app up]. rewrite (mth_app j) by (assumption || lia). reflexivity.
        * intro E; rewrite E in HA; simpl in HA. pose proof (pow2_pos j); lia.
  Qed.

  (** * Audit paths bottom-up *)
  Definition sib (d : T) (i : nat) (L : list T) : list T :=
    if Nat.odd i then [nth (i - 1) L d]
    else if i <? length L - 1 then [nth (i + 1) L d] else [].

  Fixpoint path_bu (d : T) (f : nat) (i : nat) (L : list T) : list T :=
    match f with
    | O => []
    | S f' => sib d i L ++ path_bu d f' (i / 2) (up L)
    end.

  Lemma path_bu_add d a : forall b i L,
    path_bu d (a + b) i L = path_bu d a i L ++ path_bu d b (i / 2 ^ a) (ups a L).
  Proof.
    induction a as [|a IH]; intros b i L.
    - cbn [Nat.add path_bu ups app]. change (2 ^ 0) with 1. rewrite Nat.div_1_r. reflexivity.
    - cbn [Nat.add path_bu ups]. rewrite IH, <- app_assoc.
      rewrite Nat.div_div by (try pose proof (pow2_pos a); lia).
      rewrite Nat.pow_succ_r'. reflexivity.
  Qed.

  Lemma path_bu_single d f x : path_bu d f 0 [x] = [].
  Proof. induction f as [|f IH]; [reflexivity|]. cbn [path_bu]. unfold sib. simpl. exact IH. Qed.

  Lemma sib_app_left d i A B : (length A) mod 2 = 0 -> i < length A -> sib d i (A ++ B) = sib d i A.
  Proof.
    intros He Hi. unfold sib. rewrite app_length.
    odd_cases i.
    - rewrite app_nth1 by lia. reflexivity.
    - assert (i + 1 < length A) by lia.
      destruct (Nat.ltb_spec i (length A + length B - 1)); destruct (Nat.ltb_spec i (length A - 1)); try lia.
      rewrite app_nth1 by lia. reflexivity.
  Qed.

  Lemma sib_app_right d i A B : (length A) mod 2 = 0 -> sib d (length A + i) (A ++ B) = sib d i B.
  Proof.
    intros He. unfold sib. rewrite app_length.
    assert (Eo : Nat.odd (length A + i) = Nat.odd i).
    { odd_cases i; odd_cases (length A + i); try reflexivity; lia. }
    rewrite Eo. odd_cases i.
    - rewrite app_nth2 by lia. f_equal. f_equal. lia.
    - destruct (Nat.ltb_spec (length A + i) (length A + length B - 1)); destruct (Nat.ltb_spec i (length B - 1)); try lia; [|reflexivity].
      rewrite app_nth2 by lia. f_equal. f_equal. lia.
  Qed.

  Lemma path_bu_app_left d j : forall A B c i, length A = c * 2 ^ j -> i < length A ->
    path_bu d j i (A ++ B) = path_bu d j i A.
  Proof.
    induction j as [|j IH]; intros A B c i HA Hi; [reflexivity|].
    cbn [path_bu]. rewrite Nat.pow_succ_r' in HA.
    rewrite sib_app_left by (rewrite ?HA; lia).
    rewrite up_app by (rewrite HA; lia).
    f_equal. apply (IH _ _ c).
    - rewrite up_length, HA. pose proof (pow2_pos j). nia.
    - rewrite up_length. lia.
  Qed.

  Lemma path_bu_app_right d j : forall A B c i, length A = c * 2 ^ j ->
    path_bu d j (length A + i) (A ++ B) = path_bu d j i B.
  Proof.
    induction j as [|j IH]; intros A B c i HA; [reflexivity|].
    cbn [path_bu]. rewrite Nat.pow_succ_r' in HA.
    rewrite sib_app_right by (rewrite ?HA; lia).
    rewrite up_app by (rewrite HA; lia).
    f_equal.
    assert (E : length (up A) = c * 2 ^ j) by (rewrite up_length, HA; pose proof (pow2_pos j); nia).
    replace ((length A + i) / 2) with (length (up A) + i / 2) by (rewrite up_length; lia).
    apply (IH _ _ c). exact E.
  Qed.

  (** more fuel than levels adds nothing *)
  Lemma path_bu_fuel d j g i L : L <> [] -> length L <= 2 ^ j -> i < length L ->
    path_bu d (j + g) i L = path_bu d j i L.
  Proof.
    intros Hne Hlen Hi. rewrite path_bu_add, ups_mth by assumption.
    assert (i / 2 ^ j = 0) as -> by (apply Nat.div_small; lia).
    rewrite path_bu_single, app_nil_r. reflexivity.
  Qed.

  (** * Unfolding [rfc_path] *)
  Lemma path_f_indep : forall f1 f2 m D, length D <= f1 -> length D <= f2 ->
    path_f f1 m D = path_f f2 m D.
  Proof.
    induction f1 as [|f1 IH]; intros f2 m D H1 H2.
    - destruct D; simpl in H1; [|lia]. destruct f2; reflexivity.
    - destruct f2 as [|f2].
      + destruct D; simpl in H2; [|lia]. reflexivity.
      + cbn [Merkle.path_f]. destruct (Nat.leb_spec (length D) 1); [reflexivity|].
        destruct (split_spec (length D)) as (Ha & Hb & Hc); [lia|].
        destruct (m <? split (length D)); f_equal; apply IH; rewrite ?firstn_length, ?skipn_length; lia.
  Qed.

  Lemma rfc_path_small m D : length D <= 1 -> rfc_path m D = [].
  Proof.
    intro H. unfold Merkle.rfc_path. destruct D as [|x [|y r]]; simpl in *; try lia; reflexivity.
  Qed.

  Lemma rfc_path_unfold m D : 2 <= length D ->
    rfc_path m D =
      let k := split (length D) in
      if m <? k then rfc_path m (firstn k D) ++ [mth (skipn k D)]
      else rfc_path (m - k) (skipn k D) ++ [mth (firstn k D)].
  Proof.
    intro Hn. unfold Merkle.rfc_path at 1.
    destruct (split_spec (length D) Hn) as (Ha & Hb & Hc).
    replace (path_f (length D) m D) with (path_f (S (length D - 1)) m D) by (f_equal; lia).
    cbn [Merkle.path_f]. destruct (Nat.leb_spec (length D) 1); [lia|].
    cbv zeta. unfold Merkle.rfc_path.
    destruct (m <? split (length D)); f_equal; apply path_f_indep; rewrite ?firstn_length, ?skipn_length; lia.
  Qed.

  Lemma rfc_path_app j A B m : length A = 2 ^ j -> B <> [] -> length B <= 2 ^ j ->
    rfc_path m (A ++ B) =
      if m <? 2 ^ j then rfc_path m A ++ [mth B] else rfc_path (m - 2 ^ j) B ++ [mth A].
  Proof.
    intros HA HB HB2.
    assert (0 < length B) by (destruct B; simpl; [congruence|lia]).
    pose proof (pow2_pos j).
    rewrite rfc_path_unfold by (rewrite app_length; lia). cbv zeta.
    rewrite app_length, (split_pow j) by (rewrite ?Nat.pow_succ_r'; lia).
    rewrite <- HA, firstn_app, skipn_app, Nat.sub_diag, firstn_all, skipn_all.
    simpl. rewrite app_nil_r. reflexivity.
  Qed.

  (** the RFC audit path is the bottom-up sibling list *)
  Theorem rfc_path_bu d : forall n D j i, length D = n -> i < n -> n <= 2 ^ j ->
    rfc_path i D = path_bu d j i D.
  Proof.
    induction n as [n IH] using lt_wf_ind. intros D j i Hn Hi Hj.
    destruct (le_lt_dec n 1) as [H1|H2].
    - assert (i = 0) by lia. subst i.
      destruct D as [|x [|y r]]; simpl in Hn; try lia.
      rewrite rfc_path_small by (simpl; lia). rewrite path_bu_single. reflexivity.
    - (* n >= 2 : j >= 1 *)
      set (e := Nat.log2 (n - 1)).
      destruct (Nat.log2_spec (n - 1)) as [He1 He2]; [lia|]. fold e in He1, He2.
      rewrite Nat.pow_succ_r' in He2.
      assert (Hej : e < j).
      { destruct (le_lt_dec j e) as [Hle|]; [|assumption].
        pose proof (Nat.pow_le_mono_r 2 j e ltac:(lia) Hle). lia. }
      rewrite <- (firstn_skipn (2 ^ e) D).
      set (A := firstn (2 ^ e) D). set (B := skipn (2 ^ e) D).
      assert (HA : length A = 2 ^ e) by (subst A; rewrite firstn_length; lia).
      assert (HB : length B = n - 2 ^ e) by (subst B; rewrite skipn_length; lia).
      assert (HBne : B <> []) by (intro E; rewrite E in HB; simpl in HB; lia).
      assert (HAne : A <> []) by (intro E; rewrite E in HA; simpl in HA; pose proof (pow2_pos e); lia).
      rewrite (rfc_path_app e) by (assumption || lia).
      replace j with (e + (j - e)) by lia.
      rewrite path_bu_add.
      rewrite (ups_app e A B 1) by lia.
      rewrite (ups_mth e A), (ups_mth e B) by (assumption || lia).
      destruct (j - e) as [|g] eqn:Eg; [lia|].
      cbn [path_bu app]. unfold sib. cbn [length Nat.sub].
      destruct (Nat.ltb_spec i (2 ^ e)) as [Hl|Hr].
      + rewrite (path_bu_app_left d e A B 1) by lia.
        rewrite <- (IH (2 ^ e)) by (assumption || lia).
        assert (i / 2 ^ e = 0) as -> by (apply Nat.div_small; lia).
        cbn. rewrite path_bu_single. reflexivity.
      + assert (E1 : i / 2 ^ e = 1) by (symmetry; apply Nat.div_unique with (r := i - 2 ^ e); lia).
        rewrite E1.
        replace (path_bu d e i (A ++ B)) with (path_bu d e (length A + (i - 2 ^ e)) (A ++ B))
          by (f_equal; lia).
        rewrite (path_bu_app_right d e A B 1) by lia.
        rewrite <- (IH (n - 2 ^ e)) by (assumption || lia).
        cbn. rewrite path_bu_single. reflexivity.
  Qed.

  (** * The old tree inside the levels of the new one (consistency) *)

  Lemma up_firstn_even : forall L k, k mod 2 = 0 -> up (firstn k L) = firstn (k / 2) (up L).
  Proof.
    induction L as [| a | a b r IH] using list_pair_ind; intros k Hk.
    - rewrite !firstn_nil. reflexivity.
    - destruct k as [|[|k]]; try reflexivity; simpl in Hk; try discriminate.
      replace (S (S k) / 2) with (S (k / 2)) by lia. cbn. rewrite firstn_nil. reflexivity.
    - destruct k as [|[|k]]; try reflexivity; [simpl in Hk; discriminate|].
      replace (S (S k) / 2) with (S (k / 2)) by lia.
      cbn [firstn up]. rewrite IH by lia. reflexivity.
  Qed.

  (** hash of the last node of the old tree, [f] levels above a level where the old tree is
      [firstn i L ++ [x]] *)
  Fixpoint old_x (d : T) (f i : nat) (x : T) (L : list T) : T :=
    match f with
    | O => x
    | S f' => if Nat.odd i then old_x d f' (i / 2) (hc (nth (i - 1) L d) x) (up L)
              else old_x d f' (i / 2) x (up L)
    end.

  Lemma firstn_snoc_nth d : forall (L : list T) k, k < length L -> firstn (S k) L = firstn k L ++ [nth k L d].
  Proof.
    induction L as [|a L IH]; intros k H; [simpl in H; lia|].
    destruct k as [|k]; [reflexivity|]. cbn [firstn nth app]. rewrite <- IH by (simpl in H; lia). reflexivity.
  Qed.

  Lemma old_levels d : forall f L i x, i < length L ->
    ups f (firstn i L ++ [x]) = firstn (i / 2 ^ f) (ups f L) ++ [old_x d f i x L].
  Proof.
    induction f as [|f IH]; intros L i x Hi.
    - cbn [ups old_x]. change (2 ^ 0) with 1. rewrite Nat.div_1_r. reflexivity.
    - cbn [ups old_x]. rewrite Nat.pow_succ_r'.
      rewrite <- Nat.div_div by (try pose proof (pow2_pos f); lia).
      assert (Hi2 : i / 2 < length (up L)) by (rewrite up_length; lia).
      odd_cases i.
      + replace i with (S (i - 1)) at 1 by lia.
        rewrite (firstn_snoc_nth d) by lia. rewrite <- app_assoc. cbn [app].
        rewrite up_app by (rewrite firstn_length; lia).
        rewrite up_firstn_even by lia. cbn [up].
        replace ((i - 1) / 2) with (i / 2) by lia.
        apply IH. exact Hi2.
      + rewrite up_app by (rewrite firstn_length; lia).
        rewrite up_firstn_even by lia. cbn [up].
        apply IH. exact Hi2.
  Qed.

  Lemma old_x_mth d f L i : i < length L -> i < 2 ^ f ->
    old_x d f i (nth i L d) L = mth (firstn (S i) L).
  Proof.
    intros Hi Hf.
    pose proof (old_levels d f L i (nth i L d) Hi) as E.
    rewrite <- (firstn_snoc_nth d) in E by exact Hi.
    rewrite ups_mth in E.
    - rewrite (Nat.div_small i (2 ^ f)) in E by exact Hf. simpl in E. inversion E. reflexivity.
    - destruct L; simpl in *; [lia|congruence].
    - rewrite firstn_length. lia.
  Qed.

  (** * Unfolding [rfc_proof] / SUBPROOF *)
  Definition sub (m : nat) (D : list T) (b : bool) : list T := subproof_f (S (length D)) m D b.

  Lemma subproof_f_indep : forall f1 f2 m D b, length D < f1 -> length D < f2 -> 1 <= m -> m <= length D ->
    subproof_f f1 m D b = subproof_f f2 m D b.
  Proof.
    induction f1 as [|f1 IH]; intros f2 m D b H1 H2 Hm1 Hm2; [lia|].
    destruct f2 as [|f2]; [lia|].
    cbn [Merkle.subproof_f]. destruct (Nat.eqb_spec m (length D)); [reflexivity|].
    destruct (split_spec (length D)) as (Ha & Hb & Hc); [lia|].
    destruct (Nat.leb_spec m (split (length D))); f_equal; apply IH; rewrite ?firstn_length, ?skipn_length; lia.
  Qed.

  Lemma sub_full D b : sub (length D) D b = if b then [] else [mth D].
  Proof. unfold sub. cbn [Merkle.subproof_f]. rewrite Nat.eqb_refl. reflexivity. Qed.

  Lemma sub_app j A B m b : length A = 2 ^ j -> B <> [] -> length B <= 2 ^ j ->
    1 <= m -> m < length A + length B ->
    sub m (A ++ B) b =
      if m <=? 2 ^ j then sub m A b ++ [mth B] else sub (m - 2 ^ j) B false ++ [mth A].
  Proof.
    intros HA HB HB2 Hm1 Hm2.
    assert (0 < length B) by (destruct B; simpl; [congruence|lia]).
    pose proof (pow2_pos j).
    unfold sub at 1. cbn [Merkle.subproof_f]. rewrite app_length.
    destruct (Nat.eqb_spec m (length A + length B)); [lia|].
    rewrite (split_pow j) by (rewrite ?Nat.pow_succ_r'; lia).
    rewrite <- HA, firstn_app, skipn_app, Nat.sub_diag, firstn_all, skipn_all.
    cbn [firstn skipn app]. rewrite app_nil_r.
    destruct (Nat.leb_spec m (length A)); f_equal; apply subproof_f_indep; lia.
  Qed.

  Lemma mth_ups t L : L <> [] -> mth (ups t L) = mth L.
  Proof.
    intro H.
    assert (Hb : forall X : list T, length X <= 2 ^ length X) by (intro X; induction (length X); simpl; lia).
    assert (E1 : ups (t + length L) L = [mth L]).
    { apply ups_mth; [exact H|]. pose proof (Hb L).
      pose proof (Nat.pow_le_mono_r 2 (length L) (t + length L) ltac:(lia) ltac:(lia)). lia. }
    assert (Hlen : length (ups t L) <= length L).
    { clear. revert L. induction t as [|t IH]; intro L; [simpl; lia|].
      cbn [ups]. pose proof (IH (up L)). rewrite up_length in H. lia. }
    assert (E2 : ups (length L) (ups t L) = [mth (ups t L)]).
    { apply ups_mth; [apply ups_length_pos; exact H|]. pose proof (Hb L). lia. }
    rewrite ups_add, E2 in E1. inversion E1. reflexivity.
  Qed.

  (** the consistency proof bottom-up: strip the trailing ones of i = m-1, start from that node
      (unless it is the root of the old tree and b holds), then its audit path *)
  Definition cons_bu (d : T) (i : nat) (L : list T) (b : bool) : list T :=
    let t := tones i i in
    let it := i / 2 ^ t in
    let Lt := ups t L in
    (if (it =? 0) && b then [] else [nth it Lt d]) ++ path_bu d (length L) it Lt.

  Lemma len_le_pow (X : list T) : length X <= 2 ^ length X.
  Proof. induction (length X); simpl; lia. Qed.

  Lemma ups_length_le t : forall L, length (ups t L) <= length L.
  Proof.
    induction t as [|t IH]; intro L; [simpl; lia|].
    cbn [ups]. pose proof (IH (up L)) as H. rewrite up_length in H. lia.
  Qed.

  (** the audit path of a node inside [ups t X], with any sufficient fuel, is the RFC path *)
  Lemma path_bu_rfc d F X i : i < length X -> length X <= 2 ^ F -> path_bu d F i X = rfc_path i X.
  Proof. intros. symmetry. apply (rfc_path_bu d (length X)); auto. Qed.

  Lemma ups_fuel_ok t X : length (ups t X) <= 2 ^ length X.
  Proof. pose proof (ups_length_le t X). pose proof (len_le_pow X). lia. Qed.

  Lemma ups_length_bounds : forall t B,
    length B <= length (ups t B) * 2 ^ t /\ length (ups t B) * 2 ^ t <= length B + 2 ^ t - 1.
  Proof.
    induction t as [|t IHt]; intro B; [simpl; lia|].
    cbn [ups]. rewrite Nat.pow_succ_r'. pose proof (IHt (up B)) as H. rewrite up_length in H.
    pose proof (pow2_pos t). nia.
  Qed.

  Theorem rfc_proof_bu d : forall n D m b, length D = n -> 1 <= m -> m <= n ->
    (m < n \/ exists h, n = 2 ^ h) ->
    sub m D b = cons_bu d (m - 1) D b.
  Proof.
    induction n as [n IH] using lt_wf_ind. intros D m b Hn Hm1 Hmn Hinv.
    destruct (Nat.eq_dec m n) as [Emn|Hne].
    - (* m = n = 2^h *)
      destruct Hinv as [|[h Hh]]; [lia|].
      subst m. rewrite <- Hn, sub_full. unfold cons_bu.
      assert (Ht : tones (n - 1) (n - 1) = h).
      { apply (tones_unique h _ _ 0); [lia | reflexivity | apply Nat.pow_gt_lin_r; lia]. }
      rewrite Hn, Ht.
      assert (Ei : (n - 1) / 2 ^ h = 0) by (apply Nat.div_small; pose proof (pow2_pos h); lia).
      rewrite Ei.
      assert (HD : D <> []) by (destruct D; simpl in *; [pose proof (pow2_pos h); lia|congruence]).
      rewrite ups_mth by (assumption || lia).
      rewrite path_bu_single, app_nil_r. destruct b; reflexivity.
    - assert (Hlt : m < n) by lia.
      assert (H2 : 2 <= n) by lia.
      set (e := Nat.log2 (n - 1)).
      destruct (Nat.log2_spec (n - 1)) as [He1 He2]; [lia|]. fold e in He1, He2.
      rewrite Nat.pow_succ_r' in He2.
      rewrite <- (firstn_skipn (2 ^ e) D).
      set (A := firstn (2 ^ e) D). set (B := skipn (2 ^ e) D).
      assert (HA : length A = 2 ^ e) by (subst A; rewrite firstn_length; lia).
      assert (HB : length B = n - 2 ^ e) by (subst B; rewrite skipn_length; lia).
      assert (HBne : B <> []) by (intro E; rewrite E in HB; simpl in HB; lia).
      assert (HAne : A <> []) by (intro E; rewrite E in HA; simpl in HA; pose proof (pow2_pos e); lia).
      rewrite (sub_app e) by (assumption || lia).
      destruct (tones_spec (m - 1)) as [Hd1 Hd2].
      unfold cons_bu at 1. set (t := tones (m - 1) (m - 1)) in *. set (it := (m - 1) / 2 ^ t) in *.
      pose proof (pow2_pos t) as Hpt. pose proof (pow2_pos e) as Hpe.
      pose proof (ups_fuel_ok t (A ++ B)) as HF2.
      destruct (ups_length_bounds t B) as [HbB1 HbB2].
      destruct (Nat.leb_spec m (2 ^ e)) as [Hl|Hr].
      + (* the old tree lies in the left half *)
        assert (Hte : t <= e).
        { destruct (le_lt_dec t e); [assumption|].
          pose proof (Nat.pow_le_mono_r 2 (S e) t ltac:(lia) ltac:(lia)) as Hm. rewrite Nat.pow_succ_r' in Hm. nia. }
        assert (Epow : 2 ^ e = 2 ^ (e - t) * 2 ^ t) by (rewrite <- Nat.pow_add_r; f_equal; lia).
        assert (Hit : it < 2 ^ (e - t)) by nia.
        assert (IHA : sub m A b = cons_bu d (m - 1) A b).
        { apply (IH (2 ^ e)); try lia. destruct (Nat.eq_dec m (2 ^ e)); [right; exists e; reflexivity | left; lia]. }
        rewrite IHA. unfold cons_bu. fold t. fold it.
        pose proof (ups_fuel_ok t A) as HF1.
        rewrite (ups_app t A B (2 ^ (e - t))) in * by lia.
        assert (HlA : length (ups t A) = 2 ^ (e - t)) by (apply ups_length_mult; lia).
        rewrite app_nth1 by lia.
        rewrite <- app_assoc. f_equal.
        rewrite (path_bu_rfc d _ (ups t A)) by (lia || exact HF1).
        rewrite (path_bu_rfc d _ (ups t A ++ ups t B)) by (try exact HF2; rewrite app_length; lia).
        assert (HXQ : length (ups t B) <= 2 ^ (e - t)).
        { apply (arith_le_div (2 ^ t) _ _ (length B)); [exact Hpt | exact HbB2 | clear - HB He2 Epow; lia]. }
        rewrite (rfc_path_app (e - t)) by (try assumption; try (apply ups_length_pos; assumption)).
        destruct (Nat.ltb_spec it (2 ^ (e - t))); [|lia].
        rewrite (mth_ups t B HBne). reflexivity.
      + (* the old tree reaches into the right half *)
        destruct (tones_spec (m - 2 ^ e - 1)) as [Hd1' Hd2'].
        set (t' := tones (m - 2 ^ e - 1) (m - 2 ^ e - 1)) in *.
        set (it' := (m - 2 ^ e - 1) / 2 ^ t') in *.
        pose proof (pow2_pos t') as Hpt'.
        assert (Hte' : t' < e).
        { destruct (le_lt_dec e t') as [Hle|]; [|assumption].
          pose proof (Nat.pow_le_mono_r 2 e t' ltac:(lia) Hle). nia. }
        assert (Epow : 2 ^ e = 2 ^ (e - t') * 2 ^ t') by (rewrite <- Nat.pow_add_r; f_equal; lia).
        assert (Hev : (2 ^ (e - t')) mod 2 = 0).
        { replace (e - t') with (S (e - t' - 1)) by lia. rewrite Nat.pow_succ_r'. lia. }
        assert (Et : t = t').
        { unfold t. apply (tones_unique t' _ _ (it' + 2 ^ (e - t'))).
          - nia.
          - lia.
          - apply Nat.pow_gt_lin_r. lia. }
        assert (Eit : it = 2 ^ (e - t') + it').
        { unfold it. rewrite Et. symmetry. apply Nat.div_unique with (r := 2 ^ t' - 1); [lia|]. nia. }
        assert (IHB : sub (m - 2 ^ e) B false = cons_bu d (m - 2 ^ e - 1) B false).
        { apply (IH (n - 2 ^ e)); try lia. }
        rewrite IHB. unfold cons_bu. fold t'. fold it'.
        pose proof (ups_fuel_ok t' B) as HF1.
        rewrite Et in *. clear Et.
        destruct (ups_length_bounds t' B) as [HbB1' HbB2'].
        rewrite (ups_app t' A B (2 ^ (e - t'))) in * by lia.
        assert (HlA : length (ups t' A) = 2 ^ (e - t')) by (apply ups_length_mult; lia).
        assert (Hit' : it' < length (ups t' B)).
        { apply (arith_lt_div it' (2 ^ t') _ (m - 2 ^ e - 1) (length B));
            [exact Hpt' | exact Hd1' | clear - Hlt Hr HB; lia | exact HbB1']. }
        assert (HXQ' : length (ups t' B) <= 2 ^ (e - t')).
        { apply (arith_le_div (2 ^ t') _ _ (length B)); [exact Hpt' | exact HbB2' | clear - HB He2 Epow; lia]. }
        rewrite Eit, <- HlA. rewrite app_nth2 by lia.
        replace (length (ups t' A) + it' - length (ups t' A)) with it' by (clear; lia).
        assert (E0 : (length (ups t' A) + it' =? 0) = false).
        { apply Nat.eqb_neq. rewrite HlA. pose proof (pow2_pos (e - t')) as Hq. clear - Hq. lia. }
        rewrite E0. cbn [andb]. rewrite andb_false_r.
        rewrite <- app_assoc. cbn [app]. f_equal.
        rewrite (path_bu_rfc d _ (ups t' B)) by (lia || exact HF1).
        rewrite (path_bu_rfc d _ (ups t' A ++ ups t' B)) by (try exact HF2; rewrite app_length; lia).
        rewrite (rfc_path_app (e - t')) by (try assumption; try (apply ups_length_pos; assumption)).
        destruct (Nat.ltb_spec (length (ups t' A) + it') (2 ^ (e - t'))) as [Hc|Hc]; [clear - Hc HlA; lia|].
        replace (length (ups t' A) + it' - 2 ^ (e - t')) with it' by (clear - HlA; lia).
        rewrite (mth_ups t' A HAne). reflexivity.
  Qed.
End Spec.
