(** C14: the identification [norm] is canonical (idempotent, same encoding); relations between the
    measures used in the statements. *)
From Coq Require Import List Bool Arith NArith ZArith Lia ZifyN ZifyNat ZifyBool Sorted.
Import ListNotations.
From Ont Require Import Lib.Bytes Model.NeoInt Gen.VmValueConsts Model.VmValue Proofs.NeoInt Proofs.VmValueLib
  Proofs.VmValueCodec.
Local Open Scope N_scope.

Lemma theight_le_depth : forall t, (theight t <= S (tdepth t))%nat.
Proof.
  induction t as [p|l IH|l IH|m IH|] using tval_ind'; cbn [theight tdepth]; try lia.
  - apply le_n_S. apply lmax_le. intros x Hx. rewrite Forall_forall in IH. specialize (IH x Hx).
    pose proof (list_max_in tdepth l x Hx). lia.
  - apply le_n_S. apply lmax_le. intros x Hx. rewrite Forall_forall in IH. specialize (IH x Hx).
    pose proof (list_max_in tdepth l x Hx). lia.
  - apply le_n_S. apply lmax_le. intros x Hx. rewrite Forall_forall in IH. specialize (IH x Hx).
    pose proof (list_max_in (fun e : prim * tval => tdepth (snd e)) m x Hx). cbn beta in *. lia.
Qed.

Lemma within_interop_free : forall t, within_limits t = true -> interop_free t = true.
Proof.
  induction t as [p|l IH|l IH|m IH|] using tval_ind'; cbn [within_limits interop_free]; intro H; try reflexivity; try discriminate.
  - apply andb_prop in H. destruct H as [_ H]. apply forallb_forall. intros x Hx. rewrite Forall_forall in IH. apply IH; [exact Hx|]. apply (forallb_In _ _ _ H Hx).
  - apply andb_prop in H. destruct H as [_ H]. apply forallb_forall. intros x Hx. rewrite Forall_forall in IH. apply IH; [exact Hx|]. apply (forallb_In _ _ _ H Hx).
  - apply andb_prop in H. destruct H as [_ H]. apply forallb_forall. intros x Hx. rewrite Forall_forall in IH. apply IH; [exact Hx|].
    pose proof (forallb_In _ _ _ H Hx) as Hx'. cbn beta in Hx'. apply andb_prop in Hx'. tauto.
Qed.

Lemma struct_depth_le_count : (S max_struct_depth <= max_count)%nat.
Proof. vm_compute. repeat constructor. Qed.

Lemma map_ext_in' {A B} (g g' : A -> B) l : (forall x, In x l -> g x = g' x) -> map g l = map g' l.
Proof. induction l as [|x l IH]; intro H; cbn; [reflexivity|]. rewrite (H x (or_introl eq_refl)), IH; [reflexivity|]. intros y Hy. apply H. right. exact Hy. Qed.

Lemma flat_map_ext_in {A} (g g' : A -> bytes) l : (forall x, In x l -> g x = g' x) -> flat_map g l = flat_map g' l.
Proof. induction l as [|x l IH]; intro H; cbn; [reflexivity|]. rewrite (H x (or_introl eq_refl)), IH; [reflexivity|]. intros y Hy. apply H. right. exact Hy. Qed.

Lemma NoDup_map_img_nentry (m : list (prim * tval)) :
  map (fun e : prim * tval => prim_bytes (fst e)) (map nentry m) = map (fun e : prim * tval => prim_bytes (fst e)) m.
Proof. rewrite map_map. apply map_ext_in'. intros x _. cbn. apply norm_prim_bytes. Qed.

(** [norm t] is a canonical representative: normalising again changes nothing, and it has the
    same encoding as [t] (so Serialize cannot tell them apart) *)
Theorem norm_canonical : forall t, within_limits t = true -> norm (norm t) = norm t /\ enc (norm t) = enc t.
Proof.
  induction t as [p|l IH|l IH|m IH|] using tval_ind'; intro Hw.
  - cbn [norm enc]. rewrite norm_prim_idem, enc_prim_norm. split; reflexivity.
  - cbn [within_limits] in Hw. apply andb_prop in Hw. destruct Hw as [_ Hw]. cbn [norm enc]. rewrite map_map, map_length.
    rewrite Forall_forall in IH. split.
    + f_equal. apply map_ext_in'. intros x Hx. apply IH; [exact Hx|apply (forallb_In _ _ _ Hw Hx)].
    + f_equal. f_equal. rewrite flat_map_map. apply flat_map_ext_in. intros x Hx. apply IH; [exact Hx|apply (forallb_In _ _ _ Hw Hx)].
  - cbn [within_limits] in Hw. apply andb_prop in Hw. destruct Hw as [_ Hw]. cbn [norm enc]. rewrite map_map, map_length.
    rewrite Forall_forall in IH. split.
    + f_equal. apply map_ext_in'. intros x Hx. apply IH; [exact Hx|apply (forallb_In _ _ _ Hw Hx)].
    + f_equal. f_equal. rewrite flat_map_map. apply flat_map_ext_in. intros x Hx. apply IH; [exact Hx|apply (forallb_In _ _ _ Hw Hx)].
  - cbn [within_limits] in Hw. apply andb_prop in Hw. destruct Hw as [Hd Hw]. apply distinctb_NoDup in Hd.
    rewrite Forall_forall in IH.
    assert (Hv : forall e, In e m -> norm (norm (snd e)) = norm (snd e) /\ enc (norm (snd e)) = enc (snd e)).
    { intros e He. apply IH; [exact He|]. pose proof (forallb_In _ _ _ Hw He) as H. cbn beta in H. apply andb_prop in H. tauto. }
    change (norm (TMap m)) with (TMap (sort_entries (map nentry m))).
    assert (Hsorted : StronglySorted lt_img (sort_entries (map nentry m))).
    { apply sort_entries_sorted. unfold img. rewrite NoDup_map_img_nentry. exact Hd. }
    split.
    + change (norm (TMap (sort_entries (map nentry m)))) with (TMap (sort_entries (map nentry (sort_entries (map nentry m))))).
      f_equal. rewrite (sort_entries_map nentry (sort_entries (map nentry m))) by (intro x; apply norm_prim_bytes).
      rewrite (sort_entries_id _ Hsorted).
      rewrite <- (sort_entries_map nentry (map nentry m)) by (intro x; apply norm_prim_bytes).
      rewrite map_map. f_equal. apply map_ext_in'. intros e He. unfold nentry. cbn [fst snd]. rewrite norm_prim_idem. rewrite (proj1 (Hv e He)). reflexivity.
    + rewrite !enc_map. rewrite sort_entries_length, map_length. f_equal. f_equal.
      rewrite (sort_entries_id _ Hsorted).
      rewrite (sort_entries_map nentry) by (intro x; apply norm_prim_bytes).
      rewrite flat_map_map. apply flat_map_ext_in. intros e He. rewrite sort_entries_in in He.
      unfold enc_entry, nentry. cbn [fst snd]. rewrite enc_prim_norm. rewrite (proj2 (Hv e He)). reflexivity.
  - split; reflexivity.
Qed.
