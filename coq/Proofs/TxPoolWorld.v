(** C35 — the validator window, the ledger nonces and their invariants along the chain. *)
From Coq Require Import List Bool NArith Lia.
Import ListNotations.
From Ont Require Import Model.TxPool Proofs.TxPoolAL Proofs.TxPoolVerify.
Local Open Scope N_scope.

(** * the window is a segment of the chain *)
Definition seg (chain : list (list tx)) (base : N) (bs : list (list tx)) : Prop :=
  (bs = [] /\ base = 0) \/
  (bs <> [] /\ exists pre rest, chain = pre ++ bs ++ rest /\ length pre = N.to_nat base).

Definition ivinv (chain : list (list tx)) (v : ival) : Prop :=
  exists bs, iv_blocks v = map (map tx_hash) bs /\ iv_nonces v = map block_nonces bs /\
             seg chain (iv_base v) bs /\ (1 <= iv_max v)%nat.

Lemma ivinv_new chain mb : ivinv chain (iv_new mb).
Proof.
  exists []. simpl. repeat split; auto; [left; auto|].
  destruct (mb =? 0) eqn:E; [vm_compute; lia|]. apply N.eqb_neq in E. lia.
Qed.

Lemma ivinv_clean chain v : ivinv chain v -> ivinv chain (iv_clean v).
Proof. intros [bs [_ [_ [_ Hm]]]]. exists []. simpl. repeat split; auto. left; auto. Qed.

Lemma ivinv_grow chain b v : ivinv chain v -> ivinv (chain ++ [b]) v.
Proof.
  intros [bs [H1 [H2 [H3 H4]]]]. exists bs. repeat split; auto.
  destruct H3 as [H3|[Hne [pre [rest [E L]]]]]; [left; auto|right].
  split; auto. exists pre, (rest ++ [b]). split; auto. rewrite E. repeat rewrite <- app_assoc. reflexivity.
Qed.

Lemma seg_len chain base bs : seg chain base bs -> (N.to_nat base + length bs <= length chain)%nat.
Proof.
  intros [[-> ->]|[_ [pre [rest [-> L]]]]]; simpl; [lia|].
  repeat rewrite app_length. lia.
Qed.

Lemma ivinv_add chain k b v :
  N.of_nat (length chain) < U32 -> nth_error chain (N.to_nat k) = Some b ->
  ivinv chain v -> ivinv chain (iv_add_block k b v).
Proof.
  intros Hb Hn [bs [H1 [H2 [H3 H4]]]].
  assert (Hk : k < U32).
  { assert (N.to_nat k < length chain)%nat by (apply nth_error_Some; congruence). lia. }
  pose proof (seg_len _ _ _ H3) as Hlen.
  unfold iv_add_block. unfold U32 in Hb, Hk.
  assert (Hl : length (iv_blocks v) = length bs) by (rewrite H1, map_length; reflexivity).
  destruct H3 as [[-> Hb0]|[Hne [pre [rest [E L]]]]].
  - (* empty window *)
    simpl in H1, H2. rewrite H1. simpl. rewrite N.add_0_r. rewrite N.mod_small by exact Hk. rewrite N.eqb_refl. simpl.
    destruct (iv_max v) as [|mx] eqn:Em; [lia|]. simpl.
    exists [b]. simpl. rewrite H2. repeat split; auto; try lia.
    right. split; [discriminate|].
    destruct (nth_error_split _ _ Hn) as [l1 [l2 [E L]]].
    exists l1, l2. split; auto.
  - destruct bs as [|x bs']; [congruence|].
    assert (Hbase : match iv_blocks v with [] => k | _ :: _ => iv_base v end = iv_base v)
      by (rewrite H1; reflexivity).
    rewrite Hbase, Hl.
    assert (Hsmall : (iv_base v + N.of_nat (length (x :: bs'))) mod U32 = iv_base v + N.of_nat (length (x :: bs'))).
    { apply N.mod_small. unfold U32. lia. }
    rewrite Hsmall.
    destruct (N.eqb_spec (iv_base v + N.of_nat (length (x :: bs'))) k) as [Ek|Ek]; simpl negb; cbv iota.
    + (* accepted *)
      assert (Hrest : exists rest', rest = b :: rest').
      { rewrite E, app_assoc in Hn. rewrite nth_error_app2 in Hn by (rewrite app_length; lia).
        replace (N.to_nat k - length (pre ++ x :: bs'))%nat with 0%nat in Hn by (rewrite app_length; lia).
        destruct rest; simpl in Hn; [discriminate|]. inversion Hn; subst. eauto. }
      destruct Hrest as [rest' ->].
      destruct (Nat.leb (iv_max v) (length (x :: bs'))) eqn:Et.
      * rewrite H1, H2. simpl tl.
        exists (bs' ++ [b]). rewrite !map_app. simpl. repeat split; auto.
        right. split; [destruct bs'; discriminate|].
        exists (pre ++ [x]), rest'. split.
        -- rewrite E. repeat rewrite <- app_assoc. simpl. reflexivity.
        -- rewrite app_length. simpl. unfold U32. simpl in Hlen. rewrite N.mod_small by lia. lia.
      * rewrite H1, H2.
        exists ((x :: bs') ++ [b]). rewrite !map_app. simpl. repeat split; auto.
        right. split; [discriminate|].
        exists pre, rest'. split; auto.
        rewrite E. simpl. repeat rewrite <- app_assoc. simpl. reflexivity.
    + (* discontinuous block: ignored *)
      simpl. exists (x :: bs'). repeat split; auto.
      right. split; [discriminate|]. exists pre, rest. auto.
Qed.

(** * ledger nonces *)
Definition has (P : N) (b : list tx) : bool := existsb (is_of P) b.
Definition bn_step (m : list (N * N)) (t : tx) : list (N * N) :=
  if tx_eip t then aput (tx_payer t) (iv_block_nonce (tx_nonce t)) m else m.

Lemma block_nonces_fold b : block_nonces b = fold_left bn_step b [].
Proof. reflexivity. Qed.

Lemma bn_step_other P m t : is_of P t = false -> nget P (bn_step m t) = nget P m.
Proof.
  unfold bn_step, is_of. destruct (tx_eip t); simpl; auto. intro H.
  rewrite nget_aput. rewrite N.eqb_sym, H. reflexivity.
Qed.

Lemma fold_nohas P b : forall acc, has P b = false -> nget P (fold_left bn_step b acc) = nget P acc.
Proof.
  induction b as [|t r IH]; intros acc H; simpl in *; auto.
  apply orb_false_iff in H. destruct H as [H1 H2]. rewrite IH by auto. apply bn_step_other; auto.
Qed.

Lemma bn_step_same P m t : is_of P t = true -> tx_wf t -> nget P (bn_step m t) = tx_nonce t + 1.
Proof.
  unfold bn_step, is_of. intros H Hwf. apply andb_prop in H. destruct H as [H1 H2].
  rewrite H1. apply N.eqb_eq in H2. subst. rewrite nget_aput, N.eqb_refl. apply block_nonce_wf; auto.
Qed.

Lemma fold_has_nz P b : Forall tx_wf b -> forall acc, has P b = true -> nget P (fold_left bn_step b acc) <> 0.
Proof.
  induction 1 as [|t r Hwf _ IH]; intros acc H; simpl in *; [discriminate|].
  destruct (has P r) eqn:Er; [apply IH; auto|].
  rewrite orb_false_r in H. rewrite fold_nohas by auto. rewrite bn_step_same by auto. lia.
Qed.

Lemma ledger_exec_spec P b : Forall tx_wf b -> forall n n' acc,
  ledger_exec b n = Some n' ->
  n' P = if has P b then nget P (fold_left bn_step b acc) else n P.
Proof.
  induction 1 as [|t r Hwf _ IH]; intros n n' acc H; simpl in *; [inversion H; reflexivity|].
  destruct (is_of P t) eqn:Eo; simpl.
  - pose proof Eo as Eo'. unfold is_of in Eo'. apply andb_prop in Eo'. destruct Eo' as [Ee Ep].
    apply N.eqb_eq in Ep. rewrite Ee in H.
    destruct (N.eqb_spec (tx_nonce t) (n (tx_payer t))) as [En|En]; [|discriminate].
    rewrite (IH _ _ (bn_step acc t) H). destruct (has P r) eqn:Er; [reflexivity|].
    rewrite fold_nohas by auto. rewrite bn_step_same by auto.
    subst P. rewrite N.eqb_refl. lia.
  - assert (Hn : forall n1, (tx_eip t = true -> n1 = (fun q => if q =? tx_payer t then n q + 1 else n q)) ->
                             (tx_eip t = false -> n1 = n) -> n1 P = n P).
    { intros n1 H1 H2. unfold is_of in Eo. destruct (tx_eip t); simpl in Eo.
      - rewrite H1 by auto. rewrite N.eqb_sym, Eo. reflexivity.
      - rewrite H2; auto. }
    destruct (tx_eip t) eqn:Ee.
    + destruct (tx_nonce t =? n (tx_payer t)); [|discriminate].
      rewrite (IH _ _ (bn_step acc t) H). rewrite (Hn _ (fun _ => eq_refl)) by discriminate.
      reflexivity.
    + rewrite (IH _ _ (bn_step acc t) H). reflexivity.
Qed.

Definition ninv (chain : list (list tx)) (nonce : N -> N) : Prop :=
  forall P pre b post, chain = pre ++ b :: post -> nget P (block_nonces b) <> 0 ->
    (forall b', In b' post -> nget P (block_nonces b') = 0) -> nonce P = nget P (block_nonces b).

Lemma nget_bn_zero P b : Forall tx_wf b -> (nget P (block_nonces b) = 0 <-> has P b = false).
Proof.
  intro Hwf. rewrite block_nonces_fold. split; intro H.
  - destruct (has P b) eqn:E; auto. exfalso. eapply fold_has_nz; eauto.
  - rewrite fold_nohas by auto. reflexivity.
Qed.

Lemma ninv_commit chain nonce b n' :
  Forall tx_wf b -> ledger_exec b nonce = Some n' -> ninv chain nonce -> ninv (chain ++ [b]) n'.
Proof.
  intros Hwf He Hi P pre b0 post E Hnz Hpost.
  pose proof (ledger_exec_spec P b Hwf _ _ [] He) as Hs. rewrite <- block_nonces_fold in Hs.
  destruct (@exists_last _ (b0 :: post)) as [l [x El]]; [discriminate|].
  assert (E2 : chain ++ [b] = (pre ++ l) ++ [x]) by (rewrite E, <- app_assoc, El; reflexivity).
  apply app_inj_tail in E2. destruct E2 as [Ec <-].
  destruct post as [|y post'].
  - (* b0 is the new block *)
    destruct l as [|a l]; [|destruct l; simpl in El; discriminate]. inversion El; subst b0.
    destruct (has P b) eqn:Eh; [exact Hs|].
    apply nget_bn_zero in Eh; auto. contradiction.
  - assert (Hb : nget P (block_nonces b) = 0).
    { apply Hpost. rewrite (app_removelast_last y (l:=y :: post')) by discriminate.
      apply in_or_app. right. left.
      assert (last (b0 :: y :: post') y = b) by (rewrite El, last_last; reflexivity).
      simpl in H. simpl. exact H. }
    apply nget_bn_zero in Hb; auto. rewrite Hb in Hs. rewrite Hs.
    destruct l as [|z l']; [destruct post'; discriminate|]. simpl in El. inversion El; subst z.
    eapply (Hi P pre b0 l'); auto.
    intros b' Hin. apply Hpost. rewrite H1. apply in_or_app. left; auto.
Qed.

Lemma window_nonce_snoc P ms m :
  window_nonce P (ms ++ [m]) = if nget P m =? 0 then window_nonce P ms else nget P m.
Proof. unfold window_nonce. rewrite fold_left_app. reflexivity. Qed.

Lemma window_nonce_ledger chain nonce P pre : ninv chain nonce -> forall bs post,
  chain = pre ++ bs ++ post -> (forall b', In b' post -> nget P (block_nonces b') = 0) ->
  window_nonce P (map block_nonces bs) <> 0 -> nonce P = window_nonce P (map block_nonces bs).
Proof.
  intros Hi bs. induction bs as [|m bs0 IH] using rev_ind; intros post E Hpost Hnz; [exfalso; apply Hnz; reflexivity|].
  rewrite map_app in *. simpl in *. rewrite window_nonce_snoc in *.
  destruct (N.eqb_spec (nget P (block_nonces m)) 0) as [Ez|Ez].
  - apply (IH (m :: post)); auto.
    + rewrite E, <- app_assoc. reflexivity.
    + intros b' [<-|H]; auto.
  - apply (Hi P (pre ++ bs0) m post); auto. rewrite E. repeat rewrite <- app_assoc. reflexivity.
Qed.
