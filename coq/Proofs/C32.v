(** C32 — proofs about the header-acceptance model (Model/HeaderSync.v). *)
From Coq Require Import List NArith ZArith Bool Lia Arith ZifyN ZifyNat ZifyBool.
Import ListNotations.
From Ont Require Import Gen.HeaderSyncGen Model.HeaderSync.

Ltac Zify.zify_post_hook ::= Z.to_euclidean_division_equations.

(** * Specification vocabulary *)

(** header [h] carries a valid signature of key [k] over its own hash *)
Definition signed_by (h : header) (k : key) : Prop := In (SBy k (h_hash h)) (h_sigs h).

(** valid signatures from at least C+1 distinct members *)
Definition quorum_signed (h : header) (members : list key) (c : N) : Prop :=
  exists S : list key, NoDup S /\ (N.to_nat c + 1 <= length S)%nat /\
    forall k, In k S -> In k members /\ signed_by h k.

(** the chain configuration governing height H: the new_chain_config carried by the highest
    indexed header strictly below H *)
Definition has_cfg (st : store) (j : N) : bool :=
  match header_at st j with
  | Some hj => match cfg_of hj with Some _ => true | None => false end
  | None => false
  end.
Definition cfg_heights (st : store) (H : N) : list N :=
  filter (fun j => (j <? H)%N && has_cfg st j) (map fst (st_index st)).
Definition gov_height (st : store) (H : N) : option N :=
  match cfg_heights st H with [] => None | j :: r => Some (fold_left N.max r j) end.

(** the height verifyHeader actually consults (chosen from the header's own payload) *)
Definition claimed (st : store) (h : header) : option N :=
  match header_by_hash (st_headers st) (h_prev h), h_info h with
  | Some p, Some bi => claimed_cfg_height p bi
  | _, _ => None
  end.

(** store invariant: every peer-map entry whose height has an indexed header carrying a chain
    configuration is the id set of that configuration *)
Definition keyset_eqb (a b : list key) : bool :=
  forallb (fun k => memk k b) a && forallb (fun k => memk k a) b.
Definition entry_ok (st : store) (e : N * list key) : bool :=
  match header_at st (fst e) with
  | Some hj => match cfg_of hj with Some cc => keyset_eqb (snd e) (cc_peers cc) | None => true end
  | None => true
  end.
Definition store_wfb (st : store) : bool := forallb (entry_ok st) (st_peers st).
Definition store_wf (st : store) : Prop := store_wfb st = true.

(** the finding classes (F11), as boolean predicates on the input *)
Definition opt_eqb (a b : option N) : bool :=
  match a, b with Some x, Some y => (x =? y)%N | None, None => true | _, _ => false end.
Definition fc_stale (st : store) (h : header) : bool :=
  match claimed st h with
  | Some g => negb (opt_eqb (gov_height st (h_height h)) (Some g))
  | None => false
  end.
Definition threshold_short (npeers : nat) (c : N) : bool :=
  (hs_vbft_m (Z.of_nat npeers) <? Z.of_N c + 1)%Z.
Definition fc_threshold (st : store) (h : header) : bool :=
  match claimed st h with
  | Some g =>
      match lookup g (st_peers st), header_at st g with
      | Some peers, Some hg =>
          match cfg_of hg with Some cc => threshold_short (length peers) (cc_c cc) | None => false end
      | _, _ => false
      end
  | None => false
  end.
Definition fc_dup (h : header) : bool := negb (length (dedup (h_bks h)) =? length (h_bks h))%nat.
Definition in_finding_class (st : store) (h : header) : bool :=
  fc_stale st h || fc_threshold st h || fc_dup h.

(** the conclusion of the property for one header *)
Definition governed_quorum (st : store) (h : header) : Prop :=
  exists g hg cc, gov_height st (h_height h) = Some g /\ header_at st g = Some hg /\
    cfg_of hg = Some cc /\ quorum_signed h (cc_peers cc) (cc_c cc).

(** FULL STATEMENT of C32 on the model *)
Definition header_accept_statement : Prop :=
  forall st h r, store_wf st -> h_height h <> 0%N -> verify_header st h = ROk r ->
    governed_quorum st h.

(** * memk / dedup *)
Lemma memk_In k l : memk k l = true <-> In k l.
Proof.
  unfold memk; rewrite existsb_exists; split.
  - intros [x [Hi He]]; apply N.eqb_eq in He; subst; auto.
  - intros Hi; exists k; split; auto; apply N.eqb_refl.
Qed.

Lemma dedup_In k l : In k (dedup l) <-> In k l.
Proof.
  induction l as [|a l IH]; simpl; [tauto|].
  destruct (memk a l) eqn:E.
  - rewrite IH; split; auto. intros [->|]; auto. apply memk_In; auto.
  - simpl; rewrite IH; tauto.
Qed.

Lemma dedup_NoDup l : NoDup (dedup l).
Proof.
  induction l as [|a l IH]; simpl; [constructor|].
  destruct (memk a l) eqn:E; auto.
  constructor; auto. rewrite dedup_In. intro Hi. apply memk_In in Hi. congruence.
Qed.

Lemma dedup_length_le l : (length (dedup l) <= length l)%nat.
Proof. induction l as [|a l IH]; simpl; auto. destruct (memk a l); simpl; lia. Qed.

Lemma dedup_full_NoDup l : length (dedup l) = length l -> NoDup l.
Proof.
  induction l as [|a l IH]; simpl; intros H; [constructor|].
  destruct (memk a l) eqn:E.
  - pose proof (dedup_length_le l); lia.
  - simpl in H. constructor; [|apply IH; lia].
    intro Hi; apply memk_In in Hi; congruence.
Qed.

(** * VerifyMultiSignature: what an accepting run establishes *)
Lemma sig_verifies_eq k msg s : sig_verifies k msg s = true -> s = SBy k msg.
Proof.
  destruct s; simpl; [discriminate|].
  rewrite andb_true_iff, !N.eqb_eq. intros [-> ->]; reflexivity.
Qed.

(** one run of the inner loop: a hit masks exactly one previously unmasked position whose key
    verifies; all other mask entries are unchanged *)
Lemma mark_first_hit ok b keys mask mask' :
  mark_first ok b keys mask = MarkHit mask' ->
  exists j k, nth_error keys j = Some k /\ ok k = true /\ nth_error mask j = Some false /\
    nth_error mask' j = Some true /\
    (forall i, i <> j -> nth_error mask' i = nth_error mask i).
Proof.
  revert keys mask mask'; induction b as [|b IH]; intros keys mask mask' H; simpl in H; [discriminate|].
  destruct keys as [|k ks]; [discriminate|]. destruct mask as [|[|] bs]; try discriminate.
  - destruct (mark_first ok b ks bs) eqn:E; try discriminate. inversion H; subst; clear H.
    destruct (IH _ _ _ E) as (j & k' & H1 & H2 & H3 & H4 & H5).
    exists (S j), k'; simpl. do 4 (split; [assumption|]).
    intros [|i] Hi; simpl; auto.
  - destruct (ok k) eqn:Ek.
    + inversion H; subst; clear H. exists 0%nat, k; simpl. do 4 (split; [auto|]).
      intros [|i] Hi; simpl; auto; congruence.
    + destruct (mark_first ok b ks bs) eqn:E; try discriminate. inversion H; subst; clear H.
      destruct (IH _ _ _ E) as (j & k' & H1 & H2 & H3 & H4 & H5).
      exists (S j), k'; simpl. do 4 (split; [assumption|]).
      intros [|i] Hi; simpl; auto.
Qed.

(** an accepting outer loop matches the first m signatures to m DISTINCT list positions, each
    unmasked at the start, the key at the position verifying the signature *)
Lemma vms_loop_ok msg b keys : forall m mask sigs,
  vms_loop msg b keys mask sigs m = VmsOk ->
  exists jks : list (nat * key),
    length jks = m /\ NoDup (map fst jks) /\
    (forall j k, In (j, k) jks -> nth_error keys j = Some k /\ nth_error mask j = Some false) /\
    Forall2 (fun jk s => s = SBy (snd jk) msg) jks (firstn m sigs) /\ (m <= length sigs)%nat.
Proof.
  induction m as [|m IH]; intros mask sigs H.
  - exists []; simpl. split; [reflexivity|]. split; [constructor|]. split; [intros ? ? []|].
    split; [constructor|lia].
  - destruct sigs as [|s rest]; [discriminate H|].
    cbn [vms_loop] in H.
    destruct (sig_decodes s) eqn:Es; cbv beta iota delta [negb] in H; [|discriminate H].
    destruct (mark_first _ b keys mask) as [mask'| |] eqn:E; try discriminate.
    apply mark_first_hit in E. destruct E as (j & k & Hk & Hok & Hm & Hm' & Hoth).
    destruct (IH _ _ H) as (jks & Hl & Hnd & Hin & Hf & Hlen).
    exists ((j, k) :: jks); simpl.
    split; [lia|]. split; [|split; [|split; [|lia]]].
    + constructor; auto. intro Hj. apply in_map_iff in Hj. destruct Hj as [[j' k'] [Hfst Hi]].
      simpl in Hfst; subst j'. destruct (Hin _ _ Hi) as [_ Hu]. congruence.
    + intros j0 k0 [H0|H0]; [inversion H0; subst; auto|].
      destruct (Hin _ _ H0) as [Hk0 Hu]. split; auto.
      destruct (Nat.eq_dec j0 j) as [->|Hne]; [congruence|]. rewrite <- (Hoth _ Hne); auto.
    + constructor; auto. simpl. apply sig_verifies_eq; auto.
Qed.

Lemma verify_multi_ok msg keys m sigs :
  verify_multi msg keys m sigs = VmsOk ->
  exists jks : list (nat * key),
    length jks = Z.to_nat m /\ NoDup (map fst jks) /\
    (forall j k, In (j, k) jks -> nth_error keys j = Some k) /\
    Forall2 (fun jk s => s = SBy (snd jk) msg) jks (firstn (Z.to_nat m) sigs).
Proof.
  unfold verify_multi, vms_enough_lhs, vms_enough_rhs, vms_inner_bound, vms_mask_len, vms_outer_bound.
  destruct (_ <? _)%Z; [discriminate|]. intros H.
  apply vms_loop_ok in H. destruct H as (jks & H1 & H2 & H3 & H4 & _).
  exists jks; repeat split; auto. intros j k Hi; apply (H3 _ _ Hi).
Qed.

(** with a duplicate-free key list the matched keys are distinct *)
Lemma matched_keys_NoDup (keys : list key) (jks : list (nat * key)) :
  NoDup keys -> NoDup (map fst jks) ->
  (forall j k, In (j, k) jks -> nth_error keys j = Some k) ->
  NoDup (map snd jks).
Proof.
  intros Hk; induction jks as [|[j k] r IH]; simpl; intros Hnd Hin; [constructor|].
  inversion Hnd; subst. constructor.
  - intro Hi. apply in_map_iff in Hi. destruct Hi as [[j' k'] [Hs Hi]]. simpl in Hs; subst k'.
    assert (nth_error keys j' = Some k) by (apply Hin; auto).
    assert (nth_error keys j = Some k) by (apply Hin; auto).
    assert (j = j').
    { apply (proj1 (NoDup_nth_error keys) Hk); [apply nth_error_Some; congruence|congruence]. }
    subst j'. apply H1. apply in_map_iff. exists (j, k); auto.
  - apply IH; auto.
Qed.

Lemma Forall2_In_l {A B} (R : A -> B -> Prop) l1 l2 x :
  Forall2 R l1 l2 -> In x l1 -> exists y, In y l2 /\ R x y.
Proof.
  induction 1; simpl; [tauto|]. intros [->|Hi]; [eauto|].
  destruct (IHForall2 Hi) as [y' [? ?]]; eauto.
Qed.

Lemma firstn_In {A} n (l : list A) x : In x (firstn n l) -> In x l.
Proof. revert l; induction n; destruct l; simpl; try tauto. intros [->|H]; auto. Qed.

(** * verifyHeader: what an accepting run establishes *)
Lemma check_quorum_ok peers c h r :
  check_quorum peers c h = ROk r ->
  let m := hs_vbft_m (Z.of_nat (length peers)) in
  (m <= Z.of_nat (length (h_bks h)))%Z /\
  (forall k, In k (h_bks h) -> In k peers) /\
  ((Z.of_N c + 1) mod 4294967296 <= Z.of_nat (length (dedup (h_bks h))) mod 4294967296)%Z /\
  verify_multi (h_hash h) (h_bks h) m (h_sigs h) = VmsOk.
Proof.
  unfold check_quorum, hs_vbft_listed_lhs, hs_vbft_listed_rhs, hs_vbft_distinct_lhs,
    hs_vbft_distinct_rhs, hs_vbft_vms_m, two32.
  destruct (Z.of_nat (length (h_bks h)) <? _)%Z eqn:E1; [discriminate|].
  destruct (forallb _ _) eqn:E2; [|discriminate]. cbv beta iota delta [negb].
  destruct (_ mod _ <? _)%Z eqn:E3; [discriminate|].
  destruct (verify_multi _ _ _ _) eqn:E4; try discriminate. intros _.
  split; [lia|]. split; [|split; [|reflexivity]].
  - intros k Hk. rewrite forallb_forall in E2. apply memk_In. apply E2; auto.
  - apply Z.ltb_ge in E3. exact E3.
Qed.

Record accepted_facts (st : store) (h : header) (g : N) (hg : header) (cc : chaincfg) (peers : list key) : Prop := {
  af_claimed : claimed st h = Some g;
  af_cfg_header : header_at st g = Some hg;
  af_cfg : cfg_of hg = Some cc;
  af_peers : lookup g (st_peers st) = Some peers;
  af_quorum : exists r, check_quorum peers (cc_c cc) h = ROk r }.

Lemma verify_header_ok st h r :
  h_height h <> 0%N -> verify_header st h = ROk r ->
  exists g hg cc peers, accepted_facts st h g hg cc peers.
Proof.
  intros Hh. unfold verify_header. destruct (h_height h =? 0)%N eqn:E0; [apply N.eqb_eq in E0; contradiction|].
  destruct (header_by_hash (st_headers st) (h_prev h)) as [p|] eqn:Ep; [|discriminate].
  destruct (negb _); [discriminate|]. destruct (_ <=? _)%N; [discriminate|].
  destruct (h_info h) as [bi|] eqn:Ebi; [|discriminate].
  destruct (claimed_cfg_height p bi) as [g|] eqn:Eg; [|discriminate].
  destruct (header_at st g) as [hg|] eqn:Ehg; [|discriminate].
  destruct (h_info hg) as [cbi|] eqn:Ecbi; [|discriminate].
  destruct (bi_newcfg cbi) as [cc|] eqn:Ecc; [|discriminate].
  destruct (lookup g (st_peers st)) as [peers|] eqn:Epeers; [|discriminate].
  destruct (check_quorum peers (cc_c cc) h) eqn:Eq; try discriminate. intros _.
  exists g, hg, cc, peers. constructor; auto.
  - unfold claimed. rewrite Ep, Ebi. exact Eg.
  - unfold cfg_of. rewrite Ecbi. exact Ecc.
  - eauto.
Qed.

(** PARTIAL (unconditional): what every accepted header does carry *)
Definition slots_signed (h : header) (m : nat) : Prop :=
  exists jks : list (nat * key),
    length jks = m /\ NoDup (map fst jks) /\
    (forall j k, In (j, k) jks -> nth_error (h_bks h) j = Some k) /\
    Forall2 (fun jk s => s = SBy (snd jk) (h_hash h)) jks (firstn m (h_sigs h)).

Lemma accept_partial_slots st h r :
  h_height h <> 0%N -> verify_header st h = ROk r ->
  exists g hg cc peers,
    claimed st h = Some g /\ header_at st g = Some hg /\ cfg_of hg = Some cc /\
    lookup g (st_peers st) = Some peers /\
    (forall k, In k (h_bks h) -> In k peers) /\
    ((Z.of_N (cc_c cc) + 1) mod 4294967296 <= Z.of_nat (length (dedup (h_bks h))) mod 4294967296)%Z /\
    slots_signed h (Z.to_nat (hs_vbft_m (Z.of_nat (length peers)))).
Proof.
  intros Hh H. destruct (verify_header_ok _ _ _ Hh H) as (g & hg & cc & peers & [H1 H2 H3 H4 [r' H5]]).
  apply check_quorum_ok in H5. destruct H5 as (_ & Hmem & Hd & Hv).
  exists g, hg, cc, peers. repeat (split; [assumption|]).
  apply verify_multi_ok in Hv. exact Hv.
Qed.

(** without uint32 wrap-around: at least C+1 distinct members are LISTED *)
Lemma accept_partial_listed st h r :
  h_height h <> 0%N -> verify_header st h = ROk r ->
  exists g hg cc peers,
    claimed st h = Some g /\ header_at st g = Some hg /\ cfg_of hg = Some cc /\
    lookup g (st_peers st) = Some peers /\
    ((cc_c cc + 1 < two32)%N -> (Z.of_nat (length (h_bks h)) < 4294967296)%Z ->
     exists L, NoDup L /\ (N.to_nat (cc_c cc) + 1 <= length L)%nat /\
       forall k, In k L -> In k (h_bks h) /\ In k peers).
Proof.
  intros Hh H. destruct (accept_partial_slots _ _ _ Hh H) as (g & hg & cc & peers & H1 & H2 & H3 & H4 & H5 & H6 & _).
  exists g, hg, cc, peers. repeat (split; [assumption|]).
  unfold two32. intros Hc Hl. exists (dedup (h_bks h)). split; [apply dedup_NoDup|].
  pose proof (dedup_length_le (h_bks h)). split; [lia|].
  intros k Hk. apply dedup_In in Hk. split; auto. Show.
Qed.

(** the generated threshold asks for at least one signature as soon as there is a peer *)
Lemma hs_vbft_m_pos n : (1 <= n)%Z -> (1 <= hs_vbft_m n)%Z.
Proof. unfold hs_vbft_m; lia. Qed.
Lemma hs_vbft_m_le n : (0 <= n)%Z -> (0 <= hs_vbft_m n <= n)%Z.
Proof. unfold hs_vbft_m; lia. Qed.

Lemma accept_partial_one_member st h r :
  h_height h <> 0%N -> verify_header st h = ROk r ->
  exists g hg cc peers,
    claimed st h = Some g /\ header_at st g = Some hg /\ cfg_of hg = Some cc /\
    lookup g (st_peers st) = Some peers /\
    (peers <> [] -> exists k, In k peers /\ signed_by h k).
Proof.
  intros Hh H. destruct (accept_partial_slots _ _ _ Hh H) as (g & hg & cc & peers & H1 & H2 & H3 & H4 & H5 & _ & H7).
  exists g, hg, cc, peers. repeat (split; [assumption|]).
  intros Hne. destruct H7 as (jks & Hl & _ & Hin & Hf).
  assert (1 <= hs_vbft_m (Z.of_nat (length peers)))%Z.
  { apply hs_vbft_m_pos. destruct peers; [contradiction|simpl; lia]. }
  destruct jks as [|[j k] jks]; [simpl in Hl; lia|].
  exists k. split.
  - apply H5. eapply nth_error_In. apply (Hin j k). left; auto.
  - destruct (Forall2_In_l _ _ _ (j, k) Hf) as [s [Hs1 Hs2]]; [left; auto|].
    simpl in Hs2; subst s. apply firstn_In in Hs1. exact Hs1.
Qed.

(** * The governing height *)
Lemma fold_max_ge l : forall a, (a <= fold_left N.max l a)%N.
Proof. induction l as [|x l IH]; simpl; intros a; [lia|]. specialize (IH (N.max a x)). lia. Qed.
Lemma fold_max_all l : forall a x, In x l -> (x <= fold_left N.max l a)%N.
Proof.
  induction l as [|y l IH]; simpl; intros a x; [tauto|].
  intros [->|Hi]; [pose proof (fold_max_ge l (N.max a x)); lia|auto].
Qed.
Lemma fold_max_in l : forall a, fold_left N.max l a = a \/ In (fold_left N.max l a) l.
Proof.
  induction l as [|y l IH]; simpl; intros a; [auto|].
  destruct (IH (N.max a y)) as [H|H]; [|auto].
  rewrite H. destruct (N.max_spec a y) as [[_ ->]|[_ ->]]; auto.
Qed.

Lemma gov_height_spec st H g :
  gov_height st H = Some g ->
  (g < H)%N /\ has_cfg st g = true /\
  forall j, In j (map fst (st_index st)) -> (g < j < H)%N -> has_cfg st j = false.
Proof.
  unfold gov_height. destruct (cfg_heights st H) as [|j0 r] eqn:E; [discriminate|].
  intros Hg; inversion Hg; subst g; clear Hg.
  assert (Hin : In (fold_left N.max r j0) (cfg_heights st H)).
  { rewrite E. destruct (fold_max_in r j0) as [->|Hi]; [left; auto|right; auto]. }
  unfold cfg_heights in Hin. apply filter_In in Hin. destruct Hin as [_ Hc].
  apply andb_true_iff in Hc. destruct Hc as [Hlt Hc]. apply N.ltb_lt in Hlt.
  split; [auto|]. split; [auto|].
  intros j Hj [Hlo Hhi]. destruct (has_cfg st j) eqn:Ej; [|reflexivity].
  assert (Hj' : In j (cfg_heights st H)).
  { unfold cfg_heights. apply filter_In. split; auto. rewrite Ej, andb_true_r. apply N.ltb_lt; auto. }
  rewrite E in Hj'. destruct Hj' as [->|Hj'].
  - pose proof (fold_max_ge r j). lia.
  - pose proof (fold_max_all r j0 j Hj'). lia.
Qed.

(** * PARTIAL: outside the finding classes the full conclusion holds *)
Lemma opt_eqb_eq a b : opt_eqb a b = true -> a = b.
Proof. destruct a, b; simpl; try discriminate; auto. intros H; apply N.eqb_eq in H; subst; auto. Qed.

Lemma keyset_sub a b k : keyset_eqb a b = true -> In k a -> In k b.
Proof.
  unfold keyset_eqb. rewrite andb_true_iff. intros [H _] Hk.
  rewrite forallb_forall in H. apply memk_In. auto.
Qed.

Lemma lookup_In {A} k (l : list (N * A)) v : lookup k l = Some v -> In (k, v) l.
Proof.
  induction l as [|[k' v'] l IH]; simpl; [discriminate|].
  destruct (k' =? k)%N eqn:E; [apply N.eqb_eq in E; subst; intros H; inversion H; auto|auto].
Qed.

Lemma accept_partial st h r :
  store_wf st -> h_height h <> 0%N -> verify_header st h = ROk r ->
  in_finding_class st h = false -> governed_quorum st h.
Proof.
  intros Hwf Hh H Hfc.
  destruct (verify_header_ok _ _ _ Hh H) as (g & hg & cc & peers & [H1 H2 H3 H4 [r' H5]]).
  unfold in_finding_class in Hfc. apply orb_false_iff in Hfc. destruct Hfc as [Hfc Hdup].
  apply orb_false_iff in Hfc. destruct Hfc as [Hstale Hthr].
  unfold fc_stale in Hstale. rewrite H1 in Hstale. apply negb_false_iff in Hstale. apply opt_eqb_eq in Hstale.
  unfold fc_threshold in Hthr. rewrite H1, H4, H2, H3 in Hthr. unfold threshold_short in Hthr.
  apply Z.ltb_ge in Hthr.
  unfold fc_dup in Hdup. apply negb_false_iff in Hdup. apply Nat.eqb_eq in Hdup. apply dedup_full_NoDup in Hdup.
  apply check_quorum_ok in H5. destruct H5 as (_ & Hmem & _ & Hv).
  apply verify_multi_ok in Hv. destruct Hv as (jks & Hl & Hnd & Hin & Hf).
  exists g, hg, cc. repeat (split; [assumption|]).
  exists (map snd jks). split; [apply (matched_keys_NoDup (h_bks h)); auto|].
  split; [rewrite map_length; lia|].
  intros k Hk. apply in_map_iff in Hk. destruct Hk as [[j k'] [Hs Hi]]. simpl in Hs; subst k'.
  split.
  - assert (Hp : In k peers) by (apply Hmem; eapply nth_error_In; apply (Hin _ _ Hi)).
    unfold store_wf, store_wfb in Hwf. rewrite forallb_forall in Hwf.
    specialize (Hwf _ (lookup_In _ _ _ H4)). unfold entry_ok in Hwf. simpl in Hwf.
    rewrite H2, H3 in Hwf. eapply keyset_sub; eauto.
  - destruct (Forall2_In_l _ _ _ _ Hf Hi) as [s [Hs1 Hs2]]. simpl in Hs2; subst s.
    apply firstn_In in Hs1. exact Hs1.
Qed.
